import VibeProof.Model.Dml
namespace VibeProof.Dml
open VibeProof

theorem ksInsert_mem (k k' : Key) (s : KeySet) : k' ∈ ksInsert k s ↔ k' = k ∨ k' ∈ s := by
  unfold ksInsert; split <;> simp_all <;> grind

theorem ksRemove_mem (k k' : Key) (s : KeySet) : k' ∈ ksRemove k s ↔ k' ∈ s ∧ k' ≠ k := by
  unfold ksRemove; simp

def ukeys (u : UIdx) (rows : List Row) : List Key := (rows.map (keyOf u.cols)).filter u.relevant

theorem ukeys_append (u : UIdx) (a b : List Row) : ukeys u (a ++ b) = ukeys u a ++ ukeys u b := by
  simp [ukeys]

theorem ukeys_single (u : UIdx) (x : Row) :
    ukeys u [x] = if u.relevant (keyOf u.cols x) then [keyOf u.cols x] else [] := by
  simp [ukeys, List.filter_cons]

theorem ukeys_perm_middle (u : UIdx) (pre post : List Row) (x : Row) :
    (ukeys u (pre ++ x :: post)).Perm (ukeys u [x] ++ ukeys u (pre ++ post)) := by
  have : pre ++ x :: post = pre ++ ([x] ++ post) := by simp
  rw [this, ukeys_append, ukeys_append, ukeys_append]
  rw [← List.append_assoc, ← List.append_assoc]
  exact List.Perm.append_right _ List.perm_append_comm

/-- the index stores exactly the relevant keys of the rows, and those are pairwise distinct -/
structure IdxInv (u : UIdx) (rows : List Row) : Prop where
  mirror : ∀ k, k ∈ u.keys ↔ k ∈ ukeys u rows
  unique : (ukeys u rows).Nodup

/-- same with one row singled out -/
theorem idxInv_split (u : UIdx) (pre post : List Row) (x : Row) :
    IdxInv u (pre ++ x :: post) ↔
      ((∀ k, k ∈ u.keys ↔ (u.relevant (keyOf u.cols x) = true ∧ k = keyOf u.cols x) ∨ k ∈ ukeys u (pre ++ post)) ∧
       (ukeys u (pre ++ post)).Nodup ∧
       (u.relevant (keyOf u.cols x) = true → keyOf u.cols x ∉ ukeys u (pre ++ post))) := by
  have hp := ukeys_perm_middle u pre post x
  constructor
  · intro ⟨hm, hu⟩
    have hu' := hp.nodup_iff.mp hu
    rw [ukeys_single] at hu' 
    refine ⟨?_, ?_, ?_⟩
    · intro k
      rw [hm k, hp.mem_iff, ukeys_single]
      by_cases h : u.relevant (keyOf u.cols x) = true <;> simp [h]
    · by_cases h : u.relevant (keyOf u.cols x) = true <;> simp [h] at hu' <;> grind
    · intro h; simp [h] at hu'; exact hu'.1
  · intro ⟨hm, hn, hx⟩
    constructor
    · intro k
      rw [hm k, hp.mem_iff, ukeys_single]
      by_cases h : u.relevant (keyOf u.cols x) = true <;> simp [h]
    · rw [hp.nodup_iff, ukeys_single]
      by_cases h : u.relevant (keyOf u.cols x) = true <;> simp [h, hn]
      exact hx h

theorem ukeys_congr (u v : UIdx) (hc : v.cols = u.cols) (hs : v.skipNull = u.skipNull) (rows : List Row) :
    ukeys v rows = ukeys u rows := by
  have : v.relevant = u.relevant := by funext k; simp [UIdx.relevant, hs]
  simp [ukeys, hc, this]

theorem ukeys_updateRow (u : UIdx) (old new : Row) (rows : List Row) :
    ukeys (u.updateRow old new) rows = ukeys u rows :=
  ukeys_congr u _ rfl rfl rows

/-- writing one row: fine if its new key is its old key, is skipped, or is not in the index -/
theorem updateRow_inv (u : UIdx) (pre post : List Row) (old new : Row)
    (h : IdxInv u (pre ++ old :: post))
    (hk : keyOf u.cols new = keyOf u.cols old ∨ u.relevant (keyOf u.cols new) = false ∨ keyOf u.cols new ∉ u.keys) :
    IdxInv (u.updateRow old new) (pre ++ new :: post) := by
  rw [idxInv_split] at h ⊢
  obtain ⟨hm, hn, hx⟩ := h
  have hrel : ∀ k, (u.updateRow old new).relevant k = u.relevant k := by
    intro k; simp [UIdx.updateRow, UIdx.relevant]
  have hcols : (u.updateRow old new).cols = u.cols := by simp [UIdx.updateRow]
  rw [ukeys_updateRow, hcols, hrel]
  refine ⟨?_, hn, ?_⟩
  · intro k
    simp only [UIdx.updateRow]
    by_cases hon : keyOf u.cols old = keyOf u.cols new
    · simp [hon]
      by_cases hr : u.relevant (keyOf u.cols new) = true
      · simp [hr, ksInsert_mem]; rw [hm k]; simp [hon, hr]
      · simp [hr]; rw [hm k]; simp [hon, hr]
    · by_cases hro : u.relevant (keyOf u.cols old) = true <;>
      by_cases hr : u.relevant (keyOf u.cols new) = true <;>
      simp [hon, hro, hr, ksInsert_mem, ksRemove_mem, hm k] <;> grind
  · intro hr
    rcases hk with hk | hk | hk
    · rw [hk]; apply hx; rw [← hk]; exact hr
    · simp [hr] at hk
    · intro hmem; apply hk; rw [hm]; right; exact hmem

/-! ### one-index lemmas: insert, rebuild -/

theorem conflicts_false_iff (u : UIdx) (r : Row) :
    u.conflicts r = false ↔ (u.relevant (keyOf u.cols r) = true → keyOf u.cols r ∉ u.keys) := by
  simp [UIdx.conflicts]

theorem insertRow_cols (u : UIdx) (r : Row) : (u.insertRow r).cols = u.cols := by
  unfold UIdx.insertRow; dsimp only; split <;> rfl
theorem insertRow_skip (u : UIdx) (r : Row) : (u.insertRow r).skipNull = u.skipNull := by
  unfold UIdx.insertRow; dsimp only; split <;> rfl

theorem insertRow_inv (u : UIdx) (rows : List Row) (r : Row) (h : IdxInv u rows)
    (hc : u.conflicts r = false) : IdxInv (u.insertRow r) (rows ++ [r]) := by
  have h0 : IdxInv u (rows ++ []) := by simpa using h
  have hs := (idxInv_split (u.insertRow r) rows [] r)
  rw [hs]
  have hcols := insertRow_cols u r
  have hskip := insertRow_skip u r
  have hrel : ∀ k, (u.insertRow r).relevant k = u.relevant k := by intro k; simp [UIdx.relevant, hskip]
  rw [ukeys_congr u _ hcols hskip, hcols, hrel]
  simp only [List.append_nil]
  rw [conflicts_false_iff] at hc
  refine ⟨?_, h.unique, ?_⟩
  · intro k
    unfold UIdx.insertRow
    by_cases hr : u.relevant (keyOf u.cols r) = true
    · simp [hr, ksInsert_mem, h.mirror k]
    · simp [hr, h.mirror k]
  · intro hr hmem; exact hc hr ((h.mirror _).mpr hmem)

theorem foldl_insertRow_spec (rows : List Row) : ∀ (acc : UIdx),
    (rows.foldl UIdx.insertRow acc).cols = acc.cols ∧ (rows.foldl UIdx.insertRow acc).skipNull = acc.skipNull ∧
    ∀ k, k ∈ (rows.foldl UIdx.insertRow acc).keys ↔ k ∈ acc.keys ∨ k ∈ ukeys acc rows := by
  induction rows with
  | nil => intro acc; simp [ukeys]
  | cons r rs ih =>
    intro acc
    have hcols := insertRow_cols acc r
    have hskip := insertRow_skip acc r
    obtain ⟨h1, h2, h3⟩ := ih (acc.insertRow r)
    refine ⟨by simp [h1, hcols], by simp [h2, hskip], ?_⟩
    intro k
    simp only [List.foldl_cons]
    rw [h3 k, ukeys_congr acc _ hcols hskip]
    have : ukeys acc (r :: rs) = ukeys acc [r] ++ ukeys acc rs := by
      rw [← ukeys_append]; rfl
    rw [this, ukeys_single]
    unfold UIdx.insertRow
    by_cases hr : acc.relevant (keyOf acc.cols r) = true <;> simp [hr, ksInsert_mem] <;> grind

theorem rebuild_inv (u : UIdx) (rows : List Row) (hn : (ukeys u rows).Nodup) :
    IdxInv (u.rebuild rows) rows := by
  obtain ⟨h1, h2, h3⟩ := foldl_insertRow_spec rows { u with keys := [] }
  have hc : ukeys (u.rebuild rows) rows = ukeys u rows := ukeys_congr u _ h1 h2 rows
  constructor
  · intro k
    rw [hc]
    have := h3 k
    simp only [List.not_mem_nil, false_or] at this
    rw [UIdx.rebuild, this, ukeys_congr u { u with keys := [] } rfl rfl rows]
  · rw [hc]; exact hn

theorem rebuild_cols (u : UIdx) (rows : List Row) : (u.rebuild rows).cols = u.cols ∧ (u.rebuild rows).skipNull = u.skipNull := by
  obtain ⟨h1, h2, _⟩ := foldl_insertRow_spec rows { u with keys := [] }
  exact ⟨h1, h2⟩

theorem ukeys_filter_sublist (u : UIdx) (rows : List Row) (p : Row → Bool) :
    (ukeys u (rows.filter p)).Sublist (ukeys u rows) := by
  unfold ukeys
  exact ((List.filter_sublist).map _).filter _

theorem split_at {α : Type} : ∀ (l : List α) (i : Nat) (x : α), l[i]? = some x →
    ∃ pre post, l = pre ++ x :: post ∧ ∀ y, l.set i y = pre ++ y :: post := by
  intro l
  induction l with
  | nil => intro i x h; simp at h
  | cons a as ih =>
    intro i x h
    cases i with
    | zero => simp at h; exact ⟨[], as, by simp [h], by intro y; simp⟩
    | succ j =>
      simp at h
      obtain ⟨pre, post, h1, h2⟩ := ih j x h
      exact ⟨a :: pre, post, by simp [h1], by intro y; simp [h2 y]⟩

/-! ### table invariant and the storage primitives -/

/-- C10 invariant: every hash index stores exactly the (non-NULL for UNIQUE) keys of the rows
and those keys are pairwise distinct (PRIMARY KEY unique ∧ UNIQUE on non-NULL keys ∧ indexes
mirror rows); NOT NULL holds; no CHECK is FALSE on any row; a declared PRIMARY KEY has its
index. -/
structure Inv (t : Table) : Prop where
  idx : ∀ u ∈ t.idxs, IdxInv u t.rows
  notNull : ∀ r ∈ t.rows, t.checkNotNull r = true
  checks : ∀ r ∈ t.rows, Table.checkChecks t.checks r = .ok ()
  pkIdx : ∀ cols, t.pk = some cols → ∃ u ∈ t.idxs, u.cols = cols ∧ u.skipNull = false

theorem pushRow_inv (thr : Nat) (t : Table) (r : Row) (h : Inv t)
    (hc : ∀ u ∈ t.idxs, u.conflicts r = false) (hn : t.checkNotNull r = true)
    (hk : Table.checkChecks t.checks r = .ok ()) : Inv (t.pushRow thr r) := by
  constructor
  · intro u' hu'
    simp only [Table.pushRow, List.mem_map] at hu'
    obtain ⟨u, hu, rfl⟩ := hu'
    exact insertRow_inv u t.rows r (h.idx u hu) (hc u hu)
  · intro x hx
    simp only [Table.pushRow, List.mem_append, List.mem_singleton] at hx
    rcases hx with hx | rfl
    · exact h.notNull x hx
    · exact hn
  · intro x hx
    simp only [Table.pushRow, List.mem_append, List.mem_singleton] at hx
    rcases hx with hx | rfl
    · exact h.checks x hx
    · exact hk
  · intro cols hp
    obtain ⟨u, hu, h1, h2⟩ := h.pkIdx cols hp
    refine ⟨u.insertRow r, ?_, by rw [insertRow_cols]; exact h1, by rw [insertRow_skip]; exact h2⟩
    simp only [Table.pushRow, List.mem_map]; exact ⟨u, hu, rfl⟩

theorem deleteWhere_inv (t : Table) (p : Row → Bool) (h : Inv t) : Inv (t.deleteWhere p) := by
  constructor
  · intro u' hu'
    simp only [Table.deleteWhere, List.mem_map] at hu'
    obtain ⟨u, hu, rfl⟩ := hu'
    exact rebuild_inv u _ ((h.idx u hu).unique.sublist (ukeys_filter_sublist u t.rows _))
  · intro x hx
    simp only [Table.deleteWhere, List.mem_filter] at hx
    exact h.notNull x hx.1
  · intro x hx
    simp only [Table.deleteWhere, List.mem_filter] at hx
    exact h.checks x hx.1
  · intro cols hp
    obtain ⟨u, hu, h1, h2⟩ := h.pkIdx cols hp
    refine ⟨u.rebuild (t.rows.filter (fun r => !(p r))), ?_, by rw [(rebuild_cols u _).1]; exact h1, by rw [(rebuild_cols u _).2]; exact h2⟩
    simp only [Table.deleteWhere, List.mem_map]; exact ⟨u, hu, rfl⟩

theorem clear_inv (t : Table) (h : Inv t) : Inv t.clear := by
  constructor
  · intro u' hu'
    simp only [Table.clear, List.mem_map] at hu'
    obtain ⟨u, _, rfl⟩ := hu'
    have hr : t.clear.rows = [] := rfl
    constructor <;> simp [ukeys, hr]
  · intro x hx; simp [Table.clear] at hx
  · intro x hx; simp [Table.clear] at hx
  · intro cols hp
    obtain ⟨u, hu, h1, h2⟩ := h.pkIdx cols hp
    refine ⟨{ u with keys := [] }, ?_, h1, h2⟩
    simp only [Table.clear, List.mem_map]; exact ⟨u, hu, rfl⟩

/-- the precondition under which writing `new` over `old` keeps an index sound -/
def KeyOk (u : UIdx) (old new : Row) : Prop :=
  keyOf u.cols new = keyOf u.cols old ∨ u.relevant (keyOf u.cols new) = false ∨ keyOf u.cols new ∉ u.keys

theorem updateAt_inv (t : Table) (i : Nat) (old new : Row) (h : Inv t) (hi : t.rows[i]? = some old)
    (hk : ∀ u ∈ t.idxs, KeyOk u old new) (hn : t.checkNotNull new = true)
    (hc : Table.checkChecks t.checks new = .ok ()) : Inv (t.updateAt i new) := by
  obtain ⟨pre, post, hsplit, hset⟩ := split_at t.rows i old hi
  have hrows : (t.updateAt i new).rows = pre ++ new :: post := by
    simp [Table.updateAt, hi, hset]
  have hidx : (t.updateAt i new).idxs = t.idxs.map (·.updateRow old new) := by
    simp [Table.updateAt, hi]
  have hnn : (t.updateAt i new).notNull = t.notNull := by simp [Table.updateAt, hi]
  have hch : (t.updateAt i new).checks = t.checks := by simp [Table.updateAt, hi]
  have hpk : (t.updateAt i new).pk = t.pk := by simp [Table.updateAt, hi]
  have hmem : ∀ x, x ∈ pre ++ new :: post → x = new ∨ x ∈ t.rows := by
    intro x hx; rw [hsplit]; simp at hx ⊢; grind
  constructor
  · intro u' hu'
    rw [hidx, List.mem_map] at hu'
    obtain ⟨u, hu, rfl⟩ := hu'
    rw [hrows]
    have := h.idx u hu
    rw [hsplit] at this
    exact updateRow_inv u pre post old new this (hk u hu)
  · intro x hx
    rw [hrows] at hx
    unfold Table.checkNotNull; rw [hnn]
    rcases hmem x hx with rfl | hx
    · exact hn
    · exact h.notNull x hx
  · intro x hx
    rw [hrows] at hx
    rw [hch]
    rcases hmem x hx with rfl | hx
    · exact hc
    · exact h.checks x hx
  · intro cols hp
    rw [hpk] at hp
    obtain ⟨u, hu, h1, h2⟩ := h.pkIdx cols hp
    refine ⟨u.updateRow old new, ?_, h1, h2⟩
    rw [hidx, List.mem_map]; exact ⟨u, hu, rfl⟩

/-! ### statements -/

theorem mem_ukeys (u : UIdx) (rows : List Row) (k : Key) :
    k ∈ ukeys u rows ↔ u.relevant k = true ∧ ∃ x ∈ rows, keyOf u.cols x = k := by
  simp [ukeys]; grind

theorem conflicts_iff_rows (u : UIdx) (rows : List Row) (r : Row) (h : IdxInv u rows) :
    u.conflicts r = true ↔ u.relevant (keyOf u.cols r) = true ∧ ∃ x ∈ rows, keyOf u.cols x = keyOf u.cols r := by
  simp only [UIdx.conflicts, Bool.and_eq_true, decide_eq_true_eq]
  rw [h.mirror, mem_ukeys]; grind

theorem checkChecks_append (a b : List Expr) (r : Row) :
    Table.checkChecks (a ++ b) r = .ok () ↔ Table.checkChecks a r = .ok () ∧ Table.checkChecks b r = .ok () := by
  induction a with
  | nil => simp [Table.checkChecks]
  | cons c cs ih =>
    simp only [List.cons_append, Table.checkChecks]
    split
    · simp
    · split <;> simp_all

theorem validateInsertRow_ok (t : Table) (skip : Bool) (batch : List Row) (r : Row)
    (h : t.validateInsertRow skip batch r = .ok ()) :
    t.checkNotNull r = true ∧ Table.checkChecks t.checks r = .ok () ∧
    (skip = false → ∀ u ∈ t.idxs, u.dupInBatch batch r = false ∧ u.conflicts r = false) := by
  unfold Table.validateInsertRow at h
  split at h
  · simp at h
  · split at h
    · simp at h
    · split at h
      · simp at h
      · rename_i h1 h2 h3
        refine ⟨by simpa using h2, h, ?_⟩
        intro hs u hu
        simp [hs] at h3
        exact h3 u hu

theorem validateInsertRows_all (t : Table) (skip : Bool) : ∀ (rows batch : List Row),
    t.validateInsertRows skip batch rows = .ok () →
    ∀ r ∈ rows, t.checkNotNull r = true ∧ Table.checkChecks t.checks r = .ok () := by
  intro rows
  induction rows with
  | nil => intro _ _ r hr; simp at hr
  | cons x xs ih =>
    intro batch h r hr
    unfold Table.validateInsertRows at h
    split at h
    · simp at h
    · rename_i hv
      have := validateInsertRow_ok t skip batch x hv
      rcases List.mem_cons.mp hr with rfl | hr
      · exact ⟨this.1, this.2.1⟩
      · exact ih _ h r hr

theorem plain_fold (thr : Nat) : ∀ (rows batch : List Row) (t0 tb : Table), Inv t0 → Inv tb →
    tb.rows = t0.rows ++ batch →
    (∀ ub ∈ tb.idxs, ∃ u0 ∈ t0.idxs, u0.cols = ub.cols ∧ u0.skipNull = ub.skipNull) →
    tb.notNull = t0.notNull → tb.checks = t0.checks →
    t0.validateInsertRows false batch rows = .ok () → Inv (rows.foldl (Table.pushRow thr) tb) := by
  intro rows
  induction rows with
  | nil => intro _ _ _ _ hb _ _ _ _ _; simpa using hb
  | cons r rs ih =>
    intro batch t0 tb h0 hb hrows hcor hnn hch hv
    unfold Table.validateInsertRows at hv
    split at hv
    · simp at hv
    · rename_i hvr
      obtain ⟨v1, v2, v3⟩ := validateInsertRow_ok t0 false batch r hvr
      have v3 := v3 rfl
      have hpush : Inv (tb.pushRow thr r) := by
        apply pushRow_inv thr tb r hb
        · intro ub hub
          obtain ⟨u0, hu0, hc0, hs0⟩ := hcor ub hub
          cases hcf : ub.conflicts r with
          | false => rfl
          | true =>
            exfalso
            rw [conflicts_iff_rows ub tb.rows r (hb.idx ub hub)] at hcf
            obtain ⟨hrel, x, hx, hkx⟩ := hcf
            have hrel0 : u0.relevant (keyOf u0.cols r) = true := by
              simp only [UIdx.relevant, hs0, hc0] at hrel ⊢; exact hrel
            rw [hrows, List.mem_append] at hx
            rcases hx with hx | hx
            · have : u0.conflicts r = true := by
                rw [conflicts_iff_rows u0 t0.rows r (h0.idx u0 hu0)]
                exact ⟨hrel0, x, hx, by rw [hc0]; exact hkx⟩
              rw [(v3 u0 hu0).2] at this; exact absurd this (by simp)
            · have : u0.dupInBatch batch r = true := by
                simp only [UIdx.dupInBatch, Bool.and_eq_true, List.any_eq_true, beq_iff_eq]
                exact ⟨hrel0, x, hx, by rw [hc0]; exact hkx⟩
              rw [(v3 u0 hu0).1] at this; exact absurd this (by simp)
        · unfold Table.checkNotNull; rw [hnn]; exact v1
        · rw [hch]; exact v2
      simp only [List.foldl_cons]
      apply ih (batch ++ [r]) t0 (tb.pushRow thr r) h0 hpush
      · simp [Table.pushRow, hrows]
      · intro ub hub
        simp only [Table.pushRow, List.mem_map] at hub
        obtain ⟨u, hu, rfl⟩ := hub
        obtain ⟨u0, hu0, hc0, hs0⟩ := hcor u hu
        exact ⟨u0, hu0, by rw [insertRow_cols]; exact hc0, by rw [insertRow_skip]; exact hs0⟩
      · simpa [Table.pushRow] using hnn
      · simpa [Table.pushRow] using hch
      · exact hv

theorem insert_plain_inv (thr : Nat) (t : Table) (rows : List Row) (h : Inv t)
    (hv : t.validateInsertRows false [] rows = .ok ()) : Inv (rows.foldl (Table.pushRow thr) t) :=
  plain_fold thr rows [] t t h h (by simp) (fun ub hub => ⟨ub, hub, rfl, rfl⟩) rfl rfl hv

/-! #### REPLACE -/

theorem replaceConflicts_inv (t : Table) (r : Row) (h : Inv t) :
    Inv (t.replaceConflicts r) ∧ (∀ u ∈ (t.replaceConflicts r).idxs, u.conflicts r = false) ∧
    (t.replaceConflicts r).notNull = t.notNull ∧ (t.replaceConflicts r).checks = t.checks := by
  have hi : Inv (t.replaceConflicts r) := deleteWhere_inv t _ h
  refine ⟨hi, ?_, rfl, rfl⟩
  intro u' hu'
  cases hcf : u'.conflicts r with
  | false => rfl
  | true =>
    exfalso
    rw [conflicts_iff_rows u' _ r (hi.idx u' hu')] at hcf
    obtain ⟨hrel, x, hx, hkx⟩ := hcf
    simp only [Table.replaceConflicts, Table.deleteWhere, List.mem_map] at hu'
    obtain ⟨u, hu, rfl⟩ := hu'
    have hcs := fun rows => rebuild_cols u rows
    rw [UIdx.relevant, (hcs _).1, (hcs _).2] at hrel
    rw [(hcs _).1] at hkx
    simp only [Table.replaceConflicts, Table.deleteWhere, List.mem_filter, Bool.not_eq_true',
      List.any_eq_false, Bool.and_eq_true, beq_iff_eq, not_and] at hx
    exact hx.2 u hu hrel hkx

theorem replace_fold_inv (thr : Nat) : ∀ (rows : List Row) (t : Table) (nn : List Nat) (cs : List Expr),
    Inv t → t.notNull = nn → t.checks = cs →
    (∀ r ∈ rows, (nn.all (fun i => !(r.getD i Value.null).isNull)) = true ∧ Table.checkChecks cs r = .ok ()) →
    Inv (rows.foldl (fun t r => (t.replaceConflicts r).pushRow thr r) t) := by
  intro rows
  induction rows with
  | nil => intro t _ _ h _ _ _; simpa using h
  | cons r rs ih =>
    intro t nn cs h hn hc hall
    simp only [List.foldl_cons]
    obtain ⟨h1, h2, h3, h4⟩ := replaceConflicts_inv t r h
    have hr := hall r (List.mem_cons_self)
    apply ih _ nn cs
    · apply pushRow_inv thr _ r h1 h2
      · unfold Table.checkNotNull; rw [h3, hn]; exact hr.1
      · rw [h4, hc]; exact hr.2
    · simp [Table.pushRow, h3, hn]
    · simp [Table.pushRow, h4, hc]
    · intro x hx; exact hall x (List.mem_cons_of_mem _ hx)

/-! #### ON DUPLICATE KEY UPDATE -/

theorem findConflict_none (t : Table) (r : Row) (h : Inv t) (hf : t.findConflict r = none) :
    ∀ u ∈ t.idxs, u.conflicts r = false := by
  intro u hu
  cases hcf : u.conflicts r with
  | false => rfl
  | true =>
    exfalso
    rw [conflicts_iff_rows u _ r (h.idx u hu)] at hcf
    obtain ⟨hrel, x, hx, hkx⟩ := hcf
    unfold Table.findConflict at hf
    rw [List.findSome?_eq_none_iff] at hf
    have := hf u hu
    simp only [hrel, if_true] at this
    split at this
    · simp at this
    · rename_i hlt
      apply hlt
      apply List.findIdx_lt_length_of_exists
      exact ⟨x, hx, by simp [hkx]⟩

theorem validateUpdateRow_ok (t : Table) (old new : Row) (h : t.validateUpdateRow old new = .ok ()) :
    t.checkNotNull new = true ∧ Table.checkChecks t.checks new = .ok () ∧ ∀ u ∈ t.idxs, KeyOk u old new := by
  unfold Table.validateUpdateRow at h
  split at h
  · simp at h
  · split at h
    · simp at h
    · split at h
      · simp at h
      · rename_i h1 h2 h3
        refine ⟨by simpa using h2, h, ?_⟩
        intro u hu
        simp only [List.any_eq_true, Bool.and_eq_true, bne_iff_ne, ne_eq, not_exists, not_and, Decidable.not_not] at h3
        unfold KeyOk
        by_cases hk : keyOf u.cols new = keyOf u.cols old
        · exact Or.inl hk
        · right
          by_cases hr : u.relevant (keyOf u.cols new) = true
          · right
            intro hmem
            have : u.conflicts new = true := by simp [UIdx.conflicts, hr, hmem]
            exact hk (h3 u hu this)
          · left; simpa using hr

theorem onDupLoop_inv (thr : Nat) (f : Row → Row → Except DErr Row) : ∀ (rows : List Row) (t : Table) (n : Nat)
    (nn : List Nat) (cs : List Expr), Inv t → t.notNull = nn → t.checks = cs →
    (∀ r ∈ rows, (nn.all (fun i => !(r.getD i Value.null).isNull)) = true ∧ Table.checkChecks cs r = .ok ()) →
    Inv (Table.onDupLoop thr f t rows n).1 := by
  intro rows
  induction rows with
  | nil => intro t n _ _ h _ _ _; simpa [Table.onDupLoop] using h
  | cons r rs ih =>
    intro t n nn cs h hn hc hall
    have hr := hall r (List.mem_cons_self)
    have hrest : ∀ x ∈ rs, _ := fun x hx => hall x (List.mem_cons_of_mem _ hx)
    unfold Table.onDupLoop
    split
    · rename_i hf
      apply ih _ _ nn cs _ _ _ hrest
      · apply pushRow_inv thr t r h (findConflict_none t r h hf)
        · unfold Table.checkNotNull; rw [hn]; exact hr.1
        · rw [hc]; exact hr.2
      · simp [Table.pushRow, hn]
      · simp [Table.pushRow, hc]
    · rename_i i hf
      split
      · exact h
      · rename_i old hold
        split
        · exact h
        · rename_i new hnew
          split
          · exact h
          · rename_i hv
            obtain ⟨v1, v2, v3⟩ := validateUpdateRow_ok t old new hv
            apply ih _ _ nn cs _ _ _ hrest
            · exact updateAt_inv t i old new h hold v3 v1 v2
            · simp [Table.updateAt, hold, hn]
            · simp [Table.updateAt, hold, hc]

/-! #### bulk transfer -/

theorem bulkLoop_inv (thr : Nat) : ∀ (rows batch : List Row) (t : Table) (n : Nat) (nn : List Nat) (cs : List Expr),
    Inv t → t.notNull = nn → t.checks = cs →
    (∀ r ∈ rows, (nn.all (fun i => !(r.getD i Value.null).isNull)) = true) →
    Inv (Table.bulkLoop thr false t batch rows n).1 := by
  intro rows
  induction rows with
  | nil => intro _ t n _ _ h _ _ _; simpa [Table.bulkLoop] using h
  | cons r rs ih =>
    intro batch t n nn cs h hn hc hall
    unfold Table.bulkLoop
    simp only []
    split
    · exact h
    · rename_i hdup
      split
      · exact h
      · rename_i hk
        apply ih _ _ _ nn cs
        · apply pushRow_inv thr t r h
          · intro u hu
            simp only [Bool.false_and, Bool.not_false, Bool.true_and, List.any_eq_true, Bool.or_eq_true,
              not_exists, not_and, not_or] at hdup
            have := (hdup u hu).2
            cases hs : u.skipNull <;> simp [hs] at this <;> simpa using this
          · unfold Table.checkNotNull; rw [hn]; exact hall r (List.mem_cons_self)
          · exact hk
        · simp [Table.pushRow, hn]
        · simp [Table.pushRow, hc]
        · intro x hx; exact hall x (List.mem_cons_of_mem _ hx)

/-! #### UPDATE -/

theorem updateRow_keys_sub (u : UIdx) (old new : Row) (k : Key) (h : k ∈ (u.updateRow old new).keys) :
    k ∈ u.keys ∨ k = keyOf u.cols new := by
  simp only [UIdx.updateRow] at h
  split at h <;> split at h <;> simp_all [ksInsert_mem, ksRemove_mem] <;> grind

/-- new rows still to be written are pairwise distinct on every index (relevant keys) -/
def Distinct (t : Table) (a b : Row) : Prop :=
  ∀ u ∈ t.idxs, u.relevant (keyOf u.cols b) = true → keyOf u.cols a ≠ keyOf u.cols b

/-- what the planning phase establishes about the pending writes, relative to the current table -/
structure Pending (t : Table) (us : List (Nat × Row)) : Prop where
  inv : Inv t
  pos : (us.map Prod.fst).Nodup
  ok : ∀ p ∈ us, ∃ old, t.rows[p.1]? = some old ∧ (∀ u ∈ t.idxs, KeyOk u old p.2) ∧
        t.checkNotNull p.2 = true ∧ Table.checkChecks t.checks p.2 = .ok ()
  distinct : us.Pairwise (fun a b => Distinct t a.2 b.2)

theorem pending_step (t : Table) (i : Nat) (new : Row) (us : List (Nat × Row))
    (h : Pending t ((i, new) :: us)) : Pending (t.updateAt i new) us := by
  obtain ⟨old, hold, hko, hnn, hck⟩ := h.ok (i, new) List.mem_cons_self
  have hpos := h.pos
  simp only [List.map_cons, List.nodup_cons] at hpos
  have hdist := h.distinct
  rw [List.pairwise_cons] at hdist
  have hidx : (t.updateAt i new).idxs = t.idxs.map (·.updateRow old new) := by simp [Table.updateAt, hold]
  have hrows : (t.updateAt i new).rows = t.rows.set i new := by simp [Table.updateAt, hold]
  have hnotnull : (t.updateAt i new).notNull = t.notNull := by simp [Table.updateAt, hold]
  have hchecks : (t.updateAt i new).checks = t.checks := by simp [Table.updateAt, hold]
  constructor
  · exact updateAt_inv t i old new h.inv hold hko hnn hck
  · exact hpos.2
  · intro p hp
    obtain ⟨oldp, h1, h2, h3, h4⟩ := h.ok p (List.mem_cons_of_mem _ hp)
    have hne : i ≠ p.1 := by
      intro heq; apply hpos.1; rw [heq]; exact List.mem_map_of_mem hp
    refine ⟨oldp, ?_, ?_, ?_, ?_⟩
    · rw [hrows, List.getElem?_set_ne hne]; exact h1
    · intro u' hu'
      rw [hidx, List.mem_map] at hu'
      obtain ⟨u, hu, rfl⟩ := hu'
      have hk := h2 u hu
      unfold KeyOk at hk ⊢
      have hc : (u.updateRow old new).cols = u.cols := rfl
      have hr : ∀ k, (u.updateRow old new).relevant k = u.relevant k := fun k => rfl
      rw [hc, hr]
      rcases hk with hk | hk | hk
      · exact Or.inl hk
      · exact Or.inr (Or.inl hk)
      · by_cases hrel : u.relevant (keyOf u.cols p.2) = true
        · right; right
          intro hmem
          rcases updateRow_keys_sub u old new _ hmem with hm | hm
          · exact hk hm
          · exact (hdist.1 p hp) u hu hrel hm.symm
        · right; left; simpa using hrel
    · unfold Table.checkNotNull; rw [hnotnull]; exact h3
    · rw [hchecks]; exact h4
  · refine hdist.2.imp ?_
    intro a b hab u' hu'
    rw [hidx, List.mem_map] at hu'
    obtain ⟨u, hu, rfl⟩ := hu'
    exact hab u hu

theorem applyUpdates_inv : ∀ (us : List (Nat × Row)) (t : Table), Pending t us → Inv (t.applyUpdates us) := by
  intro us
  induction us with
  | nil => intro t h; simpa [Table.applyUpdates] using h.inv
  | cons p ps ih =>
    intro t h
    simp only [Table.applyUpdates, List.foldl_cons]
    exact ih _ (pending_step t p.1 p.2 ps h)

theorem selectRows_spec (sel : Row → Except DErr Bool) : ∀ (rows : List Row) (start : Nat) (cands : List (Nat × Row)),
    Table.selectRows sel rows start = .ok cands →
    (∀ c ∈ cands, start ≤ c.1 ∧ rows[c.1 - start]? = some c.2) ∧ (cands.map Prod.fst).Pairwise (· < ·) := by
  intro rows
  induction rows with
  | nil => intro start cands h; simp [Table.selectRows] at h; subst h; simp
  | cons r rs ih =>
    intro start cands h
    unfold Table.selectRows at h
    split at h
    · simp at h
    · rename_i b _
      split at h
      · simp at h
      · rename_i rest hrest
        obtain ⟨ih1, ih2⟩ := ih (start + 1) rest hrest
        simp only [Except.ok.injEq] at h
        have hrestmem : ∀ c ∈ rest, start ≤ c.1 ∧ (r :: rs)[c.1 - start]? = some c.2 := by
          intro c hc
          obtain ⟨h1, h2⟩ := ih1 c hc
          refine ⟨by omega, ?_⟩
          have : c.1 - start = (c.1 - (start + 1)) + 1 := by omega
          rw [this]; simpa using h2
        cases b with
        | false => simp at h; subst h; exact ⟨hrestmem, ih2⟩
        | true =>
          simp at h; subst h
          refine ⟨?_, ?_⟩
          · intro c hc
            rcases List.mem_cons.mp hc with rfl | hc
            · simp
            · exact hrestmem c hc
          · simp only [List.map_cons, List.pairwise_cons]
            refine ⟨?_, ih2⟩
            intro j hj
            obtain ⟨c, hc, rfl⟩ := List.mem_map.mp hj
            have := (ih1 c hc).1; omega

theorem planUpdates_spec (t : Table) (f : Row → Except DErr Row) : ∀ (cands : List (Nat × Row)) (batch : List Row)
    (us : List (Nat × Row)), t.planUpdates f cands batch = .ok us →
    us.map Prod.fst = cands.map Prod.fst ∧
    (∀ p ∈ us, ∃ old, (p.1, old) ∈ cands ∧ t.validateUpdateRow old p.2 = .ok () ∧ ∀ b ∈ batch, Distinct t b p.2) ∧
    us.Pairwise (fun a b => Distinct t a.2 b.2) := by
  intro cands
  induction cands with
  | nil => intro batch us h; simp [Table.planUpdates] at h; subst h; simp
  | cons c cs ih =>
    intro batch us h
    obtain ⟨i, old⟩ := c
    unfold Table.planUpdates at h
    split at h
    · simp at h
    · rename_i new hnew
      split at h
      · simp at h
      · split at h
        · simp at h
        · rename_i hv
          split at h
          · simp at h
          · rename_i hdup
            split at h
            · simp at h
            · rename_i rest hrest
              simp only [Except.ok.injEq] at h; subst h
              obtain ⟨i1, i2, i3⟩ := ih (batch ++ [new]) rest hrest
              have hdupB : ∀ b ∈ batch, Distinct t b new := by
                intro b hb u hu hrel hkeq
                simp only [List.any_eq_true, not_exists, not_and, Bool.not_eq_true] at hdup
                have := hdup u hu
                simp only [UIdx.dupInBatch, hrel, Bool.true_and, List.any_eq_false, beq_iff_eq] at this
                exact this b hb hkeq
              refine ⟨by simp [i1], ?_, ?_⟩
              · intro p hp
                rcases List.mem_cons.mp hp with rfl | hp
                · exact ⟨old, List.mem_cons_self, hv, hdupB⟩
                · obtain ⟨o, ho1, ho2, ho3⟩ := i2 p hp
                  exact ⟨o, List.mem_cons_of_mem _ ho1, ho2, fun b hb => ho3 b (List.mem_append_left _ hb)⟩
              · rw [List.pairwise_cons]
                refine ⟨?_, i3⟩
                intro p hp
                obtain ⟨_, _, _, ho3⟩ := i2 p hp
                exact ho3 new (List.mem_append_right _ (List.mem_singleton.mpr rfl))

theorem updateStmt_inv (t : Table) (sel : Row → Except DErr Bool) (f : Row → Except DErr Row) (h : Inv t) :
    Inv (t.updateStmt sel f).1 := by
  unfold Table.updateStmt
  split
  · exact h
  · rename_i cands hc
    split
    · exact h
    · rename_i us hus
      obtain ⟨s1, s2⟩ := selectRows_spec sel t.rows 0 cands hc
      obtain ⟨p1, p2, p3⟩ := planUpdates_spec t f cands [] us hus
      apply applyUpdates_inv
      constructor
      · exact h
      · rw [p1]
        exact s2.imp (fun hlt => Nat.ne_of_lt hlt)
      · intro p hp
        obtain ⟨old, ho1, ho2, _⟩ := p2 p hp
        obtain ⟨v1, v2, v3⟩ := validateUpdateRow_ok t old p.2 ho2
        have := (s1 (p.1, old) ho1).2
        simp at this
        exact ⟨old, this, v3, v1, v2⟩
      · exact p3

/-! #### ALTER TABLE ADD CONSTRAINT -/

theorem keysAdmissible_spec (cols : List Nat) (rj : Bool) : ∀ (rows : List Row) (seen : List Key),
    Table.keysAdmissible cols rj rows seen = true →
    ((rows.map (keyOf cols)).filter (fun k => !hasNull k)).Nodup ∧
    (∀ k ∈ (rows.map (keyOf cols)).filter (fun k => !hasNull k), k ∉ seen) ∧
    (rj = true → ∀ r ∈ rows, hasNull (keyOf cols r) = false) := by
  intro rows
  induction rows with
  | nil => intro seen _; simp
  | cons r rs ih =>
    intro seen h
    unfold Table.keysAdmissible at h
    simp only [] at h
    by_cases hn : hasNull (keyOf cols r) = true
    · simp only [hn, if_true, Bool.and_eq_true, Bool.not_eq_true'] at h
      obtain ⟨i1, i2, i3⟩ := ih seen h.2
      refine ⟨by simpa [List.filter_cons, hn] using i1, by simpa [List.filter_cons, hn] using i2, ?_⟩
      intro hrj; rw [hrj] at h; simp at h
    · simp only [hn, Bool.false_eq_true, if_false, Bool.and_eq_true, Bool.not_eq_true', decide_eq_false_iff_not] at h
      obtain ⟨i1, i2, i3⟩ := ih (keyOf cols r :: seen) h.2
      have hn' : hasNull (keyOf cols r) = false := by simpa using hn
      refine ⟨?_, ?_, ?_⟩
      · simp only [List.map_cons, List.filter_cons, hn', Bool.not_false, if_true, List.nodup_cons]
        refine ⟨?_, i1⟩
        intro hmem; exact (i2 _ hmem) List.mem_cons_self
      · intro k hk
        simp only [List.map_cons, List.filter_cons, hn', Bool.not_false, if_true, List.mem_cons] at hk
        rcases hk with rfl | hk
        · exact h.1
        · intro hs; exact (i2 k hk) (List.mem_cons_of_mem _ hs)
      · intro hrj x hx
        rcases List.mem_cons.mp hx with rfl | hx
        · exact hn'
        · exact i3 hrj x hx

theorem idxs_rebuild_inv (t : Table) (h : Inv t) : ∀ u ∈ t.idxs.map (·.rebuild t.rows), IdxInv u t.rows := by
  intro u' hu'
  obtain ⟨u, hu, rfl⟩ := List.mem_map.mp hu'
  exact rebuild_inv u _ (h.idx u hu).unique

theorem addPrimaryKey_inv (t : Table) (cols : List Nat) (h : Inv t) : Inv (t.addPrimaryKey cols).1 := by
  unfold Table.addPrimaryKey
  split
  · exact h
  · split
    · exact h
    · split
      · exact h
      · rename_i _ _ hadm
        have hadm : Table.keysAdmissible cols true t.rows [] = true := by simpa using hadm
        obtain ⟨a1, _, a3⟩ := keysAdmissible_spec cols true t.rows [] hadm
        constructor
        · intro u' hu'
          simp only [List.map_cons, List.mem_cons] at hu'
          rcases hu' with rfl | hu'
          · apply rebuild_inv
            have : ukeys { cols := cols, skipNull := false, keys := [] } t.rows
                = (t.rows.map (keyOf cols)).filter (fun k => !hasNull k) := by
              have hf : (UIdx.relevant { cols := cols, skipNull := false, keys := [] }) = (fun _ => true) := by
                funext k; simp [UIdx.relevant]
              simp only [ukeys, hf]
              rw [List.filter_eq_self.mpr (by simp), List.filter_eq_self.mpr]
              intro k hk
              obtain ⟨r, hr, rfl⟩ := List.mem_map.mp hk
              simp [a3 rfl r hr]
            rw [this]; exact a1
          · exact idxs_rebuild_inv t h u' hu'
        · exact h.notNull
        · exact h.checks
        · intro c hc
          simp only [Option.some.injEq] at hc; subst hc
          exact ⟨_, List.mem_cons_self, (rebuild_cols _ _).1, (rebuild_cols _ _).2⟩

theorem addUnique_inv (t : Table) (cols : List Nat) (h : Inv t) : Inv (t.addUnique cols).1 := by
  unfold Table.addUnique
  split
  · exact h
  · split
    · exact h
    · rename_i hadm _
      have hadm : Table.keysAdmissible cols false t.rows [] = true := by simpa using hadm
      obtain ⟨a1, _, _⟩ := keysAdmissible_spec cols false t.rows [] hadm
      constructor
      · intro u' hu'
        simp only [List.map_append, List.mem_append, List.map_cons, List.map_nil, List.mem_singleton] at hu'
        rcases hu' with hu' | rfl
        · exact idxs_rebuild_inv t h u' hu'
        · apply rebuild_inv
          have : ukeys { cols := cols, skipNull := true, keys := [] } t.rows
              = (t.rows.map (keyOf cols)).filter (fun k => !hasNull k) := by
            have hf : (UIdx.relevant { cols := cols, skipNull := true, keys := [] }) = (fun k => !hasNull k) := by
              funext k; simp [UIdx.relevant]
            simp only [ukeys, hf]
          rw [this]; exact a1
      · exact h.notNull
      · exact h.checks
      · intro c hc
        obtain ⟨u, hu, h1, h2⟩ := h.pkIdx c hc
        refine ⟨u.rebuild t.rows, ?_, by rw [(rebuild_cols u _).1]; exact h1, by rw [(rebuild_cols u _).2]; exact h2⟩
        simp only [List.map_append, List.mem_append]
        exact Or.inl (List.mem_map.mpr ⟨u, hu, rfl⟩)

theorem checkAllRows_ok (c : Expr) : ∀ rows, Table.checkAllRows c rows = .ok () →
    ∀ r ∈ rows, Table.checkChecks [c] r = .ok () := by
  intro rows
  induction rows with
  | nil => intro _ r hr; simp at hr
  | cons x xs ih =>
    intro h r hr
    unfold Table.checkAllRows at h
    split at h
    · simp at h
    · rename_i hx
      rcases List.mem_cons.mp hr with rfl | hr
      · exact hx
      · exact ih h r hr

theorem addCheck_inv (t : Table) (c : Expr) (h : Inv t) : Inv (t.addCheck c).1 := by
  unfold Table.addCheck
  split
  · exact h
  · rename_i hok
    constructor
    · exact h.idx
    · exact h.notNull
    · intro r hr
      rw [checkChecks_append]
      exact ⟨h.checks r hr, checkAllRows_ok c t.rows hok r hr⟩
    · exact h.pkIdx

/-! #### every statement -/

theorem insertStmt_inv (thr : Nat) (t : Table) (rows : List Row) (mode : Table.InsMode) (h : Inv t) :
    Inv (t.insertStmt thr rows mode).1 := by
  unfold Table.insertStmt
  split
  · exact h
  · cases mode with
    | plain =>
      simp only []
      split
      · exact h
      · rename_i hv; exact insert_plain_inv thr t rows h hv
    | replace =>
      simp only []
      split
      · exact h
      · rename_i hv
        exact replace_fold_inv thr rows t t.notNull t.checks h rfl rfl (validateInsertRows_all t true rows [] hv)
    | onDup f =>
      simp only []
      split
      · exact h
      · rename_i hv
        exact onDupLoop_inv thr f rows t 0 t.notNull t.checks h rfl rfl (validateInsertRows_all t true rows [] hv)

theorem bulkStmt_inv (thr : Nat) (t : Table) (rows : List Row) (h : Inv t) : Inv (t.bulkStmt thr rows).1 := by
  unfold Table.bulkStmt
  split
  · exact h
  · split
    · exact h
    · rename_i hv; exact insert_plain_inv thr t rows h hv

theorem step_inv (thr : Nat) (t : Table) (s : Stmt) (h : Inv t) : Inv (step thr t s).1 := by
  cases s with
  | insert rows mode => exact insertStmt_inv thr t rows mode h
  | bulk rows => exact bulkStmt_inv thr t rows h
  | update sel f => exact updateStmt_inv t sel f h
  | delete sel => exact deleteWhere_inv t sel h
  | truncate => exact clear_inv t h
  | addPk cols => exact addPrimaryKey_inv t cols h
  | addUnique cols => exact addUnique_inv t cols h
  | addCheck c => exact addCheck_inv t c h

theorem run_inv (thr : Nat) : ∀ (ss : List Stmt) (t : Table), Inv t → Inv (run thr t ss) := by
  intro ss
  induction ss with
  | nil => intro t h; exact h
  | cons s ss ih => intro t h; exact ih _ (step_inv thr t s h)
