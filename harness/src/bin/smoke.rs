use vharness::*;
fn main() {
    engine::silence_panics();
    let mut db = Db::new();
    db.must("CREATE TABLE t (a INTEGER, b VARCHAR(10))");
    db.must("INSERT INTO t VALUES (1, 'x'), (2, NULL)");
    println!("{}", db.query("SELECT a, b FROM t WHERE a >= 1").brief());
    println!("{}", db.query("SELECT 9223372036854775807 + 1").brief());
    println!("{}", db.query("SELEC").brief());
}
