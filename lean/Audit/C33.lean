import VibeProof.Props.C33
#print axioms VibeProof.C33.C33_step_preserves
#print axioms VibeProof.C33.C33_init
#print axioms VibeProof.C33.C33_history_preserves
#print axioms VibeProof.C33.C33_dropped_table_leaves_nothing
#print axioms VibeProof.C33.C33_recreated_table_is_fresh
#print axioms VibeProof.C33.C33_add_column_keeps_data
#print axioms VibeProof.C33.C33_agree_partial
#print axioms VibeProof.C33.C33_alter_counterexample
#print axioms VibeProof.C33.C33_alter_blocks_insert
#print axioms VibeProof.C33.C33_case_variant_index_counterexample
#print axioms VibeProof.C33.C33_index_lookup_exact
