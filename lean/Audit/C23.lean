import VibeProof.Props.C23
#print axioms VibeProof.C23.C23_next_token_advances
#print axioms VibeProof.C23.C23_skip_trivia_suffix_length
#print axioms VibeProof.C23.C23_tokenize_ends_in_eof
#print axioms VibeProof.C23.C23_spans_ordered
#print axioms VibeProof.C23.C23_skeleton_depth_budget
#print axioms VibeProof.C23.C23_skeleton_at_parser_limit
#print axioms VibeProof.C23.C23_ranked_graph_acyclic
#print axioms VibeProof.C23.C23_parser_unguarded_calls_ranked
#print axioms VibeProof.C23.C23_parser_recursion_guarded
#print axioms VibeProof.C23.C23_chain_depth_bounded
#print axioms VibeProof.C23.C23_tree_building_loops_count_every_link
#print axioms VibeProof.C23.C23_token_loops_exit_at_eof
