import VibeProof.Model.Sql
/-
Views, CTEs and derived tables (C32).  A name in FROM resolves, in this order, to a CTE of the
enclosing WITH, a view, a base table — names compared case-insensitively, as
`select/scan/table.rs` does.  A view stores only its defining query (no rows): every reference
re-evaluates it on the current database.  The outer query sees the definition's result as one
more table.
-/
namespace VibeProof.View
open VibeProof VibeProof.Sql

/-- evaluate `outer` over the result of `body`: the result becomes table number
`db.tables.length` (the index `outer.from_` refers to) -/
def evalDerived (db : Db) (body outer : Core) : Except Err (List Row) := do
  let rows ← body.eval db
  outer.eval { tables := db.tables ++ [(body.select.length, rows)] }

inductive Def where
  | cte (body : Core)
  | view (body : Core)
  | base (idx : Nat)
  deriving Repr

/-- names are code-point lists so that resolution is kernel-reducible -/
abbrev Name := List Char

def lower (s : Name) : Name := s.map Char.toLower

structure Env where
  ctes : List (Name × Core)
  views : List (Name × Core)
  tables : List (Name × Nat)

def lookupCI {β : Type} (name : Name) : List (Name × β) → Option β
  | [] => none
  | (n, v) :: rest => if lower n = lower name then some v else lookupCI name rest

/-- CTE first, then view, then base table -/
def resolve (env : Env) (name : Name) : Option Def :=
  match lookupCI name env.ctes with
  | some b => some (.cte b)
  | none =>
    match lookupCI name env.views with
    | some b => some (.view b)
    | none => (lookupCI name env.tables).map Def.base

/-- `SELECT outer FROM name` -/
def evalNamed (env : Env) (db : Db) (name : Name) (outer : Core) : Except Err (List Row) :=
  match resolve env name with
  | some (.cte b) => evalDerived db b outer
  | some (.view b) => evalDerived db b outer
  | some (.base i) => outer.eval { tables := db.tables ++ [((db.tables[i]?).map (·.1) |>.getD 0, (db.tables[i]?).map (·.2) |>.getD [])] }
  | none => .error .unsupported

/-- a chain of definitions (`WITH a AS (…), b AS (… FROM a) …`, or a view over a view): each
body is evaluated on the database extended with the results of the bodies before it (definition
number `k` becomes table `db.tables.length + k`), the outer query on the database extended with
all of them -/
def evalChain (db : Db) : List Core → Core → Except Err (List Row)
  | [], outer => outer.eval db
  | b :: rest, outer => do
    let rows ← b.eval db
    evalChain { tables := db.tables ++ [(b.select.length, rows)] } rest outer

end VibeProof.View
