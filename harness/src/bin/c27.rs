//! C27 — wire-protocol decoding is safe and respects framing.
//!
//! Real code: `FrontendMessage::decode / decode_startup` of the server's protocol/messages.rs,
//! compiled into this binary from /repo's working tree.
//! Direct oracle (no model), for every byte string b:
//!   (i)   no panic;
//!   (ii)  after Ok(Some)/Err the buffer is a suffix of b and the bytes consumed are exactly
//!         1 + declared length (startup: declared length) — or 0 for an error; Ok(None) leaves
//!         the buffer untouched and is returned exactly when header/frame are incomplete;
//!   (iii) decode(enc(m) ++ tail) = m with exactly enc(m) consumed; every strict prefix of enc(m)
//!         gives Ok(None); a stream of frames decodes to the messages sent.
//! Correspondence: outcome class, message, error kind and bytes consumed vs the Lean model
//! (`decode`, `decodeStartup`), and the client-side encoder / UTF-8 validator of the model vs
//! the ones used here (std).
use std::collections::BTreeMap;
use std::panic::{catch_unwind, AssertUnwindSafe};

use bytes::BytesMut;
use vharness::sx::{hex, unhex};
use vharness::*;

#[allow(dead_code)]
#[path = "/repo/crates/vibesql-server/src/protocol/messages.rs"]
mod messages;
use messages::{FrontendMessage, ProtocolError};

const SSL_CODE: i32 = 80877103;

#[derive(Clone, Debug, PartialEq, Eq)]
enum M {
    Query(Vec<u8>),
    Password(Vec<u8>),
    Terminate,
    Ssl,
    Startup(i32, BTreeMap<Vec<u8>, Vec<u8>>),
}

#[derive(Clone, Debug, PartialEq, Eq)]
enum Outc {
    Panic(String),
    NeedMore,
    Msg(M, usize),
    Err(String, usize),
    Unparsed(String),
}

impl Outc {
    fn class(&self) -> &'static str {
        match self {
            Outc::Panic(_) => "panic",
            Outc::NeedMore => "need_more",
            Outc::Msg(..) => "msg",
            Outc::Err(..) => "error",
            Outc::Unparsed(_) => "unparsed",
        }
    }
    /// what is compared between model and code (panic text is not)
    fn canon(&self) -> String {
        match self {
            Outc::Panic(_) => "panic".into(),
            other => format!("{:?}", other),
        }
    }
}

fn hx(b: &[u8]) -> String {
    if b.is_empty() {
        "-".into()
    } else {
        hex(b)
    }
}

fn conv(m: FrontendMessage) -> M {
    match m {
        FrontendMessage::Query { query } => M::Query(query.into_bytes()),
        FrontendMessage::Password { password } => M::Password(password.into_bytes()),
        FrontendMessage::Terminate => M::Terminate,
        FrontendMessage::SSLRequest => M::Ssl,
        FrontendMessage::Startup { protocol_version, params } => {
            M::Startup(protocol_version, params.into_iter().map(|(k, v)| (k.into_bytes(), v.into_bytes())).collect())
        }
    }
}

struct RealRun {
    out: Outc,
    /// the buffer after the call is exactly the last `len - consumed` bytes of the input
    suffix_ok: bool,
    /// bytes removed from the buffer by the call
    consumed: usize,
}

/// Feed `first` then the rest of `all` into ONE buffer, decoding after each chunk (how the
/// connection loop uses the decoder): the first call must ask for more without touching the
/// buffer, the second must yield what a single call on the whole input yields.
fn run_real_chunked(startup: bool, all: &[u8], cut: usize) -> Result<(), String> {
    let r = catch_unwind(AssertUnwindSafe(|| {
        let mut buf = BytesMut::from(&all[..cut]);
        let r1 = if startup { FrontendMessage::decode_startup(&mut buf) } else { FrontendMessage::decode(&mut buf) };
        let after1 = buf.to_vec();
        buf.extend_from_slice(&all[cut..]);
        let r2 = if startup { FrontendMessage::decode_startup(&mut buf) } else { FrontendMessage::decode(&mut buf) };
        (format!("{:?}", r1.map(|m| m.map(conv))), after1, format!("{:?}", r2.map(|m| m.map(conv))), buf.to_vec())
    }));
    let (r1, after1, r2, left2) = r.map_err(|_| "decoder panicked while a frame arrived in two chunks".to_string())?;
    let whole = {
        let mut buf = BytesMut::from(all);
        let r = if startup { FrontendMessage::decode_startup(&mut buf) } else { FrontendMessage::decode(&mut buf) };
        (format!("{:?}", r.map(|m| m.map(conv))), buf.to_vec())
    };
    if r1 != "Ok(None)" {
        return Err(format!("first chunk ({} of {} bytes): expected need-more, got {}", cut, all.len(), r1));
    }
    if after1 != all[..cut] {
        return Err(format!("need-more consumed bytes: buffer after the first call is {} but the chunk was {}", hx(&after1), hx(&all[..cut])));
    }
    if (r2.clone(), left2.clone()) != whole {
        return Err(format!("after the second chunk: {} (left {}) but decoding the whole input at once gives {} (left {})", r2, hx(&left2), whole.0, hx(&whole.1)));
    }
    Ok(())
}

fn run_real(startup: bool, bytes: &[u8]) -> RealRun {
    let r = catch_unwind(AssertUnwindSafe(|| {
        let mut buf = BytesMut::from(bytes);
        let r = if startup { FrontendMessage::decode_startup(&mut buf) } else { FrontendMessage::decode(&mut buf) };
        (r, buf.to_vec())
    }));
    match r {
        Err(e) => {
            let msg = e.downcast_ref::<String>().cloned().or_else(|| e.downcast_ref::<&str>().map(|s| s.to_string())).unwrap_or_default();
            RealRun { out: Outc::Panic(msg), suffix_ok: true, consumed: 0 }
        }
        Ok((res, left)) => {
            let consumed = bytes.len().saturating_sub(left.len());
            let suffix_ok = left.len() <= bytes.len() && bytes[consumed..] == left[..];
            let out = match res {
                Ok(None) => Outc::NeedMore,
                Ok(Some(m)) => Outc::Msg(conv(m), consumed),
                Err(ProtocolError::InvalidMessageType(b)) => Outc::Err(format!("invalid-type {}", b), consumed),
                Err(ProtocolError::MessageTooShort) => Outc::Err("too-short".into(), consumed),
                Err(ProtocolError::InvalidString) => Outc::Err("invalid-string".into(), consumed),
                Err(other) => Outc::Err(format!("other:{}", other), consumed),
            };
            RealRun { out, suffix_ok, consumed }
        }
    }
}

fn parse_model_msg(s: &Sx) -> Option<M> {
    let l = s.as_list()?;
    match l.first()?.as_atom()? {
        "query" => Some(M::Query(unhex(l.get(1)?.as_atom()?)?)),
        "password" => Some(M::Password(unhex(l.get(1)?.as_atom()?)?)),
        "terminate" => Some(M::Terminate),
        "ssl" => Some(M::Ssl),
        "startup" => {
            let v: i32 = l.get(1)?.as_atom()?.parse().ok()?;
            let mut m = BTreeMap::new();
            for p in &l[2..] {
                let kv = p.as_list()?;
                let k = unhex(kv.first()?.as_atom()?)?;
                if m.insert(k, unhex(kv.get(1)?.as_atom()?)?).is_some() {
                    return None; // a map never holds a key twice
                }
            }
            Some(M::Startup(v, m))
        }
        _ => None,
    }
}

fn parse_model(reply: &str) -> Outc {
    let bad = || Outc::Unparsed(reply.to_string());
    let sx = match Sx::parse(reply) {
        Some(s) => s,
        None => return bad(),
    };
    let l = match sx.as_list() {
        Some(l) if !l.is_empty() => l,
        _ => return bad(),
    };
    let num = |i: usize| l.get(i).and_then(|x| x.as_atom()).and_then(|a| a.parse::<usize>().ok());
    match l[0].as_atom() {
        Some("needmore") => Outc::NeedMore,
        Some("panic") => Outc::Panic(l.get(1).and_then(|x| x.as_atom()).unwrap_or("").to_string()),
        Some("msg") => match (l.get(1).and_then(parse_model_msg), num(2)) {
            (Some(m), Some(n)) => Outc::Msg(m, n),
            _ => bad(),
        },
        Some("error") => match l.get(1).and_then(|x| x.as_atom()) {
            Some("invalid-type") => match (num(2), num(3)) {
                (Some(b), Some(n)) => Outc::Err(format!("invalid-type {}", b), n),
                _ => bad(),
            },
            Some(k) => match num(2) {
                Some(n) => Outc::Err(k.to_string(), n),
                None => bad(),
            },
            None => bad(),
        },
        _ => bad(),
    }
}

// ---- client-side encoders, written from the PostgreSQL protocol description ----

fn enc_regular(m: &M) -> Vec<u8> {
    let (ty, body): (u8, Vec<u8>) = match m {
        M::Query(s) => (b'Q', [&s[..], &[0]].concat()),
        M::Password(s) => (b'p', [&s[..], &[0]].concat()),
        M::Terminate => (b'X', vec![]),
        _ => panic!("harness precondition: not a regular message"),
    };
    let mut v = vec![ty];
    v.extend_from_slice(&((4 + body.len()) as u32).to_be_bytes());
    v.extend_from_slice(&body);
    v
}

/// startup packet with the parameters in the given order
fn enc_startup(version: i32, params: &[(Vec<u8>, Vec<u8>)]) -> Vec<u8> {
    let mut body = version.to_be_bytes().to_vec();
    for (k, v) in params {
        body.extend_from_slice(k);
        body.push(0);
        body.extend_from_slice(v);
        body.push(0);
    }
    body.push(0);
    let mut out = ((4 + body.len()) as u32).to_be_bytes().to_vec();
    out.extend_from_slice(&body);
    out
}

fn enc_ssl() -> Vec<u8> {
    let mut v = 8u32.to_be_bytes().to_vec();
    v.extend_from_slice(&SSL_CODE.to_be_bytes());
    v
}

fn msg_sx(m: &M, order: &[(Vec<u8>, Vec<u8>)]) -> String {
    match m {
        M::Query(s) => format!("(query {})", hx(s)),
        M::Password(s) => format!("(password {})", hx(s)),
        M::Terminate => "(terminate)".into(),
        M::Ssl => "(ssl)".into(),
        M::Startup(v, _) => {
            let ps: Vec<String> = order.iter().map(|(k, x)| format!("({} {})", hx(k), hx(x))).collect();
            format!("(startup {}{}{})", v, if ps.is_empty() { "" } else { " " }, ps.join(" "))
        }
    }
}

// ---- the checker of one byte string ----

struct Ctx {
    model: model::Model,
    rep: Report,
}

fn declared(startup: bool, b: &[u8]) -> Option<i64> {
    let off = if startup { 0 } else { 1 };
    if b.len() < off + 4 {
        return None;
    }
    Some(i32::from_be_bytes([b[off], b[off + 1], b[off + 2], b[off + 3]]) as i64)
}

impl Ctx {
    /// runs real + model on `b`, checks clauses (i), (ii) directly and the correspondence;
    /// returns the real outcome
    fn check(&mut self, startup: bool, b: &[u8], class: &str) -> Outc {
        let op = if startup { "startup" } else { "decode" };
        let real = run_real(startup, b);
        let min_hdr = if startup { 4 } else { 5 };
        let id = format!("{} {}", op, hx(b));
        self.rep.case(&id, b.len() >= min_hdr);
        self.rep.count(&format!("class_{}", class));
        self.rep.count(&format!("{}_outcome_{}", op, real.out.class()));
        self.rep.count(&format!(
            "len_{}",
            match b.len() {
                0..=4 => "0-4",
                5..=16 => "5-16",
                17..=64 => "17-64",
                65..=1024 => "65-1024",
                _ => ">1024",
            }
        ));
        let replay = |real: &Outc, model: &str| format!("{} {}\nreal : {:?}\nmodel: {}\n(replay: printf '{} {}\\n' | lean/.lake/build/bin/drv_c27 ; real code: harness/src/bin/c27.rs run_real)", op, hx(b), real, model, op, hx(b));

        // ---- direct oracle on the real outcome ----
        let dl = declared(startup, b);
        let minlen: i64 = if startup { 8 } else { 4 };
        let extra: i64 = if startup { 0 } else { 1 };
        let mut oracle_fail: Option<String> = None;
        if !real.suffix_ok {
            oracle_fail = Some("the buffer left behind is not a suffix of the input (bytes after the frame were touched)".into());
        }
        match &real.out {
            Outc::Panic(p) => oracle_fail = Some(format!("decoder panicked: {}", p)),
            Outc::NeedMore => {
                if real.consumed != 0 {
                    oracle_fail = Some(format!("asks for more bytes but already consumed {} byte(s) of the buffer", real.consumed));
                }
                let incomplete = b.len() < min_hdr || matches!(dl, Some(l) if l >= minlen && (b.len() as i64) < extra + l);
                if !incomplete {
                    oracle_fail = Some("asks for more bytes although header and declared frame are complete (or the length is invalid)".into());
                }
            }
            Outc::Msg(_, n) => match dl {
                Some(l) if l >= minlen && *n as i64 == extra + l => {}
                _ => oracle_fail = Some(format!("message decoded but {} bytes consumed with declared length {:?}", n, dl)),
            },
            Outc::Err(_, n) => {
                let exact = matches!(dl, Some(l) if l >= minlen && *n as i64 == extra + l);
                if !(*n == 0 || exact) {
                    oracle_fail = Some(format!("error after consuming {} bytes with declared length {:?} (neither nothing nor the declared frame)", n, dl));
                }
            }
            Outc::Unparsed(_) => {}
        }
        if let Some(w) = oracle_fail {
            self.rep.fail(FailKind::Oracle, None, &w, &replay(&real.out, "(not consulted)"));
        }

        // ---- correspondence ----
        let reply = self.model.ask(&format!("{} {}", op, hx(b)));
        let mo = parse_model(&reply);
        self.rep.traces_validated += 1;
        if mo.canon() != real.out.canon() {
            self.rep.fail(FailKind::ModelDiff, None, &format!("model and code disagree on {} ({} vs {})", op, mo.class(), real.out.class()), &replay(&real.out, &reply));
        }
        real.out
    }

    /// clause (iii) for one well-formed message: exact round trip with tail, prefixes, encoder tie
    fn roundtrip(&mut self, startup: bool, m: &M, order: &[(Vec<u8>, Vec<u8>)], enc: &[u8], tail: &[u8], all_prefixes: bool, rng: &mut Rng) {
        let mut b = enc.to_vec();
        b.extend_from_slice(tail);
        let got = self.check(startup, &b, "wellformed+tail");
        if got != Outc::Msg(m.clone(), enc.len()) {
            self.rep.fail(
                FailKind::Oracle,
                None,
                "decoding the encoding of a well-formed message followed by other bytes does not give the message back with exactly the frame consumed",
                &format!("{} {}\nsent: {:?} ({} bytes) + tail {}\nreal: {:?}", if startup { "startup" } else { "decode" }, hx(&b), m, enc.len(), hx(tail), got),
            );
        }
        // model encoder = harness encoder (the theorem's `encodeFrontend` is what was sent)
        let op = if startup { "encstartup" } else { "encode" };
        let me = self.model.ask(&format!("{} {}", op, msg_sx(m, order)));
        if me != hx(enc) {
            self.rep.fail(FailKind::ModelDiff, None, "client-side encoder of the model differs from the one of the harness", &format!("{} {}\nmodel  : {}\nharness: {}", op, msg_sx(m, order), me, hx(enc)));
        }
        self.incremental(startup, enc, Some(m));
        // strict prefixes → need more
        let ks: Vec<usize> = if all_prefixes || enc.len() <= 160 {
            (0..enc.len()).collect()
        } else {
            let mut v: Vec<usize> = vec![0, 1, 3, 4, 5, 6, 7, 8, 9, enc.len() - 3, enc.len() - 2, enc.len() - 1];
            for _ in 0..10 {
                v.push(rng.below(enc.len() as u64) as usize);
            }
            v
        };
        // the frame (+ tail) arriving in two chunks into one buffer, cut at a few points incl. 5
        // (header complete, body not)
        let mut cuts: Vec<usize> = vec![1, 4, 5, 6, enc.len() / 2, enc.len() - 1];
        cuts.retain(|c| *c >= 1 && *c < enc.len());
        cuts.dedup();
        for cut in cuts {
            self.rep.count("chunked_delivery");
            if let Err(w) = run_real_chunked(startup, &b, cut) {
                self.rep.fail(FailKind::Oracle, None, &format!("frame delivered in two chunks: {}", w), &format!("{} {} (cut after {} bytes)", if startup { "startup" } else { "decode" }, hx(&b), cut));
            }
        }
        for k in ks {
            let got = self.check(startup, &b[..k], "prefix");
            if got != Outc::NeedMore {
                self.rep.fail(FailKind::Oracle, None, "a strict prefix of a frame does not give need-more", &format!("{} {}\n(prefix of length {} of a frame of {} bytes)\nreal: {:?}", if startup { "startup" } else { "decode" }, hx(&b[..k]), k, enc.len(), got));
            }
        }
    }

    /// incremental delivery (real code only): the frame arrives as prefix, then the rest, for EVERY
    /// cut point 0..len — need-more must leave the buffer untouched, the completed buffer must
    /// decode to the message (`want` = None: only "no panic, nothing consumed before complete")
    fn incremental(&mut self, startup: bool, enc: &[u8], want: Option<&M>) {
        let op = if startup { "startup" } else { "decode" };
        let cuts: Vec<usize> = if enc.len() <= 400 { (0..enc.len()).collect() } else { vec![0, 1, 3, 4, 5, 7, 8, enc.len() / 2, enc.len() - 2, enc.len() - 1] };
        for k in cuts {
            self.rep.count("incremental_cut");
            let r = catch_unwind(AssertUnwindSafe(|| {
                let mut buf = BytesMut::from(&enc[..k]);
                let first = if startup { FrontendMessage::decode_startup(&mut buf) } else { FrontendMessage::decode(&mut buf) };
                let first_ok = matches!(first, Ok(None)) && buf[..] == enc[..k];
                buf.extend_from_slice(&enc[k..]);
                let second = if startup { FrontendMessage::decode_startup(&mut buf) } else { FrontendMessage::decode(&mut buf) };
                (first_ok, format!("{:?}", first).chars().take(120).collect::<String>(), second.map(|o| o.map(conv)).map_err(|e| e.to_string()), buf.len())
            }));
            let bad = match &r {
                Err(_) => Some("panicked".to_string()),
                Ok((first_ok, first, second, left)) => {
                    if !first_ok {
                        Some(format!("the incomplete buffer did not give need-more with the buffer untouched: {}", first))
                    } else {
                        match want {
                            Some(m) if !(matches!(second, Ok(Some(g)) if g == m) && *left == 0) => Some(format!("after the rest arrived: {:?}, {} bytes left", second, left)),
                            _ => None,
                        }
                    }
                }
            };
            if let Some(w) = bad {
                self.rep.fail(FailKind::Oracle, None, &format!("incremental delivery of a frame ({}): {}", op, w.chars().take(60).collect::<String>()), &format!("{} first {} (the first {} of {} bytes), then the remaining bytes {}\n{}", op, hx(&enc[..k]), k, enc.len(), hx(&enc[k..]), w));
            }
        }
    }

    /// all corruption classes of the length field of a frame (+ tail)
    fn corrupt_length(&mut self, startup: bool, enc: &[u8], tail: &[u8], rng: &mut Rng) {
        let off = if startup { 0 } else { 1 };
        let mut b = enc.to_vec();
        b.extend_from_slice(tail);
        let exact = i32::from_be_bytes([b[off], b[off + 1], b[off + 2], b[off + 3]]);
        let avail = (b.len() - off) as i64;
        let mut lens: Vec<i32> = vec![-1, i32::MIN, i32::MIN + 1, -(rng.range(2, 1 << 30) as i32), 0, 1, 2, 3, 4, 5, 6, 7, 8, 9, i32::MAX, exact - 1, exact + 1, exact.wrapping_add(256), exact.wrapping_add(1 << 16), exact.wrapping_add(1 << 24)];
        lens.push(avail as i32);
        lens.push((avail + 1) as i32);
        lens.push((avail - 1) as i32);
        lens.push(rng.range(0, avail.max(1)) as i32);
        for l in lens {
            let mut c = b.clone();
            c[off..off + 4].copy_from_slice(&l.to_be_bytes());
            let class = if l < 0 {
                "len_negative"
            } else if (l as i64) < if startup { 8 } else { 4 } {
                "len_below_min"
            } else if (l as i64) > avail {
                "len_beyond_available"
            } else if l == exact {
                "len_exact"
            } else {
                "len_other_in_range"
            };
            self.check(startup, &c, class);
        }
        // every single-byte corruption position of the length field, boundary values + random
        for pos in 0..4 {
            for v in [0x00u8, 0x01, 0x7f, 0x80, 0xff, rng.below(256) as u8] {
                let mut c = b.clone();
                c[off + pos] = v;
                self.check(startup, &c, "len_single_byte");
            }
        }
    }

    fn utf8(&mut self, b: &[u8]) {
        let real = std::str::from_utf8(b).is_ok();
        let reply = self.model.ask(&format!("utf8 {}", hx(b)));
        self.rep.count(if real { "utf8_valid" } else { "utf8_invalid" });
        if reply != if real { "1" } else { "0" } {
            self.rep.fail(FailKind::ModelDiff, None, "UTF-8 validity: model differs from String::from_utf8", &format!("utf8 {}\nreal: {}\nmodel: {}", hx(b), real, reply));
        }
    }
}

// ---- generators ----

fn gen_string(r: &mut Rng) -> Vec<u8> {
    let n = match r.below(20) {
        0 => 0,
        1 => 1,
        2..=13 => r.range(2, 24) as usize,
        14..=17 => r.range(25, 300) as usize,
        18 => r.range(250, 260) as usize,
        _ => r.range(65530, 65800) as usize,
    };
    let mut s = String::new();
    let pool: &[&str] = &["é", "ß", "€", "漢", "𝄞", "😀", "\u{7ff}", "\u{800}", "\u{ffff}", "\u{10000}", "\u{10ffff}", "\u{d7ff}", "\u{e000}"];
    while s.len() < n {
        if r.chance(1, 8) {
            s.push_str(*r.pick(pool));
        } else {
            s.push((r.range(1, 126) as u8) as char); // NUL-free ASCII incl. control chars
        }
    }
    s.into_bytes()
}

fn gen_regular(r: &mut Rng) -> M {
    match r.below(10) {
        0 => M::Terminate,
        1..=3 => M::Password(gen_string(r)),
        _ => M::Query(gen_string(r)),
    }
}

fn gen_short_string(r: &mut Rng, nonempty: bool) -> Vec<u8> {
    loop {
        let mut s = gen_string(r);
        s.truncate(r.range(0, 12) as usize);
        let s = String::from_utf8_lossy(&s).replace('\u{fffd}', "?").into_bytes();
        if !(nonempty && s.is_empty()) {
            return s;
        }
    }
}

fn gen_startup(r: &mut Rng) -> (i32, Vec<(Vec<u8>, Vec<u8>)>) {
    let version = match r.below(6) {
        0 => 196608,
        1 => r.range(i32::MIN as i64, i32::MAX as i64) as i32,
        2 => *r.pick(&[0, -1, i32::MAX, i32::MIN, SSL_CODE - 1, SSL_CODE + 1, 80877102, 80877104]),
        _ => 196608,
    };
    let version = if version == SSL_CODE { 196608 } else { version };
    let n = r.range(0, 5) as usize;
    let mut ps: Vec<(Vec<u8>, Vec<u8>)> = vec![];
    let names: &[&str] = &["user", "database", "application_name", "client_encoding", "options"];
    while ps.len() < n {
        let k = if r.chance(2, 3) { r.pick(names).as_bytes().to_vec() } else { gen_short_string(r, true) };
        if ps.iter().any(|(k2, _)| *k2 == k) {
            continue;
        }
        ps.push((k, gen_short_string(r, false)));
    }
    (version, ps)
}

fn gen_tail(r: &mut Rng) -> Vec<u8> {
    match r.below(6) {
        0 => vec![],
        1 => (0..r.range(1, 12)).map(|_| r.below(256) as u8).collect(),
        2 => enc_regular(&gen_regular(r)),
        3 => {
            let e = enc_regular(&M::Query(b"SELECT 1".to_vec()));
            e[..r.range(1, e.len() as i64 - 1) as usize].to_vec()
        }
        4 => vec![0; r.range(1, 6) as usize],
        _ => vec![0xff; r.range(1, 6) as usize],
    }
}

/// arbitrary bytes, biased towards plausible headers
fn gen_arbitrary(r: &mut Rng, startup: bool) -> Vec<u8> {
    let mut b = vec![];
    if !startup {
        b.push(match r.below(6) {
            0 => b'Q',
            1 => b'p',
            2 => b'X',
            3 => *r.pick(&[b'q', b'P', b'x', 0, 0xff, b'R', b'S']),
            _ => r.below(256) as u8,
        });
    }
    let hdr = r.below(8);
    if hdr == 0 {
        let n = r.range(0, 3) as usize;
        b.extend((0..n).map(|_| r.below(256) as u8));
        return b;
    }
    let len: i32 = match r.below(10) {
        0 => r.range(i32::MIN as i64, i32::MAX as i64) as i32,
        1 => -(r.range(1, 300) as i32),
        _ => r.range(0, 40) as i32,
    };
    b.extend_from_slice(&len.to_be_bytes());
    if startup && r.chance(2, 3) {
        let v = match r.below(4) {
            0 => SSL_CODE,
            1 => r.range(i32::MIN as i64, i32::MAX as i64) as i32,
            _ => 196608,
        };
        b.extend_from_slice(&v.to_be_bytes());
    }
    let n = r.range(0, 40) as usize;
    for _ in 0..n {
        b.push(match r.below(8) {
            0 | 1 => 0,
            2 => r.below(256) as u8,
            3 => *r.pick(&[0xc3, 0xa9, 0xe2, 0x82, 0xac, 0xf0, 0x9f, 0x98, 0x80, 0xed, 0xa0, 0x80, 0xc0, 0xaf]),
            _ => r.range(0x20, 0x7e) as u8,
        });
    }
    b
}

/// corruptions of the body of a string frame
fn corrupt_body(r: &mut Rng, s: &[u8], ty: u8) -> Vec<Vec<u8>> {
    let frame = |body: &[u8]| -> Vec<u8> {
        let mut v = vec![ty];
        v.extend_from_slice(&((4 + body.len()) as u32).to_be_bytes());
        v.extend_from_slice(body);
        v
    };
    let mut out = vec![];
    // no terminator inside the frame (a NUL follows right after the frame)
    let mut a = frame(s);
    a.push(0);
    out.push(a);
    // terminator early: bytes after it inside the frame are ignored
    let mut body = s.to_vec();
    let p = if s.is_empty() { 0 } else { r.below(s.len() as u64 + 1) as usize };
    body.insert(p, 0);
    body.push(0);
    out.push(frame(&body));
    // trailing garbage after the terminator, inside the frame
    let mut body = s.to_vec();
    body.push(0);
    body.extend((0..r.range(1, 5)).map(|_| r.below(256) as u8));
    out.push(frame(&body));
    // invalid UTF-8 in the string
    let bad: &[&[u8]] = &[&[0xc0, 0xaf], &[0xed, 0xa0, 0x80], &[0xf4, 0x90, 0x80, 0x80], &[0x80], &[0xe2, 0x82], &[0xff], &[0xf0, 0x8f, 0xbf, 0xbf], &[0xe0, 0x9f, 0xbf], &[0xc1, 0xbf], &[0xf5, 0x80, 0x80, 0x80]];
    let mut body = s.to_vec();
    let p = if s.is_empty() { 0 } else { r.below(s.len() as u64 + 1) as usize };
    let p = (0..=p).rev().find(|i| std::str::from_utf8(&s[..*i]).is_ok()).unwrap_or(0);
    for (i, x) in r.pick(bad).iter().enumerate() {
        body.insert(p + i, *x);
    }
    body.push(0);
    out.push(frame(&body));
    // other type byte
    let mut a = frame(&[s, &[0]].concat());
    a[0] = *r.pick(&[b'q', b'P', b'x', b'S', 0, 0xff, b'Q' + 1, b'p' - 1, b'X' + 1]);
    out.push(a);
    out
}

fn main() {
    engine::silence_panics();
    let args = Args::parse("C27");
    let rep = Report::new(
        &args,
        "case = (decoder, byte string); non-trivial = the byte string holds at least a complete header (5 bytes, startup 4) so that the \
         length-field logic is reached; distinct by hash of (decoder, bytes)",
    );
    let model = args.model();
    let mut cx = Ctx { model, rep };
    cx.rep.assumptions.push("a Rust String is a valid UTF-8 byte sequence; the model carries strings as bytes and models String::from_utf8 by its own validator (checked against std on every run)".into());
    cx.rep.assumptions.push("usize is 64 bits (the model's `as usize` and checked addition)".into());
    cx.rep.assumptions.push("HashMap<String,String> of startup parameters is compared as a sorted map".into());
    let mut rng = Rng::new(args.seed);

    // ---- deterministic probes: the inputs that broke the decoder before commit 39d592c4, boundaries ----
    let probes: &[(bool, &str)] = &[
        (false, "51ffffffff"),
        (false, "5100000000510000000661 00"),
        (false, "5100000004"),
        (false, "5100000003"),
        (false, "5100000005616200"),
        (false, "5100000005 00"),
        (false, "5800000000"),
        (false, "5800000003 0000"),
        (false, "5800000004"),
        (false, "5800000004 5800000004"),
        (false, "5800000005 00"),
        (false, "5800000005"),
        (false, "5180000000"),
        (false, "517fffffff"),
        (false, "7a00000004"),
        (false, "7a00000003"),
        (false, "7000000006 6100 ff"),
        (false, "510000000d53454c45435420310058 00000004"),
        (false, "51000000"),
        (false, ""),
        (true, "00000004"),
        (true, "00000000"),
        (true, "00000007 000300"),
        (true, "00000008 00030000"),
        (true, "00000008 00030000 6100620000"),
        (true, "00000009 00030000 00"),
        (true, "00000009 00030000 00 ffff"),
        (true, "ffffffff 00030000"),
        (true, "00000006 00030000 00"),
        (true, "00000008 04d2162f"),
        (true, "00000008 04d2162f 00000008"),
        (true, "0000000a 04d2162f 6161"),
        (true, "00000010 00030000 6100620061006300"),
        (true, "0000000d 00030000 610062 0000"),
        (true, "0000000c 00030000 61006200"),
        (true, "0000000e 00030000 00 6100620000"),
        (true, "000000"),
    ];
    for (startup, h) in probes {
        let b = unhex(&h.replace(' ', "")).expect("harness precondition: probe hex");
        cx.check(*startup, &b, "probe");
    }
    // UTF-8 boundary table
    let firsts = [0x00u8, 0x7f, 0x80, 0xbf, 0xc0, 0xc1, 0xc2, 0xdf, 0xe0, 0xe1, 0xec, 0xed, 0xee, 0xef, 0xf0, 0xf1, 0xf3, 0xf4, 0xf5, 0xff];
    let seconds = [0x00u8, 0x7f, 0x80, 0x8f, 0x90, 0x9f, 0xa0, 0xbf, 0xc0, 0xff];
    let thirds = [0x7fu8, 0x80, 0xbf, 0xc0];
    for a in firsts {
        cx.utf8(&[a]);
        let all2: Vec<u8> = if args.quick() { seconds.to_vec() } else { (0..=255).collect() };
        for b in all2 {
            cx.utf8(&[a, b]);
            for c in thirds {
                cx.utf8(&[a, b, c]);
                for d in thirds {
                    cx.utf8(&[a, b, c, d]);
                    cx.utf8(&[a, b, c, d, 0x41]);
                }
            }
        }
    }

    // ---- generated: regular messages ----
    let n = args.n(260, 8000);
    for i in 0..n {
        let mut r = rng.fork();
        let m = gen_regular(&mut r);
        let enc = enc_regular(&m);
        let tail = gen_tail(&mut r);
        if i < 2 {
            cx.rep.sample(serde_json::json!({"decoder": "decode", "message": format!("{:?}", m).chars().take(80).collect::<String>(), "frame_hex": hx(&enc).chars().take(80).collect::<String>(), "tail_hex": hx(&tail)}));
        }
        cx.rep.count(match &m {
            M::Query(_) => "msg_query",
            M::Password(_) => "msg_password",
            _ => "msg_terminate",
        });
        cx.roundtrip(false, &m, &[], &enc, &tail, false, &mut r);
        if enc.len() < 4000 {
            cx.corrupt_length(false, &enc, &tail, &mut r);
            if let M::Query(s) | M::Password(s) = &m {
                for c in corrupt_body(&mut r, s, enc[0]) {
                    let mut c = c;
                    c.extend_from_slice(&tail);
                    cx.check(false, &c, "body_corruption");
                }
            }
        }
    }

    // ---- generated: startup packets ----
    let n = args.n(200, 6000);
    for i in 0..n {
        let mut r = rng.fork();
        let tail = gen_tail(&mut r);
        if i % 10 == 0 {
            let enc = enc_ssl();
            cx.rep.count("msg_ssl_request");
            cx.roundtrip(true, &M::Ssl, &[], &enc, &tail, true, &mut r);
            cx.corrupt_length(true, &enc, &tail, &mut r);
            continue;
        }
        let (v, ps) = gen_startup(&mut r);
        let m = M::Startup(v, ps.iter().cloned().collect());
        let enc = enc_startup(v, &ps);
        if i < 3 {
            cx.rep.sample(serde_json::json!({"decoder": "decode_startup", "version": v, "params": ps.len(), "packet_hex": hx(&enc).chars().take(120).collect::<String>(), "tail_hex": hx(&tail)}));
        }
        cx.rep.count("msg_startup");
        cx.rep.count(&format!("startup_params_{}", ps.len()));
        cx.roundtrip(true, &m, &ps, &enc, &tail, true, &mut r);
        cx.corrupt_length(true, &enc, &tail, &mut r);
        // not well-formed variants: duplicate key, empty key early, missing final terminator
        if !ps.is_empty() {
            let mut dup = ps.clone();
            dup.push((ps[0].0.clone(), b"second".to_vec()));
            let mut e = enc_startup(v, &dup);
            e.extend_from_slice(&tail);
            cx.check(true, &e, "startup_duplicate_key");
            let mut early = ps.clone();
            early.insert(r.below(ps.len() as u64 + 1) as usize, (vec![], b"x".to_vec()));
            let mut e = enc_startup(v, &early);
            e.extend_from_slice(&tail);
            cx.check(true, &e, "startup_empty_key");
        }
        // invalid UTF-8 / Latin-1 bytes in a key and in a value of the parameter block
        for (in_key, bad) in [(true, &[0xe9u8][..]), (false, &[0xe9u8][..]), (true, &[0xc3][..]), (false, &[0xff, 0xfe][..]), (false, &[0xed, 0xa0, 0x80][..])] {
            let mut ps2 = ps.clone();
            let mut k = b"user".to_vec();
            let mut val = b"val".to_vec();
            if in_key {
                k.extend_from_slice(bad);
            } else {
                val.extend_from_slice(bad);
            }
            ps2.retain(|(k2, _)| *k2 != k);
            ps2.insert(r.below(ps2.len() as u64 + 1) as usize, (k, val));
            let mut e = enc_startup(v, &ps2);
            e.extend_from_slice(&tail);
            let got = cx.check(true, &e, "startup_invalid_utf8");
            if !matches!(&got, Outc::Err(k, _) if k == "invalid-string") {
                cx.rep.fail(FailKind::Oracle, None, "a startup packet with a parameter that is not valid UTF-8 is not rejected as an invalid string", &format!("startup {}\nreal: {:?}", hx(&e), got));
            }
        }
        let mut e = enc.clone();
        e.pop(); // drop the final terminator, fix the length
        let l = (e.len() as u32).to_be_bytes();
        e[..4].copy_from_slice(&l);
        e.extend_from_slice(&tail);
        cx.check(true, &e, "startup_no_terminator");
    }

    // ---- other startup-phase packets: CancelRequest (16 bytes, code 80877102), GSSENCRequest (80877104) ----
    for i in 0..args.n(40, 800) {
        let mut r = rng.fork();
        let mut p = if i % 4 == 3 { 8u32.to_be_bytes().to_vec() } else { 16u32.to_be_bytes().to_vec() };
        p.extend_from_slice(&(if i % 4 == 3 { 80877104i32 } else { 80877102i32 }).to_be_bytes());
        if i % 4 != 3 {
            // process id and secret key: arbitrary, with and without NUL bytes
            for _ in 0..8 {
                p.push(if r.chance(1, 4) { 0 } else { r.below(256) as u8 });
            }
        }
        cx.rep.count(if i % 4 == 3 { "msg_gssenc_request" } else { "msg_cancel_request" });
        let tail = gen_tail(&mut r);
        let mut b = p.clone();
        b.extend_from_slice(&tail);
        cx.check(true, &b, "cancel_or_gssenc");
        for k in 0..p.len() {
            let got = cx.check(true, &b[..k], "prefix");
            if got != Outc::NeedMore {
                cx.rep.fail(FailKind::Oracle, None, "a strict prefix of a startup-phase packet does not give need-more", &format!("startup {}\n(prefix of length {} of a packet of {} bytes)\nreal: {:?}", hx(&b[..k]), k, p.len(), got));
            }
        }
        cx.incremental(true, &p, None);
    }

    // ---- concatenated frames ----
    let n = args.n(150, 4000);
    for _ in 0..n {
        let mut r = rng.fork();
        let k = r.range(2, 6) as usize;
        let ms: Vec<M> = (0..k)
            .map(|_| loop {
                let m = gen_regular(&mut r);
                if enc_regular(&m).len() < 2000 {
                    break m;
                }
            })
            .collect();
        let mut stream: Vec<u8> = ms.iter().flat_map(|m| enc_regular(m)).collect();
        let partial = if r.chance(1, 2) {
            let e = enc_regular(&gen_regular(&mut r));
            e[..r.range(0, (e.len() as i64 - 1).min(30)) as usize].to_vec()
        } else {
            vec![]
        };
        stream.extend_from_slice(&partial);
        cx.rep.count("stream");
        let mut pos = 0;
        let mut got: Vec<M> = vec![];
        loop {
            match cx.check(false, &stream[pos..], "stream_step") {
                Outc::Msg(m, c) if c > 0 => {
                    got.push(m);
                    pos += c;
                }
                _ => break,
            }
        }
        if got != ms || stream[pos..] != partial[..] {
            cx.rep.fail(FailKind::Oracle, None, "a stream of concatenated frames does not decode to the messages sent (with the incomplete last frame left in the buffer)", &format!("stream {}\nsent: {:?}\ngot : {:?}\nleft: {}", hx(&stream), ms, got, hx(&stream[pos..])));
        }
    }

    // ---- arbitrary bytes ----
    let n = args.n(6000, 300000);
    for i in 0..n {
        let mut r = rng.fork();
        let startup = i % 3 == 0;
        let b = gen_arbitrary(&mut r, startup);
        cx.check(startup, &b, "arbitrary");
    }

    std::process::exit(cx.rep.finish());
}
