//! C21 — SQL value equality, ordering and hashing are mutually consistent.
//!
//! A pool of values of all 16 `SqlValue` variants (curated specials + random).  For ALL ordered
//! pairs and many triples the real `==`, `Ord::cmp` and `Hash` are
//!   (a) compared with the Lean model (`SV.eqv`, `SV.cmp`, bytes of `SV.hashWords`), and
//!   (b) checked directly against the laws (reflexive / symmetric / transitive equality,
//!       swap law and transitivity of the order, `cmp == Equal` ⇔ `==`, `==` ⇒ equal hash).
//! End to end: SELECT DISTINCT / GROUP BY / UNION over columns holding the same values must
//! produce exactly the classes of `==`.
use std::cmp::Ordering;
use std::collections::hash_map::DefaultHasher;
use std::hash::{Hash, Hasher};
use std::panic::{catch_unwind, AssertUnwindSafe};

use vharness::sx::{hex, unhex};
use vharness::*;
use vibesql_types::{Date, Interval, SqlValue, Time, Timestamp};

const SIG_INTERVAL: &str = "C21/interval-cmp-equal-not-eq";

struct Rec(Vec<u8>);
impl Hasher for Rec {
    fn finish(&self) -> u64 {
        0
    }
    fn write(&mut self, b: &[u8]) {
        self.0.extend_from_slice(b)
    }
}

fn rec_bytes(v: &SqlValue) -> Vec<u8> {
    let mut r = Rec(vec![]);
    v.hash(&mut r);
    r.0
}
fn std_hash(v: &SqlValue) -> u64 {
    let mut s = DefaultHasher::new();
    v.hash(&mut s);
    s.finish()
}

/// exact decomposition: value = (-1)^neg · m · 2^e with m odd (or m = 0)
fn dec_bits(neg: bool, exp: i64, frac: u64, mbits: i64, emax: i64, bias: i64) -> String {
    if exp == emax {
        return if frac == 0 { format!("(inf {})", neg as u8) } else { "nan".into() };
    }
    let (mut m, mut e) = if exp == 0 { (frac, 1 - bias - mbits) } else { (frac | (1u64 << mbits), exp - bias - mbits) };
    if m == 0 {
        return format!("(fin {} 0 0)", neg as u8);
    }
    while m % 2 == 0 {
        m /= 2;
        e += 1;
    }
    format!("(fin {} {} {})", neg as u8, m, e)
}
fn f64_sx(f: f64) -> String {
    let b = f.to_bits();
    dec_bits(b >> 63 == 1, ((b >> 52) & 0x7ff) as i64, b & ((1u64 << 52) - 1), 52, 0x7ff, 1023)
}
fn f32_sx(f: f32) -> String {
    let b = f.to_bits() as u64;
    dec_bits(b >> 31 == 1, ((b >> 23) & 0xff) as i64, b & ((1u64 << 23) - 1), 23, 0xff, 127)
}

/// the three private numbers of an Interval, read from its Debug text
fn interval_nums(i: &Interval) -> (i64, i64, i64) {
    let d = format!("{:?}", i);
    let p = d.rfind(", months: ").expect("Interval Debug format");
    let rest = &d[p + 10..];
    let (mo, rest) = rest.split_once(", days: ").expect("days");
    let (da, rest) = rest.split_once(", microseconds: ").expect("microseconds");
    let us = rest.trim_end_matches(" }").trim_end_matches('}').trim();
    (mo.trim().parse().unwrap(), da.trim().parse().unwrap(), us.parse().unwrap())
}

fn hx(b: &[u8]) -> String {
    if b.is_empty() {
        "-".into()
    } else {
        hex(b)
    }
}

fn to_sx(v: &SqlValue) -> String {
    use SqlValue::*;
    match v {
        Integer(i) => format!("(integer {})", i),
        Smallint(i) => format!("(smallint {})", i),
        Bigint(i) => format!("(bigint {})", i),
        Unsigned(u) => format!("(unsigned {})", u),
        Numeric(f) => format!("(numeric {})", f64_sx(*f)),
        Double(f) => format!("(double {})", f64_sx(*f)),
        Float(f) => format!("(float {})", f32_sx(*f)),
        Real(f) => format!("(real {})", f32_sx(*f)),
        Character(s) => format!("(character {})", hx(s.as_bytes())),
        Varchar(s) => format!("(varchar {})", hx(s.as_bytes())),
        Boolean(b) => format!("(boolean {})", *b as u8),
        Date(d) => format!("(date {} {} {})", d.year, d.month, d.day),
        Time(t) => format!("(time {} {} {} {})", t.hour, t.minute, t.second, t.nanosecond),
        Timestamp(t) => format!(
            "(timestamp {} {} {} {} {} {} {})",
            t.date.year, t.date.month, t.date.day, t.time.hour, t.time.minute, t.time.second, t.time.nanosecond
        ),
        Interval(i) => {
            let (a, b, c) = interval_nums(i);
            format!("(interval {} {} {} {})", hx(i.value.as_bytes()), a, b, c)
        }
        Null => "null".into(),
    }
}

/// human-readable form for replay files: Rust Debug plus float bits
fn show(v: &SqlValue) -> String {
    match v {
        SqlValue::Numeric(f) | SqlValue::Double(f) => format!("{:?} bits=0x{:016x}", v, f.to_bits()),
        SqlValue::Float(f) | SqlValue::Real(f) => format!("{:?} bits=0x{:08x}", v, f.to_bits()),
        _ => format!("{:?}", v),
    }
}

fn variant(v: &SqlValue) -> &'static str {
    v.type_name()
}

fn ord_char(o: Ordering, eq: bool) -> char {
    let c = match o {
        Ordering::Less => 'l',
        Ordering::Equal => 'e',
        Ordering::Greater => 'g',
    };
    if eq {
        c.to_ascii_uppercase()
    } else {
        c
    }
}

fn curated() -> Vec<SqlValue> {
    use SqlValue::*;
    let mut p = vec![Null];
    for i in [0i64, 1, -1, 2, 255, 256, i64::MAX, i64::MIN, i64::MAX - 1, i64::MIN + 1, (1 << 53) + 1, 1 << 53, -(1 << 53) - 1, 65535, 4294967296] {
        p.push(Integer(i));
        p.push(Bigint(i));
    }
    for i in [0i16, 1, -1, i16::MAX, i16::MIN, 255, 256, -256] {
        p.push(Smallint(i));
    }
    for u in [0u64, 1, u64::MAX, u64::MAX - 1, 1 << 63, (1 << 63) - 1, 255, 256] {
        p.push(Unsigned(u));
    }
    let f64s: Vec<f64> = vec![
        0.0, -0.0, 1.0, -1.0, 0.1, -0.1, 1.5, 2.0, 1.0000000000000002, f64::MIN_POSITIVE, -f64::MIN_POSITIVE,
        f64::from_bits(1), f64::from_bits(0x8000000000000001), f64::from_bits(0x000fffffffffffff), f64::MAX, f64::MIN,
        f64::INFINITY, f64::NEG_INFINITY, f64::NAN, -f64::NAN, f64::from_bits(0x7ff0000000000001),
        f64::from_bits(0xfff8000000000001), f64::from_bits(0x7fffffffffffffff), 9007199254740993.0, 1e300, -1e300, 1e-300, f64::EPSILON,
    ];
    for f in &f64s {
        p.push(Double(*f));
        p.push(Numeric(*f));
    }
    let f32s: Vec<f32> = vec![
        0.0, -0.0, 1.0, -1.0, 0.1, 1.5, f32::MIN_POSITIVE, f32::from_bits(1), f32::from_bits(0x80000001), f32::from_bits(0x007fffff),
        f32::MAX, f32::MIN, f32::INFINITY, f32::NEG_INFINITY, f32::NAN, -f32::NAN, f32::from_bits(0x7f800001),
        f32::from_bits(0xffc00001), 16777216.0, 16777217.0, f32::EPSILON,
    ];
    for f in &f32s {
        p.push(Float(*f));
        p.push(Real(*f));
    }
    for s in ["", "a", "A", "ab", "aa", "a\0", "\0", "b", "é", "e\u{301}", "z", "ÿ", "\u{7f}", "\u{80}", "\u{7ff}", "\u{800}", "\u{ffff}", "\u{10000}", "\u{10ffff}", " ", "a ", "abc", "ABC"] {
        p.push(Varchar(s.to_string()));
        p.push(Character(s.to_string()));
    }
    p.push(Boolean(false));
    p.push(Boolean(true));
    let dates = [
        (2024, 1, 1), (2024, 1, 2), (2024, 2, 1), (2023, 12, 31), (0, 1, 1), (-1, 12, 31), (i32::MIN, 1, 1), (i32::MAX, 12, 31),
        (1, 1, 1), (9999, 12, 31), (10000, 1, 1), (2024, 12, 1), (2024, 1, 31), (2024, 255, 0), (2024, 0, 255),
    ];
    for (y, m, d) in dates {
        p.push(Date(vibesql_types::Date { year: y, month: m, day: d }));
    }
    let times = [
        (0, 0, 0, 0u32), (23, 59, 59, 999_999_999), (0, 0, 0, 1), (0, 0, 1, 0), (0, 1, 0, 0), (1, 0, 0, 0), (12, 30, 45, 500_000_000),
        (255, 255, 255, u32::MAX), (0, 0, 0, 1_000_000_000), (0, 0, 59, 0), (0, 59, 0, 0),
    ];
    for (h, mi, s, n) in times {
        p.push(Time(vibesql_types::Time { hour: h, minute: mi, second: s, nanosecond: n }));
    }
    for (i, (y, m, d)) in dates.iter().enumerate().take(9) {
        for (h, mi, s, n) in [times[0], times[1], times[(i + 2) % times.len()]] {
            p.push(Timestamp(vibesql_types::Timestamp {
                date: vibesql_types::Date { year: *y, month: *m, day: *d },
                time: vibesql_types::Time { hour: h, minute: mi, second: s, nanosecond: n },
            }));
        }
    }
    for t in [
        "1 MONTH", "30 DAY", "1 YEAR", "12 MONTH", "360 DAY", "1 DAY", "24 HOUR", "1440 MINUTE", "86400 SECOND", "0 DAY", "0 YEAR", "",
        "-1 DAY", "-24 HOUR", "1-6 YEAR TO MONTH", "18 MONTH", "1.5 SECOND", "1.500000 SECOND", "2 SECOND", "31 DAY", "29 DAY", "2 YEAR",
        "2147483647 MONTH", "-2147483648 MONTH", "2147483647 DAY", "-2147483648 DAY", "9223372036854775 SECOND", "-9223372036854775 SECOND",
        "178956970 YEAR", "1 day", "1 DAYS", "garbage", "12:30:45 HOUR TO SECOND", "45045 SECOND", "5 DAY TO HOUR", "5 DAY",
        "2592000 SECOND", "720 HOUR",
    ] {
        p.push(Interval(vibesql_types::Interval::new(t.to_string())));
    }
    p
}

fn random_value(r: &mut Rng) -> SqlValue {
    use SqlValue::*;
    let small = |r: &mut Rng| r.range(-3, 3);
    match r.below(16) {
        0 => Integer(if r.chance(1, 2) { small(r) } else { r.next() as i64 }),
        1 => Smallint(if r.chance(1, 2) { small(r) as i16 } else { r.next() as i16 }),
        2 => Bigint(if r.chance(1, 2) { small(r) } else { r.next() as i64 }),
        3 => Unsigned(if r.chance(1, 2) { r.below(4) } else { r.next() }),
        4 => Numeric(rand_f64(r)),
        5 => Float(rand_f32(r)),
        6 => Real(rand_f32(r)),
        7 => Double(rand_f64(r)),
        8 => Character(rand_str(r)),
        9 => Varchar(rand_str(r)),
        10 => Boolean(r.chance(1, 2)),
        11 => Date(rand_date(r)),
        12 => Time(rand_time(r)),
        13 => Timestamp(vibesql_types::Timestamp { date: rand_date(r), time: rand_time(r) }),
        14 => {
            let units = ["YEAR", "MONTH", "DAY", "HOUR", "MINUTE", "SECOND", "MONTHS", "days", "Hours"];
            let n = match r.below(4) {
                0 => r.range(-3, 40),
                1 => r.range(-100000, 100000),
                2 => *r.pick(&[12i64, 24, 30, 60, 360, 720, 1440, 3600, 86400, 2592000]),
                _ => r.range(0, 3),
            };
            let t = if r.chance(1, 8) {
                format!("{}-{} YEAR TO MONTH", r.range(0, 5), r.range(0, 14))
            } else if r.chance(1, 8) {
                format!("{}:{}:{} HOUR TO SECOND", r.range(0, 30), r.range(0, 70), r.range(0, 70))
            } else {
                format!("{} {}", n, r.pick(&units))
            };
            Interval(vibesql_types::Interval::new(t))
        }
        _ => Null,
    }
}
fn rand_f64(r: &mut Rng) -> f64 {
    match r.below(5) {
        0 => f64::from_bits(r.next()),
        1 => r.range(-4, 4) as f64 / 2.0,
        2 => f64::from_bits(r.below(4) | (r.below(2) << 63)),
        3 => f64::from_bits(0x7ff0000000000000 | r.below(3) | (r.below(2) << 63)),
        _ => (r.next() as i64) as f64,
    }
}
fn rand_f32(r: &mut Rng) -> f32 {
    match r.below(5) {
        0 => f32::from_bits(r.next() as u32),
        1 => r.range(-4, 4) as f32 / 2.0,
        2 => f32::from_bits((r.below(4) | (r.below(2) << 31)) as u32),
        3 => f32::from_bits((0x7f800000 | r.below(3) | (r.below(2) << 31)) as u32),
        _ => (r.next() as i32) as f32,
    }
}
fn rand_str(r: &mut Rng) -> String {
    let alpha = ['a', 'b', 'A', '\0', 'é', 'z', ' ', '\u{800}', '\u{10000}', '~'];
    let n = r.below(4);
    (0..n).map(|_| *r.pick(&alpha)).collect()
}
fn rand_date(r: &mut Rng) -> Date {
    Date {
        year: if r.chance(3, 4) { r.range(2023, 2025) as i32 } else { r.next() as i32 },
        month: if r.chance(3, 4) { r.range(1, 3) as u8 } else { r.next() as u8 },
        day: if r.chance(3, 4) { r.range(1, 3) as u8 } else { r.next() as u8 },
    }
}
fn rand_time(r: &mut Rng) -> Time {
    Time {
        hour: if r.chance(3, 4) { r.range(0, 2) as u8 } else { r.next() as u8 },
        minute: if r.chance(3, 4) { r.range(0, 2) as u8 } else { r.next() as u8 },
        second: if r.chance(3, 4) { r.range(0, 2) as u8 } else { r.next() as u8 },
        nanosecond: if r.chance(3, 4) { r.range(0, 2) as u32 } else { r.next() as u32 },
    }
}

/// decode the protocol form back to a value (replay files)
fn from_sx(s: &Sx) -> Option<SqlValue> {
    use SqlValue::*;
    if s.as_atom() == Some("null") {
        return Some(Null);
    }
    let l = s.as_list()?;
    let tag = l.first()?.as_atom()?;
    let int = |i: usize| -> Option<i128> { l.get(i)?.as_atom()?.parse().ok() };
    let fl = |x: &Sx| -> Option<(bool, bool, bool, u64, i64)> {
        // (is_nan, is_inf, neg, m, e)
        if x.as_atom() == Some("nan") {
            return Some((true, false, false, 0, 0));
        }
        let v = x.as_list()?;
        let neg = v.get(1)?.as_atom()? == "1";
        match v.first()?.as_atom()? {
            "inf" => Some((false, true, neg, 0, 0)),
            "fin" => Some((false, false, neg, v.get(2)?.as_atom()?.parse().ok()?, v.get(3)?.as_atom()?.parse().ok()?)),
            _ => None,
        }
    };
    let f64_of = |x: &Sx| -> Option<f64> {
        let (nan, inf, neg, m, e) = fl(x)?;
        let mag = if nan { f64::NAN } else if inf { f64::INFINITY } else { (m as f64) * (2f64).powi(e as i32 / 2) * (2f64).powi(e as i32 - e as i32 / 2) };
        Some(if neg { -mag } else { mag })
    };
    let strv = |i: usize| -> Option<String> { String::from_utf8(unhex(l.get(i)?.as_atom()?)?).ok() };
    Some(match tag {
        "integer" => Integer(int(1)? as i64),
        "smallint" => Smallint(int(1)? as i16),
        "bigint" => Bigint(int(1)? as i64),
        "unsigned" => Unsigned(int(1)? as u64),
        "numeric" => Numeric(f64_of(l.get(1)?)?),
        "double" => Double(f64_of(l.get(1)?)?),
        "float" => Float(f64_of(l.get(1)?)? as f32),
        "real" => Real(f64_of(l.get(1)?)? as f32),
        "character" => Character(strv(1)?),
        "varchar" => Varchar(strv(1)?),
        "boolean" => Boolean(int(1)? == 1),
        "date" => Date(vibesql_types::Date { year: int(1)? as i32, month: int(2)? as u8, day: int(3)? as u8 }),
        "time" => Time(vibesql_types::Time { hour: int(1)? as u8, minute: int(2)? as u8, second: int(3)? as u8, nanosecond: int(4)? as u32 }),
        "timestamp" => Timestamp(vibesql_types::Timestamp {
            date: vibesql_types::Date { year: int(1)? as i32, month: int(2)? as u8, day: int(3)? as u8 },
            time: vibesql_types::Time { hour: int(4)? as u8, minute: int(5)? as u8, second: int(6)? as u8, nanosecond: int(7)? as u32 },
        }),
        "interval" => Interval(vibesql_types::Interval::new(strv(1)?)),
        _ => return None,
    })
}

struct Pool {
    vals: Vec<SqlValue>,
    sx: Vec<String>,
    eq: Vec<Vec<bool>>,
    cmp: Vec<Vec<Ordering>>,
    hash: Vec<u64>,
    bytes: Vec<Vec<u8>>,
}

fn build_pool(vals: Vec<SqlValue>) -> Pool {
    let n = vals.len();
    let sx: Vec<String> = vals.iter().map(to_sx).collect();
    let mut eq = vec![vec![false; n]; n];
    let mut cmp = vec![vec![Ordering::Equal; n]; n];
    for i in 0..n {
        for j in 0..n {
            eq[i][j] = vals[i] == vals[j];
            cmp[i][j] = vals[i].cmp(&vals[j]);
        }
    }
    let hash = vals.iter().map(std_hash).collect();
    let bytes = vals.iter().map(rec_bytes).collect();
    Pool { vals, sx, eq, cmp, hash, bytes }
}

fn interval_class(a: &SqlValue, b: &SqlValue) -> bool {
    // the excluded region of C21_cmp_eq_iff_eqv_partial, narrowed to what the counterexample
    // theorem exhibits: two intervals with the same cmp_value and different (months, days, µs)
    if let (SqlValue::Interval(x), SqlValue::Interval(y)) = (a, b) {
        let (m1, d1, u1) = interval_nums(x);
        let (m2, d2, u2) = interval_nums(y);
        let cv = |m: i64, d: i64, u: i64| (m as i128 * 30 + d as i128) * 86_400_000_000i128 + u as i128;
        (m1, d1, u1) != (m2, d2, u2) && cv(m1, d1, u1) == cv(m2, d2, u2)
    } else {
        false
    }
}

fn pair_replay(p: &Pool, i: usize, j: usize, model: Option<char>) -> String {
    format!(
        "a = {}\nb = {}\nvalue: {}\nvalue: {}\nreal: a==b {}  b==a {}  a.cmp(b) {:?}  b.cmp(a) {:?}  hash(a)==hash(b) {}  hasher input a {} b {}\nmodel (cmp a b: l/e/g, upper case = eqv): {}\nre-run: ./check C21 --replay <this file>   |   echo 'matrix {} {}' | lean/.lake/build/bin/drv_c21",
        show(&p.vals[i]), show(&p.vals[j]), p.sx[i], p.sx[j], p.eq[i][j], p.eq[j][i], p.cmp[i][j], p.cmp[j][i],
        p.hash[i] == p.hash[j], hx(&p.bytes[i]), hx(&p.bytes[j]),
        model.map(|c| c.to_string()).unwrap_or("-".into()), p.sx[i], p.sx[j]
    )
}

fn check_pool(p: &Pool, model: &mut model::Model, rep: &mut Report, label: &str) -> Option<Vec<Vec<char>>> {
    let n = p.vals.len();
    // ---------- model ----------
    let reply = model.ask(&format!("matrix {}", p.sx.join(" ")));
    let parsed = Sx::parse(&reply);
    let mut mrows: Option<Vec<Vec<char>>> = None;
    let mut mhash: Option<Vec<String>> = None;
    if let Some(Sx::List(top)) = &parsed {
        if top.len() == 3 && top[0].as_atom() == Some("matrix") {
            if let (Some(h), Some(r)) = (top[1].as_list(), top[2].as_list()) {
                mhash = Some(h[1..].iter().map(|x| x.as_atom().unwrap_or("?").to_string()).collect());
                mrows = Some(r[1..].iter().map(|x| x.as_atom().unwrap_or("").chars().collect()).collect());
            }
        }
    }
    match (&mrows, &mhash) {
        (Some(r), Some(h)) if r.len() == n && h.len() == n && r.iter().all(|x| x.len() == n) => {}
        _ => {
            rep.fail(FailKind::ModelDiff, None, "model driver rejected the value pool", &format!("{}: request had {} values; reply: {}", label, n, &reply[..reply.len().min(400)]));
            return None;
        }
    }
    let mrows = mrows.unwrap();
    let mhash = mhash.unwrap();
    for i in 0..n {
        rep.traces_validated += 1;
        if hx(&p.bytes[i]) != mhash[i] {
            rep.fail(
                FailKind::ModelDiff,
                None,
                &format!("bytes fed to the hasher differ from the model's hashWords ({})", variant(&p.vals[i])),
                &format!("v = {}\nvalue: {}\nreal hasher input: {}\nmodel hashWords bytes: {}", show(&p.vals[i]), p.sx[i], hx(&p.bytes[i]), mhash[i]),
            );
        }
    }
    // ---------- pairs ----------
    for i in 0..n {
        for j in 0..n {
            let (a, b) = (&p.vals[i], &p.vals[j]);
            let same = variant(a) == variant(b);
            rep.case(&format!("{} {}", p.sx[i], p.sx[j]), i != j && p.sx[i] != p.sx[j]);
            rep.count(if same { "pairs_same_variant" } else { "pairs_cross_variant" });
            match p.cmp[i][j] {
                Ordering::Less => rep.count("real_cmp_less"),
                Ordering::Equal => rep.count("real_cmp_equal"),
                Ordering::Greater => rep.count("real_cmp_greater"),
            }
            if p.eq[i][j] && p.sx[i] != p.sx[j] {
                rep.count("pairs_equal_but_not_identical");
            }
            let real = ord_char(p.cmp[i][j], p.eq[i][j]);
            if real != mrows[i][j] {
                rep.fail(
                    FailKind::ModelDiff,
                    None,
                    &format!("real ==/cmp differ from the model on a ({}, {}) pair: real {} model {}", variant(a), variant(b), real, mrows[i][j]),
                    &pair_replay(p, i, j, Some(mrows[i][j])),
                );
            }
            // model: eqv ⇒ equal hashWords; real: == ⇒ equal hasher input (checked below)
            // ---------- direct oracle on the real answers ----------
            if i == j && !p.eq[i][j] {
                rep.fail(FailKind::Oracle, None, &format!("== is not reflexive ({})", variant(a)), &pair_replay(p, i, j, None));
            }
            if p.eq[i][j] != p.eq[j][i] {
                rep.fail(FailKind::Oracle, None, &format!("== is not symmetric ({}, {})", variant(a), variant(b)), &pair_replay(p, i, j, None));
            }
            if p.cmp[j][i] != p.cmp[i][j].reverse() {
                rep.fail(FailKind::Oracle, None, &format!("cmp(b,a) is not the reverse of cmp(a,b) ({}, {})", variant(a), variant(b)), &pair_replay(p, i, j, None));
            }
            if (p.cmp[i][j] == Ordering::Equal) != p.eq[i][j] {
                let sig = if p.cmp[i][j] == Ordering::Equal && !p.eq[i][j] && interval_class(a, b) { Some(SIG_INTERVAL) } else { None };
                rep.fail(
                    FailKind::Oracle,
                    sig,
                    &format!("cmp == Equal disagrees with == ({}, {})", variant(a), variant(b)),
                    &pair_replay(p, i, j, None),
                );
            }
            if p.eq[i][j] && (p.hash[i] != p.hash[j] || p.bytes[i] != p.bytes[j]) {
                rep.fail(FailKind::Oracle, None, &format!("equal values hash differently ({})", variant(a)), &pair_replay(p, i, j, None));
            }
            if same {
                // SQL comparison: partial_cmp is either None or agrees with the total order
                if let Some(o) = a.partial_cmp(b) {
                    if o != p.cmp[i][j] {
                        rep.fail(FailKind::Oracle, None, &format!("partial_cmp disagrees with cmp ({})", variant(a)), &pair_replay(p, i, j, None));
                    }
                }
            }
        }
    }
    Some(mrows)
}

fn triple_laws(p: &Pool, i: usize, j: usize, k: usize, rep: &mut Report) {
    let le = |x: usize, y: usize| p.cmp[x][y] != Ordering::Greater;
    let mut bad: Vec<(&str, Option<&str>)> = vec![];
    if p.eq[i][j] && p.eq[j][k] && !p.eq[i][k] {
        bad.push(("== is not transitive", None));
    }
    if le(i, j) && le(j, k) && !le(i, k) {
        bad.push(("<= of cmp is not transitive", None));
    }
    if p.cmp[i][j] == Ordering::Less && p.cmp[j][k] == Ordering::Less && p.cmp[i][k] != Ordering::Less {
        bad.push(("< of cmp is not transitive", None));
    }
    if p.cmp[i][j] == Ordering::Equal && p.cmp[i][k] != p.cmp[j][k] {
        bad.push(("values comparing Equal are ordered differently against a third value", None));
    }
    for (what, sig) in bad {
        rep.fail(
            FailKind::Oracle,
            sig,
            &format!("{} ({}, {}, {})", what, variant(&p.vals[i]), variant(&p.vals[j]), variant(&p.vals[k])),
            &format!(
                "a = {}\nb = {}\nc = {}\nvalue: {}\nvalue: {}\nvalue: {}\na==b {} b==c {} a==c {}\ncmp(a,b) {:?} cmp(b,c) {:?} cmp(a,c) {:?}",
                show(&p.vals[i]), show(&p.vals[j]), show(&p.vals[k]), p.sx[i], p.sx[j], p.sx[k],
                p.eq[i][j], p.eq[j][k], p.eq[i][k], p.cmp[i][j], p.cmp[j][k], p.cmp[i][k]
            ),
        );
    }
}

/// number of classes of a relation given as a matrix over `idx`
fn classes(idx: &[usize], rel: &dyn Fn(usize, usize) -> bool) -> Vec<Vec<usize>> {
    let mut out: Vec<Vec<usize>> = vec![];
    for &i in idx {
        match out.iter_mut().find(|c| rel(c[0], i)) {
            Some(c) => c.push(i),
            None => out.push(vec![i]),
        }
    }
    out
}

fn sql_type(v: &SqlValue) -> Option<&'static str> {
    use SqlValue::*;
    Some(match v {
        Integer(_) => "INTEGER",
        Smallint(_) => "SMALLINT",
        Bigint(_) => "BIGINT",
        Unsigned(_) => "BIGINT UNSIGNED",
        Numeric(_) => "NUMERIC",
        Float(_) => "FLOAT",
        Real(_) => "REAL",
        Double(_) => "DOUBLE PRECISION",
        Character(_) => "CHAR(8)",
        Varchar(_) => "VARCHAR(40)",
        Boolean(_) => "BOOLEAN",
        Date(_) => "DATE",
        Time(_) => "TIME",
        Timestamp(_) => "TIMESTAMP",
        Interval(_) => "INTERVAL DAY",
        Null => return None,
    })
}

/// End to end: a one-column table holding pool values of one variant (+ NULLs, duplicates);
/// DISTINCT / GROUP BY / UNION must return exactly one row per class of `==`.
fn end_to_end(p: &Pool, mrows: &Option<Vec<Vec<char>>>, rep: &mut Report, rng: &mut Rng, per_type: usize) {
    let kinds = ["INTEGER", "SMALLINT", "BIGINT", "UNSIGNED", "NUMERIC", "FLOAT", "REAL", "DOUBLE PRECISION", "CHAR", "VARCHAR", "BOOLEAN", "DATE", "TIME", "TIMESTAMP", "INTERVAL"];
    let null_idx = p.vals.iter().position(|v| v.is_null());
    for kind in kinds {
        let mut idx: Vec<usize> = (0..p.vals.len()).filter(|&i| variant(&p.vals[i]) == kind).collect();
        if idx.is_empty() {
            continue;
        }
        // specials first (they are at the front of the pool), then a random sample; then duplicates and NULLs
        let keep_front = idx.len().min(per_type / 2);
        let mut tail: Vec<usize> = idx.split_off(keep_front);
        rng.shuffle(&mut tail);
        idx.extend(tail.into_iter().take(per_type - keep_front));
        let dups: Vec<usize> = (0..idx.len() / 3 + 1).map(|_| *rng.pick(&idx)).collect();
        idx.extend(dups);
        if let Some(n) = null_idx {
            idx.push(n);
            idx.push(n);
        }
        rng.shuffle(&mut idx);
        let ty = match sql_type(&p.vals[*idx.iter().find(|&&i| !p.vals[i].is_null()).unwrap()]) {
            Some(t) => t,
            None => continue,
        };
        let mut db = Db::new();
        let create = format!("CREATE TABLE e (v {})", ty);
        if !db.exec(&create).is_ok() {
            rep.count(&format!("e2e_create_rejected_{}", kind.replace(' ', "_")));
            continue;
        }
        let mut ok = true;
        for &i in &idx {
            let row = vibesql_storage::Row::new(vec![p.vals[i].clone()]);
            let r = catch_unwind(AssertUnwindSafe(|| db.db.insert_row("E", row)));
            if !matches!(r, Ok(Ok(_))) {
                if std::env::var("C21_DEBUG").is_ok() {
                    eprintln!("insert {} into {}: {:?}", show(&p.vals[i]), ty, r.map_err(|_| "panic"));
                }
                ok = false;
                break;
            }
        }
        if !ok {
            rep.count(&format!("e2e_insert_rejected_{}", kind.replace(' ', "_")));
            continue;
        }
        let stored = match db.scan("e") {
            Some(s) if s.len() == idx.len() && s.iter().zip(&idx).all(|(r, &i)| r.len() == 1 && rec_bytes(&r[0]) == p.bytes[i] && variant(&r[0]) == variant(&p.vals[i])) => s,
            _ => {
                rep.count(&format!("e2e_storage_changed_values_{}", kind.replace(' ', "_")));
                continue;
            }
        };
        let _ = stored;
        let real_classes = classes(&idx, &|a, b| p.eq[a][b]);
        let model_classes = mrows.as_ref().map(|m| classes(&idx, &|a, b| m[a][b].is_ascii_uppercase()).len());
        let script = || {
            format!(
                "{};\n-- rows inserted through Database::insert_row, in this order:\n{}\n",
                create,
                idx.iter().map(|&i| format!("--   {}    value: {}", show(&p.vals[i]), p.sx[i])).collect::<Vec<_>>().join("\n")
            )
        };
        let queries = [
            ("distinct", "SELECT DISTINCT v FROM e"),
            ("group_by", "SELECT v, COUNT(*) FROM e GROUP BY v"),
            ("union", "SELECT v FROM e UNION SELECT v FROM e"),
            ("count_distinct", "SELECT COUNT(DISTINCT v) FROM e"),
        ];
        for (name, q) in queries {
            let out = db.query(q);
            let case_id = format!("e2e {} {} {}", name, kind, idx.iter().map(|&i| p.sx[i].clone()).collect::<Vec<_>>().join(" "));
            let rows = match &out {
                Out::Rows(r) => r,
                Out::Panic(m) => {
                    rep.case(&case_id, true);
                    rep.fail(FailKind::Oracle, None, &format!("engine panicked in {} over {}", name, kind), &format!("{}{};\n=> panic {}", script(), q, m));
                    continue;
                }
                _ => {
                    rep.case(&case_id, false);
                    rep.count(&format!("e2e_query_error_{}_{}", name, kind.replace(' ', "_")));
                    continue;
                }
            };
            rep.case(&case_id, real_classes.len() < idx.len() && real_classes.len() > 1);
            rep.count(&format!("e2e_{}_{}", name, kind.replace(' ', "_")));
            let fail = |rep: &mut Report, what: &str, kindf: FailKind| {
                rep.fail(kindf, None, &format!("{} over a {} column: {}", name, kind, what), &format!("{}{};\n=> {}\nclasses of == among the inserted values: {}", script(), q, out.brief(), real_classes.len()));
            };
            if name == "count_distinct" {
                // COUNT(DISTINCT v) ignores NULL
                let non_null = real_classes.iter().filter(|c| !p.vals[c[0]].is_null()).count() as i64;
                let got = rows.first().and_then(|r| r.first()).map(|v| canon::val(v));
                if got != Some(format!("I{}", non_null)) {
                    fail(rep, &format!("expected {} distinct non-NULL values", non_null), FailKind::Oracle);
                }
                continue;
            }
            // one output row per class: outputs pairwise not ==, every input == some output
            let outs: Vec<&SqlValue> = rows.iter().filter_map(|r| r.first()).collect();
            let mut bad = None;
            for (a, x) in outs.iter().enumerate() {
                for y in outs.iter().skip(a + 1) {
                    if x == y {
                        bad = Some(format!("two output rows are == : {} and {}", show(x), show(y)));
                    }
                }
            }
            for &i in &idx {
                if !outs.iter().any(|o| **o == p.vals[i]) {
                    bad = Some(format!("input value {} has no == output row", show(&p.vals[i])));
                }
            }
            if outs.len() != real_classes.len() && bad.is_none() {
                bad = Some(format!("{} output rows for {} classes", outs.len(), real_classes.len()));
            }
            if name == "group_by" && bad.is_none() {
                for r in rows.iter() {
                    let size = real_classes.iter().find(|c| p.vals[c[0]] == r[0]).map(|c| c.len() as i64);
                    if Some(canon::val(&r[1])) != size.map(|s| format!("I{}", s)) {
                        bad = Some(format!("group of {} has COUNT(*) {} but its class has {:?} rows", show(&r[0]), canon::val(&r[1]), size));
                    }
                }
            }
            if let Some(b) = bad {
                fail(rep, &b, FailKind::Oracle);
            }
            if let Some(mc) = model_classes {
                rep.traces_validated += 1;
                if mc != outs.len() {
                    fail(rep, &format!("model has {} eqv classes, engine returned {} rows", mc, outs.len()), FailKind::ModelDiff);
                }
            }
        }
    }
}

fn main() {
    let args = Args::parse("C21");
    let mut rep = Report::new(
        &args,
        "pair case: two different pool values (all ordered pairs of the pool are run; identical entries are trivial); triple case: three pairwise different pool values; e2e case: the column holds at least two classes of == and at least one class with two rows",
    );
    let mut model = args.model();
    let mut rng = Rng::new(args.seed);

    if let Some(path) = &args.replay {
        let text = std::fs::read_to_string(path).unwrap_or_default();
        let vals: Vec<SqlValue> = text.lines().filter_map(|l| l.trim_start_matches("--").trim().split_once("value: ").map(|x| x.1.to_string())).filter_map(|s| Sx::parse(&s).and_then(|x| from_sx(&x))).collect();
        println!("replaying {} values from {}", vals.len(), path);
        let p = build_pool(vals);
        for i in 0..p.vals.len() {
            println!("  [{}] {}", i, show(&p.vals[i]));
        }
        let m = check_pool(&p, &mut model, &mut rep, "replay");
        for i in 0..p.vals.len() {
            for j in 0..p.vals.len() {
                for k in 0..p.vals.len() {
                    triple_laws(&p, i, j, k, &mut rep);
                }
            }
        }
        end_to_end(&p, &m, &mut rep, &mut rng, 64);
        std::process::exit(rep.finish());
    }

    // ---------------- deterministic probes ----------------
    // (1) the recorded finding: 1 MONTH vs 30 DAY (C21_cmp_eq_iff_eqv_counterexample)
    // (2) the repaired defect: +0.0 / -0.0 of every float variant must hash equally
    let probes = build_pool(vec![
        SqlValue::Interval(Interval::new("1 MONTH".into())),
        SqlValue::Interval(Interval::new("30 DAY".into())),
        SqlValue::Double(0.0),
        SqlValue::Double(-0.0),
        SqlValue::Numeric(0.0),
        SqlValue::Numeric(-0.0),
        SqlValue::Float(0.0),
        SqlValue::Float(-0.0),
        SqlValue::Real(0.0),
        SqlValue::Real(-0.0),
        SqlValue::Double(f64::NAN),
        SqlValue::Double(f64::from_bits(0xfff8000000000001)),
    ]);
    check_pool(&probes, &mut model, &mut rep, "probes");
    rep.sample(serde_json::json!({"probe": "1 MONTH vs 30 DAY", "a": probes.sx[0], "b": probes.sx[1], "real_eq": probes.eq[0][1], "real_cmp": format!("{:?}", probes.cmp[0][1])}));
    rep.sample(serde_json::json!({"probe": "+0.0 vs -0.0 (Double)", "a": probes.sx[2], "b": probes.sx[3], "real_eq": probes.eq[2][3], "real_cmp": format!("{:?}", probes.cmp[2][3]), "hash_equal": probes.hash[2] == probes.hash[3]}));

    // ---------------- the pool: curated specials + random ----------------
    let mut vals = curated();
    let n_curated = vals.len();
    let n_random = args.n(300, 1200) as usize;
    for _ in 0..n_random {
        vals.push(random_value(&mut rng));
    }
    rep.extra.insert("pool_curated".into(), serde_json::json!(n_curated));
    rep.extra.insert("pool_random".into(), serde_json::json!(n_random));
    let p = build_pool(vals);
    for v in &p.vals {
        rep.count(&format!("pool_{}", variant(v).replace(' ', "_")));
    }
    let mrows = check_pool(&p, &mut model, &mut rep, "pool");
    for (i, j) in [(1usize, 2usize), (40, 41), (n_curated - 1, n_curated - 2)] {
        if i < p.vals.len() && j < p.vals.len() {
            rep.sample(serde_json::json!({"a": p.sx[i], "b": p.sx[j], "real_eq": p.eq[i][j], "real_cmp": format!("{:?}", p.cmp[i][j]), "model": mrows.as_ref().map(|m| m[i][j].to_string())}));
        }
    }

    // ---------------- triples ----------------
    // all triples inside every variant's curated group, all triples of one representative set
    // across variants, then random triples biased towards values that are close to each other
    let n = p.vals.len();
    let mut n_triples = 0u64;
    let mut by_variant: std::collections::BTreeMap<&str, Vec<usize>> = Default::default();
    for i in 0..n {
        by_variant.entry(variant(&p.vals[i])).or_default().push(i);
    }
    let cap = args.n(34, 90) as usize;
    for (_, idx) in by_variant.iter() {
        let idx: Vec<usize> = idx.iter().cloned().take(cap).collect();
        for &i in &idx {
            for &j in &idx {
                for &k in &idx {
                    triple_laws(&p, i, j, k, &mut rep);
                    n_triples += 1;
                }
            }
        }
        rep.add("triples_within_variant", (idx.len() * idx.len() * idx.len()) as u64);
    }
    let reps: Vec<usize> = by_variant.values().flat_map(|v| v.iter().cloned().take(3)).collect();
    for &i in &reps {
        for &j in &reps {
            for &k in &reps {
                triple_laws(&p, i, j, k, &mut rep);
                n_triples += 1;
            }
        }
    }
    rep.add("triples_cross_variant_representatives", (reps.len() * reps.len() * reps.len()) as u64);
    let n_rand_triples = args.n(400_000, 6_000_000);
    let mut distinct3 = 0u64;
    for _ in 0..n_rand_triples {
        let i = rng.below(n as u64) as usize;
        let (j, k) = if rng.chance(2, 3) {
            let g = &by_variant[variant(&p.vals[i])];
            (*rng.pick(g), *rng.pick(g))
        } else {
            (rng.below(n as u64) as usize, rng.below(n as u64) as usize)
        };
        triple_laws(&p, i, j, k, &mut rep);
        n_triples += 1;
        if i != j && j != k && i != k {
            distinct3 += 1;
        }
    }
    rep.add("triples_random", n_rand_triples);
    rep.add("triples_random_pairwise_distinct", distinct3);
    rep.evaluations += n_triples;
    rep.extra.insert("triples_checked".into(), serde_json::json!(n_triples));

    // ---------------- end to end ----------------
    end_to_end(&p, &mrows, &mut rep, &mut rng, args.n(24, 60) as usize);

    rep.assumptions.push("std DefaultHasher (SipHash-1-3 with fixed keys) stands for every hasher: the stronger fact compared with the model is the exact byte sequence handed to the Hasher".into());
    rep.assumptions.push("floats reach the model as their exact decomposition sign·m·2^e computed from to_bits(); no float arithmetic is involved".into());
    rep.extra.insert("partial_theorems".into(), serde_json::json!({"C21_cmp_eq_iff_eqv_partial": "excludes pairs of two intervals (cmp_value collapses months/days/µs)"}));
    rep.extra.insert("counterexample_theorems".into(), serde_json::json!(["C21_cmp_eq_iff_eqv_counterexample"]));
    std::process::exit(rep.finish());
}
