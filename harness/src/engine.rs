//! Statement dispatcher over the public executor API (same shape as
//! /repo/tests/sqllogictest/db_adapter.rs and crates/vibesql-cli/src/executor/mod.rs),
//! with catch_unwind per statement.
use std::panic::{catch_unwind, AssertUnwindSafe};

use vibesql_ast::Statement;
use vibesql_parser::Parser;
use vibesql_storage::Database;
use vibesql_types::SqlValue;

#[derive(Clone, Debug)]
pub enum Out {
    Rows(Vec<Vec<SqlValue>>),
    Count(usize),
    /// class = variant name of the error (or "Parse"), msg = Debug text
    Err { class: String, msg: String },
    Panic(String),
}

impl Out {
    pub fn is_ok(&self) -> bool {
        matches!(self, Out::Rows(_) | Out::Count(_))
    }
    pub fn is_err(&self) -> bool {
        matches!(self, Out::Err { .. })
    }
    pub fn is_panic(&self) -> bool {
        matches!(self, Out::Panic(_))
    }
    pub fn rows(&self) -> Option<&Vec<Vec<SqlValue>>> {
        match self {
            Out::Rows(r) => Some(r),
            _ => None,
        }
    }
    pub fn err_class(&self) -> Option<&str> {
        match self {
            Out::Err { class, .. } => Some(class),
            _ => None,
        }
    }
    /// short canonical description: rows are NOT sorted here
    pub fn brief(&self) -> String {
        match self {
            Out::Rows(r) => format!("rows {}", crate::canon::rows_seq(r)),
            Out::Count(n) => format!("count {}", n),
            Out::Err { class, msg } => format!("err {} {}", class, msg),
            Out::Panic(m) => format!("panic {}", m),
        }
    }
}

fn class_of(dbg: &str) -> String {
    dbg.chars().take_while(|c| c.is_alphanumeric() || *c == '_').collect()
}

fn err<E: std::fmt::Debug>(e: E) -> Out {
    let msg = format!("{:?}", e);
    Out::Err { class: class_of(&msg), msg }
}

pub fn silence_panics() {
    // every SelectExecutor allocates a zeroed 10 MB arena; once glibc has raised its dynamic mmap
    // threshold that is a 10 MB memset per query. A fixed threshold keeps the allocation an
    // anonymous mmap (zero pages on demand): SELECT-heavy loops run several times faster.
    unsafe {
        libc::mallopt(libc::M_MMAP_THRESHOLD, 1 << 20);
        // and the engine frees a large top-of-heap block per statement: keep glibc from trimming and
        // regrowing the heap every time
        libc::mallopt(libc::M_TRIM_THRESHOLD, 1 << 30);
        libc::mallopt(libc::M_TOP_PAD, 64 << 20);
    }
    if std::env::var("VERIF_SHOW_PANICS").is_ok() {
        return;
    }
    // harness-precondition panics stay visible; engine panics (caught per statement) are silenced
    std::panic::set_hook(Box::new(|info| {
        let msg = info.to_string();
        if msg.contains("harness precondition") || msg.contains("model driver") {
            eprintln!("{}", msg);
        }
    }));
}

pub fn panic_text(p: Box<dyn std::any::Any + Send>) -> String {
    if let Some(s) = p.downcast_ref::<&str>() {
        s.to_string()
    } else if let Some(s) = p.downcast_ref::<String>() {
        s.clone()
    } else {
        "<non-string panic>".into()
    }
}

pub struct Db {
    pub db: Database,
    /// every statement executed, in order (for replay files)
    pub log: Vec<String>,
    pub keep_log: bool,
}

impl Default for Db {
    fn default() -> Self {
        Self::new()
    }
}

impl Db {
    pub fn new() -> Db {
        Db { db: Database::new(), log: vec![], keep_log: true }
    }
    pub fn from(db: Database) -> Db {
        Db { db, log: vec![], keep_log: true }
    }

    pub fn parse(sql: &str) -> Result<Statement, Out> {
        match catch_unwind(|| Parser::parse_sql(sql)) {
            Ok(Ok(s)) => Ok(s),
            Ok(Err(e)) => Err(Out::Err { class: "Parse".into(), msg: format!("{:?}", e) }),
            Err(p) => Err(Out::Panic(format!("parser: {}", panic_text(p)))),
        }
    }

    pub fn exec(&mut self, sql: &str) -> Out {
        if self.keep_log {
            self.log.push(sql.to_string());
        }
        let stmt = match Db::parse(sql) {
            Ok(s) => s,
            Err(o) => return o,
        };
        self.exec_stmt(&stmt)
    }

    /// execute and expect success; panics (harness bug / precondition) otherwise
    pub fn must(&mut self, sql: &str) -> Out {
        let o = self.exec(sql);
        if !o.is_ok() {
            panic!("harness precondition: statement failed: {} => {}", sql, o.brief());
        }
        o
    }

    pub fn query(&mut self, sql: &str) -> Out {
        self.exec(sql)
    }

    pub fn exec_stmt(&mut self, stmt: &Statement) -> Out {
        let db = &mut self.db;
        match catch_unwind(AssertUnwindSafe(|| dispatch(db, stmt))) {
            Ok(o) => o,
            Err(p) => Out::Panic(panic_text(p)),
        }
    }

    /// all rows of a table in storage order (no SQL involved)
    pub fn scan(&self, table: &str) -> Option<Vec<Vec<SqlValue>>> {
        self.db.get_table(table).map(|t| t.scan().iter().map(|r| r.values.clone()).collect())
    }
}

fn dispatch(db: &mut Database, stmt: &Statement) -> Out {
    use vibesql_executor as ex;
    macro_rules! unit {
        ($e:expr) => {
            match $e {
                Ok(_) => Out::Count(0),
                Err(e) => err(e),
            }
        };
    }
    macro_rules! count {
        ($e:expr) => {
            match $e {
                Ok(n) => Out::Count(n as usize),
                Err(e) => err(e),
            }
        };
    }
    match stmt {
        Statement::Select(s) => {
            let exec = ex::SelectExecutor::new(db);
            match exec.execute(s) {
                Ok(rows) => Out::Rows(rows.into_iter().map(|r| r.values).collect()),
                Err(e) => err(e),
            }
        }
        Statement::CreateTable(s) => unit!(ex::CreateTableExecutor::execute(s, db)),
        Statement::Insert(s) => count!(ex::InsertExecutor::execute(db, s)),
        Statement::Update(s) => count!(ex::UpdateExecutor::execute(s, db)),
        Statement::Delete(s) => count!(ex::DeleteExecutor::execute(s, db)),
        Statement::DropTable(s) => unit!(ex::DropTableExecutor::execute(s, db)),
        Statement::TruncateTable(s) => count!(ex::TruncateTableExecutor::execute(s, db)),
        Statement::AlterTable(s) => unit!(ex::AlterTableExecutor::execute(s, db)),
        Statement::CreateSchema(s) => unit!(ex::SchemaExecutor::execute_create_schema(s, db)),
        Statement::DropSchema(s) => unit!(ex::SchemaExecutor::execute_drop_schema(s, db)),
        Statement::SetSchema(s) => unit!(ex::SchemaExecutor::execute_set_schema(s, db)),
        Statement::Grant(s) => unit!(ex::GrantExecutor::execute_grant(s, db)),
        Statement::Revoke(s) => unit!(ex::RevokeExecutor::execute_revoke(s, db)),
        Statement::CreateRole(s) => unit!(ex::RoleExecutor::execute_create_role(s, db)),
        Statement::DropRole(s) => unit!(ex::RoleExecutor::execute_drop_role(s, db)),
        Statement::CreateView(s) => unit!(ex::advanced_objects::execute_create_view(s, db)),
        Statement::DropView(s) => unit!(ex::advanced_objects::execute_drop_view(s, db)),
        Statement::CreateIndex(s) => unit!(ex::IndexExecutor::execute(s, db)),
        Statement::DropIndex(s) => unit!(ex::IndexExecutor::execute_drop(s, db)),
        Statement::Analyze(s) => unit!(ex::AnalyzeExecutor::execute(s, db)),
        Statement::Reindex(s) => unit!(ex::IndexExecutor::execute_reindex(s, db)),
        Statement::CreateTrigger(s) => unit!(ex::TriggerExecutor::create_trigger(db, s)),
        Statement::DropTrigger(s) => unit!(ex::TriggerExecutor::drop_trigger(db, s)),
        Statement::BeginTransaction(_) => unit!(db.begin_transaction()),
        Statement::Commit(_) => unit!(db.commit_transaction()),
        Statement::Rollback(_) => unit!(db.rollback_transaction()),
        Statement::Savepoint(s) => unit!(db.create_savepoint(s.name.clone())),
        Statement::RollbackToSavepoint(s) => unit!(db.rollback_to_savepoint(s.name.clone())),
        Statement::ReleaseSavepoint(s) => unit!(db.release_savepoint(s.name.clone())),
        other => Out::Err {
            class: "HarnessUnsupported".into(),
            msg: format!("{:?}", std::mem::discriminant(other)),
        },
    }
}
