import VibeProof.Model.Proto
import VibeProof.Model.Text
/-
Protocol glue for the text model (C19, C31, C30): s-expressions <-> strings, pieces, literal
values, bound parameters.  Not part of any theorem.
-/
namespace VibeProof.TextCodec
open VibeProof.Proto VibeProof.Text

def sxChars (cs : Str) : Sx := .atom (charsToHex cs)

def decChars : Sx → Option Str
  | .atom h => hexToChars h
  | _ => none

def decBool : Sx → Option Bool
  | .atom "1" => some true
  | .atom "0" => some false
  | _ => none

def encLexErr : LexErr → Sx
  | .unterminated => .list [.atom "err", .atom "unterminated"]
  | .emptyIdent => .list [.atom "err", .atom "emptyident"]
  | .notAString => .list [.atom "err", .atom "notastring"]

def encPiece : Piece → Sx
  | .ch c => .list [.atom "c", sxChars [c]]
  | .str s => .list [.atom "s", sxChars s]
  | .ident s => .list [.atom "i", sxChars s]
  | .hole => .atom "hole"

/-- consecutive one-character pieces are merged: the real lexer groups them into words, numbers
and operators, and drops the blanks between them -/
def mergePieces : List Piece → List Sx
  | [] => []
  | .ch c :: rest =>
    match mergePieces rest with
    | .list [.atom "o", .atom h] :: more =>
      .list [.atom "o", .atom (charsToHex (c :: ((hexToChars h).getD [])))] :: more
    | more => .list [.atom "o", sxChars [c]] :: more
  | p :: rest => encPiece p :: mergePieces rest

def encScan : Except LexErr (List Piece) → Sx
  | .ok ps => .list (.atom "pieces" :: mergePieces ps)
  | .error e => encLexErr e

/-! literal values -/
open Lit in
def decTy : Sx → Option Lit.Ty
  | .atom "integer" => some .integer | .atom "smallint" => some .smallint
  | .atom "bigint" => some .bigint | .atom "numeric" => some .numeric
  | .atom "float" => some .float | .atom "real" => some .real | .atom "double" => some .double
  | .atom "varchar" => some .varchar | .atom "character" => some .character
  | .atom "boolean" => some .boolean | .atom "date" => some .date | .atom "time" => some .time
  | .atom "timestamp" => some .timestamp
  | _ => none

def decVal : Sx → Option Lit.Val
  | .atom "null" => some .null
  | .atom "nan" => some .nan
  | .atom "numnan" => some .numNan
  | .list [.atom "int", n, ds] => do pure (.int (← decBool n) (← decChars ds))
  | .list [.atom "num", n, i, f] => do pure (.num ⟨← decBool n, ← decChars i, ← decChars f⟩)
  | .list [.atom "inf", n] => do pure (.inf (← decBool n))
  | .list [.atom "numinf", n] => do pure (.numInf (← decBool n))
  | .list [.atom "str", s] => do pure (.str (← decChars s))
  | .list [.atom "bool", b] => do pure (.bool (← decBool b))
  | .list [.atom "date", s] => do pure (.date (← decChars s))
  | .list [.atom "time", s] => do pure (.time (← decChars s))
  | .list [.atom "timestamp", s] => do pure (.timestamp (← decChars s))
  | _ => none

def encVal : Lit.Val → Sx
  | .null => .atom "null"
  | .nan => .atom "nan"
  | .numNan => .atom "numnan"
  | .int n ds => .list [.atom "int", sxBool n, sxChars ds]
  | .num d => .list [.atom "num", sxBool d.neg, sxChars d.int, sxChars d.frac]
  | .inf n => .list [.atom "inf", sxBool n]
  | .numInf n => .list [.atom "numinf", sxBool n]
  | .str s => .list [.atom "str", sxChars s]
  | .bool b => .list [.atom "bool", sxBool b]
  | .date s => .list [.atom "date", sxChars s]
  | .time s => .list [.atom "time", sxChars s]
  | .timestamp s => .list [.atom "timestamp", sxChars s]

def digitsToNat (ds : Str) : Option Nat := (String.ofList ds).toNat?

/-- `num_str.parse::<i64>()` succeeds on an all-digit text -/
def fitsI64 (ds : Str) : Bool :=
  match digitsToNat ds with
  | some n => n ≤ 9223372036854775807
  | none => false

/-- the i16 range test of `coerce_value` -/
def fitsI16 (neg : Bool) (ds : Str) : Bool :=
  match digitsToNat ds with
  | some n => if neg then n ≤ 32768 else n ≤ 32767
  | none => false

def encLoadErr : Lit.LoadErr → Sx
  | .complexExpression => .list [.atom "err", .atom "complex"]
  | .columnReference => .list [.atom "err", .atom "columnref"]
  | .typeMismatch => .list [.atom "err", .atom "typemismatch"]
  | .outOfRange => .list [.atom "err", .atom "range"]
  | .negateNonNumber => .list [.atom "err", .atom "negate"]

/-! bound parameters -/
def decPVal : Sx → Option Bind.PVal
  | .atom "null" => some .null
  | .list [.atom "num", n, body] => do pure (.num (← decBool n) (← decChars body))
  | .list [.atom "str", s] => do pure (.str (← decChars s))
  | .list [.atom "bool", b] => do pure (.bool (← decBool b))
  | _ => none

def decPVals : Sx → Option (List Bind.PVal)
  | .list xs => xs.mapM decPVal
  | _ => none

def decStrList : Sx → Option (List Str)
  | .list xs => xs.mapM decChars
  | _ => none

def decRows : Sx → Option (List (List Str))
  | .list xs => xs.mapM decStrList
  | _ => none

def encStrList (xs : List Str) : Sx := .list (xs.map sxChars)
def encRows (rs : List (List Str)) : Sx := .list (rs.map encStrList)

end VibeProof.TextCodec
