//! tiny reproduction bin for index/transaction probes (scratch; not part of a check)
use vharness::Db;

fn show(db: &mut Db, sql: &str) {
    let o = db.exec(sql);
    println!("{:<60} => {}", sql, o.brief());
}

fn main() {
    let script: Vec<String> = std::env::args().skip(1).collect();
    let mut db = Db::new();
    if !script.is_empty() {
        for s in script {
            show(&mut db, &s);
        }
        println!("tables: {:?} stored: {:?}", db.db.list_tables(), { let mut k: Vec<_> = db.db.tables.keys().cloned().collect(); k.sort(); k });
        println!("indexes: {:?}", db.db.list_indexes());
        for i in db.db.list_indexes() { println!("  {} on {:?}", i, db.db.get_index(&i).map(|m| m.table_name.clone())); }
        return;
    }
    for s in [
        "CREATE TABLE q (id INT PRIMARY KEY, v INT)",
        "CREATE INDEX qv ON q (v)",
        "INSERT INTO q VALUES (1, 1)",
        "INSERT INTO q VALUES (2, 2)",
        "INSERT INTO q VALUES (3, 3)",
        "DELETE FROM q WHERE id = 1",
        "SELECT * FROM q WHERE v = 2",
        "SELECT * FROM q WHERE v + 0 = 2",
        "SELECT * FROM q WHERE v = 3",
        "SELECT * FROM q WHERE v + 0 = 3",
    ] {
        show(&mut db, s);
    }
    println!("tables: {:?}", db.db.list_tables());
    println!("indexes: {:?}", db.db.list_indexes());
}
