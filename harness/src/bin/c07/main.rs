//! C07 — aggregates and grouping follow their SQL definitions on every input.
//!
//! Direct oracle (real engine only, no model): the result of every aggregate statement — without
//! GROUP BY and with GROUP BY one column — is compared with the SQL definitions evaluated by a
//! small reference evaluator written directly in Rust (agg_common::ref_*: COUNT(*) = rows,
//! COUNT(x) = non-NULL, SUM/AVG/MIN/MAX over non-NULL values and NULL when there are none,
//! DISTINCT over distinct non-NULL values, one group per distinct key with NULLs as one group),
//! on both execution paths (columnar gate on and forced off).  Structural checks on the GROUP BY
//! result itself: no key twice, at most one NULL key, COUNT(*) of the groups adds up to the number
//! of selected rows; without GROUP BY exactly one row before HAVING/LIMIT/OFFSET.
//! Correspondence: Lean model (`query`: accumulator pipeline / columnar kernels; `group`:
//! group_rows + accumulators) vs the engine.
#[path = "../c03/agg_common.rs"]
mod agg_common;
use agg_common::*;
use serde_json::json;
use std::collections::BTreeMap;
use vharness::qast::{Lit, Schema};
use vharness::*;

struct Ctx<'a> {
    rep: &'a mut Report,
    model: &'a mut model::Model,
    /// rotates through the vacuous subquery predicates
    vac: usize,
}

/// table t (with its `id` column) plus the helper tables of the vacuous subquery predicates
fn load_c07(s: &Schema, t: &Table) -> Db {
    let mut db = load_table(s, t);
    load_vacuous_helpers(&mut db, t.rows.len());
    db
}

fn replay(s: &Schema, t: &Table, sql: &str, extra: &str) -> String {
    format!("{}-- gate off = env {}=1\n{};\n{}", script(s, t), ENV_NO_COLUMNAR, sql, extra)
}

fn both(db: &mut Db, sql: &str) -> [(&'static str, Out); 2] {
    columnar(true);
    let on = db.query(sql);
    columnar(false);
    let off = db.query(sql);
    columnar(true);
    [("columnar gate on", on), ("columnar gate off", off)]
}

fn fmt_ref(rows: &[Vec<RefVal>]) -> String {
    format!("{:?}", rows)
}

fn run_plain(cx: &mut Ctx, s: &Schema, t: &Table, db: &mut Db, rows_sx: &str, q: &Stmt) {
    let sql = q.sql(s);
    let want = match ref_stmt(q, &t.rows) {
        Ok(w) => w,
        Err(()) => return, // generator produces well-typed predicates only
    };
    let outs = both(db, &sql);
    let filtered = ref_filter(&q.preds, &t.rows).map(|f| f.len()).unwrap_or(0);
    // non-trivial: some aggregate sees at least one NULL or a duplicate, or the input is empty/all filtered
    let interesting = q.items.iter().any(|it| match it.arg {
        None => true,
        Some(c) => {
            let vals: Vec<&Lit> = t.rows.iter().map(|r| &r[c]).collect();
            vals.iter().any(|v| **v == Lit::Null) || vals.len() != vals.iter().map(|v| v.proto()).collect::<std::collections::BTreeSet<_>>().len()
        }
    });
    cx.rep.case(&format!("{}|{}", rows_sx, sql), interesting);
    cx.rep.count(&format!("table_size_{}", size_class(t.rows.len())));
    cx.rep.count(&format!("selected_rows_{}", size_class(filtered)));
    for it in &q.items {
        cx.rep.count(&format!("agg_{}{}", it.f.proto(), if it.arg.is_none() { "_star" } else if it.distinct { "_distinct" } else { "" }));
        if let Some(c) = it.arg {
            let sel = ref_filter(&q.preds, &t.rows).unwrap_or_default();
            if !sel.is_empty() && sel.iter().all(|r| r[c] == Lit::Null) {
                cx.rep.count("agg_over_all_null_input");
            }
            if sel.is_empty() {
                cx.rep.count("agg_over_empty_input");
            }
        }
    }
    for (path, out) in &outs {
        // ---- direct oracle: the SQL definitions ----
        let ok = match out {
            Out::Rows(got) => rows_match(got, &want),
            _ => false,
        };
        if !ok {
            cx.rep.fail(
                FailKind::Oracle,
                None,
                &format!("aggregate result differs from the SQL definition ({})", path),
                &replay(s, t, &sql, &format!("engine ({}): {}\ndefinition: {}", path, out.brief(), fmt_ref(&want))),
            );
        }
        // exactly one row before HAVING / LIMIT / OFFSET
        if q.having.is_none() && q.limit.is_none() && q.offset.is_none() {
            if let Out::Rows(got) = out {
                if got.len() != 1 {
                    cx.rep.fail(FailKind::Oracle, None, &format!("aggregate query without GROUP BY returned {} rows ({})", got.len(), path), &replay(s, t, &sql, &out.brief()));
                }
            }
        }
    }
    // ---- metamorphic: S AND <vacuous subquery predicate> has the result of S (the optimizer's
    // subquery passes rebuild the statement; aggregates, DISTINCT flags and arguments must survive) ----
    let k = cx.vac;
    cx.vac += 1;
    let mut variants: Vec<(Option<&str>, Option<&str>)> = vec![(Some(vac_where(k, t.rows.len())), None), (None, Some(VAC_HAVING[k % VAC_HAVING.len()]))];
    if k % 3 == 0 {
        variants.push((Some(vac_where(k / 3, t.rows.len())), Some(VAC_HAVING[(k / 3 + 2) % VAC_HAVING.len()])));
    }
    // the engine evaluates even an uncorrelated WHERE subquery once per row: on tables of more than
    // 200 rows only every 8th statement gets the WHERE variants (HAVING variants cost one evaluation per group)
    let big = t.rows.len() > 200;
    for (w, h) in variants {
        let huge = t.rows.len() >= 1000;
        if (big && w.is_some() && k % (if huge { 64 } else { 8 }) != 0) || (huge && w.is_none() && k % 8 != 0) || (!huge && big && k % 2 != 0) {
            continue;
        }
        let sql2 = q.sql_with(s, w, h);
        columnar(true);
        let t0 = std::time::Instant::now();
        let out = db.query(&sql2);
        cx.rep.add(&format!("ms_vacuous|{}|{}|{}", w.unwrap_or("-"), h.unwrap_or("-"), size_class(t.rows.len())), t0.elapsed().as_millis() as u64);
        cx.rep.count(if w.is_some() && h.is_some() { "vacuous_where+having" } else if w.is_some() { "vacuous_where" } else { "vacuous_having" });
        if let Some(w) = w {
            cx.rep.count(&format!("vacuous_pred_{}", &w[..w.len().min(24)]));
        }
        let ok = matches!(&out, Out::Rows(got) if rows_match(got, &want));
        if !ok {
            cx.rep.fail(
                FailKind::Oracle,
                None,
                "statement with an added vacuous subquery predicate differs from the SQL definition of the statement",
                &replay(s, t, &sql2, &format!("-- helper tables: keep(id) = every id of t, nonek(id) empty, one(x) = (1)\nengine: {}\ndefinition: {}", out.brief(), fmt_ref(&want))),
            );
        }
    }
    // ---- correspondence ----
    let reply = cx.model.ask(&format!("query {} {}", q.sx_head(), rows_sx));
    let parsed = Sx::parse(&reply);
    let parts = parsed.as_ref().and_then(|x| x.as_list()).filter(|v| v.len() == 4 && v[0].as_atom() == Some("q"));
    match parts {
        None => cx.rep.fail(FailKind::ModelDiff, None, "model driver did not answer the query request", &replay(s, t, &sql, &reply)),
        Some(p) => {
            cx.rep.traces_validated += 1;
            for ((path, out), mx) in outs.iter().zip([&p[1], &p[2]]) {
                let ok = match (rows_of_sx(mx), out) {
                    (Some(Ok(w)), Out::Rows(g)) => rows_match(g, &w),
                    (Some(Err(_)), Out::Err { .. }) => true,
                    _ => false,
                };
                if !ok {
                    cx.rep.fail(FailKind::ModelDiff, None, &format!("engine and model disagree ({})", path), &replay(s, t, &sql, &format!("engine: {}\nmodel : {}\nrequest: query {} <rows>", out.brief(), mx, q.sx_head())));
                }
            }
        }
    }
}

fn run_grouped(cx: &mut Ctx, s: &Schema, t: &Table, db: &mut Db, rows_sx: &str, key: usize, items: &[Item], preds: &[Pred]) {
    let mut sql = format!("SELECT {}, {} FROM {}", s.cols[key].0, items.iter().map(|i| i.sql(s)).collect::<Vec<_>>().join(", "), s.table);
    if !preds.is_empty() {
        sql.push_str(&format!(" WHERE {}", preds.iter().map(|p| p.sql(s)).collect::<Vec<_>>().join(" AND ")));
    }
    sql.push_str(&format!(" GROUP BY {}", s.cols[key].0));
    let want = match ref_grouped(key, items, preds, &t.rows) {
        Ok(w) => w,
        Err(()) => return,
    };
    let selected = ref_filter(preds, &t.rows).map(|f| f.len()).unwrap_or(0);
    let has_null_key = want.contains_key("N");
    cx.rep.case(&format!("{}|{}", rows_sx, sql), want.len() >= 2 || has_null_key);
    cx.rep.count(&format!("groupby_groups_{}", match want.len() { 0 => "0", 1 => "1", 2..=5 => "2-5", _ => ">5" }));
    cx.rep.count(if has_null_key { "groupby_with_null_key" } else { "groupby_without_null_key" });
    cx.rep.count(&format!("groupby_table_size_{}", size_class(t.rows.len())));
    let outs = both(db, &sql);
    for (path, out) in &outs {
        let Out::Rows(got) = out else {
            cx.rep.fail(FailKind::Oracle, None, &format!("GROUP BY query failed ({})", path), &replay(s, t, &sql, &out.brief()));
            continue;
        };
        // structural: one row per distinct key, NULL keys one group, groups partition the input
        let mut seen: BTreeMap<String, usize> = BTreeMap::new();
        for r in got {
            *seen.entry(canon::val(&r[0])).or_insert(0) += 1;
        }
        let dup = seen.values().any(|n| *n > 1);
        let count_sum: i128 = got.iter().filter_map(|r| int_of(&r[1])).sum();
        if dup || count_sum != selected as i128 {
            cx.rep.fail(
                FailKind::Oracle,
                None,
                &format!("GROUP BY result is not a partition of the selected rows: duplicate key={} sum of COUNT(*)={} selected rows={} ({})", dup, count_sum, selected, path),
                &replay(s, t, &sql, &out.brief()),
            );
        }
        // by definition
        let ok = got.len() == want.len()
            && got.iter().all(|r| match want.get(&canon::val(&r[0])) {
                Some(w) => r.len() == w.len() + 1 && r[1..].iter().zip(w).all(|(a, b)| val_matches(a, b)),
                None => false,
            });
        if !ok {
            cx.rep.fail(FailKind::Oracle, None, &format!("GROUP BY result differs from the SQL definition ({})", path), &replay(s, t, &sql, &format!("engine: {}\ndefinition (key -> aggregates): {:?}", out.brief(), want)));
        }
    }
    // ---- metamorphic: the grouped statement AND a vacuous subquery predicate (WHERE / HAVING) ----
    {
        let k = cx.vac;
        cx.vac += 1;
        let key_name = &s.cols[key].0;
        let sel = format!("SELECT {}, {} FROM {}", key_name, items.iter().map(|i| i.sql(s)).collect::<Vec<_>>().join(", "), s.table);
        let mut conj: Vec<String> = preds.iter().map(|p| p.sql(s)).collect();
        let with_where = {
            let mut c = conj.clone();
            c.push(vac_where(k, t.rows.len()).to_string());
            format!("{} WHERE {} GROUP BY {}", sel, c.join(" AND "), key_name)
        };
        let base_where = if conj.is_empty() { String::new() } else { format!(" WHERE {}", conj.join(" AND ")) };
        let with_having = format!("{}{} GROUP BY {} HAVING {}", sel, base_where, key_name, VAC_HAVING[k % VAC_HAVING.len()]);
        conj.push(vac_where(k + 2, t.rows.len()).to_string());
        let with_both = format!("{} WHERE {} GROUP BY {} HAVING COUNT(*) >= 0 AND {}", sel, conj.join(" AND "), key_name, VAC_HAVING[(k + 1) % VAC_HAVING.len()]);
        let big = t.rows.len() > 200;
        let huge = t.rows.len() >= 1000;
        let mut list = if (huge && k % 8 != 0) || (big && k % 2 != 0) { vec![] } else { vec![with_having] };
        if !big || k % (if huge { 64 } else { 8 }) == 0 {
            list.push(with_where);
            if k % 3 == 0 {
                list.push(with_both);
            }
        }
        for sql2 in list {
            columnar(true);
            let t0 = std::time::Instant::now();
            let out = db.query(&sql2);
            cx.rep.add(&format!("ms_vacuous_grouped|{}", size_class(t.rows.len())), t0.elapsed().as_millis() as u64);
            cx.rep.count("vacuous_grouped");
            let ok = matches!(&out, Out::Rows(got) if got.len() == want.len()
                && got.iter().all(|r| match want.get(&canon::val(&r[0])) {
                    Some(w) => r.len() == w.len() + 1 && r[1..].iter().zip(w).all(|(a, b)| val_matches(a, b)),
                    None => false,
                }));
            if !ok {
                cx.rep.fail(
                    FailKind::Oracle,
                    None,
                    "GROUP BY statement with an added vacuous subquery predicate differs from the SQL definition of the statement",
                    &replay(s, t, &sql2, &format!("-- helper tables: keep(id) = every id of t, nonek(id) empty, one(x) = (1)\nengine: {}\ndefinition (key -> aggregates): {:?}", out.brief(), want)),
                );
            }
        }
    }
    // ---- correspondence: model group_rows + accumulators vs engine (as a map; HashMap order is not observed) ----
    let reply = cx.model.ask(&format!(
        "group {} ({}) ({}) {}",
        key,
        items.iter().map(|i| i.sx()).collect::<Vec<_>>().join(" "),
        preds.iter().map(|p| p.sx()).collect::<Vec<_>>().join(" "),
        rows_sx
    ));
    let parsed = Sx::parse(&reply);
    let groups = parsed.as_ref().and_then(|x| x.as_list()).filter(|v| v.first().and_then(|a| a.as_atom()) == Some("groups"));
    match (groups, &outs[1].1) {
        (Some(g), Out::Rows(got)) => {
            cx.rep.traces_validated += 1;
            let mut m: BTreeMap<String, Vec<RefVal>> = BTreeMap::new();
            let mut model_dup = false;
            for row in &g[1..] {
                let r = row.as_list().unwrap_or(&[]);
                let k = r.first().and_then(|a| a.as_atom()).unwrap_or("?").to_string();
                let vals: Vec<RefVal> = r.iter().skip(1).filter_map(refval_of_sx).collect();
                model_dup |= m.insert(k, vals).is_some();
            }
            let ok = !model_dup
                && got.len() == m.len()
                && got.iter().all(|r| match m.get(&canon::val(&r[0])) {
                    Some(w) => r.len() == w.len() + 1 && r[1..].iter().zip(w).all(|(a, b)| val_matches(a, b)),
                    None => false,
                });
            if !ok {
                cx.rep.fail(FailKind::ModelDiff, None, "engine GROUP BY and model groupRows disagree", &replay(s, t, &sql, &format!("engine: {}\nmodel : {}", outs[1].1.brief(), reply)));
            }
        }
        (None, _) => cx.rep.fail(FailKind::ModelDiff, None, "model driver did not answer the group request", &replay(s, t, &sql, &reply)),
        _ => {}
    }
}

fn bag_match(got: &[Vec<vibesql_types::SqlValue>], want: &[Vec<RefVal>]) -> bool {
    if got.len() != want.len() {
        return false;
    }
    let mut used = vec![false; got.len()];
    'w: for w in want {
        for (i, g) in got.iter().enumerate() {
            if !used[i] && g.len() == w.len() && g.iter().zip(w).all(|(a, b)| val_matches(a, b)) {
                used[i] = true;
                continue 'w;
            }
        }
        return false;
    }
    true
}

fn lit_of_ref(v: &RefVal) -> Option<Lit> {
    match v {
        RefVal::Null => Some(Lit::Null),
        RefVal::Int(i) => Some(Lit::I(*i as i64)),
        RefVal::Str(s) => Some(Lit::S(s.clone())),
        RefVal::Ratio(..) => None,
    }
}

/// One statement, several aggregating query blocks (set operations, derived tables, CTEs) with
/// identically spelled aggregates over DIFFERENT row sets, with and without GROUP BY: every block
/// must see its own rows (per-group / per-block aggregate state must not leak between blocks).
fn run_multiblock(cx: &mut Ctx, s: &Schema, t: &Table, db: &mut Db, r: &mut Rng) {
    let f = *r.pick(&Fn_::ALL);
    let it = if f == Fn_::Count && r.chance(1, 3) { Item { f, arg: None, distinct: false } } else { Item { f, arg: Some(*r.pick(&[0usize, 2])), distinct: r.chance(1, 4) } };
    let a = it.sql(s);
    let k = r.range(-1, 4);
    let p1 = Pred::Cmp { op: Cmp::Le, col: 1, lit: Lit::I(k), reversed: false };
    let p2 = Pred::Cmp { op: Cmp::Gt, col: 1, lit: Lit::I(k), reversed: false };
    let (w1, w2) = (p1.sql(s), p2.sql(s));
    let rows1 = ref_filter(&[p1.clone()], &t.rows).unwrap_or_default();
    let rows2 = ref_filter(&[p2.clone()], &t.rows).unwrap_or_default();
    let (a1, a2) = (ref_agg(&it, &rows1), ref_agg(&it, &rows2));
    let star = Item { f: Fn_::Count, arg: None, distinct: false };
    fn groups_of<'a>(rows: &[&'a Vec<Lit>]) -> Vec<(Lit, Vec<&'a Vec<Lit>>)> {
        let mut g: Vec<(Lit, Vec<&'a Vec<Lit>>)> = vec![];
        for row in rows {
            match g.iter_mut().find(|(k, _)| *k == row[2]) {
                Some((_, v)) => v.push(*row),
                None => g.push((row[2].clone(), vec![*row])),
            }
        }
        g
    }
    let refkey = |l: &Lit| match l {
        Lit::Null => RefVal::Null,
        Lit::I(i) => RefVal::Int(*i as i128),
        Lit::S(x) => RefVal::Str(x.clone()),
    };
    let all: Vec<&Vec<Lit>> = t.rows.iter().collect();
    let is_avg = it.f == Fn_::Avg;
    let mut cases: Vec<(&str, String, Vec<Vec<RefVal>>)> = vec![];
    cases.push(("union-all", format!("SELECT {a} FROM t WHERE {w1} UNION ALL SELECT {a} FROM t WHERE {w2}"), vec![vec![a1.clone()], vec![a2.clone()]]));
    cases.push(("union-all-3", format!("SELECT {a} FROM t WHERE {w2} UNION ALL SELECT {a} FROM t WHERE {w1} UNION ALL SELECT {a} FROM t WHERE {w2}"), vec![vec![a2.clone()], vec![a1.clone()], vec![a2.clone()]]));
    if !is_avg {
        let r1 = vec![ref_agg(&star, &rows1), a1.clone()];
        let r2 = vec![ref_agg(&star, &rows2), a2.clone()];
        cases.push(("union-distinct", format!("SELECT COUNT(*), {a} FROM t WHERE {w1} UNION SELECT COUNT(*), {a} FROM t WHERE {w2}"), if r1 == r2 { vec![r1] } else { vec![r1, r2] }));
        cases.push(("except", format!("SELECT {a} FROM t WHERE {w1} EXCEPT SELECT {a} FROM t WHERE {w2}"), if a1 == a2 { vec![] } else { vec![vec![a1.clone()]] }));
        cases.push(("intersect", format!("SELECT {a} FROM t WHERE {w1} INTERSECT SELECT {a} FROM t WHERE {w2}"), if a1 == a2 { vec![vec![a1.clone()]] } else { vec![] }));
    }
    {
        let mut want = vec![];
        for rows in [&rows1, &rows2] {
            for (k, g) in groups_of(rows) {
                want.push(vec![refkey(&k), ref_agg(&it, &g)]);
            }
        }
        cases.push(("union-all-grouped", format!("SELECT c2, {a} FROM t WHERE {w1} GROUP BY c2 UNION ALL SELECT c2, {a} FROM t WHERE {w2} GROUP BY c2"), want));
    }
    {
        let g = groups_of(&rows1);
        let max_n = g.iter().map(|(_, v)| v.len() as i128).max();
        cases.push((
            "derived-count-of-groups",
            format!("SELECT COUNT(*), MAX(n) FROM (SELECT c2 AS g, COUNT(*) AS n FROM t WHERE {w1} GROUP BY c2) d"),
            vec![vec![RefVal::Int(g.len() as i128), max_n.map(RefVal::Int).unwrap_or(RefVal::Null)]],
        ));
    }
    if !is_avg && it.arg.is_some() {
        // outer aggregate spelled like the inner one, over the inner results
        let c = it.arg.unwrap();
        let col = &s.cols[c].0;
        let inner: Vec<Lit> = groups_of(&all).iter().filter_map(|(_, g)| lit_of_ref(&ref_agg(&it, g))).collect();
        let fake: Vec<Vec<Lit>> = inner.iter().map(|v| { let mut row = vec![Lit::Null; 4]; row[c] = v.clone(); row }).collect();
        let fake_refs: Vec<&Vec<Lit>> = fake.iter().collect();
        cases.push(("derived-same-spelling", format!("SELECT {a} FROM (SELECT c2 AS g, {a} AS {col} FROM t GROUP BY c2) d"), vec![vec![ref_agg(&it, &fake_refs)]]));
        let nn = inner.iter().filter(|v| **v != Lit::Null).count();
        cases.push(("cte-grouped", format!("WITH c AS (SELECT c2 AS g, {a} AS x FROM t GROUP BY c2) SELECT COUNT(*), COUNT(x) FROM c"), vec![vec![RefVal::Int(inner.len() as i128), RefVal::Int(nn as i128)]]));
    }
    cases.push((
        "cte-cross",
        format!("WITH c AS (SELECT {a} AS x FROM t WHERE {w1}) SELECT {a}, MIN(x) FROM t, c WHERE {w2}"),
        vec![vec![a2.clone(), if rows2.is_empty() { RefVal::Null } else { a1.clone() }]],
    ));
    for (kind, sql, want) in cases {
        cx.rep.case(&format!("multiblock|{}|{}", t.rows.len(), sql), a1 != a2);
        cx.rep.count(&format!("multiblock_{}", kind));
        for (path, out) in both(db, &sql) {
            let ok = matches!(&out, Out::Rows(got) if bag_match(got, &want));
            if !ok {
                cx.rep.fail(
                    FailKind::Oracle,
                    None,
                    &format!("multi-block statement ({}) differs from the SQL definition ({})", kind, path),
                    &replay(s, t, &sql, &format!("engine ({}): {}\ndefinition (bag of rows): {:?}", path, out.brief(), want)),
                );
            }
        }
    }
}

fn rows_sx_of(t: &Table) -> String {
    vharness::qast::rows_sx(&t.rows).to_string()
}

fn gen_group_case(r: &mut Rng, s: &Schema) -> (usize, Vec<Item>, Vec<Pred>) {
    let key = r.below(s.cols.len() as u64) as usize;
    let mut items = vec![Item { f: Fn_::Count, arg: None, distinct: false }];
    for _ in 0..r.range(1, 3) {
        items.push(gen_item(r, s, true));
    }
    let preds = if r.chance(1, 3) { vec![gen_pred(r, s)] } else { vec![] };
    (key, items, preds)
}

/// deterministic probes: boundary inputs of every aggregate, with and without DISTINCT
fn probes(cx: &mut Ctx, s: &Schema) {
    let n = Lit::Null;
    let i = |x: i64| Lit::I(x);
    let st = |x: &str| Lit::S(x.to_string());
    let tables: Vec<(&str, Table)> = vec![
        ("empty", Table { rows: vec![], fill: vec![] }),
        ("one-null-row", Table { rows: vec![vec![n.clone(), n.clone(), n.clone(), n.clone()]], fill: vec![] }),
        ("all-null", Table { rows: (0..4).map(|_| vec![n.clone(), n.clone(), n.clone(), n.clone()]).collect(), fill: vec![] }),
        (
            "dups-and-nulls",
            Table {
                rows: vec![
                    vec![i(2), i(5), n.clone(), st("b")],
                    vec![i(2), n.clone(), n.clone(), st("a")],
                    vec![n.clone(), i(5), n.clone(), st("b")],
                    vec![i(-1), i(5), n.clone(), n.clone()],
                    vec![i(2), i(7), n.clone(), st("B")],
                    vec![n.clone(), n.clone(), n.clone(), n.clone()],
                    vec![i(0), i(-7), n.clone(), st("")],
                ],
                fill: vec![],
            },
        ),
        ("single", Table { rows: vec![vec![i(4), i(4), i(4), st("x")]], fill: vec![] }),
        (
            "null-prefix-120",
            Table { rows: (0..120).map(|k| vec![if k < 105 { n.clone() } else { i(k % 4) }, i(k % 3), if k % 5 == 0 { i(1) } else { n.clone() }, if k < 110 { n.clone() } else { st(STRS[(k % 3) as usize]) }]).collect(), fill: vec![] },
        ),
    ];
    for (_name, t0) in &tables {
        let mut t1 = t0.clone();
        add_ids(&mut t1);
        let t = &t1;
        let mut db = load_c07(s, t);
        let rsx = rows_sx_of(t);
        for c in 0..4usize {
            for distinct in [false, true] {
                let fns: Vec<Fn_> = if c == 3 { vec![Fn_::Count, Fn_::Min, Fn_::Max] } else { Fn_::ALL.to_vec() };
                let mut items: Vec<Item> = fns.iter().map(|f| Item { f: *f, arg: Some(c), distinct }).collect();
                items.insert(0, Item { f: Fn_::Count, arg: None, distinct: false });
                for preds in [vec![], vec![Pred::Cmp { op: Cmp::Ge, col: 1, lit: i(5), reversed: false }], vec![Pred::Cmp { op: Cmp::Gt, col: 1, lit: i(1000), reversed: false }]] {
                    let q = Stmt { items: items.clone(), preds: preds.clone(), having: None, order_by: false, limit: None, offset: None };
                    run_plain(cx, s, t, &mut db, &rsx, &q);
                    cx.rep.count("probe_statements");
                    for key in 0..4usize {
                        if key != c {
                            run_grouped(cx, s, t, &mut db, &rsx, key, &items, &preds);
                            cx.rep.count("probe_statements");
                        }
                    }
                }
            }
        }
    }
}

/// Large inputs for the batch loops of the columnar kernels (1024 values per batch): more than
/// two full batches of non-NULL qualifying values, counts that are not multiples of 1024, the
/// unique minimum / maximum planted in the first batch, the last full batch or the remainder,
/// with and without a WHERE clause, on both paths, against the definition-level reference.
fn large_probes(cx: &mut Ctx, s: &Schema) {
    let n = Lit::Null;
    let i = |x: i64| Lit::I(x);
    let item = |f: Fn_, arg: Option<usize>| Item { f, arg, distinct: false };
    let plain = |items: Vec<Item>, preds: Vec<Pred>| Stmt { items, preds, having: None, order_by: false, limit: None, offset: None };
    let cmp = |op: Cmp, col: usize, lit: Lit| Pred::Cmp { op, col, lit, reversed: false };
    // (rows, position of the minimum of c0, position of its maximum)
    for (n_rows, at_min, at_max) in [(2400i64, 10i64, 20i64), (3300, 2500, 2600), (2600, 2590, 1500), (3072 + 341, 3400, 5)] {
        let t = Table {
            rows: (0..n_rows)
                .map(|k| {
                    let c0 = if k == at_min { i(-500) } else if k == at_max { i(9000) } else if k % 11 == 0 { n.clone() } else { i(k % 97) };
                    // c1 dense: minimum first, maximum last; c2 sparse (2 of 3 NULL)
                    vec![c0, i(k), if k % 3 == 0 { i(k % 5) } else { n.clone() }, Lit::S(STRS[(k % 7) as usize].to_string())]
                })
                .collect(),
            fill: vec![],
        };
        let mut t = t;
        add_ids(&mut t);
        let mut db = load_c07(s, &t);
        let rsx = rows_sx_of(&t);
        for q in [
            // statements the columnar path takes (no SUM over an integer column)
            plain(vec![item(Fn_::Count, None), item(Fn_::Count, Some(0)), item(Fn_::Avg, Some(0)), item(Fn_::Min, Some(0)), item(Fn_::Max, Some(0))], vec![]),
            plain(vec![item(Fn_::Avg, Some(0)), item(Fn_::Min, Some(0)), item(Fn_::Max, Some(0))], vec![cmp(Cmp::Ge, 1, i(3))]),
            plain(vec![item(Fn_::Min, Some(1)), item(Fn_::Max, Some(1)), item(Fn_::Avg, Some(1)), item(Fn_::Count, Some(1))], vec![]),
            plain(vec![item(Fn_::Min, Some(1)), item(Fn_::Max, Some(1)), item(Fn_::Avg, Some(1))], vec![cmp(Cmp::Lt, 1, i(n_rows - 3))]),
            plain(vec![item(Fn_::Min, Some(1)), item(Fn_::Max, Some(1))], vec![Pred::Between { col: 1, lo: i(7), hi: i(n_rows - 200) }]),
            plain(vec![item(Fn_::Avg, Some(2)), item(Fn_::Min, Some(2)), item(Fn_::Max, Some(2)), item(Fn_::Count, Some(2))], vec![]),
            plain(vec![item(Fn_::Min, Some(3)), item(Fn_::Max, Some(3)), item(Fn_::Count, Some(3))], vec![cmp(Cmp::Ge, 1, i(1))]),
            // row path (SUM over integers declines the columnar path)
            plain(vec![item(Fn_::Sum, Some(0)), item(Fn_::Sum, Some(1)), item(Fn_::Count, None)], vec![cmp(Cmp::Ge, 1, i(3))]),
        ] {
            run_plain(cx, s, &t, &mut db, &rsx, &q);
            cx.rep.count("probe_statements_large");
        }
        run_grouped(cx, s, &t, &mut db, &rsx, 2, &[item(Fn_::Count, None), item(Fn_::Min, Some(0)), item(Fn_::Max, Some(1)), item(Fn_::Avg, Some(1))], &[]);
        cx.rep.count("probe_statements_large");
    }
}

/// SUM/AVG/MIN/MAX/COUNT over a DOUBLE column `d` and a NUMERIC column `m` (same values) and GROUP
/// BY an integer key, against the definition computed in f64 (values are multiples of 1/4: every
/// sum is exact); floats are not modelled.  The first tables are large (several 1024-value batches
/// plus a remainder) with the unique extremes planted in chosen batches.
fn float_stream(cx: &mut Ctx, rng: &mut Rng, tables: u64) {
    // (rows, NULL %, position of the minimum, position of the maximum)
    let forced: [(usize, u64, usize, usize); 5] = [(1500, 10, 5, 1100), (2600, 0, 2590, 2100), (1024, 0, 1000, 3), (2050, 20, 2049, 700), (3300, 0, 40, 3000)];
    for ti in 0..tables as usize + forced.len() {
        let class = *rng.pick(&[0u32, 1, 2, 2, 3]);
        let (n, null_pct, at_min, at_max) = if ti < forced.len() { forced[ti] } else { (gen_size(rng, class, 1100), *rng.pick(&[0u64, 25, 100]), usize::MAX, usize::MAX) };
        let mut db = Db::new();
        db.must("CREATE TABLE f (k INTEGER, d DOUBLE PRECISION, m NUMERIC(12, 2))");
        let mut data: Vec<(i64, Option<f64>)> = vec![];
        let mut batch = vec![];
        for j in 0..n {
            let mut d = if rng.below(100) < null_pct { None } else { Some(rng.range(0, 200) as f64 / 4.0 + 0.25) };
            if j == at_min {
                d = Some(0.0);
            } else if j == at_max {
                d = Some(5000.5);
            }
            let k = rng.range(0, 3);
            data.push((k, d));
            let txt = d.map(|x| format!("{:?}", x)).unwrap_or_else(|| "NULL".into());
            batch.push(format!("({}, {}, {})", k, txt, txt));
            if batch.len() == 50 || j + 1 == n {
                db.must(&format!("INSERT INTO f VALUES {}", batch.join(", ")));
                batch.clear();
            }
        }
        let def = |rows: &[&(i64, Option<f64>)]| -> Vec<Option<f64>> {
            let v: Vec<f64> = rows.iter().filter_map(|r| r.1).collect();
            if v.is_empty() {
                vec![Some(rows.len() as f64), Some(0.0), None, None, None, None]
            } else {
                let sum: f64 = v.iter().sum();
                vec![
                    Some(rows.len() as f64),
                    Some(v.len() as f64),
                    Some(sum),
                    Some(sum / v.len() as f64),
                    Some(v.iter().cloned().fold(f64::INFINITY, f64::min)),
                    Some(v.iter().cloned().fold(f64::NEG_INFINITY, f64::max)),
                ]
            }
        };
        let close = |got: &vibesql_types::SqlValue, want: &Option<f64>| match want {
            None => matches!(got, vibesql_types::SqlValue::Null),
            Some(w) => f64_of(got).map(|g| (g - w).abs() <= 1e-9 * w.abs().max(1.0)).unwrap_or(false),
        };
        let filters: [(&str, fn(i64) -> bool); 3] = [("", |_| true), (" WHERE k >= 1", |k| k >= 1), (" WHERE k BETWEEN 1 AND 2 AND k < 2", |k| k == 1)];
        for col in ["d", "m"] {
            for (wh, keep) in filters.iter() {
                let sql = format!("SELECT COUNT(*), COUNT({c}), SUM({c}), AVG({c}), MIN({c}), MAX({c}) FROM f{w}", c = col, w = wh);
                let sel: Vec<&(i64, Option<f64>)> = data.iter().filter(|r| keep(r.0)).collect();
                let want = def(&sel);
                for (path, out) in both(&mut db, &sql) {
                    cx.rep.case(&format!("float|{}|{}|{}|{}", n, null_pct, path, sql), n > 0);
                    cx.rep.count("float_statements(direct oracle only)");
                    if n > 2048 {
                        cx.rep.count("float_statements_over_2_batches");
                    }
                    let ok = matches!(&out, Out::Rows(r) if r.len() == 1 && r[0].len() == 6 && r[0].iter().zip(&want).all(|(a, b)| close(a, b)));
                    if !ok {
                        cx.rep.fail(
                            FailKind::Oracle,
                            None,
                            &format!("aggregate over {} column differs from the definition ({})", if col == "d" { "DOUBLE" } else { "NUMERIC" }, path),
                            &format!("-- table f: {} rows, NULL {}%, minimum 0.0 at row {}, maximum 5000.5 at row {} (regenerate with the seed)\n{};\nengine: {}\ndefinition: {:?}", n, null_pct, at_min as i64, at_max as i64, sql, out.brief(), want),
                        );
                    }
                }
            }
        }
        let gsql = "SELECT k, COUNT(*), COUNT(d), SUM(d), AVG(d), MIN(d), MAX(d) FROM f GROUP BY k";
        let out = db.query(gsql);
        cx.rep.count("float_statements(direct oracle only)");
        let mut ok = false;
        if let Out::Rows(rows) = &out {
            let keys: std::collections::BTreeSet<i64> = data.iter().map(|r| r.0).collect();
            ok = rows.len() == keys.len()
                && rows.iter().all(|r| {
                    let k = int_of(&r[0]).unwrap_or(-1) as i64;
                    let grp: Vec<&(i64, Option<f64>)> = data.iter().filter(|x| x.0 == k).collect();
                    !grp.is_empty() && r[1..].iter().zip(&def(&grp)).all(|(a, b)| close(a, b))
                });
        }
        if !ok {
            cx.rep.fail(FailKind::Oracle, None, "GROUP BY aggregate over DOUBLE column differs from the definition", &format!("-- table f: {} rows, NULL {}%\n{};\nengine: {}", n, null_pct, gsql, out.brief()));
        }
    }
}

/// Value-domain stream: every aggregate over a DOUBLE and a BIGINT column against the definition
/// computed directly (MIN / MAX / COUNT exactly, SUM / AVG to 1e-9 relative), on both paths.
fn num_stream(cx: &mut Ctx, rng: &mut Rng, thorough: bool) {
    for (n, d_dom, b_dom) in num_plan(rng, thorough) {
        let c = gen_num_case(rng, n, d_dom, b_dom);
        let mut db = load_num_case(&c);
        cx.rep.count(&format!("num_domain_d_{}", d_dom));
        cx.rep.count(&format!("num_domain_b_{}", b_dom));
        cx.rep.count(&format!("num_size_{}", n));
        for st in num_statements(&c) {
            let sql = st.sql();
            let want = num_expected(&c, &st);
            cx.rep.case(&format!("num|{}|{}|{}|{}|{}", n, d_dom, b_dom, c.null_pct, sql), true);
            for (path, out) in both(&mut db, &sql) {
                cx.rep.count("num_statements(direct oracle only)");
                // the 1e-9 epsilon of columnar/filter.rs compare_values (C03's known finding, pinned by
                // tpch_columnar_q6) is applied by the table scan's predicate pushdown on the row path as
                // well: which rows a WHERE selects is not C07's subject, the class is skipped here
                if epsilon_class(&c, &st) {
                    cx.rep.count("num_skipped(WHERE within 1e-9 of the literal: C03/filter-epsilon class)");
                    continue;
                }
                if !num_row_ok(&st, &out, &want) {
                    cx.rep.fail(
                        FailKind::Oracle,
                        None,
                        &format!("aggregate differs from the SQL definition (value domain stream, column {}, {})", st.col, path),
                        &format!("{}{};\nengine ({}): {}\ndefinition: {:?}", num_case_text(&c), sql, path, out.brief(), want),
                    );
                }
            }
        }
    }
}

fn main() {
    engine::silence_panics();
    let args = Args::parse("C07");
    let mut rep = Report::new(
        &args,
        "case = (table contents, aggregate statement with or without GROUP BY); non-trivial = (no GROUP BY) some aggregate's \
         input column holds a NULL or a duplicate or it is COUNT(*), (GROUP BY) at least two groups or a NULL key; distinct by \
         hash of (rows, SQL)",
    );
    rep.assumptions.push("integer values are small, sums stay far below 2^53 / i64 (C24 covers the boundary)".into());
    rep.assumptions.push("floats are not modelled in Lean: DOUBLE columns are checked against the definition computed in f64 on values that are multiples of 1/4 (exact sums); -0.0 / NaN group keys are C21's subject".into());
    rep.assumptions.push("AVG is compared with the exact quotient sum/count to 1e-9 relative; numerics by value".into());
    rep.assumptions.push("AggregateAccumulator::combine is dead code in the engine (#[allow(dead_code)], not reachable from SQL and not exported): its theorem has no correspondence run".into());
    let mut model = args.model();
    let mut rng = Rng::new(args.seed);
    let s = schema_with_id();
    {
        let mut cx = Ctx { rep: &mut rep, model: &mut model, vac: 0 };
        probes(&mut cx, &s);
        large_probes(&mut cx, &s);
        let tables = args.n(120, 1800);
        let per_table = args.n(8, 16);
        let big_hi = args.n(1100, 4000) as i64;
        for ti in 0..tables {
            let class = match ti % 14 {
                0 => 0,
                1 => 1,
                2..=7 => 2,
                8..=12 => 3,
                _ => 4,
            };
            let mut r = rng.fork();
            let n = gen_size(&mut r, class, big_hi);
            let mut t = gen_table(&mut r, &s, n);
            add_ids(&mut t);
            let mut db = load_c07(&s, &t);
            let rsx = rows_sx_of(&t);
            for f in &t.fill {
                cx.rep.count(&format!("column_fill_{}", f));
            }
            if t.rows.len() <= 200 {
                run_multiblock(&mut cx, &s, &t, &mut db, &mut r);
                run_multiblock(&mut cx, &s, &t, &mut db, &mut r);
            }
            for qi in 0..per_table {
                if qi % 2 == 0 {
                    let tail = qi % 3 == 0;
                    let q = gen_stmt(&mut r, &s, tail, true);
                    if ti < 2 && qi == 0 {
                        cx.rep.sample(json!({"table_rows": t.rows.len(), "sql": q.sql(&s)}));
                    }
                    run_plain(&mut cx, &s, &t, &mut db, &rsx, &q);
                } else {
                    let (key, items, preds) = gen_group_case(&mut r, &s);
                    if ti < 2 && qi == 1 {
                        cx.rep.sample(json!({"table_rows": t.rows.len(), "group_by": s.cols[key].0, "items": items.iter().map(|i| i.sql(&s)).collect::<Vec<_>>()}));
                    }
                    run_grouped(&mut cx, &s, &t, &mut db, &rsx, key, &items, &preds);
                }
            }
        }
        let mut r = rng.fork();
        float_stream(&mut cx, &mut r, args.n(10, 100));
        let mut r = rng.fork();
        num_stream(&mut cx, &mut r, !args.quick());
    }
    columnar(true);
    std::process::exit(rep.finish());
}
