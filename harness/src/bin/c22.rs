//! C22 — temporal values round-trip through text and parsing is total.
//!
//! Real code: `Date/Time/Timestamp::from_str`, `Interval::new`, the `Display` impls,
//! `Date::new`, `Time::new` — each call under `catch_unwind` (the harness is built with
//! overflow checks on).  Every case is also sent to the Lean model (Model/Temporal.lean) and
//! the outcome classes ok(fields) / err / panic are compared.  Direct oracle on the real code:
//! no call may panic; for every valid value `parse(display(v)) == v`.
use std::panic::{catch_unwind, AssertUnwindSafe};
use std::str::FromStr;

use vharness::sx::{hex_str, unhex_str};
use vharness::*;
use vibesql_types::{Date, Interval, Time, Timestamp};

#[derive(Clone, Copy, PartialEq, Eq, Debug)]
enum K {
    Date,
    Time,
    Ts,
    Interval,
}
impl K {
    fn op(self) -> &'static str {
        match self {
            K::Date => "date_parse",
            K::Time => "time_parse",
            K::Ts => "ts_parse",
            K::Interval => "interval",
        }
    }
    fn name(self) -> &'static str {
        match self {
            K::Date => "date",
            K::Time => "time",
            K::Ts => "timestamp",
            K::Interval => "interval",
        }
    }
    fn of(s: &str) -> Option<K> {
        Some(match s {
            "date" => K::Date,
            "time" => K::Time,
            "timestamp" => K::Ts,
            "interval" => K::Interval,
            _ => return None,
        })
    }
}

fn interval_nums(i: &Interval) -> (i64, i64, i64) {
    let d = format!("{:?}", i);
    let p = d.rfind(", months: ").expect("Interval Debug format");
    let rest = &d[p + 10..];
    let (mo, rest) = rest.split_once(", days: ").expect("days");
    let (da, rest) = rest.split_once(", microseconds: ").expect("microseconds");
    let us = rest.trim_end_matches(" }").trim_end_matches('}').trim();
    (mo.trim().parse().unwrap(), da.trim().parse().unwrap(), us.parse().unwrap())
}

fn date_f(d: &Date) -> String {
    format!("{} {} {}", d.year, d.month, d.day)
}
fn time_f(t: &Time) -> String {
    format!("{} {} {} {}", t.hour, t.minute, t.second, t.nanosecond)
}

/// outcome of the real parser in the model's reply syntax
fn real_parse(k: K, s: &str) -> String {
    let s2 = s.to_string();
    let r = catch_unwind(AssertUnwindSafe(move || match k {
        K::Date => Date::from_str(&s2).map(|d| date_f(&d)).map_err(|_| ()),
        K::Time => Time::from_str(&s2).map(|t| time_f(&t)).map_err(|_| ()),
        K::Ts => Timestamp::from_str(&s2).map(|t| format!("{} {}", date_f(&t.date), time_f(&t.time))).map_err(|_| ()),
        K::Interval => {
            let i = Interval::new(s2);
            let (a, b, c) = interval_nums(&i);
            Ok(format!("{} {} {}", a, b, c))
        }
    }));
    match r {
        Ok(Ok(f)) => format!("(ok {})", f),
        Ok(Err(())) => "err".into(),
        Err(p) => format!("panic: {}", engine::panic_text(p)),
    }
}

struct Ctx {
    model: model::Model,
    rep: Report,
}

fn structured(k: K, s: &str) -> bool {
    match k {
        K::Date => s.matches('-').count() >= 2,
        K::Time => s.matches(':').count() == 2,
        K::Ts => s.matches('-').count() >= 2,
        K::Interval => s.split_whitespace().count() >= 2,
    }
}

/// one totality / correspondence case
fn parse_case(cx: &mut Ctx, k: K, s: &str, origin: &str) -> String {
    let real = real_parse(k, s);
    let reply = cx.model.ask(&format!("{} {}", k.op(), hex_str(s)));
    let class = if real.starts_with("(ok") { "ok" } else if real == "err" { "err" } else { "panic" };
    cx.rep.case(&format!("{} {}", k.op(), hex_str(s)), class == "ok" || structured(k, s));
    cx.rep.count(&format!("{}_{}", k.name(), class));
    cx.rep.count(&format!("origin_{}", origin));
    if !s.is_ascii() {
        cx.rep.count("non_ascii_strings");
    }
    let replay = || {
        format!(
            "parse {} {}\ntext: {:?}\nreal: {}\nmodel: {}\nre-run: ./check C22 --replay <this file>   |   echo '{} {}' | lean/.lake/build/bin/drv_c22",
            k.name(), hex_str(s), s, real, reply, k.op(), hex_str(s)
        )
    };
    if class == "panic" {
        cx.rep.fail(FailKind::Oracle, None, &format!("{} parser panicked ({})", k.name(), real.chars().take(80).collect::<String>()), &replay());
    }
    cx.rep.traces_validated += 1;
    let real_norm = if class == "panic" { "panic".to_string() } else { real.clone() };
    if real_norm != reply {
        cx.rep.fail(FailKind::ModelDiff, None, &format!("{} parser and model disagree (real {}, model {})", k.name(), class, reply.split(' ').next().unwrap_or("").trim_start_matches('(')), &replay());
    }
    real
}

fn show_model(cx: &mut Ctx, req: &str) -> Option<String> {
    let r = cx.model.ask(req);
    match Sx::parse(&r) {
        Some(Sx::List(v)) if v.len() == 2 && v[0].as_atom() == Some("s") => v[1].as_atom().and_then(unhex_str),
        _ => None,
    }
}

fn rt_fail(cx: &mut Ctx, kind: FailKind, what: &str, detail: String) {
    cx.rep.fail(kind, None, what, &detail);
}

fn date_roundtrip(cx: &mut Ctx, y: i32, m: u8, d: u8) {
    let newr = catch_unwind(|| Date::new(y, m, d));
    let mnew = cx.model.ask(&format!("date_new {} {} {}", y, m, d));
    let real_new = match &newr {
        Ok(Ok(v)) => format!("(ok {})", date_f(v)),
        Ok(Err(_)) => "err".into(),
        Err(_) => "panic".into(),
    };
    cx.rep.case(&format!("date_rt {} {} {}", y, m, d), true);
    cx.rep.count(if real_new == "err" { "date_new_rejected" } else { "date_new_accepted" });
    if real_new != mnew {
        rt_fail(cx, FailKind::ModelDiff, "Date::new and model disagree", format!("Date::new({}, {}, {})\nreal: {}\nmodel: {}", y, m, d, real_new, mnew));
    }
    let v = match newr {
        Ok(Ok(v)) => v,
        Ok(Err(_)) => return,
        Err(_) => {
            rt_fail(cx, FailKind::Oracle, "Date::new panicked", format!("Date::new({}, {}, {})", y, m, d));
            return;
        }
    };
    let text = v.to_string();
    let back = real_parse(K::Date, &text);
    if back != format!("(ok {})", date_f(&v)) {
        rt_fail(cx, FailKind::Oracle, "DATE does not round-trip through its text", format!("Date::new({}, {}, {}) displays as {:?}\nparse {} {}\nfrom_str gives: {}", y, m, d, text, "date", hex_str(&text), back));
    }
    cx.rep.traces_validated += 1;
    match show_model(cx, &format!("date_show {} {} {}", y, m, d)) {
        Some(t) if t == text => {}
        other => rt_fail(cx, FailKind::ModelDiff, "Date Display and model disagree", format!("Date({}, {}, {})\nreal: {:?}\nmodel: {:?}", y, m, d, text, other)),
    }
    parse_case(cx, K::Date, &text, "roundtrip");
}

fn time_roundtrip(cx: &mut Ctx, h: u8, mi: u8, s: u8, n: u32) {
    let newr = catch_unwind(|| Time::new(h, mi, s, n));
    let mnew = cx.model.ask(&format!("time_new {} {} {} {}", h, mi, s, n));
    let real_new = match &newr {
        Ok(Ok(v)) => format!("(ok {})", time_f(v)),
        Ok(Err(_)) => "err".into(),
        Err(_) => "panic".into(),
    };
    cx.rep.case(&format!("time_rt {} {} {} {}", h, mi, s, n), true);
    cx.rep.count(if real_new == "err" { "time_new_rejected" } else { "time_new_accepted" });
    if real_new != mnew {
        rt_fail(cx, FailKind::ModelDiff, "Time::new and model disagree", format!("Time::new({}, {}, {}, {})\nreal: {}\nmodel: {}", h, mi, s, n, real_new, mnew));
    }
    let v = match newr {
        Ok(Ok(v)) => v,
        _ => return,
    };
    let text = v.to_string();
    let back = real_parse(K::Time, &text);
    if back != format!("(ok {})", time_f(&v)) {
        rt_fail(cx, FailKind::Oracle, "TIME does not round-trip through its text", format!("Time::new({}, {}, {}, {}) displays as {:?}\nparse {} {}\nfrom_str gives: {}", h, mi, s, n, text, "time", hex_str(&text), back));
    }
    cx.rep.traces_validated += 1;
    match show_model(cx, &format!("time_show {} {} {} {}", h, mi, s, n)) {
        Some(t) if t == text => {}
        other => rt_fail(cx, FailKind::ModelDiff, "Time Display and model disagree", format!("Time({}, {}, {}, {})\nreal: {:?}\nmodel: {:?}", h, mi, s, n, text, other)),
    }
    parse_case(cx, K::Time, &text, "roundtrip");
}

fn ts_roundtrip(cx: &mut Ctx, d: (i32, u8, u8), t: (u8, u8, u8, u32)) {
    let (date, time) = match (Date::new(d.0, d.1, d.2), Time::new(t.0, t.1, t.2, t.3)) {
        (Ok(a), Ok(b)) => (a, b),
        _ => return,
    };
    let v = Timestamp::new(date, time);
    let text = v.to_string();
    cx.rep.case(&format!("ts_rt {:?} {:?}", d, t), true);
    cx.rep.count("timestamp_roundtrips");
    let want = format!("(ok {} {})", date_f(&date), time_f(&time));
    let back = real_parse(K::Ts, &text);
    if back != want {
        rt_fail(cx, FailKind::Oracle, "TIMESTAMP does not round-trip through its text", format!("Timestamp {:?} {:?} displays as {:?}\nparse {} {}\nfrom_str gives: {}", d, t, text, "timestamp", hex_str(&text), back));
    }
    cx.rep.traces_validated += 1;
    match show_model(cx, &format!("ts_show {} {} {} {} {} {} {}", d.0, d.1, d.2, t.0, t.1, t.2, t.3)) {
        Some(x) if x == text => {}
        other => rt_fail(cx, FailKind::ModelDiff, "Timestamp Display and model disagree", format!("{:?} {:?}\nreal: {:?}\nmodel: {:?}", d, t, text, other)),
    }
    parse_case(cx, K::Ts, &text, "roundtrip");
    // the ISO 'T' form and a timezone suffix must give the same value
    for alt in [text.replacen(' ', "T", 1), format!("{}Z", text), format!("{}+05:30", text), format!("  {}\t", text), format!("{}-0800", text)] {
        let got = parse_case(cx, K::Ts, &alt, "roundtrip_variant");
        if got != want {
            rt_fail(cx, FailKind::Oracle, "an equivalent spelling of a TIMESTAMP text parses differently", format!("parse timestamp {}\ntext {:?}\nexpected {}\ngot {}", hex_str(&alt), alt, want, got));
        }
    }
}

fn interval_roundtrip(cx: &mut Ctx, text: &str) {
    let t2 = text.to_string();
    let r = catch_unwind(AssertUnwindSafe(move || {
        let i = Interval::new(t2);
        let shown = i.to_string();
        let j = Interval::new(shown.clone());
        (interval_nums(&i), shown, interval_nums(&j), i == j, Interval::from_str(&i.value).map(|k| interval_nums(&k)).ok())
    }));
    cx.rep.case(&format!("interval_rt {}", hex_str(text)), true);
    cx.rep.count("interval_roundtrips");
    match r {
        Ok((a, shown, b, eq, c)) => {
            if a != b || shown != text || !eq || c != Some(a) {
                rt_fail(cx, FailKind::Oracle, "INTERVAL does not round-trip through its text", format!("parse interval {}\ntext {:?}\nnew: {:?} display: {:?} reparsed: {:?} from_str: {:?} ==: {}", hex_str(text), text, a, shown, b, c, eq));
            }
        }
        Err(p) => rt_fail(cx, FailKind::Oracle, "Interval::new / Display panicked", format!("parse interval {}\ntext {:?}\npanic: {}", hex_str(text), text, engine::panic_text(p))),
    }
    parse_case(cx, K::Interval, text, "roundtrip");
}

// ---------------------------------------------------------------- generators

const ODD: &[&str] = &[
    "", "-", "+", "+5", "-5", "--5", "+-5", "05", "005", "0", "00", "é", "éé", "ééééé", "aéééé", "a", "x1", "1x", " ", "\t", "\u{2003}", "\u{85}",
    "\u{3000}", "١", "٣", "１", "255", "256", "999", "2147483647", "2147483648", "-2147483648", "-2147483649", "4294967295", "4294967296",
    "9223372036854775807", "9223372036854775808", "-9223372036854775808", "99999999999999999999", "000000000000000000000000001", "1.5", ".", "..", ":", "::",
    "Z", "z", "T", "+05:00", "-05:00", "+0530", "+05", "+aé:b", "+é:ab", "12:00", "999999999", "1000000000", "123456789", "1234567890", "ſ", "ı", "ß", "ﬆ",
];

fn mutate_field(r: &mut Rng, f: &str) -> (String, &'static str) {
    match r.below(9) {
        0 => (r.pick(ODD).to_string(), "odd_token"),
        1 => (format!("{}{}", r.pick(&["+", "-", " ", "é", "0", "\u{2003}"]), f), "prefix"),
        2 => (format!("{}{}", f, r.pick(&["+", "-", " ", "é", "0", "Z", "\u{3000}", "ééééé"])), "suffix"),
        3 => ("9".repeat(r.range(1, 25) as usize), "long_digits"),
        4 => (String::new(), "empty"),
        5 => (format!("{}", r.next() as i64), "random_i64"),
        6 => (format!("{}", r.range(-300, 300)), "small_int"),
        7 => {
            let mut cs: Vec<char> = f.chars().collect();
            if !cs.is_empty() {
                let i = r.below(cs.len() as u64) as usize;
                cs[i] = *r.pick(&['é', 'a', '-', ':', '.', ' ', '+', '９', '\u{80}', 'ſ']);
            }
            (cs.into_iter().collect(), "char_replaced")
        }
        _ => (f.to_string(), "kept"),
    }
}

fn gen_date(r: &mut Rng) -> Vec<String> {
    let y = match r.below(4) {
        0 => r.range(1990, 2030),
        1 => r.range(-20000, 20000),
        2 => r.next() as i32 as i64,
        _ => r.range(0, 9999),
    };
    let m = if r.chance(4, 5) { r.range(1, 12) } else { r.range(0, 300) };
    let d = if r.chance(4, 5) { r.range(1, 31) } else { r.range(0, 300) };
    let w = *r.pick(&[1usize, 2, 2, 2, 3]);
    vec![format!("{:04}", y), format!("{:0w$}", m, w = w), format!("{:0w$}", d, w = w)]
}
fn gen_time(r: &mut Rng) -> (Vec<String>, Option<String>) {
    let h = if r.chance(4, 5) { r.range(0, 23) } else { r.range(0, 300) };
    let mi = if r.chance(4, 5) { r.range(0, 59) } else { r.range(0, 300) };
    let s = if r.chance(4, 5) { r.range(0, 59) } else { r.range(0, 300) };
    let frac = if r.chance(1, 2) {
        let n = r.range(0, 12) as usize;
        Some((0..n).map(|_| char::from(b'0' + r.below(10) as u8)).collect::<String>())
    } else {
        None
    };
    (vec![format!("{:02}", h), format!("{:02}", mi), format!("{:02}", s)], frac)
}

fn build(r: &mut Rng, k: K) -> (String, String) {
    // returns (text, mutation kind)
    let mut kind = "valid_shape".to_string();
    let mutate = r.chance(3, 5);
    match k {
        K::Date => {
            let mut f = gen_date(r);
            if mutate {
                let i = r.below(3) as usize;
                let (n, mk) = mutate_field(r, &f[i]);
                f[i] = n;
                kind = mk.into();
            }
            let sep = if r.chance(1, 12) { *r.pick(&["/", "--", " ", "−"]) } else { "-" };
            (f.join(sep), kind)
        }
        K::Time => {
            let (mut f, mut frac) = gen_time(r);
            if mutate {
                let i = r.below(4) as usize;
                if i < 3 {
                    let (n, mk) = mutate_field(r, &f[i]);
                    f[i] = n;
                    kind = mk.into();
                } else {
                    let (n, mk) = mutate_field(r, frac.as_deref().unwrap_or("5"));
                    frac = Some(n);
                    kind = format!("frac_{}", mk);
                }
            }
            let mut s = f.join(if r.chance(1, 15) { "." } else { ":" });
            if let Some(fr) = frac {
                s.push('.');
                s.push_str(&fr);
            }
            (s, kind)
        }
        K::Ts => {
            let (d, _) = build(r, K::Date);
            let (t, tk) = build(r, K::Time);
            let sep = *r.pick(&[" ", " ", "T", "T", "  ", "\t", "\u{2003}", "t", ""]);
            let tz_pool = ["", "", "Z", "z", "+05:00", "-08:00", "+0530", "-08", "+5", "+05:0", "+aé:b", "+é:ab", "+ab:é", "+12:34:56", "-é", "+１２:００", " +05:00", "+05:00 "];
            let mut tz = r.pick(&tz_pool).to_string();
            if r.chance(1, 6) {
                let (n, _) = mutate_field(r, "+05:00");
                tz = n;
            }
            let pad_l = if r.chance(1, 8) { *r.pick(&[" ", "\u{85}", "\u{3000}\t", "\n"]) } else { "" };
            let pad_r = if r.chance(1, 8) { *r.pick(&[" ", "\u{a0}", "\u{2028}", "\r\n"]) } else { "" };
            let body = if r.chance(1, 8) { d.clone() } else { format!("{}{}{}{}", d, sep, t, tz) };
            (format!("{}{}{}", pad_l, body, pad_r), format!("ts_{}", tk))
        }
        K::Interval => {
            let units = [
                "YEAR", "YEARS", "MONTH", "MONTHS", "DAY", "DAYS", "HOUR", "HOURS", "MINUTE", "MINUTES", "SECOND", "SECONDS", "year", "Month", "dAy", "ſECOND", "mınute",
                "MıNUTES", "ſeconds", "SECONDß", "WEEK", "", "TO", "ＤＡＹ", "DAY\u{301}",
            ];
            let num = |r: &mut Rng| -> String {
                match r.below(8) {
                    0 => r.range(-50, 400).to_string(),
                    1 => (r.next() as i64).to_string(),
                    2 => (r.next() as i32).to_string(),
                    3 => format!("{}.{}", r.range(-5, 100), r.below(10_000_000)),
                    4 => r.pick(ODD).to_string(),
                    5 => r.pick(&["178956970", "178956971", "-178956971", "2562047788015", "2562047788016", "153722867280912", "153722867280913", "9223372036854", "9223372036855", "-9223372036855"]).to_string(),
                    6 => format!("{}.{}", r.pick(&["9223372036854", "-9223372036854", "0", "", "x"]), r.pick(&["775807", "775808", "9", "é", "aéééé", "ééé", "", "-5", "+5", "1234567"])),
                    _ => r.range(0, 99).to_string(),
                }
            };
            let sp = |r: &mut Rng| -> &'static str {
                if r.chance(1, 10) {
                    *r.pick(&["  ", "\t", "\u{2003}", "\u{85}", "\u{3000}", "\u{a0}", "", "\u{200b}"])
                } else {
                    " "
                }
            };
            let text = match r.below(6) {
                0 | 1 => format!("{}{}{}", num(r), sp(r), r.pick(&units)),
                2 => {
                    let v = if r.chance(1, 2) { format!("{}-{}", num(r), num(r)) } else { num(r) };
                    format!("{}{}{}{}{}{}{}", v, sp(r), r.pick(&["YEAR", "year", "DAY", "MONTH"]), sp(r), r.pick(&["TO", "to", "To", "T0"]), sp(r), r.pick(&["MONTH", "month", "YEAR", ""]))
                }
                3 => {
                    let t = format!("{}:{}:{}", num(r), num(r), num(r));
                    let t = if r.chance(1, 3) { t.replacen(':', "", r.below(2) as usize + 1) } else { t };
                    format!("{}{}{}{}{}{}{}", t, sp(r), r.pick(&["HOUR", "MINUTE", "SECOND", "hour", "DAY"]), sp(r), "TO", sp(r), r.pick(&["SECOND", "MINUTE", ""]))
                }
                4 => format!("{}{}{}:{}:{}{}DAY{}TO{}{}", num(r), sp(r), num(r), num(r), num(r), sp(r), sp(r), sp(r), r.pick(&["SECOND", "HOUR"])),
                _ => {
                    // word soup around TO
                    let n = r.below(5);
                    let words = ["TO", "to", "1", "YEAR", "MONTH", "DAY", "5-3", "x", "é", "HOUR", "1:2:3"];
                    (0..n).map(|_| r.pick(&words).to_string()).collect::<Vec<_>>().join(sp(r))
                }
            };
            (text, "interval_shape".into())
        }
    }
}

fn random_soup(r: &mut Rng) -> String {
    let alpha: Vec<char> = "0123456789-:.+ TZtz \u{2003}\u{85}\u{3000}\t\néaſıDAYEROMNTHUSC９٣\u{10ffff}\u{80}".chars().collect();
    let n = r.below(24);
    (0..n).map(|_| *r.pick(&alpha)).collect()
}

fn main() {
    let args = Args::parse("C22");
    engine::silence_panics();
    let rep = Report::new(
        &args,
        "round-trip case: a value accepted by Date::new / Time::new (or an Interval built from text) is displayed and re-parsed; parse case: the string yields a value, or has the separator structure of its type so that at least one field parser runs",
    );
    let model = args.model();
    let mut cx = Ctx { model, rep };
    let mut rng = Rng::new(args.seed);

    if let Some(path) = &args.replay {
        let text = std::fs::read_to_string(path).unwrap_or_default();
        for l in text.lines() {
            let w: Vec<&str> = l.split_whitespace().collect();
            if w.len() == 3 && w[0] == "parse" {
                if let (Some(k), Some(s)) = (K::of(w[1]), unhex_str(w[2])) {
                    let real = parse_case(&mut cx, k, &s, "replay");
                    println!("replay {} {:?} -> real {}", k.name(), s, real);
                    if k == K::Interval {
                        interval_roundtrip(&mut cx, &s);
                    }
                }
            }
        }
        std::process::exit(cx.rep.finish());
    }

    // ------------------------------------------------------------ deterministic probes
    // strings that made the parsers panic before the repairs (de528fa2, 0606ba2f), and the
    // negative-year text that Date's own Display prints (d3639607)
    let regress: &[(K, &str)] = &[
        (K::Time, "12:00:00.ééééé"),
        (K::Time, "12:00:00.aéééé"),
        (K::Time, "12:00:00.\u{10ffff}\u{10ffff}\u{10ffff}"),
        (K::Ts, "2024-01-01 00:00:00+aé:b"),
        (K::Ts, "2024-01-01 00:00:00+é:ab"),
        (K::Ts, "2024-01-01 00:00:00-12:é"),
        (K::Ts, "2024-01-01T00:00:00.ééééé"),
        (K::Interval, "1.aéééé SECOND"),
        (K::Interval, "1:2:3.aéééé HOUR TO SECOND"),
        (K::Interval, "999999999 YEAR"),
        (K::Interval, "-999999999 YEARS"),
        (K::Interval, "9223372036854 HOUR"),
        (K::Interval, "9223372036854775807 MINUTE"),
        (K::Interval, "9223372036854775807 SECOND"),
        (K::Interval, "9223372036854.9 SECOND"),
        (K::Interval, "-9223372036855.0 SECOND"),
        (K::Interval, "999999999-1 YEAR TO MONTH"),
        (K::Interval, "178956970-8 YEAR TO MONTH"),
        (K::Interval, "-178956970--9 YEAR TO MONTH"),
        (K::Interval, "2562047788015:0:0 HOUR TO SECOND"),
        (K::Interval, "2562047788015:153722867280:9223372036854 HOUR TO SECOND"),
        (K::Interval, "1 YEAR TO"),
        (K::Interval, "1 2 TO"),
        (K::Interval, "TO"),
        (K::Interval, "1 TO MONTH"),
        (K::Interval, "1 ſECOND"),
        (K::Interval, "1 mınute"),
        (K::Interval, "1 SECONDß"),
        (K::Interval, "1\u{2003}DAY"),
        (K::Interval, "1\u{200b}DAY"),
        (K::Date, "-005-01-01"),
        (K::Date, "-2147483648-12-31"),
        (K::Date, "2024-01-01-05"),
        (K::Date, "--5-01-01"),
        (K::Ts, "-005-01-01 00:00:00"),
        (K::Ts, "2024-01-01-05:00"),
        (K::Ts, "Z"),
        (K::Ts, ""),
        (K::Ts, "+05:00"),
        (K::Ts, "2024-01-01 1:2:3+0"),
    ];
    for (k, s) in regress {
        let real = parse_case(&mut cx, *k, s, "regression_probe");
        cx.rep.sample(serde_json::json!({"kind": k.name(), "text": s, "real": real}));
    }
    // documented formats
    for s in ["2024-01-01", "0001-01-01", "9999-12-31", "2024-1-1", "+2024-01-01", "2024-13-01", "2024-00-10", "2024-01-32"] {
        parse_case(&mut cx, K::Date, s, "corpus");
    }
    for s in ["14:30:00", "14:30:00.123", "14:30:00.123456789", "14:30:00.1234567891", "24:00:00", "23:60:00", "23:59:60", "1:2:3", "+1:+2:+3", "14:30", "14:30:00.", "14.30.00"] {
        parse_case(&mut cx, K::Time, s, "corpus");
    }
    for s in [
        "2024-01-01T14:30:00", "2024-01-01T14:30:00.123456", "2024-01-01 14:30:00", "2024-01-01 14:30:00.123456", "2024-01-01T14:30:00Z", "2024-01-01T14:30:00+05:00",
        "2024-01-01T14:30:00-0500", "2024-01-01T14:30:00-05", "2024-01-01", "2025-11-10T08:24:34", " 2025-11-10 08:24:34 ", "2024-01-01t14:30:00", "2024-01-01 14:30:00 +05:00",
    ] {
        parse_case(&mut cx, K::Ts, s, "corpus");
    }
    for s in ["5 YEAR", "1-6 YEAR TO MONTH", "5 12:30:45 DAY TO SECOND", "30 DAY", "12:30:45 HOUR TO SECOND", "24 HOUR", "1.5 SECOND", "0 DAY", "1 MONTH", "90 MINUTE", "1 year", "5 DAY TO HOUR"] {
        interval_roundtrip(&mut cx, s);
    }

    // Unicode tables the model relies on, checked against the real `char` methods for every scalar value
    let mut ws_real: Vec<char> = vec![];
    let mut upper_ascii: Vec<(char, String)> = vec![];
    for cp in 0u32..=0x10ffff {
        if let Some(c) = char::from_u32(cp) {
            if c.is_whitespace() {
                ws_real.push(c);
            }
            let u: String = c.to_uppercase().collect();
            if u.is_ascii() && u.chars().any(|x| x.is_ascii_alphabetic()) {
                upper_ascii.push((c, u));
            }
        }
    }
    cx.rep.extra.insert("unicode_whitespace_chars_in_std".into(), serde_json::json!(ws_real.len()));
    cx.rep.extra.insert("chars_with_ascii_uppercase_in_std".into(), serde_json::json!(upper_ascii.len()));
    let mut ws_probe: Vec<char> = vec![];
    for c in &ws_real {
        for d in [-1i32, 0, 1] {
            if let Some(x) = char::from_u32((*c as i32 + d) as u32) {
                ws_probe.push(x);
            }
        }
    }
    ws_probe.extend(['\u{180e}', '\u{200b}', '\u{2060}', '\u{feff}', '\u{1f}', '\u{7f}', 'é', '\u{2800}']);
    for c in ws_probe {
        parse_case(&mut cx, K::Interval, &format!("7{}DAY", c), "whitespace_table");
        parse_case(&mut cx, K::Ts, &format!("{}2024-01-01{}10:00:00{}", c, c, c), "whitespace_table");
    }
    let kws = ["YEAR", "MONTHS", "DAY", "HOURS", "MINUTE", "SECONDS"];
    for (c, u) in &upper_ascii {
        for kwd in kws {
            // put `c` where its uppercase expansion occurs in the keyword, and at position 0
            let mut texts = vec![format!("3 {}{}", c, &kwd[1..])];
            if let Some(p) = kwd.find(u.as_str()) {
                texts.push(format!("3 {}{}{}", &kwd[..p], c, &kwd[p + u.len()..]));
            }
            for t in texts {
                parse_case(&mut cx, K::Interval, &t, "uppercase_table");
            }
        }
    }

    // ------------------------------------------------------------ round trips
    let years: Vec<i32> = vec![i32::MIN, i32::MIN + 1, -100000000, -99999999, -10000, -9999, -1000, -999, -100, -99, -10, -9, -1, 0, 1, 9, 10, 99, 100, 999, 1000, 1999, 2024, 9999, 10000, 99999, 9999999, 10000000, 99999999, 100000000, 999999999, 1000000000, i32::MAX - 1, i32::MAX];
    let months: Vec<u8> = vec![0, 1, 2, 9, 10, 11, 12, 13, 255];
    let days: Vec<u8> = vec![0, 1, 2, 9, 10, 28, 29, 30, 31, 32, 255];
    for &y in &years {
        for &m in &months {
            for &d in &days {
                date_roundtrip(&mut cx, y, m, d);
            }
        }
    }
    let hours: Vec<u8> = vec![0, 1, 9, 10, 12, 23, 24, 255];
    let mins: Vec<u8> = vec![0, 1, 9, 10, 59, 60];
    let nanos: Vec<u32> = vec![0, 1, 9, 10, 100, 1000, 123456789, 100000000, 500000000, 120000000, 999999999, 999999990, 999000000, 1000000, 1000000000, u32::MAX, 10, 20300];
    for &h in &hours {
        for &mi in &mins {
            for &s in &mins {
                for &n in &nanos {
                    if (h == 23 || mi == 59 || s == 59 || n > 999999000 || (h as u32 + mi as u32 + s as u32) % 3 == 0) || n < 11 {
                        time_roundtrip(&mut cx, h, mi, s, n);
                    }
                }
            }
        }
    }
    for &y in &years {
        for (m, d) in [(1u8, 1u8), (12, 31), (2, 29)] {
            for t in [(0u8, 0u8, 0u8, 0u32), (23, 59, 59, 999999999), (1, 2, 3, 400000000), (12, 0, 0, 1)] {
                ts_roundtrip(&mut cx, (y, m, d), t);
            }
        }
    }
    let n_rt = args.n(6000, 150000);
    for _ in 0..n_rt {
        let y = match rng.below(3) {
            0 => rng.range(1, 9999) as i32,
            1 => rng.next() as i32,
            _ => rng.range(-20000, 20000) as i32,
        };
        let d = (y, rng.range(1, 12) as u8, rng.range(1, 31) as u8);
        let n = match rng.below(4) {
            0 => 0,
            1 => rng.below(1_000_000_000) as u32,
            2 => (rng.below(1000) * 1_000_000) as u32,
            _ => (rng.below(10) * 100_000_000) as u32,
        };
        let t = (rng.range(0, 23) as u8, rng.range(0, 59) as u8, rng.range(0, 59) as u8, n);
        match rng.below(3) {
            0 => date_roundtrip(&mut cx, d.0, d.1, d.2),
            1 => time_roundtrip(&mut cx, t.0, t.1, t.2, t.3),
            _ => ts_roundtrip(&mut cx, d, t),
        }
    }

    // ------------------------------------------------------------ generated strings (totality + correspondence)
    let n_gen = args.n(60000, 1500000);
    let mut first_mut_samples = 0;
    for i in 0..n_gen {
        let k = [K::Date, K::Time, K::Ts, K::Interval, K::Interval][(i % 5) as usize];
        let (text, kind) = if rng.chance(1, 12) { (random_soup(&mut rng), "random_soup".to_string()) } else { build(&mut rng, k) };
        cx.rep.count(&format!("mutation_{}", kind));
        let real = parse_case(&mut cx, k, &text, "generated");
        if k == K::Interval && rng.chance(1, 4) {
            interval_roundtrip(&mut cx, &text);
        }
        if first_mut_samples < 3 && !text.is_ascii() {
            first_mut_samples += 1;
            cx.rep.sample(serde_json::json!({"kind": k.name(), "text": text, "real": real, "mutation": kind}));
        }
    }

    cx.rep.assumptions.push("inputs are Rust &str, i.e. valid UTF-8; the model works on their bytes".into());
    cx.rep.assumptions.push("the harness is built with overflow-checks = true, so an unchecked integer overflow in a parser would surface as a panic".into());
    cx.rep.assumptions.push("Interval's three private numbers are read from its derived Debug output".into());
    std::process::exit(cx.rep.finish());
}
