import VibeProof.Model.Proto
import VibeProof.Model.Priv
open VibeProof VibeProof.Proto VibeProof.Priv

/-! Driver for C26.  One request = one whole script (the driver is stateless):
  `script ITEM…` → `(r REPLY…)`, one reply per item, catalogue state threaded through.
  Names are hex atoms.  Privileges: `sel ins upd del ref usg cre exe trg all (selc COL…) (insc COL…) (updc COL…)`.
  Items:
    `(table NAME)` `(droptable NAME)` `(createrole NAME)` `(droprole NAME)`
    `(grant CUR (PRIV…) OBJ (GRANTEE…) WGO)` `(revoke (PRIV…) OBJ (GRANTEE…) GOF none|cascade|restrict)`
    `(add OBJ PRIV GRANTEE GRANTOR WGO)` `(rem OBJ GRANTEE PRIV OPTONLY)`        -- store level
    `(has GRANTEE OBJ PRIV)` `(dep OBJ GRANTEE PRIV)`
    `(auth SEC ROLE STMT)` with STMT = `(select FP)` `(insert T FP)` `(update T FP)` `(delete T FP)`,
       FP = `none` `(t NAME)` `(v NAME FP)` `(b FP FP)`                            -/

def decStr : Sx → Option String
  | .atom h => hexToStr h
  | _ => none

def decCols (xs : List Sx) : Option (List String) := xs.mapM decStr

def decPriv : Sx → Option Priv
  | .atom "sel" => some (.select none) | .atom "ins" => some (.insert none)
  | .atom "upd" => some (.update none) | .atom "del" => some .delete
  | .atom "ref" => some (.references none) | .atom "usg" => some .usage
  | .atom "cre" => some .create | .atom "exe" => some .execute | .atom "trg" => some .trigger
  | .atom "all" => some .all
  | .list (.atom "selc" :: cs) => (decCols cs).map (fun c => .select (some c))
  | .list (.atom "insc" :: cs) => (decCols cs).map (fun c => .insert (some c))
  | .list (.atom "updc" :: cs) => (decCols cs).map (fun c => .update (some c))
  | _ => none

def decBool : Sx → Option Bool
  | .atom "1" => some true | .atom "0" => some false | _ => none

partial def decFp : Sx → Option Fp
  | .atom "none" => some .none
  | .list [.atom "t", n] => (decStr n).map Fp.table
  | .list [.atom "v", n, b] => do pure (.view (← decStr n) (← decFp b))
  | .list [.atom "b", a, b] => do pure (.both (← decFp a) (← decFp b))
  | _ => none

def decStmt : Sx → Option Stmt
  | .list [.atom "select", q] => (decFp q).map Stmt.select
  | .list [.atom "insert", t, q] => do pure (.insert (← decStr t) (← decFp q))
  | .list [.atom "update", t, q] => do pure (.update (← decStr t) (← decFp q))
  | .list [.atom "delete", t, q] => do pure (.delete (← decStr t) (← decFp q))
  | .list (.atom "truncate" :: ts) => (ts.mapM decStr).map Stmt.truncate
  | _ => none

def encErr : Err → Sx
  | .tableNotFound => .list [.atom "err", .atom "tablenotfound"]
  | .roleNotFound => .list [.atom "err", .atom "rolenotfound"]
  | .roleExists => .list [.atom "err", .atom "roleexists"]
  | .dependentPrivileges => .list [.atom "err", .atom "dependent"]
  | .stackOverflow => .list [.atom "err", .atom "stackoverflow"]

def encAccess : Access → String
  | .select => "select" | .insert => "insert" | .update => "update" | .delete => "delete"

def encOutcome : Outcome → Sx
  | .done => .atom "done"
  | .permissionDenied c => .list [.atom "denied", .atom (encAccess c.access), sxStr c.object]
  | .inertSuccess => .atom "inert"

def decCascade : Sx → Option Cascade
  | .atom "none" => some .none | .atom "cascade" => some .cascade | .atom "restrict" => some .restrict
  | _ => none

def item (c : Cat) (it : Sx) : Cat × Sx :=
  let bad := (c, Sx.atom "bad-request")
  let fin (r : Except Err Cat) : Cat × Sx :=
    match r with
    | .ok c' => (c', .atom "ok")
    | .error e => (c, encErr e)
  match it with
  | .list [.atom "table", n] =>
    match decStr n with
    | some n => ({ c with tables := if c.tables.contains n then c.tables else c.tables ++ [n] }, .atom "ok")
    | none => bad
  | .list [.atom "droptable", n] =>
    match decStr n with
    | some n => ({ c with tables := c.tables.filter (· != n) }, .atom "ok")
    | none => bad
  | .list [.atom "createrole", n] => match decStr n with | some n => fin (createRole c n) | none => bad
  | .list [.atom "droprole", n] => match decStr n with | some n => fin (dropRole c n) | none => bad
  | .list [.atom "grant", cur, .list ps, o, .list gs, w] =>
    match decStr cur, ps.mapM decPriv, decStr o, gs.mapM decStr, decBool w with
    | some cur, some ps, some o, some gs, some w => fin (execGrant c cur ps o gs w)
    | _, _, _, _, _ => bad
  | .list [.atom "revoke", .list ps, o, .list gs, gof, casc] =>
    match ps.mapM decPriv, decStr o, gs.mapM decStr, decBool gof, decCascade casc with
    | some ps, some o, some gs, some gof, some casc => fin (execRevoke 64 c ps o gs gof casc)
    | _, _, _, _, _ => bad
  | .list [.atom "add", o, p, g, gr, w] =>
    match decStr o, decPriv p, decStr g, decStr gr, decBool w with
    | some o, some p, some g, some gr, some w => ({ c with grants := addGrant c.grants ⟨o, p, g, gr, w⟩ }, .atom "ok")
    | _, _, _, _, _ => bad
  | .list [.atom "rem", o, g, p, b] =>
    match decStr o, decStr g, decPriv p, decBool b with
    | some o, some g, some p, some b => ({ c with grants := removeGrants c.grants o g p b }, .atom "ok")
    | _, _, _, _ => bad
  | .list [.atom "has", g, o, p] =>
    match decStr g, decStr o, decPriv p with
    | some g, some o, some p => (c, sxBool (hasPrivilege c.grants g o p))
    | _, _, _ => bad
  | .list [.atom "dep", o, g, p] =>
    match decStr o, decStr g, decPriv p with
    | some o, some g, some p => (c, sxBool (hasDependentGrants c.grants o g p))
    | _, _, _ => bad
  | .list [.atom "auth", sec, role, st] =>
    match decBool sec, decStr role, decStmt st with
    | some sec, some role, some st => (c, encOutcome (step sec role c.grants st (fun (n : Nat) => n + 1) 0).2)
    | _, _, _ => bad
  | .list [.atom "ngrants"] => (c, sxNat c.grants.length)
  | .list [.atom "wgo", g, o, p] =>
    match decStr g, decStr o, decPriv p with
    | some g, some o, some p =>
      (c, .list ((c.grants.filter (fun x => x.isFor g o p)).map (fun x => sxBool x.withGrantOption)))
    | _, _, _ => bad
  | _ => bad

def handle : List Sx → Sx
  | .atom "script" :: items =>
    let (_, out) := items.foldl (fun (acc : Cat × List Sx) it =>
      let (c', r) := item acc.1 it
      (c', r :: acc.2)) (⟨[], [], []⟩, [])
    .list (.atom "r" :: out.reverse)
  | _ => .atom "bad-request"

def main : IO Unit := runDriver handle
