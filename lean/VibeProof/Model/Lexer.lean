import VibeProof.Generated.Consts
/-
C23 — the complete lexer of `crates/vibesql-parser/src/lexer/{mod,identifiers,numbers,operators,
strings,keywords}.rs`, as coded, over `List Char` (the Rust lexer works on `Vec<char>`).

Every scanner returns the unread rest **together with a proof that it is not longer than what
it was given**; `nextToken` returns a rest strictly shorter than the input it was called on.
These proofs are what makes `tokenizeFrom` (well-founded recursion on the number of unread
characters) a definition at all: a branch of `next_token` that did not advance would be rejected
by Lean here.  (T1 of DESIGN.md §7 C23.)

Unicode classification (`char::is_whitespace`, `char::is_alphanumeric`, `char::to_uppercase`) of
non-ASCII characters is a parameter (`Cls`), supplied by the harness from Rust's std for the
characters of each input; the ASCII part is defined here.  All theorems hold for every `Cls`.
-/
namespace VibeProof.Lexer

structure Cls where
  /-- `char::is_whitespace` on non-ASCII characters -/
  wsNonAscii : Char → Bool
  /-- `char::is_alphanumeric` on non-ASCII characters -/
  alnumNonAscii : Char → Bool
  /-- `char::to_uppercase` on non-ASCII characters -/
  upperNonAscii : Char → List Char

def isAscii (c : Char) : Bool := c.toNat < 128
def isDigit (c : Char) : Bool := 48 ≤ c.toNat && c.toNat ≤ 57
def isAsciiAlpha (c : Char) : Bool := (65 ≤ c.toNat && c.toNat ≤ 90) || (97 ≤ c.toNat && c.toNat ≤ 122)
def isAsciiAlnum (c : Char) : Bool := isDigit c || isAsciiAlpha c
/-- `char::is_whitespace`: U+0009..U+000D, U+0020 in ASCII -/
def isWs (k : Cls) (c : Char) : Bool :=
  if isAscii c then (9 ≤ c.toNat && c.toNat ≤ 13) || c.toNat = 32 else k.wsNonAscii c
def isAlnum (k : Cls) (c : Char) : Bool := if isAscii c then isAsciiAlnum c else k.alnumNonAscii c
def upperChar (k : Cls) (c : Char) : List Char :=
  if isAscii c then (if 97 ≤ c.toNat && c.toNat ≤ 122 then [Char.ofNat (c.toNat - 32)] else [c])
  else k.upperNonAscii c

inductive Tok where
  | kw (variant : String)
  | ident (s : List Char)
  | delim (s : List Char)
  | num (s : List Char)
  | str (s : List Char)
  | sym (c : Char)
  | op (s : List Char)
  | svar (s : List Char)
  | uvar (s : List Char)
  | semi | comma | lparen | rparen | eof
  deriving Repr, DecidableEq, Inhabited

inductive ErrKind where
  | unexpectedChar | singlePipe | emptySessionVar | emptyUserVar | badExponent
  | emptyDelimited | unterminatedDelimited | unterminatedString
  deriving Repr, DecidableEq, Inhabited

structure LexErr where
  kind : ErrKind
  /-- `LexerError::position` (index into the character vector) -/
  pos : Nat
  deriving Repr, DecidableEq, Inhabited

/-- a rest that is no longer than `n` -/
abbrev RestLe (n : Nat) := { r : List Char // r.length ≤ n }

/-- `while !eof && p(current) { advance }`: the consumed prefix and the rest -/
def spanP (p : Char → Bool) : (cs : List Char) → List Char × RestLe cs.length
  | [] => ([], ⟨[], Nat.le_refl _⟩)
  | c :: cs =>
    if p c then
      let r := spanP p cs
      (c :: r.1, ⟨r.2.1, Nat.le_succ_of_le r.2.2⟩)
    else ([], ⟨c :: cs, Nat.le_refl _⟩)

/-- the input without its first character -/
def drop1 (cs : List Char) : RestLe cs.length := ⟨cs.drop 1, by rw [List.length_drop]; omega⟩

/-- `skip_whitespace_and_comments`; `inComment` = inside a `--` comment (runs to the next `\n`,
    which is then skipped as whitespace) -/
def skipTrivia (k : Cls) : Bool → (cs : List Char) → RestLe cs.length
  | _, [] => ⟨[], Nat.le_refl _⟩
  | true, c :: cs =>
    let r := if c = '\n' then skipTrivia k false cs else skipTrivia k true cs
    ⟨r.1, Nat.le_succ_of_le r.2⟩
  | false, [c] => if isWs k c then ⟨[], Nat.zero_le _⟩ else ⟨[c], Nat.le_refl _⟩
  | false, c :: d :: cs' =>
    if isWs k c then
      let r := skipTrivia k false (d :: cs')
      ⟨r.1, Nat.le_succ_of_le r.2⟩
    else if c = '-' && d = '-' then
      let r := skipTrivia k true cs'
      ⟨r.1, Nat.le_succ_of_le (Nat.le_succ_of_le r.2)⟩
    else ⟨c :: d :: cs', Nat.le_refl _⟩

/-- body of a quoted token after the opening quote `q`: content and rest, `none` = unterminated.
    `q q` inside is one `q`. -/
def quotedBody (q : Char) : (cs : List Char) → Option (List Char × RestLe cs.length)
  | [] => none
  | [c] => if c = q then some ([], ⟨[], Nat.zero_le _⟩) else none
  | c :: d :: cs' =>
    if c = q then
      if d = q then
        match quotedBody q cs' with
        | none => none
        | some (s, r) => some (q :: s, ⟨r.1, Nat.le_succ_of_le (Nat.le_succ_of_le r.2)⟩)
      else some ([], ⟨d :: cs', Nat.le_succ _⟩)
    else
      match quotedBody q (d :: cs') with
      | none => none
      | some (s, r) => some (c :: s, ⟨r.1, Nat.le_succ_of_le r.2⟩)

/-- digits with at most one `.` (`has_dot` tracks the one already seen) -/
def numBody : Bool → (cs : List Char) → List Char × RestLe cs.length
  | _, [] => ([], ⟨[], Nat.le_refl _⟩)
  | hasDot, c :: cs =>
    if isDigit c then
      let r := numBody hasDot cs
      (c :: r.1, ⟨r.2.1, Nat.le_succ_of_le r.2.2⟩)
    else if c = '.' && !hasDot then
      let r := numBody true cs
      (c :: r.1, ⟨r.2.1, Nat.le_succ_of_le r.2.2⟩)
    else ([], ⟨c :: cs, Nat.le_refl _⟩)

/-- optional exponent part after the mantissa; error = `E` without digits; `consumedBefore` is
    only used for the error position -/
def exponent (pos : Nat) : (cs : List Char) → Except LexErr (List Char × RestLe cs.length)
  | [] => .ok ([], ⟨[], Nat.le_refl _⟩)
  | c :: cs =>
    if c = 'E' || c = 'e' then
      -- optional sign
      let signed : Bool := match cs.head? with
        | some s => s = '+' || s = '-'
        | none => false
      let afterSign : List Char × RestLe cs.length :=
        if signed then (cs.take 1, drop1 cs) else ([], ⟨cs, Nat.le_refl _⟩)
      let ds := spanP isDigit afterSign.2.1
      if ds.1.isEmpty then .error ⟨.badExponent, pos + 1 + afterSign.1.length⟩
      else .ok (c :: (afterSign.1 ++ ds.1), ⟨ds.2.1, Nat.le_succ_of_le (Nat.le_trans ds.2.2 afterSign.2.2)⟩)
    else .ok ([], ⟨c :: cs, Nat.le_refl _⟩)

/-- `tokenize_number` on `c :: cs` (first character a digit, or `.` followed by a digit) -/
def lexNumber (pos : Nat) (c : Char) (cs : List Char) : Except LexErr (Tok × RestLe cs.length) :=
  -- leading `.` sets has_dot; a leading digit is consumed by the digit loop
  let m := numBody (c = '.') cs
  match exponent (pos + 1 + m.1.length) m.2.1 with
  | .error e => .error e
  | .ok (ex, r) => .ok (.num (c :: (m.1 ++ ex)), ⟨r.1, Nat.le_trans r.2 m.2.2⟩)

def lookupKw (upper : String) : List (String × String) → Option String
  | [] => none
  | (k, v) :: rest => if k = upper then some v else lookupKw upper rest

/-- `keywords::map_keyword(text.to_uppercase())` -/
def identOrKeyword (k : Cls) (w : List Char) : Tok :=
  let up := w.flatMap (upperChar k)
  match lookupKw (String.ofList up) VibeProof.Generated.lexerKeywords with
  | some v => .kw v
  | none => .ident up

/-- `next_token` on the non-empty input `c :: cs` at character index `pos`: the token and the
    unread rest, which is **no longer than `cs`** — i.e. at least `c` has been consumed. -/
def nextToken (k : Cls) (pos : Nat) (c : Char) (cs : List Char) : Except LexErr (Tok × RestLe cs.length) :=
  let here : RestLe cs.length := ⟨cs, Nat.le_refl _⟩
  if c = ';' then .ok (.semi, here)
  else if c = ',' then .ok (.comma, here)
  else if c = '(' then .ok (.lparen, here)
  else if c = ')' then .ok (.rparen, here)
  else if c = '=' || c = '<' || c = '>' || c = '!' then
    match cs.head? with
    | some d =>
      if (c = '<' && d = '=') || (c = '>' && d = '=') || (c = '!' && d = '=') || (c = '<' && d = '>') then
        .ok (.op [c, d], drop1 cs)
      else .ok (.sym c, here)
    | none => .ok (.sym c, here)
  else if c = '|' then
    match cs.head? with
    | some d => if d = '|' then .ok (.op ['|', '|'], drop1 cs) else .error ⟨.singlePipe, pos⟩
    | none => .error ⟨.singlePipe, pos⟩
  else if c = '@' then
    if cs.head? = some '@' then
      let r := spanP (fun ch => (isAscii ch && isAsciiAlnum ch) || ch = '_' || ch = '.') (drop1 cs).1
      if r.1.isEmpty then .error ⟨.emptySessionVar, pos + 2⟩
      else .ok (.svar r.1, ⟨r.2.1, Nat.le_trans r.2.2 (drop1 cs).2⟩)
    else
      let r := spanP (fun ch => (isAscii ch && isAsciiAlnum ch) || ch = '_') cs
      if r.1.isEmpty then .error ⟨.emptyUserVar, pos + 1⟩ else .ok (.uvar r.1, r.2)
  else if c = '.' then
    match cs.head? with
    | some d => if isDigit d then lexNumber pos c cs else .ok (.sym '.', here)
    | none => .ok (.sym '.', here)
  else if c = '+' || c = '-' || c = '*' || c = '/' then .ok (.sym c, here)
  else if c = '\'' then
    match quotedBody '\'' cs with
    | some (s, r) => .ok (.str s, r)
    | none => .error ⟨.unterminatedString, pos + 1 + cs.length⟩
  else if c = '"' || c = '`' then
    match quotedBody c cs with
    | some (s, r) =>
      if s.isEmpty then .error ⟨.emptyDelimited, pos + 1 + (cs.length - r.1.length)⟩ else .ok (.delim s, r)
    | none => .error ⟨.unterminatedDelimited, pos + 1 + cs.length⟩
  else if isDigit c then lexNumber pos c cs
  else if isAscii c && (isAsciiAlpha c || c = '_') then
    let r := spanP (fun ch => isAlnum k ch || ch = '_') cs
    .ok (identOrKeyword k (c :: r.1), r.2)
  else .error ⟨.unexpectedChar, pos⟩

/-- a token with the half-open range of character indices it was read from -/
structure Spanned where
  tok : Tok
  start : Nat
  stop : Nat
  deriving Repr, DecidableEq

/-- `Lexer::tokenize`, from character index `total - cs.length` with `cs` unread; well-founded on
    `cs.length` thanks to the `RestLe` proofs -/
def tokenizeFrom (k : Cls) (total : Nat) (cs : List Char) : Except LexErr (List Spanned) :=
  match h : (skipTrivia k false cs).1 with
  | [] => .ok [⟨.eof, total, total⟩]
  | c :: cs' =>
    have hlen : cs'.length < cs.length := by
      have := (skipTrivia k false cs).2
      rw [h] at this
      simp only [List.length_cons] at this
      omega
    match nextToken k (total - (cs'.length + 1)) c cs' with
    | .error e => .error e
    | .ok (t, r) =>
      have : r.1.length < cs.length := Nat.lt_of_le_of_lt r.2 hlen
      match tokenizeFrom k total r.1 with
      | .error e => .error e
      | .ok ts => .ok (⟨t, total - (cs'.length + 1), total - r.1.length⟩ :: ts)
termination_by cs.length

def tokenize (k : Cls) (input : List Char) : Except LexErr (List Spanned) :=
  tokenizeFrom k input.length input

/-! ### nesting skeleton of the recursive-descent parser (parser/expressions/*.rs after repairs
fad76d94 / c8ff49be): only the re-entry structure, with the depth counter `enter_nesting` /
`leave_nesting`.  Every arrow that takes a level is marked ↑.

  expr    := ↑ operands                         -- `parse_expression`
  operands:= notE (binop notE)*                 -- the precedence loops, same level
  notE    := NOT ↑ notE | unary                 -- `parse_not_expression`
  unary   := - ↑ unary | primary                -- `parse_unary_expression`
  primary := ↑ ( atom | "(" expr ")" )          -- `parse_primary_expression`
-/

inductive SkTok where
  | atom | lp | rp | not | minus | binop
  deriving Repr, DecidableEq, Inhabited

inductive SkErr where
  | tooDeep
  | syntax
  | outOfFuel
  deriving Repr, DecidableEq, Inhabited

inductive SkMode where
  | expr | operands | notE | unary | primary
  deriving Repr, DecidableEq, Inhabited

/-- `left` = levels still available (`MAX_NESTING_DEPTH - depth`); `fuel` bounds the number of
    steps.  Returns the unread tokens. -/
def sk : (fuel : Nat) → SkMode → (left : Nat) → List SkTok → Except SkErr (List SkTok)
  | 0, _, _, _ => .error .outOfFuel
  | fuel + 1, .expr, left, ts =>
    (match left with
     | 0 => .error .tooDeep
     | l + 1 => sk fuel .operands l ts)
  | fuel + 1, .operands, left, ts =>
    (match sk fuel .notE left ts with
     | .error e => .error e
     | .ok (.binop :: rest) => sk fuel .operands left rest
     | .ok rest => .ok rest)
  | fuel + 1, .notE, left, ts =>
    (match ts with
     | .not :: rest =>
       (match left with
        | 0 => .error .tooDeep
        | l + 1 => sk fuel .notE l rest)
     | _ => sk fuel .unary left ts)
  | fuel + 1, .unary, left, ts =>
    (match ts with
     | .minus :: rest =>
       (match left with
        | 0 => .error .tooDeep
        | l + 1 => sk fuel .unary l rest)
     | _ => sk fuel .primary left ts)
  | fuel + 1, .primary, left, ts =>
    (match left with
     | 0 => .error .tooDeep
     | l + 1 =>
       match ts with
       | .atom :: rest => .ok rest
       | .lp :: rest =>
         (match sk fuel .expr l rest with
          | .error e => .error e
          | .ok (.rp :: rest') => .ok rest'
          | .ok _ => .error .syntax)
       | _ => .error .syntax)

/-! ### call graph of the parser: "every cycle passes a guarded function"

`Generated.parserUnguardedCalls` lists the parser functions that do not call `enter_nesting`, callees
first, each with the list positions of the unguarded functions it calls.  If every call goes to
an earlier position there is no cycle among unguarded functions. -/

/-- every function at position `i` only calls positions `< i` -/
def wellRanked : Nat → List (String × List Nat) → Bool
  | _, [] => true
  | i, (_, callees) :: rest => callees.all (· < i) && wellRanked (i + 1) rest

/-- `u` calls `v` -/
def Calls (g : List (String × List Nat)) (u v : Nat) : Prop :=
  ∃ e, g[u]? = some e ∧ v ∈ e.2

/-- a non-empty chain of calls -/
inductive CallPath (g : List (String × List Nat)) : Nat → Nat → Prop where
  | one {u v} : Calls g u v → CallPath g u v
  | step {u v w} : Calls g u v → CallPath g v w → CallPath g u w

/-! ### left-associative chains (`a + b + c …`, `t, u, v …`, `t JOIN u JOIN v …`): the loops of
`parse_or/and/additive/multiplicative_expression` and `parse_from_clause_body` wrap the previous
result into a new node per link, so the tree depth is the number of links; `check_chain_length`
is called with the incremented counter before every wrap. -/

inductive ChainErr where
  | tooLong
  deriving Repr, DecidableEq, Inhabited

/-- `links` = links already wrapped (= depth of the tree built so far), `n` = links still in the input -/
def chainLoop (maxLinks : Nat) : (links : Nat) → (n : Nat) → Except ChainErr Nat
  | links, 0 => .ok links
  | links, n + 1 => if links + 1 > maxLinks then .error .tooLong else chainLoop maxLinks (links + 1) n

end VibeProof.Lexer
