//! C15 — index structures always mirror table contents.
//!
//! Direct oracle (real engine only): after EVERY statement of a history the public accessors
//! `Table::primary_key_index()`, `Table::unique_indexes()`, `Database::get_index_data(name)`
//! must equal a from-scratch rebuild computed by the harness from `table.scan()`.
//! Correspondence: the same history, translated statement by statement into the storage-level
//! operations of the Lean table state machine (`Model/TableSM.lean`), must produce the same rows
//! and the same index structures after every operation.
mod common;
use common::*;
use vharness::*;

fn v(i: i64) -> Val {
    Val::Int(i)
}

/// deterministic probes: one per maintenance path, including every path that was found broken
fn probes() -> Vec<(&'static str, Case)> {
    let s2 = Schema { kinds: vec![], int_col: vec![true, true], pk: true, uniques: vec![] };
    let s3u = Schema { kinds: vec![], int_col: vec![true, true, false], pk: true, uniques: vec![1] };
    let s_nopk = Schema { kinds: vec![], int_col: vec![true, true], pk: false, uniques: vec![] };
    let base = |extra: Vec<Stmt>| -> Vec<Stmt> {
        let mut v0 = vec![
            Stmt::CreateIndex("qv".into(), vec![1], false),
            Stmt::Insert(vec![vec![v(1), v(1)]]),
            Stmt::Insert(vec![vec![v(2), v(2)]]),
            Stmt::Insert(vec![vec![v(3), v(2)], vec![v(4), Val::Null]]),
        ];
        v0.extend(extra);
        v0
    };
    vec![
        ("delete-where-rebuild", Case { schema: s2.clone(), stmts: base(vec![Stmt::Delete(Pred::Cmp(0, "=", v(1))), Stmt::Insert(vec![vec![v(9), v(2)]]), Stmt::Delete(Pred::Cmp(1, "=", v(2)))]) }),
        ("delete-all-shortcut", Case { schema: s2.clone(), stmts: base(vec![Stmt::Delete(Pred::All), Stmt::Insert(vec![vec![v(5), v(2)]])]) }),
        ("truncate", Case { schema: s2.clone(), stmts: base(vec![Stmt::Truncate, Stmt::Insert(vec![vec![v(5), v(7)]]), Stmt::Insert(vec![vec![v(6), v(2)]])]) }),
        ("replace", Case { schema: s2.clone(), stmts: base(vec![Stmt::Replace(vec![v(1), v(5)]), Stmt::Replace(vec![v(8), v(5)])]) }),
        ("upsert", Case { schema: s2.clone(), stmts: base(vec![Stmt::Upsert(vec![v(2), v(9)], 1, v(9)), Stmt::Upsert(vec![v(7), v(7)], 1, v(0))]) }),
        ("rollback", Case { schema: s2.clone(), stmts: base(vec![Stmt::Begin, Stmt::Delete(Pred::Cmp(0, "=", v(1))), Stmt::Insert(vec![vec![v(7), v(1)]]), Stmt::Rollback, Stmt::Insert(vec![vec![v(8), v(2)]])]) }),
        ("savepoint-undo", Case { schema: s2.clone(), stmts: base(vec![Stmt::Begin, Stmt::Savepoint("s".into()), Stmt::Insert(vec![vec![v(7), v(2)]]), Stmt::RollbackTo("s".into()), Stmt::Insert(vec![vec![v(8), v(2)]]), Stmt::Commit]) }),
        ("update-keys", Case { schema: s3u.clone(), stmts: vec![
            Stmt::CreateIndex("i1".into(), vec![1, 2], false),
            Stmt::CreateIndex("i2".into(), vec![2], false),
            Stmt::Insert(vec![vec![v(1), v(10), Val::Str("a".into())], vec![v(2), Val::Null, Val::Str("a".into())], vec![v(3), v(30), Val::Null]]),
            Stmt::Update(vec![(0, SetE::Add(10))], Pred::All),
            Stmt::Update(vec![(1, SetE::Const(v(20)))], Pred::Cmp(0, "=", v(12))),
            Stmt::Update(vec![(1, SetE::Const(Val::Null))], Pred::Cmp(0, "=", v(11))),
            Stmt::Update(vec![(2, SetE::Const(Val::Str("b".into())))], Pred::Cmp(2, "=", Val::Str("a".into()))),
            Stmt::Update(vec![(1, SetE::Const(v(20)))], Pred::Cmp(0, "=", v(13))),
            Stmt::Delete(Pred::Cmp(0, "=", v(11))),
            Stmt::Update(vec![(0, SetE::Const(v(1)))], Pred::Cmp(0, "=", v(13))),
        ] }),
        ("no-pk-duplicates", Case { schema: s_nopk.clone(), stmts: vec![
            Stmt::CreateIndex("d".into(), vec![0], false),
            Stmt::Insert(vec![vec![v(1), v(1)], vec![v(1), v(1)], vec![v(2), v(1)]]),
            Stmt::Update(vec![(0, SetE::Const(v(2)))], Pred::Cmp(1, "=", v(1))),
            Stmt::Delete(Pred::Cmp(0, "=", v(2))),
            Stmt::Begin, Stmt::Savepoint("a".into()), Stmt::Insert(vec![vec![v(1), v(1)]]), Stmt::Insert(vec![vec![v(1), v(1)]]),
            Stmt::RollbackTo("a".into()), Stmt::Commit,
        ] }),
        ("create-drop-index", Case { schema: s2.clone(), stmts: base(vec![Stmt::CreateIndex("z".into(), vec![1, 0], false), Stmt::DropIndex("qv".into()), Stmt::Delete(Pred::Cmp(1, "=", v(2))), Stmt::CreateIndex("qv".into(), vec![0], false)]) }),
    ]
}

fn main() {
    engine::silence_panics();
    let args = Args::parse("C15");
    let mut rep = Report::new(
        &args,
        "case = one table (optional PRIMARY KEY, UNIQUE columns) + a history of DML / index DDL / transaction / savepoint \
         statements; after every statement all index structures are compared with a rebuild from scan() and with the Lean model. \
         non-trivial = at least two successful statements changed the rows while an index existed; distinct by (schema, history)",
    );
    rep.assumptions.push("user-defined indexes use the in-memory backend (tables far below DISK_BACKED_THRESHOLD); the disk-backed backend is C16/C17".into());
    rep.assumptions.push("INTEGER / VARCHAR / NULL values, no prefix indexes; key normalisation of numeric types is compared by value".into());
    rep.assumptions.push("row selection of UPDATE/DELETE is predicted by the harness for simple comparisons; a history whose selection the harness cannot explain is still checked by the direct oracle but no longer against the model".into());
    rep.assumptions.push("load from file is not part of this check (C18 owns the reload of index data)".into());
    let mut model = args.model();
    for (name, c) in probes() {
        run_case(&c, &mut model, &mut rep, name);
        rep.count("probe_cases");
    }
    let mut rng = Rng::new(args.seed);
    let n = args.n(700, 30000);
    let cfg = GenCfg { txn_weight: 10, savepoint_weight: 10, index_ddl_in_txn: true, len_lo: 6, len_hi: 24 };
    for i in 0..n {
        let mut r = rng.fork();
        let c = gen_case(&mut r, &cfg);
        if i < 3 {
            rep.sample(serde_json::json!({"schema": c.schema.create_sql(), "history": c.stmts.iter().map(|s| s.sql()).collect::<Vec<_>>()}));
        }
        run_case(&c, &mut model, &mut rep, "generated");
    }
    std::process::exit(rep.finish());
}
