import VibeProof.Model.BTree
/-
C16 — the two storage backends of a user-defined index (IndexData::InMemory / DiskBacked) and
their maintenance as coded in database/indexes/index_maintenance.rs (after the `fix:` commit that
makes the disk-backed branch remove one row id with `delete_specific` instead of all row ids of
the key with `delete`).  Keys are ranks (`Int`) as in Model/BTree.lean.
-/
namespace VibeProof.IndexBackend
open VibeProof.BTree
local notation "Key" => Int

/-! ## in-memory backend: `BTreeMap<Vec<SqlValue>, Vec<usize>>` as a key-sorted association list -/

/-- `data.entry(key).or_insert_with(Vec::new).push(row_index)` -/
def memInsert (m : List Entry) (k : Key) (r : RowId) : List Entry := amInsert m k r

/-- `row_indices.retain(|&idx| idx != row_index)`; the entry is removed when it becomes empty -/
def memRemove (m : List Entry) (k : Key) (r : RowId) : List Entry :=
  m.filterMap (fun e =>
    if e.1 = k then (if e.2.filter (· != r) = [] then none else some (e.1, e.2.filter (· != r))) else some e)

/-- `update_indexes_for_update`: nothing when the key is unchanged -/
def memUpdate (m : List Entry) (oldK newK : Key) (r : RowId) : List Entry :=
  if oldK = newK then m else memInsert (memRemove m oldK r) newK r

/-! ## disk-backed backend: the B+ tree of C17 -/

def diskInsert (d : Nat) (t : BTree) (k : Key) (r : RowId) : Except Err BTree := BTree.insert d t k r

/-- repaired code: `guard.delete_specific(&key, row_index)` -/
def diskRemove (d : Nat) (t : BTree) (k : Key) (r : RowId) : Except Err BTree :=
  (BTree.deleteSpecific d t k r).map (·.1)

/-- the code before the repair: `guard.delete(&key)` removes every row id of the key -/
def diskRemoveAll (d : Nat) (t : BTree) (k : Key) : Except Err BTree :=
  (BTree.delete d t k).map (·.1)

def diskUpdate (d : Nat) (t : BTree) (oldK newK : Key) (r : RowId) : Except Err BTree :=
  if oldK = newK then .ok t else
    match diskRemove d t oldK r with
    | .error e => .error e
    | .ok t' => diskInsert d t' newK r

/-- spill: `bulk_load` of the flattened, sorted entries -/
def spill (d : Nat) (m : List Entry) : Except Err BTree :=
  bulkLoad d (m.flatMap (fun e => e.2.map (fun r => (e.1, r))))

inductive MOp where
  | ins (k : Key) (r : RowId)
  | upd (oldK newK : Key) (r : RowId)
  | del (k : Key) (r : RowId)

def memStep (m : List Entry) : MOp → List Entry
  | .ins k r => memInsert m k r
  | .upd a b r => memUpdate m a b r
  | .del k r => memRemove m k r

def diskStep (d : Nat) (t : BTree) : MOp → Except Err BTree
  | .ins k r => diskInsert d t k r
  | .upd a b r => diskUpdate d t a b r
  | .del k r => diskRemove d t k r

/-- the maintenance on the abstract multimap -/
def specStep (m : List Entry) : MOp → List Entry
  | .ins k r => amInsert m k r
  | .upd a b r => if a = b then m else amInsert (amEraseOne m a r) b r
  | .del k r => amEraseOne m k r

/-! ## `IndexData::range_scan`, disk-backed branch, strict lower bound `col > v`

Whole keys are ranks (`Int`) as everywhere; `first k` is the value of the first key column of the
key with rank `k`, in an arbitrary type `α` — nothing is assumed about `α` having successors. -/

/-- the re-check of the first key column while walking the scanned entries: `continue` when the
    first column equals the exclusive start -/
def postStart {α : Type} [DecidableEq α] (first : Int → α) (v : α) (es : List Entry) : List RowId :=
  (es.filter (fun e => first e.1 != v)).flatMap (·.2)

/-- `col > v` as coded: when the start value has a "next value" `w` (`smart_increment_value`) the
    B+ tree is scanned from `Included([w])` — `rw` is the position of `[w]` among the whole keys —
    otherwise from `Excluded([v])` (`rv` = position of `[v]`); then the first column is re-checked -/
def diskExclStart {α : Type} [DecidableEq α] (t : BTree) (first : Int → α) (v : α) (rw : Option Int)
    (rv : Int) : Except Err (List RowId) :=
  match rw with
  | some rw => (rangeScanEntries t (some rw) none true true).map (postStart first v)
  | none => (rangeScanEntries t (some rv) none false true).map (postStart first v)

end VibeProof.IndexBackend
