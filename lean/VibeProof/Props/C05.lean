import VibeProof.Lemmas.Join
import VibeProof.Model.Sql
/-
C05 — join ordering, join algorithms and subquery rewrites preserve query meaning.

Kernel-level: for every pair of row lists and every pair of key functions the hash, semi and
anti join algorithms (as coded) agree with the definitional nested evaluation; the cross
product is symmetric up to re-projection; an inner join is a filter over the cross product.
The anti join agrees with NOT EXISTS in full and with NOT IN only outside the NULL region
(`_partial` + counterexample — the engine rewrites NOT IN to this anti join).
-/
namespace VibeProof.C05
open VibeProof VibeProof.Join

/-! ### auxiliary: transposing a nested flatMap is a permutation -/

theorem flatMap_append_perm {α β : Type} (l : List α) (f g : α → List β) :
    (l.flatMap (fun x => f x ++ g x)).Perm (l.flatMap f ++ l.flatMap g) := by
  induction l with
  | nil => simp
  | cons x xs ih =>
    simp only [List.flatMap_cons]
    -- (f x ++ g x) ++ rest  ~  (f x ++ fs) ++ (g x ++ gs)
    have h1 : (f x ++ g x ++ xs.flatMap (fun x => f x ++ g x)).Perm
        (f x ++ g x ++ (xs.flatMap f ++ xs.flatMap g)) := List.Perm.append_left _ ih
    refine h1.trans ?_
    simp only [List.append_assoc]
    refine List.Perm.append_left _ ?_
    simp only [← List.append_assoc]
    exact List.Perm.append_right _ List.perm_append_comm

theorem flatMap_transpose {α β γ : Type} (ls : List α) (rs : List β) (f : α → β → List γ) :
    (rs.flatMap (fun r => ls.flatMap (fun l => f l r))).Perm
      (ls.flatMap (fun l => rs.flatMap (fun r => f l r))) := by
  induction ls with
  | nil => simp
  | cons l ls ih =>
    simp only [List.flatMap_cons]
    exact (flatMap_append_perm rs (fun r => f l r) (fun r => ls.flatMap (fun l => f l r))).trans
      (List.Perm.append_left _ ih)

/-! ### hash inner join = nested loop -/

theorem filter_map_flat {α β : Type} (p : α → Bool) (g : α → β) (l : List α) :
    (l.filter p).map g = l.flatMap (fun x => if p x then [g x] else []) := by
  induction l with
  | nil => rfl
  | cons x xs ih => by_cases h : p x <;> simp [List.filter_cons, h, ih]

theorem eqTrue_comm (a b : Value) : eqTrue a b = eqTrue b a := by
  unfold eqTrue
  by_cases h : a = b
  · subst h; simp [Bool.and_comm]
  · have : ¬ b = a := fun h' => h h'.symm
    simp [h, this]

/-- the hash join returns exactly the rows of the nested-loop join, as a multiset (and in the
same order when the right side is the build side) -/
theorem C05_hash_inner_eq_nested (kl kr : Row → Value) (left right : List Row) :
    (hashJoinInner kl kr left right).Perm (nestedLoop kl kr left right) := by
  unfold hashJoinInner nestedLoop
  by_cases hlen : left.length ≤ right.length
  · simp only [hlen, if_true]
    -- build = left, probe = right : right-major order; transpose
    have hprobe : ∀ p : Row, (if kr p = Value.null then []
          else (lookup (build kl left []) (kr p)).map (fun b => b ++ p))
        = left.flatMap (fun l => if eqTrue (kl l) (kr p) then [l ++ p] else []) := by
      intro p
      by_cases hn : kr p = .null
      · simp [hn, eqTrue]
      · simp only [hn, if_false, lookup_build_nil kl left (kr p) hn, filter_map_flat]
        congr 1; funext l
        by_cases hk : kl l = kr p
        · have : kl l ≠ .null := fun h => hn (hk ▸ h)
          simp [hk, eqTrue, hn]
        · simp [hk, eqTrue]
    have hnl : ∀ l : Row, (right.filter (fun r => eqTrue (kl l) (kr r))).map (fun r => l ++ r)
        = right.flatMap (fun r => if eqTrue (kl l) (kr r) then [l ++ r] else []) := by
      intro l; exact filter_map_flat _ _ _
    simp only [hprobe, hnl]
    exact flatMap_transpose left right (fun l r => if eqTrue (kl l) (kr r) then [l ++ r] else [])
  · simp only [hlen, if_false]
    -- build = right, probe = left : same order as the nested loop
    have : ∀ p : Row, (if kl p = Value.null then []
          else (lookup (build kr right []) (kl p)).map (fun b => p ++ b))
        = (right.filter (fun r => eqTrue (kl p) (kr r))).map (fun r => p ++ r) := by
      intro p
      by_cases hn : kl p = .null
      · simp [hn, eqTrue]
      · simp only [hn, if_false, lookup_build_nil kr right (kl p) hn]
        congr 1
        apply List.filter_congr
        intro r _
        by_cases hk : kr r = kl p
        · have : kr r ≠ .null := fun h => hn (hk ▸ h)
          simp [hk, eqTrue, hn]
        · have : ¬ kl p = kr r := fun h => hk h.symm
          simp [hk, eqTrue, this]
    simp only [this]
    exact List.Perm.refl _

/-! ### semi join = TRUE-set of `x IN (S)`; anti join = NOT EXISTS -/

theorem lookup_nonempty_iff (k : Row → Value) (rs : List Row) (v : Value) (hv : v ≠ .null) :
    (lookup (build k rs []) v).isEmpty = !(rs.any (fun r => eqTrue v (k r))) := by
  rw [lookup_build_nil k rs v hv]
  induction rs with
  | nil => simp
  | cons r rs ih =>
    by_cases h : k r = v
    · subst h; simp [List.filter_cons, eqTrue, hv]
    · have h' : ¬ v = k r := fun e => h e.symm
      simp only [List.filter_cons, h, decide_false, List.any_cons, eqTrue, h', Bool.and_false, Bool.false_or]
      simpa [eqTrue] using ih

/-- the hash semi join keeps exactly the left rows for which `key IN (right keys)` is TRUE -/
theorem C05_semi_eq_in (kl kr : Row → Value) (left right : List Row) :
    hashSemi kl kr left right = filter3 (fun l => inTV (kl l) (right.map kr)) left := by
  unfold hashSemi filter3
  apply List.filter_congr
  intro l _
  by_cases hn : kl l = .null
  · simp [hn, inTV, eqTrue]
    by_cases he : right = [] <;> simp [he]
  · rw [lookup_nonempty_iff kr right (kl l) hn]
    by_cases hany : right.any (fun r => eqTrue (kl l) (kr r)) = true
    · have hne : right ≠ [] := by intro h; simp [h] at hany
      have : (right.map kr).any (fun v => eqTrue (kl l) v) = true := by
        simpa [List.any_map, Function.comp] using hany
      simp [hn, hany, inTV, this, hne]
    · have hany' : right.any (fun r => eqTrue (kl l) (kr r)) = false := by simpa using hany
      have : (right.map kr).any (fun v => eqTrue (kl l) v) = false := by
        simpa [List.any_map, Function.comp] using hany'
      simp only [hn, hany', inTV, this]
      by_cases he : right = []
      · simp [he]
      · by_cases hnull : (List.map kr right).any (fun v => v = Value.null) = true <;> simp [he, hn, hnull]

/-- the hash anti join keeps exactly the left rows with no TRUE match: `NOT EXISTS (… WHERE kr = kl)` -/
theorem C05_anti_eq_not_exists (kl kr : Row → Value) (left right : List Row) :
    hashAnti kl kr left right = left.filter (fun l => !(right.any (fun r => eqTrue (kl l) (kr r)))) := by
  unfold hashAnti
  apply List.filter_congr
  intro l _
  by_cases hn : kl l = .null
  · simp [hn, eqTrue]
  · rw [lookup_nonempty_iff kr right (kl l) hn]
    simp [hn]

/-- and the semi join is `EXISTS (… WHERE kr = kl)` -/
theorem C05_semi_eq_exists (kl kr : Row → Value) (left right : List Row) :
    hashSemi kl kr left right = left.filter (fun l => right.any (fun r => eqTrue (kl l) (kr r))) := by
  unfold hashSemi
  apply List.filter_congr
  intro l _
  by_cases hn : kl l = .null
  · simp [hn, eqTrue]
  · rw [lookup_nonempty_iff kr right (kl l) hn]
    simp [hn]

/-- full statement for NOT IN: the anti join is the TRUE-set of `x NOT IN (S)` -/
def C05_anti_eq_not_in_full : Prop :=
  ∀ (kl kr : Row → Value) (left right : List Row),
    hashAnti kl kr left right = filter3 (fun l => TV.not3 (inTV (kl l) (right.map kr))) left

/-- it holds when no NULL can reach the comparison: the subquery column has no NULL and every
probe is non-NULL (or the subquery is empty) -/
theorem C05_anti_eq_not_in_partial (kl kr : Row → Value) (left right : List Row)
    (hS : ∀ r ∈ right, kr r ≠ .null) (hP : right = [] ∨ ∀ l ∈ left, kl l ≠ .null) :
    hashAnti kl kr left right = filter3 (fun l => TV.not3 (inTV (kl l) (right.map kr))) left := by
  rw [C05_anti_eq_not_exists]
  unfold filter3
  apply List.filter_congr
  intro l hl
  rcases hP with he | hP
  · subst he; simp [inTV, TV.not3]
  · have hn := hP l hl
    have hnonull : (right.map kr).any (fun v => v = Value.null) = false := by
      simp only [List.any_map, List.any_eq_false, Function.comp]
      intro r hr; simpa using hS r hr
    have hmap : (right.map kr).any (fun v => eqTrue (kl l) v) = right.any (fun r => eqTrue (kl l) (kr r)) := by
      rw [List.any_map]; rfl
    by_cases he : right = []
    · subst he; simp [inTV, TV.not3]
    · by_cases hany : right.any (fun r => eqTrue (kl l) (kr r)) = true
      · simp [inTV, he, hmap, hany, TV.not3]
      · have hany' : right.any (fun r => eqTrue (kl l) (kr r)) = false := by simpa using hany
        simp [inTV, he, hmap, hany', hn, hnonull, TV.not3]

/-- as coded the full statement is false: one NULL in the subquery column, or a NULL probe -/
theorem C05_anti_not_in_counterexample : ¬ C05_anti_eq_not_in_full := by
  intro h
  have := h (fun r => r.headD .null) (fun r => r.headD .null) [[.int 1]] [[.null]]
  revert this
  decide

/-- the second excluded region: a NULL probe against a non-empty NULL-free subquery -/
example : hashAnti (fun r => r.headD .null) (fun r => r.headD .null) [[.null]] [[.int 2]] = [[.null]] ∧
    filter3 (fun l => TV.not3 (inTV (l.headD .null) ([[Value.int 2]].map (fun r => r.headD .null)))) [[Value.null]] = [] := by
  decide

/-! ### join order and join syntax -/

theorem map_eq_flatMap_single {α β : Type} (f : α → β) (l : List α) :
    l.map f = l.flatMap (fun x => [f x]) := by
  induction l with
  | nil => rfl
  | cons x xs ih => simp [List.flatMap_cons, ih]

theorem flatMap_congr' {α β : Type} (l : List α) (f g : α → List β) (h : ∀ x ∈ l, f x = g x) :
    l.flatMap f = l.flatMap g := by
  induction l with
  | nil => rfl
  | cons x xs ih =>
    simp only [List.flatMap_cons]
    rw [h x List.mem_cons_self, ih (fun y hy => h y (List.mem_cons_of_mem _ hy))]

/-- a comma join of the tables in the other order, re-projected to the original column order,
has the same rows (as a multiset) -/
theorem C05_cross_swap (l r : List Row) (swap : Row → Row)
    (hswap : ∀ a ∈ l, ∀ b ∈ r, swap (b ++ a) = a ++ b) :
    ((r.flatMap (fun b => l.map (fun a => b ++ a))).map swap).Perm
      (l.flatMap (fun a => r.map (fun b => a ++ b))) := by
  have h1 : (r.flatMap (fun b => l.map (fun a => b ++ a))).map swap
      = r.flatMap (fun b => l.flatMap (fun a => [swap (b ++ a)])) := by
    rw [List.map_flatMap]
    apply flatMap_congr'
    intro b _
    rw [List.map_map, map_eq_flatMap_single]
    rfl
  have h2 : l.flatMap (fun a => r.map (fun b => a ++ b))
      = l.flatMap (fun a => r.flatMap (fun b => [a ++ b])) := by
    apply flatMap_congr'
    intro a _
    exact map_eq_flatMap_single _ _
  rw [h1, h2]
  refine (flatMap_transpose l r (fun a b => [swap (b ++ a)])).trans ?_
  have : l.flatMap (fun a => r.flatMap (fun b => [swap (b ++ a)]))
      = l.flatMap (fun a => r.flatMap (fun b => [a ++ b])) := by
    apply flatMap_congr'
    intro a ha
    apply flatMap_congr'
    intro b hb; rw [hswap a ha b hb]
  rw [this]

/-- `FROM l INNER JOIN r ON c` = `FROM l, r WHERE c` in the reference evaluator -/
theorem C05_inner_join_is_filtered_cross (db : Sql.Db) (l r : Sql.From) (c : Expr) :
    (Sql.From.inner l r c).eval db =
      (do let rows ← (Sql.From.cross l r).eval db
          Sql.filterM' (fun row => do Sql.isTrue (← c.eval row)) rows) := by
  simp only [Sql.From.eval, bind, Except.bind, pure, Except.pure]
  cases l.eval db <;> simp
  cases r.eval db <;> simp

/-- non-vacuity: duplicates, a NULL key on each side -/
example : hashJoinInner (fun r => r.headD .null) (fun r => r.headD .null)
      [[.int 1], [.null], [.int 1]] [[.int 1], [.null]] = [[.int 1, .int 1], [.int 1, .int 1]] ∧
    hashSemi (fun r => r.headD .null) (fun r => r.headD .null) [[.int 1], [.null], [.int 2]] [[.int 1], [.null]] = [[.int 1]] ∧
    hashAnti (fun r => r.headD .null) (fun r => r.headD .null) [[.int 1], [.null], [.int 2]] [[.int 1], [.null]] = [[.null], [.int 2]] := by
  decide

end VibeProof.C05
