import VibeProof.Model.Value
import VibeProof.Model.Rel
/-
Aggregation model (C03, C07).

Row path  — `AggregateAccumulator` (crates/vibesql-executor/src/select/grouping/aggregates.rs):
  `new` / `accumulate` / `finalize` / `combine`, `group_rows` (grouping/hash.rs) and the
  pipeline of `execute_with_aggregation` (filter → group → aggregate → HAVING → ORDER BY →
  LIMIT/OFFSET) for a single table and simple predicates.
Columnar path — `should_use_columnar` / `try_columnar_execution` / `execute_columnar` /
  `execute_columnar_aggregate` / `compute_columnar_aggregate` and the kernels of
  select/columnar/{aggregate,simd_aggregate,filter}.rs, as coded after the repairs listed in
  notes/C03.md.

Numbers: sums are unbounded `Int` (the 64-bit boundary is C24's subject); AVG is the exact
pair (sum, count) — floats are not modelled, the harness compares the real f64 with sum/count.
`HashSet`s are lists kept duplicate-free; `HashMap` groups are an association list in first
-occurrence order (compared as a multiset by the harness).
The 1024-value batches and 4-lane chunks of the SIMD kernels are regroupings of an
associative fold and are modelled as one left fold.
-/
namespace VibeProof.Agg
open VibeProof

inductive AggFn where
  | count | sum | avg | min | max
  deriving DecidableEq, Repr, Inhabited

/-- What an aggregate evaluates to: NULL, a value, or the exact quotient sum/count of AVG. -/
inductive Res where
  | null
  | val (v : Value)
  | ratio (sum : Int) (count : Nat)
  deriving DecidableEq, Repr, Inhabited

/-- `compare_sql_values` on two non-NULL values: `partial_cmp(..).unwrap_or(Equal)`. -/
def cmpSql (a b : Value) : Ordering :=
  match Value.cmp? a b with
  | some o => o
  | none => .eq

/-- `is_numeric_value` on the modelled variants. -/
def isNumeric : Value → Bool
  | .int _ => true
  | _ => false

/-- `is_comparable_value` on the modelled variants (NULL excluded separately). -/
def isComparable : Value → Bool
  | .null => false
  | _ => true

def intOf : Value → Int
  | .int i => i
  | _ => 0

/-! ## Row path: the accumulator -/

inductive Acc where
  | count (count : Nat) (distinct : Bool) (seen : List Value)
  | sum (sum : Int) (count : Nat) (distinct : Bool) (seen : List Value)
  | avg (sum : Int) (count : Nat) (distinct : Bool) (seen : List Value)
  | min (value : Option Value) (distinct : Bool) (seen : List Value)
  | max (value : Option Value) (distinct : Bool) (seen : List Value)
  deriving DecidableEq, Repr, Inhabited

/-- `AggregateAccumulator::new` -/
def Acc.new (f : AggFn) (distinct : Bool) : Acc :=
  match f with
  | .count => .count 0 distinct []
  | .sum => .sum 0 0 distinct []
  | .avg => .avg 0 0 distinct []
  | .min => .min none distinct []
  | .max => .max none distinct []

def minStep (cur : Option Value) (v : Value) : Option Value :=
  match cur with
  | none => some v
  | some c => if cmpSql v c = .lt then some v else some c

def maxStep (cur : Option Value) (v : Value) : Option Value :=
  match cur with
  | none => some v
  | some c => if cmpSql v c = .gt then some v else some c

/-- `AggregateAccumulator::accumulate` -/
def Acc.accumulate (a : Acc) (v : Value) : Acc :=
  match a with
  | .count c d seen =>
      if v.isNull then a
      else if d then (if seen.contains v then a else .count (c + 1) d (v :: seen))
      else .count (c + 1) d seen
  | .sum s c d seen =>
      if v.isNull || !isNumeric v then a
      else if d then (if seen.contains v then a else .sum (s + intOf v) (c + 1) d (v :: seen))
      else .sum (s + intOf v) (c + 1) d seen
  | .avg s c d seen =>
      if v.isNull || !isNumeric v then a
      else if d then (if seen.contains v then a else .avg (s + intOf v) (c + 1) d (v :: seen))
      else .avg (s + intOf v) (c + 1) d seen
  | .min cur d seen =>
      if v.isNull || !isComparable v then a
      else if d then (if seen.contains v then a else .min (minStep cur v) d (v :: seen))
      else .min (minStep cur v) d seen
  | .max cur d seen =>
      if v.isNull || !isComparable v then a
      else if d then (if seen.contains v then a else .max (maxStep cur v) d (v :: seen))
      else .max (maxStep cur v) d seen

/-- `AggregateAccumulator::finalize` -/
def Acc.finalize : Acc → Res
  | .count c _ _ => .val (.int c)
  | .sum s c _ _ => if c = 0 then .null else .val (.int s)
  | .avg s c _ _ => if c = 0 then .null else .ratio s c
  | .min v _ _ => match v with | some x => .val x | none => .null
  | .max v _ _ => match v with | some x => .val x | none => .null

def Acc.seen : Acc → List Value
  | .count _ _ s | .sum _ _ _ s | .avg _ _ _ s | .min _ _ s | .max _ _ s => s

/-- the accumulator with the `seen` set forgotten (what `finalize` looks at) -/
def Acc.core : Acc → Acc
  | .count c d _ => .count c d []
  | .sum s c d _ => .sum s c d []
  | .avg s c d _ => .avg s c d []
  | .min v d _ => .min v d []
  | .max v d _ => .max v d []

/-- accumulate a whole column of argument values -/
def accAll (f : AggFn) (distinct : Bool) (xs : List Value) : Acc :=
  xs.foldl Acc.accumulate (Acc.new f distinct)

/-- `seen1.extend(seen2)` on duplicate-free lists -/
def unionSeen (s1 s2 : List Value) : List Value :=
  s2.foldl (fun acc v => if acc.contains v then acc else v :: acc) s1

def optMin (a b : Option Value) : Option Value :=
  match a, b with
  | some c, some n => if cmpSql n c = .lt then some n else some c
  | none, some n => some n
  | a, none => a

def optMax (a b : Option Value) : Option Value :=
  match a, b with
  | some c, some n => if cmpSql n c = .gt then some n else some c
  | none, some n => some n
  | a, none => a

/-- `min_by(compare_sql_values)` over the merged set (first minimum in iteration order) -/
def minOfList (xs : List Value) : Option Value := xs.foldl minStep none
def maxOfList (xs : List Value) : Option Value := xs.foldl maxStep none

/-- `AggregateAccumulator::combine` -/
def Acc.combine (a b : Acc) : Except Err Acc :=
  match a, b with
  | .count c1 d1 s1, .count c2 d2 s2 =>
      if d1 != d2 then .error .unsupported
      else if d1 then let s := unionSeen s1 s2; .ok (.count s.length d1 s)
      else .ok (.count (c1 + c2) d1 s1)
  | .sum x1 c1 d1 s1, .sum x2 c2 d2 s2 =>
      if d1 != d2 then .error .unsupported
      else if d1 then
        let s := unionSeen s1 s2
        .ok (.sum (s.foldl (fun acc v => acc + intOf v) 0) s.length d1 s)
      else .ok (.sum (x1 + x2) (c1 + c2) d1 s1)
  | .avg x1 c1 d1 s1, .avg x2 c2 d2 s2 =>
      if d1 != d2 then .error .unsupported
      else if d1 then
        let s := unionSeen s1 s2
        .ok (.avg (s.foldl (fun acc v => acc + intOf v) 0) s.length d1 s)
      else .ok (.avg (x1 + x2) (c1 + c2) d1 s1)
  | .min v1 d1 s1, .min v2 d2 s2 =>
      if d1 != d2 then .error .unsupported
      else if d1 then let s := unionSeen s1 s2; .ok (.min (minOfList s) d1 s)
      else .ok (.min (optMin v1 v2) d1 s1)
  | .max v1 d1 s1, .max v2 d2 s2 =>
      if d1 != d2 then .error .unsupported
      else if d1 then let s := unionSeen s1 s2; .ok (.max (maxOfList s) d1 s)
      else .ok (.max (optMax v1 v2) d1 s1)
  | _, _ => .error .unsupported

/-! ## Grouping (`group_rows`): insert-or-append into a map keyed by the key values -/

def groupInsert {α κ : Type} [BEq κ] (k : κ) (r : α) : List (κ × List α) → List (κ × List α)
  | [] => [(k, [r])]
  | (k', rs) :: rest =>
      if k' == k then (k', rs ++ [r]) :: rest else (k', rs) :: groupInsert k r rest

def groupRows {α κ : Type} [BEq κ] (key : α → κ) (rows : List α) : List (κ × List α) :=
  rows.foldl (fun g r => groupInsert (key r) r g) []

/-! ## Query shapes -/

inductive CmpOp where
  | lt | gt | le | ge | eq
  deriving DecidableEq, Repr, Inhabited

/-- `ColumnPredicate`: column `col` compared with literals (as `extract_column_predicates`
accepts them; `lit op column` is turned round by the extractor before it gets here). -/
inductive Pred where
  | cmp (op : CmpOp) (col : Nat) (lit : Value)
  | between (col : Nat) (lo hi : Value)
  deriving DecidableEq, Repr, Inhabited

/-- one select item: `f(arg)` / `f(DISTINCT arg)`; `arg = none` is `COUNT(*)` -/
structure Item where
  fn : AggFn
  arg : Option Nat
  distinct : Bool
  deriving DecidableEq, Repr, Inhabited

/-- HAVING `item op literal` over an item of the select list -/
structure Having where
  item : Nat
  op : CmpOp
  lit : Int
  deriving DecidableEq, Repr, Inhabited

structure Stmt where
  items : List Item
  preds : List Pred          -- WHERE p1 AND p2 AND …
  having : Option Having
  orderBy : Bool             -- ORDER BY <first item>
  limit : Option Nat
  offset : Option Nat
  deriving Repr, Inhabited

def cell (r : Row) (i : Nat) : Value :=
  match r[i]? with
  | some v => v
  | none => .null

def opHolds (op : CmpOp) (o : Ordering) : Bool :=
  match op with
  | .lt => o == .lt
  | .gt => o == .gt
  | .le => o != .gt
  | .ge => o != .lt
  | .eq => o == .eq

/-! ### Row path -/

/-- comparison of the general evaluator: NULL → UNKNOWN, different types → TypeMismatch -/
def cmp3 (op : CmpOp) (a b : Value) : Except Err TV :=
  if a.isNull || b.isNull then .ok .u
  else match Value.cmp? a b with
    | some o => .ok (TV.ofBool (opHolds op o))
    | none => .error .typeMismatch

def Pred.eval3 (p : Pred) (r : Row) : Except Err TV :=
  match p with
  | .cmp op c lit => cmp3 op (cell r c) lit
  | .between c lo hi => do
      let a ← cmp3 .ge (cell r c) lo
      let b ← cmp3 .le (cell r c) hi
      pure (TV.and3 a b)

/-- WHERE p1 AND p2 …: TRUE iff every conjunct is TRUE (errors propagate) -/
def whereTrue (preds : List Pred) (r : Row) : Except Err Bool :=
  match preds with
  | [] => .ok true
  | p :: ps => do
      let a ← p.eval3 r
      let b ← whereTrue ps r
      pure (a == TV.t && b)

def filterRows (preds : List Pred) : List Row → Except Err (List Row)
  | [] => .ok []
  | r :: rs => do
      let keep ← whereTrue preds r
      let rest ← filterRows preds rs
      pure (if keep then r :: rest else rest)

/-- one aggregate over the rows of a group (`evaluate_aggregate_function`) -/
def evalItem (it : Item) (group : List Row) : Res :=
  match it.arg with
  | none => .val (.int group.length)          -- COUNT(*): the number of rows
  | some c => (accAll it.fn it.distinct (group.map (fun r => cell r c))).finalize

def resCmpInt (op : CmpOp) (x : Res) (lit : Int) : Bool :=
  match x with
  | .val (.int i) => opHolds op (compare i lit)
  | .ratio s c => opHolds op (compare s (lit * c))   -- s/c op lit, c > 0
  | _ => false                                        -- NULL: not TRUE

def havingKeeps (h : Option Having) (row : List Res) : Bool :=
  match h with
  | none => true
  | some hv =>
    match row[hv.item]? with
    | some x => resCmpInt hv.op x hv.lit
    | none => false

/-- aggregate query without GROUP BY on the row path (`execute_with_aggregation`) -/
def rowPath (q : Stmt) (rows : List Row) : Except Err (List (List Res)) := do
  let filtered ← filterRows q.preds rows
  let row := q.items.map (fun it => evalItem it filtered)
  let afterHaving := if havingKeeps q.having row then [row] else []
  -- ORDER BY over at most one row is the identity
  pure (limitOffset q.limit (q.offset.getD 0) afterHaving)

/-- GROUP BY one column: one output row (key, aggregates…) per group -/
def rowPathGrouped (keyCol : Nat) (items : List Item) (preds : List Pred) (rows : List Row) :
    Except Err (List (Value × List Res)) := do
  let filtered ← filterRows preds rows
  pure ((groupRows (fun r => cell r keyCol) filtered).map
    (fun g => (g.1, items.map (fun it => evalItem it g.2))))

/-! ### Columnar path -/

/-- `compare_values` of columnar/filter.rs on the modelled variants: operands it cannot
compare are reported as Equal -/
def cmpColumnar (a b : Value) : Ordering := cmpSql a b

/-- `evaluate_predicate` (after the NULL repair) -/
def Pred.evalColumnar (p : Pred) (r : Row) : Bool :=
  match p with
  | .cmp op c lit =>
      let v := cell r c
      if v.isNull then false
      else if lit.isNull then false
      else opHolds op (cmpColumnar v lit)
  | .between c lo hi =>
      let v := cell r c
      if v.isNull then false
      else if lo.isNull || hi.isNull then false
      else opHolds .ge (cmpColumnar v lo) && opHolds .le (cmpColumnar v hi)

/-- `create_filter_bitmap`: one bit per row, AND of the predicates -/
def bitmap (preds : List Pred) (rows : List Row) : List Bool :=
  rows.map (fun r => preds.all (fun p => p.evalColumnar r))

/-- the cells of column `c` of the rows whose bit is set, in row order (the loop
`for (row_idx, value) in scan.column(c).enumerate() { if !bitmap[row_idx] { continue } … }`) -/
def selected (c : Nat) (rows : List Row) (bits : List Bool) : List Value :=
  ((rows.zip bits).filter (fun rb => rb.2)).map (fun rb => cell rb.1 c)

/-- `compute_count`: number of set bits -/
def colCountStar (bits : List Bool) : Nat := bits.count true

/-- `can_use_simd_for_column`: the first non-NULL among the first `probe` cells decides;
`some true` = integer kernel, `none` = scalar kernel (strings, all-NULL prefix) -/
def simdKind (probe : Nat) (col : List Value) : Option Bool :=
  match (col.take probe).find? (fun v => !v.isNull) with
  | some (.int _) => some true
  | _ => none

def i64Max : Int := 9223372036854775807
def i64Min : Int := -9223372036854775808

/-- one iteration of the `simd_aggregate_i64` loop on a selected cell: NULLs skipped, a
non-integer cell is an error; state = (sum, count, min, max) -/
def simdStep (st : Except Err (Int × Nat × Int × Int)) (v : Value) : Except Err (Int × Nat × Int × Int) :=
  match st with
  | .error e => .error e
  | .ok (s, n, mn, mx) =>
    match v with
    | .null => .ok (s, n, mn, mx)
    | .int i => .ok (s + i, n + 1, (if i < mn then i else mn), (if mx < i then i else mx))
    | _ => .error .unsupported

/-- `simd_aggregate_i64` for SUM/AVG/MIN/MAX over the selected cells; MIN/MAX start from
i64::MAX / i64::MIN -/
def simdI64 (f : AggFn) (sel : List Value) : Except Err Res :=
  match sel.foldl simdStep (.ok (0, 0, i64Max, i64Min)) with
  | .error e => .error e
  | .ok (s, n, mn, mx) =>
    if n = 0 then .ok (match f with | .count => .val (.int 0) | _ => .null)
    else .ok (match f with
      | .sum => .val (.int s)
      | .avg => .ratio s n
      | .min => .val (.int mn)
      | .max => .val (.int mx)
      | .count => .val (.int n))

/-! The streaming structure of `simd_aggregate_i64` / `simd_aggregate_f64`: the non-NULL
qualifying values are pushed into a buffer; a full buffer (`BATCH_SIZE` = 1024 values) is flushed
into the running state, and a non-empty buffer is flushed once more after the loop.  `simdStep`
above is the same computation without the buffer (`C03_simd_batches_*` prove the two equal). -/

def simdBatchSize : Nat := 1024

def batchLoop {σ : Type} (B : Nat) (flush : σ → List Int → σ) : List Int → List Int → σ → σ
  | [], buf, st => if buf.isEmpty then st else flush st buf
  | x :: xs, buf, st =>
      if B ≤ (buf ++ [x]).length then batchLoop B flush xs [] (flush st (buf ++ [x]))
      else batchLoop B flush xs (buf ++ [x]) st

/-- `simd_sum_i64`: chunks of 4 lanes, then the scalar remainder -/
def simdSumI64 : List Int → Int
  | a :: b :: c :: d :: rest => (a + b + c + d) + simdSumI64 rest
  | rest => rest.foldl (· + ·) 0

/-- `sum += simd_sum_i64(&batch)` -/
def flushSum (st : Int) (batch : List Int) : Int := st + simdSumI64 batch

/-- `simd_min_i64` / `simd_max_i64`: `None` on an empty batch -/
def batchMin : List Int → Option Int
  | [] => none
  | x :: xs => some (xs.foldl (fun m i => if i < m then i else m) x)

def batchMax : List Int → Option Int
  | [] => none
  | x :: xs => some (xs.foldl (fun m i => if m < i then i else m) x)

/-- `if let Some(batch_min) = simd_min_i64(&batch) { min = min.min(batch_min) }` -/
def flushMin (st : Int) (batch : List Int) : Int :=
  match batchMin batch with
  | some m => if m < st then m else st
  | none => st

def flushMax (st : Int) (batch : List Int) : Int :=
  match batchMax batch with
  | some m => if st < m then m else st
  | none => st

/-! Initial values of the running minimum / maximum.  The element types of the kernels are put
on one integer key scale that preserves their order: an i64 is its own key; a finite f64 is
its sign-magnitude bit pattern (`+x ↦ bits x`, `-x ↦ -(bits x)`, both zeros ↦ 0), so finite keys
lie in `[-f64MaxKey, f64MaxKey]`, and -∞ / +∞ are one step outside.  `initKey` reads the constant
names the source uses (extracted by tools/consts.d/c03.py on every run). -/

def f64MaxKey : Int := 9218868437227405311        -- bits of f64::MAX = 0x7FEF_FFFF_FFFF_FFFF
def f64NegInfKey : Int := -(f64MaxKey + 1)
def f64PosInfKey : Int := f64MaxKey + 1

def initKey : String → Option Int
  | "f64::NEG_INFINITY" => some f64NegInfKey
  | "f64::INFINITY" => some f64PosInfKey
  | "f64::MAX" => some f64MaxKey
  | "f64::MIN" => some (-f64MaxKey)
  | "f64::MIN_POSITIVE" => some 4503599627370496      -- 0x0010_0000_0000_0000
  | "f64::EPSILON" => some 4372995238176751616        -- 0x3CB0_0000_0000_0000
  | "0.0" => some 0
  | "i64::MIN" => some i64Min
  | "i64::MAX" => some i64Max
  | "0" => some 0
  | _ => none

/-- least / greatest key a value of the element type can have (±∞ are possible f64 data) -/
def keyLo : String → Option Int
  | "f64" => some f64NegInfKey
  | "i64" => some i64Min
  | _ => none

def keyHi : String → Option Int
  | "f64" => some f64PosInfKey
  | "i64" => some i64Max
  | _ => none

/-- a running maximum must start at the least key of its type, a running minimum at the greatest -/
def initOk (entry : String × String × String × String) : Bool :=
  match entry with
  | (_, ty, kind, init) =>
    match initKey init, kind with
    | some k, "max" => keyLo ty == some k
    | some k, "min" => keyHi ty == some k
    | _, _ => false

/-- `compare_for_min_max(a, b)`: a < b -/
def lessForMinMax (a b : Value) : Bool := cmpSql a b == .lt

/-- `compute_sum` loop body: NULL and non-numeric cells are skipped -/
def scalarSumStep (st : Int × Nat) (v : Value) : Int × Nat :=
  match v with
  | .int i => (st.1 + i, st.2 + 1)
  | _ => st

/-- `compute_min` loop body -/
def scalarMinStep (cur : Option Value) (v : Value) : Option Value :=
  if v.isNull then cur else
  match cur with
  | none => some v
  | some c => if lessForMinMax v c then some v else some c

/-- `compute_max` loop body -/
def scalarMaxStep (cur : Option Value) (v : Value) : Option Value :=
  if v.isNull then cur else
  match cur with
  | none => some v
  | some c => if lessForMinMax c v then some v else some c

/-- scalar kernels `compute_sum` / `compute_avg` / `compute_min` / `compute_max` (after the
repairs: NULLs are not counted, AVG divides by the non-NULL count, every type is compared) -/
def scalarKernel (f : AggFn) (sel : List Value) : Except Err Res :=
  match f with
  | .sum =>
      let st := sel.foldl scalarSumStep (0, 0)
      .ok (if st.2 = 0 then .null else .val (.int st.1))
  | .avg =>
      let st := sel.foldl scalarSumStep (0, 0)
      .ok (if st.2 = 0 then .null else .ratio st.1 st.2)
  | .min => .ok (match sel.foldl scalarMinStep none with | some x => .val x | none => .null)
  | .max => .ok (match sel.foldl scalarMaxStep none with | some x => .val x | none => .null)
  | .count => .ok (.val (.int sel.length))

/-- `compute_expression_aggregate(Count)` used for COUNT(column): non-NULL results -/
def exprCount (sel : List Value) : Nat := (sel.filter (fun v => !v.isNull)).length

/-- the number of leading cells `can_use_simd_for_column` looks at -/
def simdProbe : Nat := 100

/-- `compute_multiple_aggregates` for one spec over a non-empty input -/
def colItem (it : Item) (rows : List Row) (bits : List Bool) : Except Err Res :=
  match it.arg with
  | none => .ok (.val (.int (colCountStar bits)))
  | some c =>
    match it.fn with
    | .count => .ok (.val (.int (exprCount (selected c rows bits))))
    | f =>
      match simdKind simdProbe (rows.map (fun r => cell r c)) with
      | some _ => simdI64 f (selected c rows bits)
      | none => scalarKernel f (selected c rows bits)

/-- `should_use_columnar` + `extract_aggregates` + `execute_columnar` declines (as coded
after the repairs): DISTINCT aggregates, HAVING, ORDER BY, LIMIT, OFFSET, and SUM whose
argument is not an approximate numeric — the modelled columns are INTEGER / VARCHAR, so every
SUM(column) is declined (SUM over FLOAT/DOUBLE columns stays columnar in the code and is
covered by the direct oracle only: floats are not modelled). -/
def gateAccepts (q : Stmt) : Bool :=
  !q.items.isEmpty
  && q.having.isNone && !q.orderBy && q.limit.isNone && q.offset.isNone
  && q.items.all (fun it =>
      !it.distinct
      && (match it.arg with
          | none => it.fn == .count
          | some _ => it.fn != .sum))

/-- the columnar path: `none` = declined (the row path runs instead) -/
def tryColumnar (q : Stmt) (rows : List Row) : Option (Except Err (List (List Res))) :=
  if !gateAccepts q then none
  else if rows.isEmpty then
    -- `execute_columnar_aggregate` early return: COUNT is 0, everything else NULL
    some (.ok [q.items.map (fun it => if it.fn == .count then Res.val (.int 0) else Res.null)])
  else
    let bits := if q.preds.isEmpty then rows.map (fun _ => true) else bitmap q.preds rows
    some ((q.items.mapM (fun it => colItem it rows bits)).map (fun row => [row]))

/-- what `SelectExecutor::execute` returns for an aggregate query without GROUP BY -/
def execute (q : Stmt) (rows : List Row) : Except Err (List (List Res)) :=
  match tryColumnar q rows with
  | some r => r
  | none => rowPath q rows

/-! ## The optimizer's subquery-rewrite traversal (`rewrite_expression_at`)

The pass rebuilds the select list, WHERE and HAVING of a statement node by node whenever the
statement contains an IN (SELECT …) / EXISTS subquery, replacing each subquery by its rewritten
form.  `QExpr` is the expression tree as far as that traversal distinguishes nodes; everything
it clones unchanged is a `leaf`. -/

inductive QExpr where
  | leaf (tag : Nat)
  | agg (fn : AggFn) (distinct : Bool) (arg : QExpr)
  | aggStar
  | un (op : Nat) (a : QExpr)
  | bin (op : Nat) (a b : QExpr)
  | inSub (a : QExpr) (sub : Nat) (negated : Bool)
  | existsSub (sub : Nat) (negated : Bool)
  | scalarSub (sub : Nat)
  deriving DecidableEq, Repr, Inhabited

/-- `rewrite_expression_at` with `rw` the rewrite of a subquery (identified by a number) -/
def rewriteAt (rw : Nat → Nat) : QExpr → QExpr
  | .leaf t => .leaf t
  | .agg f d a => .agg f d (rewriteAt rw a)
  | .aggStar => .aggStar
  | .un op a => .un op (rewriteAt rw a)
  | .bin op a b => .bin op (rewriteAt rw a) (rewriteAt rw b)
  | .inSub a sub neg => .inSub (rewriteAt rw a) (rw sub) neg
  | .existsSub sub neg => .existsSub (rw sub) neg
  | .scalarSub sub => .scalarSub (rw sub)

/-- the aggregate nodes of an expression in traversal order: function and DISTINCT flag
(`none` = COUNT(*)) -/
def aggNodes : QExpr → List (Option (AggFn × Bool))
  | .leaf _ => []
  | .agg f d a => some (f, d) :: aggNodes a
  | .aggStar => [none]
  | .un _ a => aggNodes a
  | .bin _ a b => aggNodes a ++ aggNodes b
  | .inSub a _ _ => aggNodes a
  | .existsSub _ _ => []
  | .scalarSub _ => []

/-- the expression with its subqueries forgotten: what the rewrite must leave untouched -/
def eraseSubs : QExpr → QExpr
  | .leaf t => .leaf t
  | .agg f d a => .agg f d (eraseSubs a)
  | .aggStar => .aggStar
  | .un op a => .un op (eraseSubs a)
  | .bin op a b => .bin op (eraseSubs a) (eraseSubs b)
  | .inSub a _ neg => .inSub (eraseSubs a) 0 neg
  | .existsSub _ neg => .existsSub 0 neg
  | .scalarSub _ => .scalarSub 0

end VibeProof.Agg
