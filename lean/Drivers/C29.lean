import VibeProof.Model.Proto
import VibeProof.Model.Auth
open VibeProof.Proto VibeProof.Wire VibeProof.Auth

/-! C29 driver.  Byte strings are hex atoms (`-` = empty).
  `md5 HEX` → HEX digest;  `md5pw PW USER SALT` → HEX of the 32 hex characters;
  `verifymd5 ((USER STORED) …) USER RESP SALT` → `1`/`0`;
  `login password|md5 ((USER STORED) …) USER DATABASE SECRET SALT PARSE_OK VERIFY_OK` → `1`/`0`;
  `verifyclear ((USER STORED) …) USER PW PARSE_OK VERIFY_OK` → `1`/`0`, where the two flags are
  what the argon2 crate answers for the stored string of USER (`PasswordHash::new(..).is_ok()`,
  `verify_password(..).is_ok()`), i.e. the `CryptoOps` the decision logic is run with. -/

def hexAtom (b : Bytes) : Sx := .atom (if b.isEmpty then "-" else bytesToHex b)

def unhexAtom : Sx → Option Bytes
  | .atom "-" => some []
  | .atom s => hexToBytes s
  | _ => none

def decStore : Sx → Option Store
  | .list es => es.mapM (fun e => match e with
    | .list [u, s] => do pure ((← unhexAtom u), (← unhexAtom s))
    | _ => none)
  | _ => none

def flagOps (parseOk verifyOk : Bool) : CryptoOps :=
  { Hash := Bool, parse := fun _ => if parseOk then some verifyOk else none, verify := fun h _ => h }

def handle : List Sx → Sx
  | [.atom "md5", h] =>
    match unhexAtom h with
    | some b => hexAtom (md5 b)
    | none => .atom "bad-request"
  | [.atom "md5pw", p, u, s] =>
    match unhexAtom p, unhexAtom u, unhexAtom s with
    | some p, some u, some s => hexAtom (computeMd5Password p u s)
    | _, _, _ => .atom "bad-request"
  | [.atom "verifymd5", st, u, r, s] =>
    match decStore st, unhexAtom u, unhexAtom r, unhexAtom s with
    | some st, some u, some r, some s => sxBool (verifyMd5 st u r s)
    | _, _, _, _ => .atom "bad-request"
  | [.atom "verifyclear", st, u, p, .atom po, .atom vo] =>
    match decStore st, unhexAtom u, unhexAtom p with
    | some st, some u, some p => sxBool (verifyCleartext (flagOps (po == "1") (vo == "1")) st u p)
    | _, _, _ => .atom "bad-request"
  | [.atom "login", .atom m, st, u, db, sec, salt, .atom po, .atom vo] =>
    match decStore st, unhexAtom u, unhexAtom db, unhexAtom sec, unhexAtom salt with
    | some st, some u, some db, some sec, some salt =>
      let method := if m == "md5" then AuthMethod.md5 else AuthMethod.password
      sxBool (login (flagOps (po == "1") (vo == "1")) method st u db sec salt)
    | _, _, _, _, _ => .atom "bad-request"
  | _ => .atom "bad-request"

def main : IO Unit := runDriver handle
