import VibeProof.Model.Text
import VibeProof.Lemmas.Text
/-
C19 — SQL dump save/load round-trips table contents.

Three layers, each tied to the code by the correspondence run of `harness/src/bin/c19.rs`:
 T1  quoting:   the lexer's string rule inverts the writer's quoting, for every string;
 T2  splitting: `parse_sql_statements` returns exactly the statements the writer wrote, for every
                string value (line breaks, backslashes, semicolons, comment-like lines included);
 T3  literals:  every literal the writer emits for a value of a supported column type is accepted
                by the loader's INSERT and yields the same value — except NaN / ±Infinity.
-/
namespace VibeProof.C19
open VibeProof.Text VibeProof.Text.Split

/-! ## T1 -/

/-- The string token read from the writer's rendering of `s` is `s`, and lexing resumes exactly
after the literal — whatever `s` contains — provided the literal is not followed by a quote. -/
theorem C19_quote_roundtrip (s r : Str) (hr : ∀ c r', r = c :: r' → c ≠ '\'') :
    lexString (renderStr s ++ r) = .ok (s, r) :=
  lexString_renderStr s r hr

example : lexString (renderStr "O'Brien\\'; --\n".toList ++ ", 2);".toList)
    = .ok ("O'Brien\\'; --\n".toList, ", 2);".toList) :=
  C19_quote_roundtrip _ _ (by intro c r' h; injection h with h1 _; subst h1; decide)

/-- the side condition is necessary: a following quote is read as a doubled quote -/
theorem C19_quote_needs_boundary :
    lexString (renderStr ['a'] ++ ['\'', 'b', '\'']) = .ok (['a', '\'', 'b'], []) := by
  decide

/-! ## T2 -/

/-- one statement of the dump: a first character (a letter in the real dump), pieces of plain
text and string values, and a last character before the semicolon (`)` in the real dump) -/
structure Stmt where
  first : Char
  segs : List Seg
  last : Char

def Stmt.text (s : Stmt) : Str := s.first :: (segsText s.segs ++ [s.last])

def Stmt.valid (s : Stmt) : Prop :=
  goodStart [s.first] = true ∧ rawChar s.first = true ∧ (∀ g ∈ s.segs, g.ok = true) ∧
    rawChar s.last = true ∧ isWs s.last = false

inductive Item where
  | comment (c : Str)     -- comment line or blank line
  | stmt (s : Stmt)

def Item.valid : Item → Prop
  | .comment c => (∀ x ∈ c, x ≠ '\n') ∧ skippable c = true
  | .stmt s => s.valid

def Item.text : Item → Str
  | .comment c => c ++ ['\n']
  | .stmt s => s.text ++ [';', '\n']

def docText (doc : List Item) : Str := (doc.map Item.text).flatten

/-- what the splitter must return: the statements in order (the text joining two lines is one
blank, which the loader trims) -/
def expected (pre : Str) : List Item → List Str
  | [] => []
  | .comment _ :: rest => expected pre rest
  | .stmt s :: rest => (pre.reverse ++ s.text) :: expected [' '] rest

theorem isWs_semicolon : isWs ';' = false := by decide

theorem run_stmt (s : Stmt) (hv : s.valid) (st : St) (hin : st.inStr = false) :
    ∃ v', runC st (s.text ++ [';']) = some v' ∧ v'.inStr = false ∧ v'.cur = [] ∧
      v'.stmts = (st.cur.reverse ++ s.text) :: st.stmts := by
  obtain ⟨_, hf, hs, hl, hlw⟩ := hv
  obtain ⟨v1, a1, a2, a3, a4⟩ := runC_raw [s.first] st hin (by simp [hf])
  obtain ⟨v2, b1, b2, b3, b4⟩ := runC_segs s.segs v1 a2 hs
  obtain ⟨v3, c1, c2, c3, c4⟩ := runC_raw [s.last] v2 b2 (by simp [hl])
  have hl' : s.last ≠ ';' := by
    simp only [rawChar, Bool.and_eq_true, decide_eq_true_eq] at hl; exact hl.1.2
  have hcur : v3.cur = s.last :: ((segsText s.segs).reverse ++ (s.first :: st.cur)) := by
    rw [c4, b4, a4]; simp
  have hstep : stepChar v3 ';' =
      { v3 with stmts := (s.last :: v3.cur.tail).reverse :: v3.stmts, cur := [] } := by
    simp [stepChar, c2, allWs, isWs_semicolon, hcur, dropSemisRev, hl']
  refine ⟨{ v3 with stmts := (s.last :: v3.cur.tail).reverse :: v3.stmts, cur := [] }, ?_, ?_, ?_, ?_⟩
  · have : s.text ++ [';'] = [s.first] ++ (segsText s.segs ++ ([s.last] ++ [';'])) := by
      simp [Stmt.text]
    rw [this, runC_append, a1]
    simp only [Option.bind]
    rw [runC_append, b1]
    simp only [Option.bind]
    rw [runC_append, c1]
    simp only [Option.bind, runC, show (';' = '\n') = False by decide, if_false, hstep]
  · exact c2
  · rfl
  · simp [hcur, c3, b3, a3, Stmt.text]

/-- invariant of the line loop over a whole dump -/
theorem split_doc (doc : List Item) (hdoc : ∀ it ∈ doc, it.valid) :
    ∀ (st : St), st.inStr = false → allWs st.cur = true →
      ∃ st', goLines st [] (docText doc) = st' ∧ st'.inStr = false ∧ allWs st'.cur = true ∧
        st'.stmts = (expected st.cur doc).reverse ++ st.stmts := by
  induction doc with
  | nil =>
    intro st hin hws
    refine ⟨st, ?_, hin, hws, by simp [expected]⟩
    simp [docText, goLines, procLine, hin, skippable, trim, trimStart, trimEnd]
  | cons it rest ih =>
    intro st hin hws
    have hrest : ∀ it' ∈ rest, it'.valid := fun it' h => hdoc it' (by simp [h])
    cases it with
    | comment c =>
      obtain ⟨hnl, hsk⟩ := hdoc (.comment c) (by simp)
      have h1 : goLines st [] (docText (.comment c :: rest)) = goLines st [] (docText rest) := by
        simp only [docText, List.map_cons, List.flatten_cons, Item.text, List.append_assoc,
          List.singleton_append]
        rw [skip_line st c hnl [] _]
        simp [procLine, hin, hsk]
      obtain ⟨st', e1, e2, e3, e4⟩ := ih hrest st hin hws
      exact ⟨st', by rw [h1, e1], e2, e3, by simpa [expected] using e4⟩
    | stmt s =>
      have hv : s.valid := hdoc (.stmt s) (by simp)
      obtain ⟨v', r1, r2, r3, r4⟩ := run_stmt s hv st hin
      have hne : s.first ≠ '\n' := by
        have := hv.2.1; simp only [rawChar, Bool.and_eq_true, decide_eq_true_eq] at this; exact this.2
      have h1 : goLines st [] (docText (.stmt s :: rest)) = goLines (nl v') [] (docText rest) := by
        have : docText (.stmt s :: rest) =
            (s.first :: (segsText s.segs ++ [s.last] ++ [';'])) ++ '\n' :: docText rest := by
          simp [docText, Item.text, Stmt.text]
        rw [this]
        apply stmt_line st s.first _ _ v' hv.1 hne
        simpa [Stmt.text] using r1
      have hnl : nl v' = { v' with cur := [' '] } := by simp [nl, r2, r3]
      obtain ⟨st', e1, e2, e3, e4⟩ := ih hrest { v' with cur := [' '] } r2 (by show allWs [' '] = true; decide)
      refine ⟨st', by rw [h1, hnl, e1], e2, e3, ?_⟩
      rw [e4]
      simp [expected, r4]

/-- **T2.** For every dump made of comment lines, blank lines and statements whose string values
are written by `renderStr`, the splitter returns exactly the statements, in order — whatever the
string values contain (line breaks, backslashes, semicolons, quotes, lines starting with `--`). -/
theorem C19_split_roundtrip (doc : List Item) (hdoc : ∀ it ∈ doc, it.valid) :
    parseSqlStatements (docText doc) = expected [] doc := by
  obtain ⟨st', e1, _, e3, e4⟩ := split_doc doc hdoc Split.init rfl rfl
  simp only [parseSqlStatements, e1, finish, e3, if_true, e4]
  simp [Split.init]

/-- non-vacuity: a dump with a comment, a blank line and two INSERTs whose values contain a line
break followed by `-- `, a backslash before the closing quote, and a semicolon -/
def sampleDoc : List Item :=
  [ .comment "-- VibeSQL Database Dump".toList, .comment [],
    .stmt { first := 'I', segs := [.raw "NSERT INTO T VALUES (1, ".toList, .str "x\n-- y".toList], last := ')' },
    .stmt { first := 'I', segs := [.raw "NSERT INTO T VALUES (2, ".toList, .str "a\\".toList,
              .raw ", ".toList, .str "p;q'r".toList], last := ')' } ]

example : ∀ it ∈ sampleDoc, it.valid := by
  intro it h
  simp only [sampleDoc, List.mem_cons, List.mem_nil_iff, or_false] at h
  rcases h with h | h | h | h <;> subst h <;> simp [Item.valid, Stmt.valid] <;> decide

set_option maxRecDepth 100000 in
example : parseSqlStatements (docText sampleDoc) =
    [ "INSERT INTO T VALUES (1, 'x\n-- y')".toList,
      " INSERT INTO T VALUES (2, 'a\\', 'p;q''r')".toList ] := by decide

/-! ## T3 -/

open VibeProof.Text.Lit

def noDot (s : Str) : Bool := s.all (· ≠ '.')

/-- well-formedness of the numeric payload: digit strings contain no '.', and a value stored in
a SMALLINT column is in the i16 range (`small` is the range test of `coerce_value`) -/
def wf (small : Bool → Str → Bool) (ty : Ty) : Val → Prop
  | .int n ds => noDot ds = true ∧ (ty = .smallint → small n ds = true)
  | .num d => noDot d.int = true
  | _ => True

/-- the full statement: every value of a supported column type reloads from its literal -/
def C19_literal_full : Prop :=
  ∀ (fits : Str → Bool) (small : Bool → Str → Bool) (ty : Ty) (v : Val),
    wellTyped ty v = true → wf small ty v → load fits small ty (render v) = .ok v

theorem splitDot_noDot (i : Str) (h : noDot i = true) : splitDot i = (i, []) := by
  induction i with
  | nil => rfl
  | cons c cs ih =>
    simp only [noDot, List.all_cons, Bool.and_eq_true, decide_eq_true_eq] at h
    have := ih (by simpa [noDot] using h.2)
    simp [splitDot, h.1, this]

theorem splitDot_dot (i f : Str) (h : noDot i = true) : splitDot (i ++ '.' :: f) = (i, f) := by
  induction i with
  | nil => simp [splitDot]
  | cons c cs ih =>
    simp only [noDot, List.all_cons, Bool.and_eq_true, decide_eq_true_eq] at h
    have := ih (by simpa [noDot] using h.2)
    simp [splitDot, h.1, this]

theorem parse_digits (fits : Str → Bool) (ds : Str) (h : noDot ds = true) :
    parseNumber fits ds = (if fits ds then .integer false ds else .numeric ⟨false, ds, []⟩) := by
  have h' : ∀ x ∈ ds, ¬ x = '.' := by simpa [noDot] using h
  have e : (∀ x ∈ ds, ¬ x = '.') ∧ fits ds = true ↔ fits ds = true := ⟨fun a => a.2, fun a => ⟨h', a⟩⟩
  simp only [parseNumber, splitDot_noDot ds h, List.all_eq_true, decide_eq_true_eq, ne_eq,
    Bool.and_eq_true, e]

theorem parse_dec (fits : Str → Bool) (d : Dec) (h : noDot d.int = true) (hf : d.frac ≠ []) :
    parseNumber fits (decText d) = .numeric ⟨false, d.int, d.frac⟩ := by
  have hne : d.frac.isEmpty = false := by cases hd : d.frac <;> simp_all
  have : (d.int ++ '.' :: d.frac).all (· ≠ '.') = false := by simp
  simp [parseNumber, decText, hne, splitDot_dot d.int d.frac h, this]

/-- **T3 (partial).** Every finite value of a supported column type reloads from the literal the
writer emits for it: NULL, integers of any sign and size, decimals, strings, booleans, dates,
times, timestamps.  Excluded: exactly the special floating-point values. -/
theorem C19_literal_roundtrip_partial (fits : Str → Bool) (small : Bool → Str → Bool) (ty : Ty)
    (v : Val) (hw : wellTyped ty v = true) (hwf : wf small ty v) (hs : isSpecial v = false) :
    load fits small ty (render v) = .ok v := by
  cases v with
  | null => cases ty <;> rfl
  | int n ds =>
    obtain ⟨hd, hsm⟩ := hwf
    cases n <;> cases ty <;> simp [wellTyped] at hw <;>
      by_cases hf : fits ds = true <;>
      simp_all [load, render, evalToks, parse_digits, negate, coerce]
  | num d =>
    have hd : noDot d.int = true := hwf
    obtain ⟨neg, i, f⟩ := d
    cases f with
    | nil =>
      cases neg <;> cases ty <;> simp [wellTyped] at hw <;>
        by_cases hf : fits i = true <;>
        simp_all [load, render, evalToks, decText, parse_digits, negate, coerce]
    | cons f0 fs =>
      have hp := parse_dec fits ⟨neg, i, f0 :: fs⟩ hd (by simp)
      cases neg <;> cases ty <;> simp [wellTyped] at hw <;>
        simp_all [load, render, evalToks, negate, coerce]
  | nan => simp [isSpecial] at hs
  | inf n => simp [isSpecial] at hs
  | numNan => simp [isSpecial] at hs
  | numInf n => simp [isSpecial] at hs
  | str s => cases ty <;> simp [wellTyped] at hw <;> rfl
  | bool b => cases b <;> cases ty <;> simp [wellTyped] at hw <;> rfl
  | date s => cases ty <;> simp [wellTyped] at hw <;> simp [load, render, evalToks, coerce]
  | time s => cases ty <;> simp [wellTyped] at hw <;> simp [load, render, evalToks, coerce]
  | timestamp s => cases ty <;> simp [wellTyped] at hw <;> simp [load, render, evalToks, coerce]

/-- non-vacuity: i64::MIN in a BIGINT column, -2.5 in a DOUBLE column, 7 in a SMALLINT column -/
example : load (fun ds => ds.length < 19) (fun _ ds => ds.length < 5) .bigint
    (render (.int true "9223372036854775808".toList)) = .ok (.int true "9223372036854775808".toList) :=
  C19_literal_roundtrip_partial _ _ _ _ rfl ⟨by decide, by intro h; cases h⟩ rfl
example : load (fun ds => ds.length < 19) (fun _ ds => ds.length < 5) .double
    (render (.num ⟨true, ['2'], ['5']⟩)) = .ok (.num ⟨true, ['2'], ['5']⟩) :=
  C19_literal_roundtrip_partial _ _ _ _ rfl (by show noDot ['2'] = true; decide) rfl
example : load (fun ds => ds.length < 19) (fun _ ds => ds.length < 5) .smallint
    (render (.int false ['7'])) = .ok (.int false ['7']) :=
  C19_literal_roundtrip_partial _ _ _ _ rfl ⟨by decide, fun _ => by decide⟩ rfl

/-- NaN in a floating-point column is written as the string 'NaN', which the loader's INSERT does
not accept for a numeric column -/
theorem C19_literal_nan_rejected (fits : Str → Bool) (small : Bool → Str → Bool) :
    load fits small .double (render .nan) = .error .typeMismatch := rfl

theorem C19_literal_inf_rejected (fits : Str → Bool) (small : Bool → Str → Bool) (n : Bool) :
    load fits small .double (render (.inf n)) = .error .typeMismatch := by
  cases n <;> rfl

/-- a NUMERIC NaN / infinity is written as a bare word, which reads as a column reference -/
theorem C19_literal_numeric_nan_rejected (fits : Str → Bool) (small : Bool → Str → Bool) :
    load fits small .numeric (render .numNan) = .error .columnReference := rfl

/-- the full statement is false of the code as it is -/
theorem C19_literal_counterexample : ¬ C19_literal_full := by
  intro h
  have := h (fun _ => true) (fun _ _ => true) .double .nan rfl trivial
  simp [C19_literal_nan_rejected] at this

end VibeProof.C19
