import VibeProof.Lemmas.BTree
/-
Bottom-up construction (bulk_load.rs): every level is a chain of well-formed nodes whose
separators are the smallest keys of the following nodes.
-/
namespace VibeProof.BTree
local notation "Key" => Int

def flatL (h : Nat) (ns : List Node) : List Entry := ns.flatMap (flat h)

@[simp] theorem flatL_nil (h : Nat) : flatL h [] = [] := rfl
@[simp] theorem flatL_cons (h : Nat) (n : Node) (ns : List Node) : flatL h (n :: ns) = flat h n ++ flatL h ns := by
  simp [flatL]
@[simp] theorem flatL_append (h : Nat) (a b : List Node) : flatL h (a ++ b) = flatL h a ++ flatL h b := by
  simp [flatL]

theorem withMin_cons (h : Nat) (c : Node) (cs : List Node) (r : List (Key × Node)) :
    withMin h (c :: cs) = .ok r ↔ ∃ k rt, minKey h c = .ok k ∧ withMin h cs = .ok rt ∧ r = (k, c) :: rt := by
  cases hk : minKey h c <;> cases hr : withMin h cs <;>
    simp [withMin, hk, hr, bind, Except.bind, pure, Except.pure, eq_comm]

theorem withMin_append (h : Nat) : ∀ (a b : List Node) (r : List (Key × Node)), withMin h (a ++ b) = .ok r →
    ∃ ra rb, withMin h a = .ok ra ∧ withMin h b = .ok rb ∧ r = ra ++ rb ∧ ra.length = a.length := by
  intro a
  induction a with
  | nil => intro b r hr; exact ⟨[], r, rfl, hr, rfl, rfl⟩
  | cons c a ih =>
    intro b r hr
    obtain ⟨k, rt, h1, h2, rfl⟩ := (withMin_cons h c (a ++ b) r).mp hr
    obtain ⟨ra, rb, g1, g2, rfl, g4⟩ := ih b rt h2
    exact ⟨(k, c) :: ra, rb, (withMin_cons h c a _).mpr ⟨k, ra, h1, g1, rfl⟩, g2, rfl, by simp [g4]⟩

theorem withMin_flat (h : Nat) : ∀ (cs : List Node) (r : List (Key × Node)), withMin h cs = .ok r →
    flatRight h r = flatL h cs ∧ r.length = cs.length := by
  intro cs
  induction cs with
  | nil => intro r hr; simp [withMin] at hr; cases hr; exact ⟨rfl, rfl⟩
  | cons c cs ih =>
    intro r hr
    obtain ⟨k, rt, h1, h2, rfl⟩ := (withMin_cons h c cs r).mp hr
    obtain ⟨g1, g2⟩ := ih rt h2
    simp [g1, g2]

theorem bnd_of_leB_lt' (lo : Option Int) (a b : Int) (h1 : leB lo a) (h2 : a < b) : bndOK lo (some b) := by
  cases lo <;> simp_all <;> omega

theorem chunkInternal_nil {α : Type} (cap fuel : Nat) : chunkInternal cap fuel ([] : List α) = [] := by
  cases fuel <;> rfl

theorem chunk_nil {α : Type} (cap fuel : Nat) : chunk cap fuel ([] : List α) = [] := by
  cases fuel <;> rfl

/-- one round of `while current_level.len() > 1`: the parents of a chain form a chain -/
theorem levelStep (d cap h : Nat)
    (hcap : ∀ n, 2 ≤ n → 2 ≤ takeCount cap n ∧ takeCount cap n ≤ n ∧ takeCount cap n < d ∧ n - takeCount cap n ≠ 1) :
    ∀ (fuel : Nat) (c0 : Node) (cs : List Node) (lo hi : Option Key) (r : List (Key × Node)),
    (c0 :: cs).length ≤ fuel → 2 ≤ (c0 :: cs).length → withMin h cs = .ok r → WFKids (WF d h) lo hi c0 r →
    ∃ p0 pt r', mkParents h (chunkInternal cap fuel (c0 :: cs)) = .ok (p0 :: pt) ∧
      (p0 :: pt).length < (c0 :: cs).length ∧ withMin (h + 1) pt = .ok r' ∧
      WFKids (WF d (h + 1)) lo hi p0 r' ∧ minKey (h + 1) p0 = minKey h c0 ∧
      flatL (h + 1) (p0 :: pt) = flatL h (c0 :: cs) := by
  intro fuel
  induction fuel with
  | zero => intro c0 cs lo hi r h1; simp at h1
  | succ fuel ih =>
    intro c0 cs lo hi r hlen h2 hr hk
    obtain ⟨t1, t2, t3, t4⟩ := hcap (cs.length + 1) (by simpa using h2)
    obtain ⟨t', ht'⟩ : ∃ t', takeCount cap (cs.length + 1) = t' + 1 := ⟨takeCount cap (cs.length + 1) - 1, by omega⟩
    have hchunk : chunkInternal cap (fuel + 1) (c0 :: cs) =
        (c0 :: cs.take t') :: chunkInternal cap fuel (cs.drop t') := by
      simp [chunkInternal, ht']
    have hcs : cs = cs.take t' ++ cs.drop t' := (List.take_append_drop t' cs).symm
    rw [hcs] at hr
    obtain ⟨ra, rb, g1, g2, rfl, g4⟩ := withMin_append h _ _ r hr
    obtain ⟨fa, la⟩ := withMin_flat h _ ra g1
    have hpar : mkParent h (c0 :: cs.take t') = .ok (.internal c0 ra) := by simp [mkParent, g1, Except.map]
    cases hD : cs.drop t' with
    | nil =>
      rw [hD] at g2
      simp [withMin] at g2
      subst g2
      have hlt : cs.length ≤ t' := by
        have := congrArg List.length hD
        simp at this
        omega
      have hra : ra.length = cs.length := by rw [la, List.length_take]; omega
      refine ⟨.internal c0 ra, [], [], ?_, by simp at h2 ⊢; omega, rfl, ?_, rfl, ?_⟩
      · rw [hchunk, hD, chunkInternal_nil]
        simp [mkParents, hpar, bind, Except.bind, pure, Except.pure]
      · simp only [List.append_nil] at hk
        exact ⟨by omega, by omega, hk⟩
      · rw [hcs, hD]
        simp [flat_internal, fa]
    | cons mc rest =>
      rw [hD] at g2
      obtain ⟨mk, rb', m1, m2, rfl⟩ := (withMin_cons h mc rest rb).mp g2
      obtain ⟨k1, k2⟩ := (WFKids_split _ _ _ _ _ _ _ _).mp hk
      have hdl : (cs.drop t').length = cs.length - t' := by simp
      rw [hD] at hdl
      simp only [List.length_cons] at hdl hlen h2
      have htl : t' < cs.length := by omega
      have hra : ra.length = t' := by rw [la, List.length_take]; omega
      obtain ⟨q0, qt, r'', e1, e2, e3, e4, e5, e6⟩ := ih mc rest (some mk) hi rb'
        (by simp; omega) (by simp; omega) m2 k2
      refine ⟨.internal c0 ra, q0 :: qt, (mk, q0) :: r'', ?_, ?_, ?_, ?_, rfl, ?_⟩
      · rw [hchunk, hD]
        simp [mkParents, hpar, e1, bind, Except.bind, pure, Except.pure]
      · simp only [List.length_cons] at e2 ⊢; omega
      · exact (withMin_cons (h + 1) q0 qt _).mpr ⟨mk, r'', by rw [e5, m1], e3, rfl⟩
      · exact ⟨⟨by omega, by omega, k1⟩, e4⟩
      · rw [flatL_cons, e6, hcs, hD]
        simp [flat_internal, fa]

/-- the leaf level: leaves filled left to right form a chain -/
theorem leafLevel (d cap : Nat) (hc1 : 1 ≤ cap) (hc2 : cap < d) :
    ∀ (fuel : Nat) (x : Entry) (xs : List Entry) (lo : Option Key),
    (x :: xs).length ≤ fuel → (x :: xs).Pairwise (fun a b => a.1 < b.1) →
    (∀ e ∈ x :: xs, leB lo e.1 ∧ e.2 ≠ []) →
    ∃ l0 lt r, (chunk cap fuel (x :: xs)).map Node.leaf = l0 :: lt ∧ withMin 0 lt = .ok r ∧
      WFKids (WF d 0) lo none l0 r ∧ minKey 0 l0 = .ok x.1 ∧ flatL 0 (l0 :: lt) = x :: xs ∧
      (l0 :: lt).length ≤ (x :: xs).length := by
  intro fuel
  induction fuel with
  | zero => intro x xs lo h1; simp at h1
  | succ fuel ih =>
    intro x xs lo hlen hs hb
    obtain ⟨c', hc'⟩ : ∃ c', cap = c' + 1 := ⟨cap - 1, by omega⟩
    have hchunk : chunk cap (fuel + 1) (x :: xs) = (x :: xs.take c') :: chunk cap fuel (xs.drop c') := by
      simp [chunk, hc']
    have hxs : xs = xs.take c' ++ xs.drop c' := (List.take_append_drop c' xs).symm
    have hTlen : (xs.take c').length ≤ c' := by simp [List.length_take]; omega
    cases hD : xs.drop c' with
    | nil =>
      have hT : xs.take c' = xs := by rw [hD, List.append_nil] at hxs; exact hxs.symm
      refine ⟨.leaf (x :: xs), [], [], ?_, rfl, ?_, rfl, by simp [flat], by simp⟩
      · rw [hchunk, hD, chunk_nil, hT]; rfl
      · refine ⟨hs, fun e he => ⟨(hb e he).1, by simp, (hb e he).2⟩, ?_, by simp⟩
        rw [← hT]; simp only [List.length_cons]; omega
    | cons e rest =>
      generalize hTd : xs.take c' = T at hxs hTlen hchunk
      rw [hD] at hxs
      subst hxs
      rw [List.pairwise_cons, List.pairwise_append] at hs
      obtain ⟨hx, hT, hDs, hTD⟩ := hs
      have hxe : x.1 < e.1 := hx e (by simp)
      have hmemD : ∀ y ∈ e :: rest, y ∈ x :: (T ++ e :: rest) := by
        intro y hy
        exact List.mem_cons_of_mem _ (List.mem_append_right _ hy)
      obtain ⟨m0, mt, r'', e1, e2, e3, e4, e5, e6⟩ := ih e rest (some e.1)
        (by simp only [List.length_cons, List.length_append] at hlen ⊢; omega) hDs
        (by
          intro y hy
          refine ⟨?_, (hb y (hmemD y hy)).2⟩
          simp only [List.mem_cons] at hy
          rcases hy with rfl | hy
          · simp
          · have := (List.pairwise_cons.mp hDs).1 y hy
            simp; omega)
      refine ⟨.leaf (x :: T), m0 :: mt, (e.1, m0) :: r'', ?_, ?_, ?_, rfl, ?_, ?_⟩
      · rw [hchunk, hD, List.map_cons, e1]
      · exact (withMin_cons 0 m0 mt _).mpr ⟨e.1, r'', e4, e2, rfl⟩
      · refine ⟨⟨?_, ?_, by simp only [List.length_cons]; omega, ?_⟩, e3⟩
        · rw [List.pairwise_cons]
          exact ⟨fun y hy => hx y (List.mem_append_left _ hy), hT⟩
        · intro y hy
          have hyb := hb y (by
            simp only [List.mem_cons] at hy
            rcases hy with rfl | hy
            · exact List.mem_cons_self
            · exact List.mem_cons_of_mem _ (List.mem_append_left _ hy))
          refine ⟨hyb.1, ?_, hyb.2⟩
          simp only [List.mem_cons] at hy
          rcases hy with rfl | hy
          · simpa using hxe
          · simpa using hTD y hy e (by simp)
        · exact bnd_of_leB_lt' lo x.1 e.1 (hb x List.mem_cons_self).1 hxe
      · rw [flatL_cons, e5]
        simp [flat]
      · simp only [List.length_cons, List.length_append] at e6 ⊢; omega

/-- the loop of `bulk_load` over the levels ends with a well-formed tree over the same entries -/
theorem buildLevels_correct (d cap : Nat)
    (hcap : ∀ n, 2 ≤ n → 2 ≤ takeCount cap n ∧ takeCount cap n ≤ n ∧ takeCount cap n < d ∧ n - takeCount cap n ≠ 1) :
    ∀ (fuel h : Nat) (c0 : Node) (cs : List Node) (r : List (Key × Node)),
    (c0 :: cs).length ≤ fuel + 1 → withMin h cs = .ok r → WFKids (WF d h) none none c0 r →
    ∃ t, buildLevels cap fuel h (c0 :: cs) = .ok t ∧ WF d t.h none none t.root ∧
      flat t.h t.root = flatL h (c0 :: cs) := by
  intro fuel
  induction fuel with
  | zero =>
    intro h c0 cs r hlen hr hk
    cases cs with
    | nil =>
      simp [withMin] at hr; subst hr
      exact ⟨⟨h, c0⟩, by simp [buildLevels], hk, by simp⟩
    | cons c cs => simp at hlen
  | succ fuel ih =>
    intro h c0 cs r hlen hr hk
    cases cs with
    | nil =>
      simp [withMin] at hr; subst hr
      exact ⟨⟨h, c0⟩, by simp [buildLevels], hk, by simp⟩
    | cons c cs' =>
      obtain ⟨p0, pt, r', e1, e2, e3, e4, _, e6⟩ := levelStep d cap h hcap (c0 :: c :: cs').length c0 (c :: cs') none none r
        (Nat.le_refl _) (by simp) hr hk
      obtain ⟨t, g1, g2, g3⟩ := ih (h + 1) p0 pt r' (by simp only [List.length_cons] at e2 hlen ⊢; omega) e3 e4
      refine ⟨t, ?_, g2, by rw [g3, e6]⟩
      simp only [buildLevels, e1]
      exact g1

/-! ## grouping -/

theorem group_keys (l : List (Key × RowId)) : ∀ e ∈ group l, ∃ p ∈ l, p.1 = e.1 := by
  induction l with
  | nil => intro e he; simp [group] at he
  | cons a l ih =>
    obtain ⟨k, r⟩ := a
    intro e he
    simp only [group] at he
    split at he
    · rename_i k' rs g hg
      rw [hg] at ih
      split at he
      · simp only [List.mem_cons] at he
        rcases he with rfl | he
        · exact ⟨(k, r), by simp, rfl⟩
        · obtain ⟨p, hp, hpk⟩ := ih e (by simp [he])
          exact ⟨p, by simp [hp], hpk⟩
      · simp only [List.mem_cons] at he
        rcases he with rfl | he
        · exact ⟨(k, r), by simp, rfl⟩
        · obtain ⟨p, hp, hpk⟩ := ih e (by simpa using he)
          exact ⟨p, by simp [hp], hpk⟩
    · simp at he
      subst he
      exact ⟨(k, r), by simp, rfl⟩

theorem group_sorted (l : List (Key × RowId)) (hs : l.Pairwise (fun a b => a.1 ≤ b.1)) :
    (group l).Pairwise (fun a b => a.1 < b.1) ∧ ∀ e ∈ group l, e.2 ≠ [] := by
  induction l with
  | nil => simp [group]
  | cons a l ih =>
    obtain ⟨k, r⟩ := a
    rw [List.pairwise_cons] at hs
    obtain ⟨i1, i2⟩ := ih hs.2
    have hkeys := group_keys l
    simp only [group]
    split
    · rename_i k' rs g hg
      rw [hg] at i1 i2 hkeys
      rw [List.pairwise_cons] at i1
      have hkk' : k ≤ k' := by
        obtain ⟨p, hp, hpk⟩ := hkeys (k', rs) (by simp)
        have := hs.1 p hp
        simp at hpk this; omega
      split
      · rename_i heq
        subst heq
        refine ⟨List.pairwise_cons.mpr ⟨fun e he => i1.1 e he, i1.2⟩, ?_⟩
        intro e he
        simp only [List.mem_cons] at he
        rcases he with rfl | he
        · simp
        · exact i2 e (by simp [he])
      · rename_i hne
        refine ⟨?_, ?_⟩
        · rw [List.pairwise_cons, List.pairwise_cons]
          refine ⟨?_, i1.1, i1.2⟩
          intro e he
          simp only [List.mem_cons] at he
          rcases he with rfl | he
          · simp; omega
          · have := i1.1 e he; simp at this ⊢; omega
        · intro e he
          simp only [List.mem_cons] at he
          rcases he with rfl | he
          · simp
          · exact i2 e (by simpa using he)
    · simp

end VibeProof.BTree
