use vharness::*;
use std::io::BufRead;
fn main() {
    engine::silence_panics();
    let mut db = Db::new();
    for line in std::io::stdin().lock().lines() {
        let l = line.unwrap();
        let l = l.trim();
        if l.is_empty() || l.starts_with("--") { continue; }
        if l == "RESET" { db = Db::new(); continue; }
        let o = db.exec(l);
        println!("{}\n    => {}", l, o.brief());
    }
}
