import VibeProof.Generated.Consts
import VibeProof.Model.BinTypes
import VibeProof.Model.Temporal
/-
Model of vibesql's native binary persistence format
(crates/vibesql-storage/src/persistence/binary/{io,format,value,data,catalog}.rs), as coded
(after the two `fix:` commits of C18/C20).

A reader is a total function from the remaining input to an allocation ledger and an outcome;
nothing in here can "panic": every failure is an `Err`.  The ledger records the size of every
buffer whose size is taken from the file (the `read_string` length prefix).

Floats are raw bit patterns (`Nat` below 2^32 / 2^64); DATE/TIME/TIMESTAMP/INTERVAL values are
the bytes of their `Display` string (parsing them is C22's subject: the reader keeps the string).
-/
namespace VibeProof.BinCodec
open VibeProof.Generated

abbrev Bytes := List UInt8

inductive Err where
  | eof
  | badTag (b : Nat)
  | badUtf8
  | badMagic
  | badVersion
  | badDirection (b : Nat)
  | badTiming | badEvent | badGranularity | badAction
  | badType
  | tableNotFound
  | duplicateName
  | unsupportedWhen
  | badExprTag (b : Nat)
  | badEnum (b : Nat)
  | notImplemented
  | depthExceeded
  | zeroColumnRows
  | badTemporal
  | columnNotFound
  /-- a value parser panicked (`Fail.panic` of Model/Temporal.lean) — C20 proves this outcome away -/
  | panic
  deriving DecidableEq, Repr

/-- ledger of file-driven allocation requests (bytes), and the outcome -/
structure Out (α : Type) where
  ledger : List Nat
  res : Except Err (α × Bytes)

def Reader (α : Type) := Bytes → Out α

namespace Reader
def pure (a : α) : Reader α := fun inp => ⟨[], .ok (a, inp)⟩
def bind (f : Reader α) (g : α → Reader β) : Reader β := fun inp =>
  match f inp with
  | ⟨l, .error e⟩ => ⟨l, .error e⟩
  | ⟨l, .ok (a, rest)⟩ => ⟨l ++ (g a rest).ledger, (g a rest).res⟩
end Reader

instance : Monad Reader where
  pure := Reader.pure
  bind := Reader.bind

def fail (e : Err) : Reader α := fun _ => ⟨[], .error e⟩
/-- record an allocation of `min n (bytes still available)` — what `take(n).read_to_end` can
    at most make the buffer grow to (repaired `read_string`) -/
def allocAvail (n : Nat) : Reader Unit := fun inp => ⟨[min n inp.length], .ok ((), inp)⟩
/-- record an allocation of exactly `n` bytes — `vec![0u8; n]` of the unrepaired `read_string` -/
def allocExact (n : Nat) : Reader Unit := fun inp => ⟨[n], .ok ((), inp)⟩

/-! ### primitives (io.rs) -/

def u8 : Reader UInt8 := fun inp =>
  match inp with
  | [] => ⟨[], .error .eof⟩
  | b :: r => ⟨[], .ok (b, r)⟩

/-- `read_exact` of `n` bytes -/
def takeN (n : Nat) : Reader Bytes := fun inp =>
  if n ≤ inp.length then ⟨[], .ok (inp.take n, inp.drop n)⟩ else ⟨[], .error .eof⟩

def leNat : Bytes → Nat
  | [] => 0
  | b :: r => b.toNat + 256 * leNat r

def leBytes : Nat → Nat → Bytes
  | 0, _ => []
  | k + 1, n => UInt8.ofNat (n % 256) :: leBytes k (n / 256)

/-- little-endian unsigned integer of `k` bytes -/
def uN (k : Nat) : Reader Nat := do
  let bs ← takeN k
  pure (leNat bs)

/-- two's complement -/
def toSigned (bits : Nat) (n : Nat) : Int :=
  if n < 2 ^ (bits - 1) then (n : Int) else (n : Int) - (2 ^ bits : Nat)

def ofSigned (bits : Nat) (i : Int) : Nat := (i % ((2 ^ bits : Nat) : Int)).toNat

def iN (k : Nat) : Reader Int := do
  let n ← uN k
  pure (toSigned (8 * k) n)

/-- `read_bool`: any non-zero byte is true -/
def rbool : Reader Bool := do
  let b ← u8
  pure (b != 0)

def wbool (b : Bool) : Bytes := [if b then 1 else 0]

/-! UTF-8 well-formedness exactly as `String::from_utf8` (Unicode table 3-7). -/

def isCont (b : UInt8) : Bool := 0x80 ≤ b && b ≤ 0xBF

def validUtf8 : Bytes → Bool
  | [] => true
  | b0 :: r =>
    if b0 < 0x80 then validUtf8 r
    else if 0xC2 ≤ b0 && b0 ≤ 0xDF then
      match r with
      | b1 :: r1 => isCont b1 && validUtf8 r1
      | _ => false
    else if b0 == 0xE0 then
      match r with
      | b1 :: b2 :: r2 => (0xA0 ≤ b1 && b1 ≤ 0xBF) && isCont b2 && validUtf8 r2
      | _ => false
    else if (0xE1 ≤ b0 && b0 ≤ 0xEC) || b0 == 0xEE || b0 == 0xEF then
      match r with
      | b1 :: b2 :: r2 => isCont b1 && isCont b2 && validUtf8 r2
      | _ => false
    else if b0 == 0xED then
      match r with
      | b1 :: b2 :: r2 => (0x80 ≤ b1 && b1 ≤ 0x9F) && isCont b2 && validUtf8 r2
      | _ => false
    else if b0 == 0xF0 then
      match r with
      | b1 :: b2 :: b3 :: r3 => (0x90 ≤ b1 && b1 ≤ 0xBF) && isCont b2 && isCont b3 && validUtf8 r3
      | _ => false
    else if 0xF1 ≤ b0 && b0 ≤ 0xF3 then
      match r with
      | b1 :: b2 :: b3 :: r3 => isCont b1 && isCont b2 && isCont b3 && validUtf8 r3
      | _ => false
    else if b0 == 0xF4 then
      match r with
      | b1 :: b2 :: b3 :: r3 => (0x80 ≤ b1 && b1 ≤ 0x8F) && isCont b2 && isCont b3 && validUtf8 r3
      | _ => false
    else false
termination_by structural bs => bs

/-- `read_string` as repaired: u32 length, `take(len).read_to_end`, truncated → error, UTF-8 check -/
def readString : Reader Bytes := do
  let len ← uN 4
  allocAvail len
  let bs ← takeN len
  if validUtf8 bs then pure bs else fail .badUtf8

/-- `read_string` before the repair: `vec![0u8; len]` is allocated first -/
def readStringOld : Reader Bytes := do
  let len ← uN 4
  allocExact len
  let bs ← takeN len
  if validUtf8 bs then pure bs else fail .badUtf8

def writeString (s : Bytes) : Bytes := leBytes 4 s.length ++ s

/-! ### type tags (format.rs), bytes taken from the source on every run -/

inductive Tag where
  | null | smallint | integer | bigint | unsigned | numeric | float | real | double
  | character | varchar | boolean | date | time | timestamp | interval
  deriving DecidableEq, Repr

def Tag.all : List Tag :=
  [.null, .smallint, .integer, .bigint, .unsigned, .numeric, .float, .real, .double,
   .character, .varchar, .boolean, .date, .time, .timestamp, .interval]

def Tag.idx : Tag → Nat
  | .null => 0 | .smallint => 1 | .integer => 2 | .bigint => 3 | .unsigned => 4 | .numeric => 5
  | .float => 6 | .real => 7 | .double => 8 | .character => 9 | .varchar => 10 | .boolean => 11
  | .date => 12 | .time => 13 | .timestamp => 14 | .interval => 15

def Tag.ofIdx? (i : Nat) : Option Tag := Tag.all.find? (fun t => t.idx == i)

/-- `TypeTag::X as u8` -/
def Tag.toNat? (t : Tag) : Option Nat := binTagToByte.lookup t.idx

/-- `TypeTag::from_u8` -/
def Tag.fromNat? (b : Nat) : Option Tag := (binTagFromByte.lookup b).bind Tag.ofIdx?

theorem Tag.toNat_total : ∀ t : Tag, (Tag.toNat? t).isSome = true := by
  intro t; cases t <;> decide

def Tag.toNat (t : Tag) : Nat := (Tag.toNat? t).get (Tag.toNat_total t)

def Tag.toByte (t : Tag) : UInt8 := UInt8.ofNat t.toNat

/-! ### values (value.rs) -/

inductive TKind where
  | date | time | timestamp | interval
  deriving DecidableEq, Repr

def TKind.tag : TKind → Tag
  | .date => .date | .time => .time | .timestamp => .timestamp | .interval => .interval

/-- `s.parse::<Date|Time|Timestamp|Interval>()` of value.rs, by the parsers of Model/Temporal.lean
    (C22's model; its outcomes are ok / err / panic) -/
def temporalCheck : TKind → Bytes → Except Temporal.Fail Unit
  | .date, s => (Temporal.Date.fromStr s).map (fun _ => ())
  | .time, s => (Temporal.Time.fromStr s).map (fun _ => ())
  | .timestamp, s => (Temporal.Timestamp.fromStr s).map (fun _ => ())
  | .interval, s => (Temporal.Interval.new s).map (fun _ => ())

inductive BVal where
  | null
  | smallint (n : Int)
  | integer (n : Int)
  | bigint (n : Int)
  | unsigned (n : Nat)
  | numeric (bits : Nat)
  | float (bits : Nat)
  | real (bits : Nat)
  | double (bits : Nat)
  | character (s : Bytes)
  | varchar (s : Bytes)
  | boolean (b : Bool)
  | temporal (k : TKind) (s : Bytes)
  deriving DecidableEq, Repr

/-- what a `SqlValue` can hold: integer ranges, float bit widths, strings are valid UTF-8
    shorter than 2^32 bytes (the length prefix is `len as u32`) -/
def BVal.WF : BVal → Prop
  | .null => True
  | .smallint n => -(2 ^ 15 : Int) ≤ n ∧ n < 2 ^ 15
  | .integer n => -(2 ^ 63 : Int) ≤ n ∧ n < 2 ^ 63
  | .bigint n => -(2 ^ 63 : Int) ≤ n ∧ n < 2 ^ 63
  | .unsigned n => n < 2 ^ 64
  | .numeric b => b < 2 ^ 64
  | .float b => b < 2 ^ 32
  | .real b => b < 2 ^ 32
  | .double b => b < 2 ^ 64
  | .character s => validUtf8 s = true ∧ s.length < 2 ^ 32
  | .varchar s => validUtf8 s = true ∧ s.length < 2 ^ 32
  | .boolean _ => True
  | .temporal k s => validUtf8 s = true ∧ s.length < 2 ^ 32 ∧ (temporalCheck k s).toBool = true

instance (v : BVal) : Decidable v.WF := by
  cases v <;> unfold BVal.WF <;> infer_instance

def BVal.tag : BVal → Tag
  | .null => .null | .smallint _ => .smallint | .integer _ => .integer | .bigint _ => .bigint
  | .unsigned _ => .unsigned | .numeric _ => .numeric | .float _ => .float | .real _ => .real
  | .double _ => .double | .character _ => .character | .varchar _ => .varchar
  | .boolean _ => .boolean | .temporal k _ => k.tag

def writeBody : BVal → Bytes
  | .null => []
  | .smallint n => leBytes 2 (ofSigned 16 n)
  | .integer n => leBytes 8 (ofSigned 64 n)
  | .bigint n => leBytes 8 (ofSigned 64 n)
  | .unsigned n => leBytes 8 n
  | .numeric b => leBytes 8 b
  | .float b => leBytes 4 b
  | .real b => leBytes 4 b
  | .double b => leBytes 8 b
  | .character s => writeString s
  | .varchar s => writeString s
  | .boolean b => wbool b
  | .temporal _ s => writeString s

/-- `write_sql_value` -/
def writeValue (v : BVal) : Bytes := v.tag.toByte :: writeBody v

/-- a temporal value: the text is read, parsed (an unparsable text is an error, a panicking parser is
    the `panic` outcome) and kept as text -/
def readTemporal (k : TKind) : Reader BVal := do
  let s ← readString
  match temporalCheck k s with
  | .ok _ => pure (.temporal k s)
  | .error .err => fail .badTemporal
  | .error .panic => fail .panic

def readBody : Tag → Reader BVal
  | .null => pure .null
  | .smallint => do let n ← iN 2; pure (.smallint n)
  | .integer => do let n ← iN 8; pure (.integer n)
  | .bigint => do let n ← iN 8; pure (.bigint n)
  | .unsigned => do let n ← uN 8; pure (.unsigned n)
  | .numeric => do let n ← uN 8; pure (.numeric n)
  | .float => do let n ← uN 4; pure (.float n)
  | .real => do let n ← uN 4; pure (.real n)
  | .double => do let n ← uN 8; pure (.double n)
  | .character => do let s ← readString; pure (.character s)
  | .varchar => do let s ← readString; pure (.varchar s)
  | .boolean => do let b ← rbool; pure (.boolean b)
  | .date => readTemporal .date
  | .time => readTemporal .time
  | .timestamp => readTemporal .timestamp
  | .interval => readTemporal .interval

/-- `read_sql_value` (temporal strings are kept, not parsed) -/
def readValue : Reader BVal := do
  let b ← u8
  match Tag.fromNat? b.toNat with
  | none => fail (.badTag b.toNat)
  | some t => readBody t

/-! ### rows and table data (data.rs) -/

abbrev Row := List BVal

/-- `n` items with reader `rd` (the `for _ in 0..n` loops) -/
def readMany (rd : Reader α) : Nat → Reader (List α)
  | 0 => pure []
  | n + 1 => do
    let a ← rd
    let as ← readMany rd n
    pure (a :: as)

def writeMany (wr : α → Bytes) (xs : List α) : Bytes := (xs.map wr).flatten

def writeRow (r : Row) : Bytes := writeMany writeValue r
def readRow (ncols : Nat) : Reader Row := readMany readValue ncols

def writeRows (rs : List Row) : Bytes := writeMany writeRow rs
def readRows (nrows ncols : Nat) : Reader (List Row) := readMany (readRow ncols) nrows

structure TableData where
  name : Bytes
  rows : List Row
  deriving DecidableEq, Repr

/-- one table of `write_data`: name, u64 row count, rows -/
def writeTableData (t : TableData) : Bytes :=
  writeString t.name ++ leBytes 8 t.rows.length ++ writeRows t.rows

/-! ### header (format.rs) -/

def magicBytes : Bytes := binMagic.map UInt8.ofNat

def writeHeader : Bytes :=
  magicBytes ++ [UInt8.ofNat binVersion, 0] ++ List.replicate binReservedLen 0

/-- `read_header`: magic, version ≤ VERSION, flags (ignored), reserved (ignored) -/
def readHeader : Reader Unit := do
  let m ← takeN binMagic.length
  if m ≠ magicBytes then fail .badMagic else
  let v ← u8
  if v.toNat > binVersion then fail .badVersion else
  let _ ← u8
  let _ ← takeN binReservedLen
  pure ()

/-! ### catalog section (catalog.rs) -/

structure ColDef where
  name : Bytes
  typeStr : Bytes
  nullable : Bool
  deriving DecidableEq, Repr

structure TableDef where
  name : Bytes
  cols : List ColDef
  deriving DecidableEq, Repr

structure IdxCol where
  name : Bytes
  desc : Bool
  /-- prefix index column `col(n)` -/
  pfx : Option Nat
  deriving DecidableEq, Repr

structure IdxDef where
  name : Bytes
  table : Bytes
  unique : Bool
  cols : List IdxCol
  deriving DecidableEq, Repr

/-! ### expressions (expression/{mod,case,window,operators,types}.rs): trigger WHEN conditions

The reader is modelled at byte level; of the expression it keeps only its size and nesting
depth (`ExInfo`).  `readExpr fuel` reads an expression that may still use `fuel` nesting levels:
Rust's `read_expression_at(reader, depth)` fails when `depth > MAX_EXPRESSION_DEPTH` before it
reads the tag, and every child is read at `depth + 1`; the root call is `readExpr (max + 1)`. -/

structure ExInfo where
  nodes : Nat
  depth : Nat
  deriving DecidableEq, Repr

def ExInfo.leaf : ExInfo := ⟨1, 1⟩
def ExInfo.combine (cs : List ExInfo) : ExInfo :=
  ⟨1 + (cs.map (·.nodes)).sum, 1 + cs.foldl (fun m c => max m c.depth) 0⟩

inductive EK where
  | literal | columnRef | binaryOp | unaryOp | function | aggregateFunction | isNull | wildcard
  | case | scalarSubquery | inSubquery | inList | between | cast | position | trim | like | exists
  | quantifiedComparison | currentDate | currentTime | currentTimestamp | interval | default
  | duplicateKeyValue | windowFunction | nextValue | matchAgainst | pseudoVariable | sessionVariable
  deriving DecidableEq, Repr

def EK.all : List EK :=
  [.literal, .columnRef, .binaryOp, .unaryOp, .function, .aggregateFunction, .isNull, .wildcard,
   .case, .scalarSubquery, .inSubquery, .inList, .between, .cast, .position, .trim, .like, .exists,
   .quantifiedComparison, .currentDate, .currentTime, .currentTimestamp, .interval, .default,
   .duplicateKeyValue, .windowFunction, .nextValue, .matchAgainst, .pseudoVariable, .sessionVariable]

/-- `ExprTag::from_u8` -/
def EK.fromNat? (b : Nat) : Option EK := (exprTagFromByte.lookup b).bind (fun i => EK.all[i]?)

/-- the readers generated by `impl_simple_enum_serialization!` and the window tag matches -/
def readEnum (allowed : List Nat) : Reader Nat := do
  let b ← u8
  if allowed.contains b.toNat then pure b.toNat else fail (.badEnum b.toNat)

/-- `read_bool` then the value when true -/
def optional (rd : Reader α) : Reader (Option α) := do
  let h ← rbool
  if h then do let a ← rd; pure (some a) else pure none

/-- type text of a CAST target: `parse_data_type` (ASCII texts only; otherwise undecided) -/
def checkTypeText (t : Bytes) : Reader Unit :=
  if t.any (fun b => b ≥ 0x80) then fail .unsupportedWhen
  else match BinTypes.parseDataType (t.map (fun b => Char.ofNat b.toNat)) with
    | some _ => pure ()
    | none => fail .badType

/-- `read_case_when`: conditions and result (all read at the children's depth) -/
def readCaseWhen (rec : Reader ExInfo) : Reader (List ExInfo) := do
  let m ← uN 4
  let conds ← readMany rec m
  let r ← rec
  pure (conds ++ [r])

/-- `read_frame_bound` -/
def readFrameBound (rec : Reader ExInfo) : Reader (List ExInfo) := do
  let t ← readEnum exprFrameBoundTags
  if exprFrameBoundWithExpr.contains t then do let e ← rec; pure [e] else pure []

/-- `read_window_function_spec` followed by `read_window_spec` -/
def readWindow (rec : Reader ExInfo) : Reader (List ExInfo) := do
  let _ ← readEnum exprWindowFnSpecTags
  let _ ← readString
  let n ← uN 4
  let args ← readMany rec n
  let part ← optional (do let k ← uN 4; readMany rec k)
  let hasOrder ← rbool
  if hasOrder then fail .notImplemented else
  let frame ← optional (do
    let _ ← readEnum exprFrameUnitTags
    let s ← readFrameBound rec
    let e ← optional (readFrameBound rec)
    pure (s ++ e.getD []))
  pure (args ++ part.getD [] ++ frame.getD [])

/-- one arm of `read_expression_at`, the children being read by `rec` -/
def readExprBody (rec : Reader ExInfo) : EK → Reader ExInfo
  | .literal => do let _ ← readValue; pure .leaf
  | .columnRef => do let _ ← optional readString; let _ ← readString; pure .leaf
  | .binaryOp => do
      let _ ← readEnum exprBinaryOpTags
      let l ← rec
      let r ← rec
      pure (.combine [l, r])
  | .unaryOp => do let _ ← readEnum exprUnaryOpTags; let e ← rec; pure (.combine [e])
  | .function => do
      let _ ← readString
      let n ← uN 4
      let args ← readMany rec n
      let _ ← optional (readEnum exprCharacterUnitTags)
      pure (.combine args)
  | .aggregateFunction => do
      let _ ← readString
      let _ ← rbool
      let n ← uN 4
      let args ← readMany rec n
      pure (.combine args)
  | .isNull => do let e ← rec; let _ ← rbool; pure (.combine [e])
  | .wildcard => pure .leaf
  | .case => do
      let op ← optional rec
      let n ← uN 4
      let whens ← readMany (readCaseWhen rec) n
      let els ← optional rec
      pure (.combine (op.toList ++ whens.flatten ++ els.toList))
  | .scalarSubquery => fail .notImplemented
  | .inSubquery => fail .notImplemented
  | .inList => do
      let e ← rec
      let n ← uN 4
      let vs ← readMany rec n
      let _ ← rbool
      pure (.combine (e :: vs))
  | .between => do
      let e ← rec
      let lo ← rec
      let hi ← rec
      let _ ← rbool
      let _ ← rbool
      pure (.combine [e, lo, hi])
  | .cast => do
      let e ← rec
      let t ← readString
      checkTypeText t
      pure (.combine [e])
  | .position => do
      let a ← rec
      let b ← rec
      let _ ← optional (readEnum exprCharacterUnitTags)
      pure (.combine [a, b])
  | .trim => do
      let _ ← optional (readEnum exprTrimPositionTags)
      let c ← optional rec
      let e ← rec
      pure (.combine (c.toList ++ [e]))
  | .like => do let e ← rec; let p ← rec; let _ ← rbool; pure (.combine [e, p])
  | .exists => fail .notImplemented
  | .quantifiedComparison => fail .notImplemented
  | .currentDate => pure .leaf
  | .currentTime => do let _ ← optional (uN 4); pure .leaf
  | .currentTimestamp => do let _ ← optional (uN 4); pure .leaf
  | .interval => do
      let e ← rec
      let _ ← readEnum exprIntervalUnitTags
      let _ ← optional (uN 4)
      let _ ← optional (uN 4)
      pure (.combine [e])
  | .default => pure .leaf
  | .duplicateKeyValue => do let _ ← readString; pure .leaf
  | .windowFunction => do let cs ← readWindow rec; pure (.combine cs)
  | .nextValue => do let _ ← readString; pure .leaf
  | .matchAgainst => do
      let n ← uN 4
      let _ ← readMany readString n
      let e ← rec
      let _ ← readEnum exprFulltextModeTags
      pure (.combine [e])
  | .pseudoVariable => do let _ ← readEnum exprPseudoTableTags; let _ ← readString; pure .leaf
  | .sessionVariable => do let _ ← readString; pure .leaf

/-- `read_expression_at`: `fuel` = nesting levels still allowed -/
def readExpr : Nat → Reader ExInfo
  | 0 => fail .depthExceeded
  | fuel + 1 => do
    let b ← u8
    match EK.fromNat? b.toNat with
    | none => fail (.badExprTag b.toNat)
    | some k => readExprBody (readExpr fuel) k

/-- `read_expression` (depth 0; levels 0 ..= MAX_EXPRESSION_DEPTH are allowed) -/
def readExpression : Reader ExInfo := readExpr (exprMaxDepth + 1)

/-- trigger; of a WHEN condition the model keeps its size and depth -/
structure TrigDef where
  name : Bytes
  table : Bytes
  timing : Nat            -- 0 before, 1 after, 2 instead of
  event : Nat             -- 0 insert, 1 update, 2 delete, 3 update of columns
  eventCols : List Bytes  -- only for event 3
  granularity : Nat       -- 0 row, 1 statement
  when : Option ExInfo
  sql : Bytes
  deriving DecidableEq, Repr

structure Catalog where
  schemas : List Bytes
  roles : List Bytes
  tables : List TableDef
  indexes : List IdxDef
  triggers : List TrigDef
  deriving DecidableEq, Repr

def writeCount (n : Nat) : Bytes := leBytes 4 n

def writeCol (c : ColDef) : Bytes := writeString c.name ++ writeString c.typeStr ++ wbool c.nullable
def readCol : Reader ColDef := do
  let n ← readString
  let t ← readString
  let b ← rbool
  pure ⟨n, t, b⟩

def writeTableDef (t : TableDef) : Bytes :=
  writeString t.name ++ writeCount t.cols.length ++ writeMany writeCol t.cols
def readTableDef : Reader TableDef := do
  let n ← readString
  let k ← uN 4
  let cs ← readMany readCol k
  pure ⟨n, cs⟩

/-- direction byte: 0 asc, 1 desc, +2 when a prefix length (u64) follows -/
def dirByte (c : IdxCol) : UInt8 :=
  match c.desc, c.pfx with
  | false, none => 0 | true, none => 1 | false, some _ => 2 | true, some _ => 3

def writeIdxCol (c : IdxCol) : Bytes :=
  writeString c.name ++ [dirByte c] ++ (match c.pfx with | some n => leBytes 8 n | none => [])
def readIdxCol : Reader IdxCol := do
  let n ← readString
  let d ← u8
  if d == 0 then pure ⟨n, false, none⟩
  else if d == 1 then pure ⟨n, true, none⟩
  else if d == 2 then do let p ← uN 8; pure ⟨n, false, some p⟩
  else if d == 3 then do let p ← uN 8; pure ⟨n, true, some p⟩
  else fail (.badDirection d.toNat)

def writeIdxDef (i : IdxDef) : Bytes :=
  writeString i.name ++ writeString i.table ++ wbool i.unique ++ writeCount i.cols.length
    ++ writeMany writeIdxCol i.cols
def readIdxDef : Reader IdxDef := do
  let n ← readString
  let t ← readString
  let u ← rbool
  let k ← uN 4
  let cs ← readMany readIdxCol k
  pure ⟨n, t, u, cs⟩

def writeTrig (t : TrigDef) : Bytes :=
  writeString t.name ++ writeString t.table ++ [UInt8.ofNat t.timing, UInt8.ofNat t.event]
    ++ (if t.event = 3 then writeCount t.eventCols.length ++ writeMany writeString t.eventCols else [])
    ++ [UInt8.ofNat t.granularity] ++ wbool false ++ [0] ++ writeString t.sql
def readTrig : Reader TrigDef := do
  let n ← readString
  let t ← readString
  let timing ← u8
  if timing.toNat > 2 then fail .badTiming else
  let ev ← u8
  if ev.toNat > 3 then fail .badEvent else
  let cols ← (if ev.toNat = 3 then do let k ← uN 4; readMany readString k else pure [])
  let g ← u8
  if g.toNat > 1 then fail .badGranularity else
  let w ← optional readExpression
  let act ← u8
  if act.toNat ≠ 0 then fail .badAction else
  let sql ← readString
  pure ⟨n, t, timing.toNat, ev.toNat, cols, g.toNat, w, sql⟩

def writeCounted (wr : α → Bytes) (xs : List α) : Bytes := writeCount xs.length ++ writeMany wr xs
def readCounted (rd : Reader α) : Reader (List α) := do
  let k ← uN 4
  readMany rd k

/-- `write_catalog` -/
def writeCatalog (c : Catalog) : Bytes :=
  writeCounted writeString c.schemas ++ writeCounted writeString c.roles
    ++ writeCounted writeTableDef c.tables ++ writeCounted writeIdxDef c.indexes
    ++ writeCounted writeTrig c.triggers

/-- `read_catalog`, byte level (the database-side checks are not part of it) -/
def readCatalog : Reader Catalog := do
  let s ← readCounted readString
  let r ← readCounted readString
  let t ← readCounted readTableDef
  let i ← readCounted readIdxDef
  let g ← readCounted readTrig
  pure ⟨s, r, t, i, g⟩

/-! ### data section and whole file -/

/-- ASCII upper-casing (table names are compared case-insensitively) -/
def upperByte (b : UInt8) : UInt8 := if 0x61 ≤ b && b ≤ 0x7A then b - 0x20 else b
def upper (s : Bytes) : Bytes := s.map upperByte

def findCols (tables : List TableDef) (name : Bytes) : Option Nat :=
  (tables.find? (fun t => upper t.name == upper name)).map (fun t => t.cols.length)

/-- one table of `read_data`: name, u64 row count, column count from the catalog, rows -/
def readTableData (tables : List TableDef) : Reader TableData := do
  let name ← readString
  let n ← uN 8
  match findCols tables name with
  | none => fail .tableNotFound
  | some k =>
    -- a row of zero values consumes no input: the (repaired) loader refuses to loop
    if k = 0 ∧ n > 0 then fail .zeroColumnRows else do
    let rows ← readRows n k
    pure ⟨name, rows⟩

structure FileContent where
  catalog : Catalog
  data : List TableData
  deriving DecidableEq, Repr

/-- `save_binary`: header, catalog, data -/
def saveFile (f : FileContent) : Bytes :=
  writeHeader ++ writeCatalog f.catalog ++ writeMany writeTableData f.data

/-- `load_binary` at byte level: header, catalog, one data block per catalog table.
    Bytes after the last table are left unread (as in the Rust code). -/
def loadFile : Reader FileContent := do
  readHeader
  let c ← readCatalog
  let d ← readMany (readTableData c.tables) c.tables.length
  pure ⟨c, d⟩

/-! ### index rebuild at the end of `read_data` (index_maintenance.rs `apply_prefix_truncation`)

After the rows are loaded every index of the catalog is created again over them.  A prefix index
column `col(n)` keys on the first `n` characters: `s.chars().take(n).collect()`, for every `n`
including 0 (the SQL parser refuses `col(0)`, a file can say it). -/

/-- the first `n` characters of a UTF-8 string (a character = a non-continuation byte and the
    continuation bytes that follow it) -/
def takeChars : Nat → Bytes → Bytes
  | _, [] => []
  | n, b :: r =>
    if Temporal.isCont b then b :: takeChars n r
    else match n with
      | 0 => []
      | n + 1 => b :: takeChars n r

def applyPrefix (p : Option Nat) : BVal → BVal
  | .varchar s => match p with | some n => .varchar (takeChars n s) | none => .varchar s
  | .character s => match p with | some n => .character (takeChars n s) | none => .character s
  | v => v

def mapE (g : α → Except Err β) : List α → Except Err (List β)
  | [] => .ok []
  | a :: l =>
    match g a with
    | .error e => .error e
    | .ok b =>
      match mapE g l with
      | .error e => .error e
      | .ok bs => .ok (b :: bs)

structure BuiltIndex where
  name : Bytes
  keys : List (List BVal)
  deriving Repr

def colPos (t : TableDef) (name : Bytes) : Option Nat :=
  let rec go (i : Nat) : List ColDef → Option Nat
    | [] => none
    | c :: r => if upper c.name == upper name then some i else go (i + 1) r
  go 0 t.cols

def buildIndex (f : FileContent) (i : IdxDef) : Except Err BuiltIndex :=
  match f.catalog.tables.find? (fun t => upper t.name == upper i.table) with
  | none => .error .tableNotFound
  | some t =>
    match mapE (fun c : IdxCol => match colPos t c.name with
        | some p => .ok (p, c.pfx)
        | none => .error .columnNotFound) i.cols with
    | .error e => .error e
    | .ok pos =>
      let rows := ((f.data.filter (fun d => upper d.name == upper t.name)).map (·.rows)).flatten
      match mapE (fun r : Row => mapE (fun (pp : Nat × Option Nat) => match r[pp.1]? with
          | some v => .ok (applyPrefix pp.2 v)
          | none => .error .columnNotFound) pos) rows with
      | .error e => .error e
      | .ok keys => .ok ⟨i.name, keys⟩

/-- the index rebuild of a loaded file -/
def rebuildIndexes (f : FileContent) : Except Err (List BuiltIndex) :=
  mapE (buildIndex f) f.catalog.indexes

end VibeProof.BinCodec
