import VibeProof.Model.Value
import VibeProof.Model.Expr
import VibeProof.Model.Rel
/-
ORDER BY / LIMIT / OFFSET / DISTINCT as coded in
  crates/vibesql-executor/src/select/order.rs            (apply_order_by, resolve_order_by_alias)
  crates/vibesql-executor/src/select/grouping/aggregates.rs (compare_sql_values)
  crates/vibesql-executor/src/select/helpers.rs          (apply_limit_offset, apply_distinct)
  crates/vibesql-executor/src/select/executor/aggregation/evaluation/mod.rs
                                                          (apply_order_by_to_aggregates, after ed283a47)
  crates/vibesql-executor/src/select/executor/execute.rs (set operations: sort, then LIMIT/OFFSET)
-/
namespace VibeProof

inductive Dir where
  | asc | desc
  deriving DecidableEq, Repr, Inhabited

/-- the evaluated ORDER BY keys of one row, each with the direction of its item -/
abbrev SortKey := List (Value × Dir)

/-- `compare_sql_values` on two non-NULL values: `partial_cmp(a, b).unwrap_or(Equal)`;
values of different types are incomparable and count as equal -/
def cmpNonNull (a b : Value) : Ordering :=
  match Value.cmp? a b with
  | some o => o
  | none => .eq

/-- one step of the comparison closure of `apply_order_by`: NULL sorts last in both directions -/
def keyCmp (d : Dir) (a b : Value) : Ordering :=
  match a.isNull, b.isNull with
  | true, true => .eq
  | true, false => .gt
  | false, true => .lt
  | false, false =>
    match d with
    | .asc => cmpNonNull a b
    | .desc => (cmpNonNull a b).swap

/-- the comparison closure: `keys_a.iter().zip(keys_b.iter())`, direction taken from the left
operand, first non-equal item decides -/
def keysCmp : SortKey → SortKey → Ordering
  | (a, d) :: as, (b, _) :: bs =>
    match keyCmp d a b with
    | .eq => keysCmp as bs
    | o => o
  | _, _ => .eq

def keysLe (a b : SortKey) : Bool := keysCmp a b != .gt

/-- `rows.sort_by(comparison_fn)` / `par_sort_by`: stable sorts -/
def sortByKeys {α : Type} (rows : List (α × SortKey)) : List (α × SortKey) :=
  rows.mergeSort (fun x y => keysLe x.2 y.2)

/-- an ORDER BY item as written -/
inductive OrderExpr where
  /-- integer literal -/
  | pos (n : Int)
  /-- unqualified column reference -/
  | name (s : String)
  /-- any other expression (over the columns of the FROM row) -/
  | expr (e : Expr)
  deriving Repr, Inhabited

structure SelItem where
  expr : Expr
  alias : Option String
  deriving Repr, Inhabited

/-- `resolve_order_by_alias`: (1) an integer literal within 1..=len(select list) is that select
expression; (2) an unqualified name equal to a select-list alias is that expression (first match);
(3) otherwise the expression itself, evaluated on the FROM row: a name is looked up among the
table's columns, an out-of-range integer is the constant -/
def resolveOrderExpr (cols : List String) (sel : List SelItem) : OrderExpr → Except Err Expr
  | .pos n =>
    if 0 < n ∧ n.toNat ≤ sel.length then
      match sel[n.toNat - 1]? with
      | some it => .ok it.expr
      | none => .error .columnOutOfRange
    else .ok (.lit (.int n))
  | .name s =>
    match sel.find? (fun it => it.alias == some s) with
    | some it => .ok it.expr
    | none =>
      match cols.idxOf? s with
      | some i => .ok (.col i)
      | none => .error .columnOutOfRange
  | .expr e => .ok e

def evalKeys (keys : List (Expr × Dir)) (row : Row) : Except Err SortKey :=
  keys.mapM (fun kd => do
    let v ← kd.1.eval row
    pure (v, kd.2))

/-- `apply_order_by`: evaluate the keys of every row (an error aborts the query), sort -/
def orderByRows (keys : List (Expr × Dir)) (rows : List Row) : Except Err (List (Row × SortKey)) := do
  let keyed ← rows.mapM (fun r => do
    let k ← evalKeys keys r
    pure (r, k))
  pure (sortByKeys keyed)

/-- `apply_limit_offset` as coded (early return, `min` with the rows that remain) -/
def applyLimitOffset {α : Type} (rows : List α) (limit : Option Nat) (offset : Option Nat) : List α :=
  let start := match offset with
    | some m => m
    | none => 0
  if start ≥ rows.length then []
  else
    let maxTake := rows.length - start
    let take := match limit with
      | some n => min n maxTake
      | none => maxTake
    (rows.drop start).take take

/-- `apply_distinct`: one pass, a row is kept iff it was not seen before (`IndexSet::insert`) -/
def distinctLoop {α : Type} [DecidableEq α] : List α → List α → List α → List α
  | [], _, acc => acc.reverse
  | r :: rs, seen, acc =>
    if r ∈ seen then distinctLoop rs seen acc
    else distinctLoop rs (r :: seen) (r :: acc)

def applyDistinct {α : Type} [DecidableEq α] (rows : List α) : List α :=
  distinctLoop rows [] []

structure PlainQuery where
  cols : List String
  sel : List SelItem
  order : List (OrderExpr × Dir)
  distinct : Bool
  limit : Option Nat
  offset : Option Nat
  deriving Repr, Inhabited

def projectRow (sel : List SelItem) (row : Row) : Except Err Row :=
  sel.mapM (fun it => it.expr.eval row)

/-- the materialised non-aggregate pipeline after WHERE (nonagg/materialized.rs), up to
LIMIT/OFFSET: sort → project → DISTINCT -/
def plainOrdered (q : PlainQuery) (rows : List Row) : Except Err (List Row) := do
  let keys ← q.order.mapM (fun od => do
    let e ← resolveOrderExpr q.cols q.sel od.1
    pure (e, od.2))
  let sorted ← if keys.isEmpty then pure (rows.map (fun r => (r, ([] : SortKey)))) else orderByRows keys rows
  let projected ← sorted.mapM (fun rk => projectRow q.sel rk.1)
  pure (if q.distinct then applyDistinct projected else projected)

/-- … followed by LIMIT/OFFSET -/
def runPlain (q : PlainQuery) (rows : List Row) : Except Err (List Row) := do
  let d ← plainOrdered q rows
  pure (applyLimitOffset d q.limit q.offset)

/-- ORDER BY over already computed result rows (aggregate results, set-operation results):
keys are output columns given by position (`apply_order_by_to_aggregates` after name/position
resolution), then DISTINCT (aggregates only) -/
def resultOrdered (order : List (Nat × Dir)) (distinct : Bool) (rows : List Row) :
    Except Err (List Row) := do
  let sorted ← if order.isEmpty then pure (rows.map (fun r => (r, ([] : SortKey))))
    else orderByRows (order.map (fun od => (Expr.col od.1, od.2))) rows
  let out := sorted.map (·.1)
  pure (if distinct then applyDistinct out else out)

/-- … followed by LIMIT/OFFSET (for set operations: after the operation and the sort) -/
def runOnResult (order : List (Nat × Dir)) (distinct : Bool) (limit offset : Option Nat)
    (rows : List Row) : Except Err (List Row) := do
  let d ← resultOrdered order distinct rows
  pure (applyLimitOffset d limit offset)

/-! typing of sort keys: the hypothesis under which the comparison is a total preorder -/

inductive KTy where
  | int | str | bool
  deriving DecidableEq, Repr, Inhabited

def Value.hasTy : Value → KTy → Bool
  | .null, _ => true
  | .int _, .int => true
  | .str _, .str => true
  | .bool _, .bool => true
  | _, _ => false

/-- every key has the type (or is NULL) and the direction of its ORDER BY item -/
def wellTyped : List (KTy × Dir) → SortKey → Bool
  | [], [] => true
  | (t, d) :: ts, (v, d') :: ks => v.hasTy t && d == d' && wellTyped ts ks
  | _, _ => false

end VibeProof
