import VibeProof.Model.TableSMCodec
open VibeProof.Proto

def main : IO Unit := runDriver VibeProof.TSMCodec.handle
