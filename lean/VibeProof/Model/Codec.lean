import VibeProof.Model.Proto
import VibeProof.Model.Expr
/-
Protocol glue: s-expression <-> Value / Row / Expr / TV.  Not part of any theorem.
Values: `N`, `I<int>`, `S<hex utf8>`, `B0` / `B1`.
-/
namespace VibeProof.Codec
open VibeProof VibeProof.Proto

def decValue (s : String) : Option Value :=
  match s.toList with
  | ['N'] => some .null
  | 'I' :: rest => (String.ofList rest).toInt?.map Value.int
  | 'S' :: rest => (hexToStr (String.ofList rest)).map Value.str
  | ['B', '0'] => some (.bool false)
  | ['B', '1'] => some (.bool true)
  | _ => none

def encValue : Value → String
  | .null => "N"
  | .int i => "I" ++ toString i
  | .str s => "S" ++ strToHex s
  | .bool b => if b then "B1" else "B0"

def decValueSx : Sx → Option Value
  | .atom s => decValue s
  | _ => none

def decRow : Sx → Option Row
  | .list xs => xs.mapM decValueSx
  | _ => none

def decRows : Sx → Option (List Row)
  | .list xs => xs.mapM decRow
  | _ => none

def encRow (r : Row) : Sx := .list (r.map (fun v => .atom (encValue v)))
def encRows (rs : List Row) : Sx := .list (rs.map encRow)

def encTV : TV → String
  | .t => "t" | .f => "f" | .u => "u"

def encErr : Err → Sx
  | .typeMismatch => .list [.atom "err", .atom "type"]
  | .columnOutOfRange => .list [.atom "err", .atom "column"]
  | .overflow => .list [.atom "err", .atom "overflow"]
  | .multiRow => .list [.atom "err", .atom "multirow"]
  | .unsupported => .list [.atom "err", .atom "unsupported"]

def binOpOf : String → Option BinOp
  | "add" => some .add | "sub" => some .sub | "mul" => some .mul
  | "eq" => some .eq | "ne" => some .ne | "lt" => some .lt | "le" => some .le
  | "gt" => some .gt | "ge" => some .ge | "and" => some .and | "or" => some .or
  | _ => none

partial def decExpr : Sx → Option Expr
  | .list [.atom "col", .atom i] => i.toNat?.map Expr.col
  | .list [.atom "lit", .atom v] => (decValue v).map Expr.lit
  | .list [.atom "not", a] => (decExpr a).map Expr.not
  | .list [.atom "isnull", a] => (decExpr a).map (Expr.isNull · false)
  | .list [.atom "notnull", a] => (decExpr a).map (Expr.isNull · true)
  | .list [.atom "between", a, lo, hi] => do
      pure (Expr.between (← decExpr a) (← decExpr lo) (← decExpr hi) false)
  | .list [.atom "nbetween", a, lo, hi] => do
      pure (Expr.between (← decExpr a) (← decExpr lo) (← decExpr hi) true)
  | .list (.atom "in" :: a :: vs) => do
      pure (Expr.inList (← decExpr a) (← vs.mapM decValueSx) false)
  | .list (.atom "nin" :: a :: vs) => do
      pure (Expr.inList (← decExpr a) (← vs.mapM decValueSx) true)
  | .list [.atom "like", a, p] => do pure (Expr.like (← decExpr a) (← decExpr p) false)
  | .list [.atom "nlike", a, p] => do pure (Expr.like (← decExpr a) (← decExpr p) true)
  | .list [.atom "ite", c, r, e] => do pure (Expr.ite (← decExpr c) (← decExpr r) (← decExpr e))
  | .list [.atom "coalesce", a, b] => do pure (Expr.coalesce (← decExpr a) (← decExpr b))
  | .list [.atom op, a, b] => do
      let o ← binOpOf op
      pure (Expr.bin o (← decExpr a) (← decExpr b))
  | _ => none

end VibeProof.Codec
