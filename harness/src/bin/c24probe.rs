use vharness::*;
use std::io::BufRead;
fn main() {
    std::panic::set_hook(Box::new(|i| { if let Some(l)=i.location() { println!("   [panic at {}:{}]", l.file(), l.line()); } }));
    let mut db = Db::new();
    for line in std::io::stdin().lock().lines() {
        let l = line.unwrap();
        let l = l.trim();
        if l.is_empty() || l.starts_with("--") { continue; }
        let o = db.exec(l);
        let mut b = o.brief();
        if b.len() > 300 { b.truncate(300); }
        println!("{}\n   => {}", l, b);
    }
}
