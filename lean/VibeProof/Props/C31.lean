import VibeProof.Model.Text
import VibeProof.Lemmas.Text
import VibeProof.Lemmas.Csv
import VibeProof.Lemmas.Header
/-
C31 — CLI import/export transfers data faithfully and safely.

 T1  the CSV writer is right: a reference RFC 4180 reader gets back every table of cells;
 T2  the reader (`parse_csv_records` + `import_csv`, as repaired) turns every written file into
     exactly the INSERTs of its rows, for all cell contents;
 T3  values never escape their literal in the generated INSERT text (uses C19-T1); column names
     are copied verbatim, so they are safe only if validated — which `validate_json_columns` now
     does for every object;
 T4  export followed by import does not reproduce a table (header `Column`, cells in Debug form).
-/
namespace VibeProof.C31
open VibeProof.Text VibeProof.Text.Csv

/-! ## T1 -/

/-- **T1.** Whatever the cells contain (commas, quotes, line breaks, anything), the reference
reader reads back exactly the rows the writer wrote (each row has at least one cell). -/
theorem C31_writer_rfc4180 (rows : List (List Str)) (hne : ∀ r ∈ rows, r ≠ []) :
    parseCsv (writeCsv rows) = .ok rows := by
  have h := rRun_rows rows hne []
  simp only [parseCsv, rInit, h, rFinish]
  simp

example : parseCsv (writeCsv [["a,b".toList, "q\"r".toList], ["x\ny".toList, []]])
    = .ok [["a,b".toList, "q\"r".toList], ["x\ny".toList, []]] :=
  C31_writer_rfc4180 _ (by intro r h; simp at h; rcases h with h | h <;> subst h <;> simp)

/-! ## T2 -/

theorem importRows_ok (table : Str) (header : List Str) (rows : List (List Str))
    (hlen : ∀ r ∈ rows, r.length = header.length) : ∀ n,
    importRows table header n rows = .ok (insertsOf table header rows) := by
  induction rows with
  | nil => intro n; rfl
  | cons r rs ih =>
    intro n
    have hr := hlen r (by simp)
    simp only [importRows, hr, ne_eq, not_true_eq_false, if_false]
    rw [ih (fun r' h => hlen r' (by simp [h])) (n + 1)]
    have hq : List.map quoteCell r = List.map renderStr r := List.map_congr_left (fun _ _ => rfl)
    simp [insertsOf, hq]

/-- **T2 (full).** Importing what the writer wrote yields exactly the INSERTs of the rows,
whatever the cells contain (commas, quotes, line breaks, carriage returns, outer blanks). -/
theorem C31_import_roundtrip (table : Str) (header : List Str) (rows : List (List Str))
    (hh : header ≠ []) (hlen : ∀ r ∈ rows, r.length = header.length) :
    importCsv table (writeCsv (header :: rows)) = .ok (insertsOf table header rows) := by
  have hne : ∀ r ∈ header :: rows, r ≠ [] := by
    intro r hr
    simp only [List.mem_cons] at hr
    rcases hr with h | h
    · subst h; exact hh
    · intro hnil
      have := hlen r h
      rw [hnil] at this
      cases header with
      | nil => exact hh rfl
      | cons _ _ => simp at this
  simp only [importCsv, C31_writer_rfc4180 (header :: rows) hne]
  exact importRows_ok table header rows hlen 2

/-- non-vacuity, with the cells the naive reader used to get wrong: comma, quote, line break,
carriage return before the record end, outer blanks -/
example : importCsv ['t'] (writeCsv ([['a'], ['b']] :: [["x,y".toList, "q\"r".toList],
      ["l\nm".toList, " p\r".toList]]))
    = .ok (insertsOf ['t'] [['a'], ['b']] [["x,y".toList, "q\"r".toList], ["l\nm".toList, " p\r".toList]]) :=
  C31_import_roundtrip _ _ _ (by simp) (by decide +kernel)

/-- a file with CRLF record ends reads like one with LF record ends -/
theorem C31_crlf_records :
    parseCsv "a,b\r\n1,\"x\"\r\n".toList = .ok [[['a'], ['b']], [['1'], ['x']]] := by decide +kernel

/-! ## T3 -/

/-- **T3.** In a generated INSERT every CSV cell is one string literal whose content is the cell,
whatever the cell contains: the lexer's string rule consumes exactly the quoted cell and resumes
at the text the generator put after it (`, ` or `);`). -/
theorem C31_value_confined (v r : Str) (hr : ∀ c r', r = c :: r' → c ≠ '\'') :
    lexString (quoteCell v ++ r) = .ok (v, r) :=
  lexString_renderStr v r hr

/-- the same for every JSON value that is not null -/
theorem C31_json_value_confined (v r : Str) (hr : ∀ c r', r = c :: r' → c ≠ '\'') :
    lexString (jsonCell (some v) ++ r) = .ok (v, r) :=
  lexString_renderStr v r hr

example : lexString (quoteCell "'); DROP TABLE t; --".toList ++ ");".toList)
    = .ok ("'); DROP TABLE t; --".toList, ");".toList) :=
  C31_value_confined _ _ (by intro c r' h; injection h with h1 _; subst h1; decide)

/-- the JSON string "NULL" is imported as the four letters; only JSON null is SQL NULL -/
theorem C31_json_null_text :
    importJsonObj ['t'] [(['a'], some "NULL".toList), (['b'], none)] =
      "INSERT INTO t (a, b) VALUES ('NULL', NULL);".toList := by
  decide +kernel

/-- column names are copied into the statement verbatim: a key that passes no validation puts
its own VALUES list first and comments out the real one (the reason every object's keys are
validated against the table's columns) -/
theorem C31_unvalidated_key_injects :
    scan (importJsonObj ['s'] [("a) VALUES ('INJECTED'); --".toList, some ['2'])]) =
      scan "INSERT INTO s (a) VALUES ('INJECTED');".toList := by decide +kernel

/-- a validated name (one of the table's columns, hence free of quotes, parentheses and
semicolons) contains none of the characters that delimit the column list -/
theorem C31_validated_name_inert (name : Str) (h : nameCharsOk name = true) :
    ∀ c ∈ name, c ≠ ';' ∧ c ≠ '\'' ∧ c ≠ '"' ∧ c ≠ '(' ∧ c ≠ ')' := by
  intro c hc
  simp only [nameCharsOk, List.all_eq_true, Bool.and_eq_true, decide_eq_true_eq] at h
  obtain ⟨⟨⟨⟨a, b⟩, c'⟩, d⟩, e⟩ := h c hc
  exact ⟨a, b, c', d, e⟩

/-! ## T5: validator and importer agree on what the header is -/

theorem noQuote_of_pieces (raw : Str) (hq : ∀ p ∈ splitOn ',' raw, ∀ x ∈ p, x ≠ '"') :
    ∀ c ∈ raw, c ≠ '"' := by
  intro c hc
  rw [splitOn_acc] at hq
  rcases splitAcc_chars (fun x => x = '"') raw [] [] (fun p hp x hx => hq p hp x hx) c hc with h | h
  · rw [h]; decide
  · exact h

theorem finish_line (cells : List Str) (cur : Str) :
    rFinish { rows := [], cells := cells, mode := modeOf cur, fresh := false } =
      .ok [piecesOf (cells, cur)] := by
  cases hcur : cur with
  | nil => simp [rFinish, modeOf, endRow, piecesOf]
  | cons x xs => simp [rFinish, modeOf, endRow, piecesOf]

theorem newline_line (cells : List Str) (cur : Str) (fr : Bool) :
    ∃ st', rStep { rows := [], cells := cells, mode := modeOf cur, fresh := fr } '\n' = .ok st' ∧
      st'.rows = [piecesOf (cells, stripCr cur)] := by
  cases hcur : cur with
  | nil => exact ⟨_, by simp [rStep, modeOf]; rfl, by simp [endRow, piecesOf, stripCr]⟩
  | cons x xs => exact ⟨_, by simp [rStep, modeOf]; rfl, by simp [endRow, piecesOf]⟩

/-- when line 1 has no double quote, the first record the importer reads is line 1 split at the
commas — the very pieces the validator looks at -/
theorem header_record (text L : Str) (hL : firstLine text = some L)
    (hq : ∀ p ∈ splitOn ',' L, ∀ x ∈ p, x ≠ '"') (h : List Str) (hr : firstRecord text = some h) :
    h = splitOn ',' L := by
  have hne : text ≠ [] := by
    intro e; subst e; simp [firstLine] at hL
  have hL' : firstLineAux [] text = L := by
    cases text with
    | nil => exact absurd rfl hne
    | cons c cs => simpa [firstLine] using hL
  obtain ⟨raw, hraw, hcase⟩ := firstLineAux_split text []
  rcases hcase with ⟨e1, e2⟩ | ⟨rest, e1, e2⟩
  · -- the file is one line without a line break
    have eL : L = raw := by rw [← hL', e2]; simp
    subst eL
    have hnq := noQuote_of_pieces L hq
    have hrun := rRun_line L (fun c hc => ⟨hraw c hc, hnq c hc⟩) rInit [] [] rfl (by simp)
    simp only [List.append_nil, rRun] at hrun
    have hLne : L ≠ [] := by rw [← e1]; exact hne
    have hrun' : rRun rInit L =
        .ok { rows := [], cells := (splitAcc [] [] L).1, mode := modeOf (splitAcc [] [] L).2, fresh := false } := by
      rw [hrun]
      cases L with
      | nil => exact absurd rfl hLne
      | cons _ _ => simp [rInit]
    simp only [firstRecord, parseCsv, e1, hrun', finish_line] at hr
    injection hr with hr
    rw [← hr, splitOn_acc]
  · -- line 1 ends with a line break
    have eL : L = (stripCr raw.reverse).reverse := by rw [← hL', e2]; simp
    have hnqL := noQuote_of_pieces L hq
    have hnq : ∀ c ∈ raw, c ≠ '"' := by
      intro c hc hcq
      subst hcq
      -- a quote of the raw line survives the CR stripping
      have : '"' ∈ L := by
        rw [eL]
        cases hrr : raw.reverse with
        | nil => have : raw = [] := by simpa using hrr
                 subst this; simp at hc
        | cons x t =>
          have hmem : '"' ∈ x :: t := by rw [← hrr]; simpa using hc
          by_cases hx : x = '\r'
          · subst hx
            simp only [stripCr, List.mem_reverse]
            simp only [List.mem_cons] at hmem
            rcases hmem with hm | hm
            · exact absurd hm (by decide)
            · exact hm
          · have hs : stripCr (x :: t) = x :: t := by
              unfold stripCr; split
              · rename_i heq; injection heq with h1 _; exact absurd h1 hx
              · rfl
            rw [hs]; exact List.mem_reverse.mpr hmem
      exact hnqL _ this rfl
    have hrun := rRun_line raw (fun c hc => ⟨hraw c hc, hnq c hc⟩) rInit [] ('\n' :: rest) rfl (by simp)
    have hrun' : rRun rInit (raw ++ '\n' :: rest) =
        rRun { rows := [], cells := (splitAcc [] [] raw).1, mode := modeOf (splitAcc [] [] raw).2, fresh := rInit.fresh && raw.isEmpty } ('\n' :: rest) := by
      rw [hrun]; simp [rInit]
    obtain ⟨st2, hstep, hrows2⟩ := newline_line (splitAcc [] [] raw).1 (splitAcc [] [] raw).2
      (rInit.fresh && raw.isEmpty)
    simp only [firstRecord, parseCsv, e1, hrun', rRun, hstep] at hr
    cases hrest : rRun st2 rest with
    | error e => simp [hrest] at hr
    | ok st3 =>
      simp only [hrest] at hr
      obtain ⟨more, hmore⟩ := rRun_keeps_rows rest st2 st3 hrest
      cases hfin : rFinish st3 with
      | error e => simp [hfin] at hr
      | ok r =>
        obtain ⟨more', hr'⟩ := rFinish_keeps_rows st3 r hfin
        simp only [hfin] at hr
        rw [hr', hmore, hrows2] at hr
        simp only [List.reverse_append, List.reverse_cons, List.reverse_nil, List.nil_append,
          List.singleton_append, List.cons_append] at hr
        injection hr with hr
        rw [← hr, split_stripCr, splitOn_acc, eL]

/-- **T5.** If `validate_csv_columns` accepts a file, then every header field that `import_csv`
pastes into its INSERT statements is one of the validated names: free of `;` `'` `"` `(` `)` and,
trimmed, a column of the table — for every file text.  (The validator reads line 1; the importer
reads the first RFC 4180 record; the two coincide because a validated line 1 has no double
quote, so no field can continue on a later line.) -/
theorem C31_header_agreement (cols : List Str) (text : Str) (hv : validateHeader cols text = true)
    (h : List Str) (hr : firstRecord text = some h) :
    ∀ f ∈ h, nameCharsOk f = true ∧ nameOk cols (trim f) = true := by
  cases hL : firstLine text with
  | none => simp [validateHeader, hL] at hv
  | some L =>
    simp only [validateHeader, hL, List.all_eq_true] at hv
    have hq : ∀ p ∈ splitOn ',' L, ∀ x ∈ p, x ≠ '"' := by
      intro p hp x hx hxq
      subst hxq
      have hok := hv p hp
      simp only [nameOk, Bool.and_eq_true] at hok
      rcases mem_trim p '"' hx with hw | hm
      · exact absurd hw (by decide)
      · have := C31_validated_name_inert _ hok.1 '"' hm
        exact this.2.2.1 rfl
    have heq := header_record text L hL hq h hr
    intro f hf
    rw [heq] at hf
    have hok := hv f hf
    refine ⟨?_, hok⟩
    simp only [nameOk, Bool.and_eq_true] at hok
    simp only [nameCharsOk, List.all_eq_true, Bool.and_eq_true, decide_eq_true_eq]
    intro c hc
    rcases mem_trim f c hc with hw | hm
    · refine ⟨⟨⟨⟨?_, ?_⟩, ?_⟩, ?_⟩, ?_⟩ <;> (intro e; subst e; exact absurd hw (by decide))
    · have := C31_validated_name_inert _ hok.1 c hm
      exact ⟨⟨⟨⟨this.1, this.2.1⟩, this.2.2.1⟩, this.2.2.2.1⟩, this.2.2.2.2⟩

/-- non-vacuity: a header with blanks and other case, CRLF record ends -/
example : validateHeader [['A'], ['B']] " a ,B\r\n1,2\r\n".toList = true ∧
    firstRecord " a ,B\r\n1,2\r\n".toList = some [" a ".toList, ['B']] := by decide +kernel

/-- why the validator must not accept what the importer reads differently: were surrounding
quotes stripped before the check, line 1 `"a","b` would pass while the importer's first record
continues on line 2 and carries SQL into the statement -/
theorem C31_quoted_header_spans_lines :
    firstRecord "\"a\",\"b\n) VALUES ('evil','row') --\"\n1,2\n".toList =
      some [['a'], "b\n) VALUES ('evil','row') --".toList] ∧
    validateHeader [['A'], ['B']] "\"a\",\"b\n) VALUES ('evil','row') --\"\n1,2\n".toList = false := by
  decide +kernel

/-! ## T4 -/

/-- the full statement: what export writes for a table imports back as the INSERTs of its rows
(`header` = the table's column names, `txt` = the plain text of a value) -/
def C31_full : Prop :=
  ∀ (α : Type) (dbg txt : α → Str) (table : Str) (header : List Str) (rows : List (List α)),
    rows ≠ [] → (∀ r ∈ rows, r.length = header.length) →
    importCsv table (writeCsv (exportTable dbg rows)) =
      .ok (insertsOf table header (rows.map (fun r => r.map txt)))

/-- **T4.** Export then import does not reproduce even a one-cell table: the exported header is
`Column` and the cell is the Debug form of the value. -/
theorem C31_export_import_counterexample : ¬ C31_full := by
  intro h
  have := h Unit (fun _ => "Integer(1)".toList) (fun _ => ['1']) ['t'] [['a']] [[()]] (by simp)
    (by intro r hr; simp at hr; subst hr; rfl)
  revert this
  decide +kernel

end VibeProof.C31
