import VibeProof.Model.BinTypes
/-
Lemmas about the text helpers of `parse_data_type` (Model/BinTypes.lean): decimal digits,
`trim_start_matches`, `trim_end_matches(')')`, `split(',')`, `trim`, `parse::<uN>`.
-/
namespace VibeProof.BinTypes

theorem digit_cases (c : Char) (h : c.isDigit = true) :
    c ∈ ['0','1','2','3','4','5','6','7','8','9'] := by
  have h1 : 48 ≤ c.toNat ∧ c.toNat ≤ 57 := by
    simp only [Char.isDigit, Bool.and_eq_true, decide_eq_true_eq, ge_iff_le] at h
    exact ⟨UInt32.le_iff_toNat_le.mp h.1, UInt32.le_iff_toNat_le.mp h.2⟩
  have h2 : c = Char.ofNat c.toNat := (Char.ofNat_toNat c).symm
  have h3 : c.toNat = 48 ∨ c.toNat = 49 ∨ c.toNat = 50 ∨ c.toNat = 51 ∨ c.toNat = 52 ∨
      c.toNat = 53 ∨ c.toNat = 54 ∨ c.toNat = 55 ∨ c.toNat = 56 ∨ c.toNat = 57 := by omega
  rcases h3 with e | e | e | e | e | e | e | e | e | e <;> (rw [h2, e]; decide)

/-- what the proofs need to know about a decimal digit -/
structure DigitFacts (c : Char) : Prop where
  upper : c.toUpper = c
  comma : (c == ',') = false
  paren : (c == ')') = false
  plus : (c == '+') = false
  ws : isWs c = false
  nN : (c == 'N') = false
  nD : (c == 'D') = false
  nV : (c == 'V') = false
  nC : (c == 'C') = false
  nF : (c == 'F') = false

theorem digit_facts (c : Char) (h : c.isDigit = true) : DigitFacts c := by
  have := digit_cases c h
  simp only [List.mem_cons, List.mem_nil_iff, or_false] at this
  rcases this with e | e | e | e | e | e | e | e | e | e <;> subst e <;>
    exact ⟨by decide, by decide, by decide, by decide, by decide, by decide, by decide, by decide,
      by decide, by decide⟩

/-- the decimal text of `n`: non-empty, digits only, and it evaluates to `n` -/
structure IsNum (d : List Char) (n : Nat) : Prop where
  ne : d ≠ []
  dig : ∀ c ∈ d, c.isDigit = true
  val : Nat.ofDigitChars 10 d 0 = n

theorem isNum_showNat (n : Nat) : IsNum (showNat n) n :=
  ⟨Nat.toDigits_ne_nil, fun _ hc => Nat.isDigit_of_mem_toDigits (by decide) (by decide) hc,
   Nat.ofDigitChars_ten_toDigits⟩

theorem IsNum.upper {d n} (h : IsNum d n) : d.map Char.toUpper = d := by
  have : ∀ l : List Char, (∀ c ∈ l, c.isDigit = true) → l.map Char.toUpper = l := by
    intro l hl
    induction l with
    | nil => rfl
    | cons a l ih =>
      simp only [List.map_cons]
      rw [(digit_facts a (hl a (by simp))).upper, ih (fun c hc => hl c (by simp [hc]))]
  exact this d h.dig

/-- `d = a :: d'` with `a` a digit -/
theorem IsNum.head {d n} (h : IsNum d n) : ∃ a d', d = a :: d' ∧ a.isDigit = true := by
  cases d with
  | nil => exact absurd rfl h.ne
  | cons a d' => exact ⟨a, d', rfl, h.dig a (by simp)⟩

/-- `d = d' ++ [z]` with `z` a digit -/
theorem IsNum.last {d n} (h : IsNum d n) : ∃ d' z, d = d' ++ [z] ∧ z.isDigit = true := by
  have hne : d.reverse ≠ [] := by simpa using h.ne
  cases hr : d.reverse with
  | nil => exact absurd hr hne
  | cons z r =>
    refine ⟨r.reverse, z, ?_, ?_⟩
    · have := congrArg List.reverse hr
      simpa using this
    · exact h.dig z (by
        have : z ∈ d.reverse := by rw [hr]; simp
        simpa using this)

/-! `parse::<uN>()` -/

theorem parseNat_isNum {d n max} (h : IsNum d n) (hm : n ≤ max) : parseNat max d = some n := by
  obtain ⟨a, d', rfl, ha⟩ := h.head
  have hall : (a :: d').all Char.isDigit = true := by
    simpa [List.all_eq_true] using h.dig
  have hp : (some a == some '+') = false := by
    simpa using (digit_facts a ha).plus
  have hv : Nat.ofDigitChars 10 (a :: d') 0 = n := h.val
  simp only [parseNat, List.head?_cons, hp, Bool.false_eq_true, if_false, List.isEmpty_cons, hall,
    Bool.not_true, Bool.or_self, hv, hm, if_true]

/-! `trim_start_matches` -/

theorem go_not_prefix (p s : List Char) (fuel : Nat) (h : p.isPrefixOf s = false) :
    trimStartMatches.go p fuel s = s := by
  cases fuel with
  | zero => rfl
  | succ k => simp [trimStartMatches.go, h]

theorem trimStartMatches_once (p s : List Char) (hp : p ≠ []) (h : p.isPrefixOf s = false) :
    trimStartMatches p (p ++ s) = s := by
  unfold trimStartMatches
  have he : p.isEmpty = false := by cases p <;> simp_all
  simp only [he, Bool.false_eq_true, if_false]
  have hl : (p ++ s).length = (p.length + s.length - 1) + 1 := by
    have : 0 < p.length := List.length_pos_iff.mpr hp
    simp only [List.length_append]; omega
  rw [hl]
  simp only [trimStartMatches.go]
  have hpre : p.isPrefixOf (p ++ s) = true := by simp
  simp only [hpre, if_true, List.drop_left]
  exact go_not_prefix p s _ h

/-! `trim_end_matches(')')` -/

theorem trimEndParen_snoc (x : List Char) (z : Char) (hz : (z == ')') = false) :
    trimEndParen (x ++ [z] ++ [')']) = x ++ [z] := by
  unfold trimEndParen
  simp [List.dropWhile, hz]

/-! `split(',')` -/

theorem splitGo_noComma (cur l : List Char) (h : ∀ c ∈ l, (c == ',') = false) :
    splitComma.go cur l = [cur.reverse ++ l] := by
  induction l generalizing cur with
  | nil => simp [splitComma.go]
  | cons a l ih =>
    have ha := h a (by simp)
    simp only [splitComma.go, ha, Bool.false_eq_true, if_false]
    rw [ih (a :: cur) (fun c hc => h c (by simp [hc]))]
    simp

theorem splitGo_comma (cur l r : List Char) (h : ∀ c ∈ l, (c == ',') = false) :
    splitComma.go cur (l ++ ',' :: r) = (cur.reverse ++ l) :: splitComma.go [] r := by
  induction l generalizing cur with
  | nil => simp [splitComma.go]
  | cons a l ih =>
    have ha := h a (by simp)
    simp only [List.cons_append, splitComma.go, ha, Bool.false_eq_true, if_false]
    rw [ih (a :: cur) (fun c hc => h c (by simp [hc]))]
    simp

theorem splitComma_nonempty (s : List Char) : splitComma s ≠ [] := by
  unfold splitComma
  have : ∀ (l cur : List Char), splitComma.go cur l ≠ [] := by
    intro l
    induction l with
    | nil => intro cur; simp [splitComma.go]
    | cons a l ih =>
      intro cur
      simp only [splitComma.go]
      split
      · simp
      · exact ih _
  exact this s []

theorem splitComma_noComma (s : List Char) (h : ∀ c ∈ s, (c == ',') = false) :
    splitComma s = [s] := by
  unfold splitComma
  simpa using splitGo_noComma [] s h

/-! `trim` -/

theorem dropWhile_none (l : List Char) (h : ∀ c ∈ l, isWs c = false) : l.dropWhile isWs = l := by
  cases l with
  | nil => rfl
  | cons a l => simp [List.dropWhile, h a (by simp)]

theorem trimSpaces_clean (l : List Char) (h : ∀ c ∈ l, isWs c = false) : trimSpaces l = l := by
  unfold trimSpaces
  rw [dropWhile_none l h, dropWhile_none l.reverse (fun c hc => h c (by simpa using hc))]
  simp

theorem trimSpaces_space_clean (l : List Char) (h : ∀ c ∈ l, isWs c = false) :
    trimSpaces (' ' :: l) = l := by
  unfold trimSpaces
  have : (' ' :: l).dropWhile isWs = l.dropWhile isWs := by
    simp [List.dropWhile, show isWs ' ' = true by decide]
  rw [this, dropWhile_none l h, dropWhile_none l.reverse (fun c hc => h c (by simpa using hc))]
  simp

theorem IsNum.noWs {d n} (h : IsNum d n) : ∀ c ∈ d, isWs c = false :=
  fun c hc => (digit_facts c (h.dig c hc)).ws
theorem IsNum.noComma {d n} (h : IsNum d n) : ∀ c ∈ d, (c == ',') = false :=
  fun c hc => (digit_facts c (h.dig c hc)).comma

/-- `precScale` on `"<p>, <s>"` -/
theorem precScale_pair {dp ds : List Char} {p s : Nat} (hp : IsNum dp p) (hs : IsNum ds s)
    (hpm : p ≤ 255) (hsm : s ≤ 255) : precScale (dp ++ ',' :: ' ' :: ds) = (p, s) := by
  unfold precScale splitComma
  rw [splitGo_comma [] dp (' ' :: ds) hp.noComma]
  have h2 : splitComma.go [] (' ' :: ds) = [' ' :: ds] := by
    have := splitGo_noComma [] (' ' :: ds) (by
      intro c hc
      rcases List.mem_cons.mp hc with e | e
      · subst e; decide
      · exact hs.noComma c e)
    simpa using this
  rw [h2]
  simp only [List.reverse_nil, List.nil_append, List.map_cons, List.map_nil,
    trimSpaces_clean dp hp.noWs, trimSpaces_space_clean ds hs.noWs]
  simp [parseNat_isNum hp hpm, parseNat_isNum hs hsm]

theorem map_upper_append_lit (lit rest : List Char) (h : lit.map Char.toUpper = lit) :
    (lit ++ rest).map Char.toUpper = lit ++ rest.map Char.toUpper := by
  rw [List.map_append, h]

theorem parse_numeric_prefix (rest : List Char) :
    parseDataType ("NUMERIC(".toList ++ rest) =
      some (.numeric (precScale (trimEndParen (trimStartMatches "NUMERIC(".toList
              ("NUMERIC(".toList ++ rest.map Char.toUpper)))).1
            (precScale (trimEndParen (trimStartMatches "NUMERIC(".toList
              ("NUMERIC(".toList ++ rest.map Char.toUpper)))).2) := by
  unfold parseDataType
  rw [map_upper_append_lit _ _ (by decide)]
  simp [startsWith, List.isPrefixOf]

theorem parseNat_le {max : Nat} {s : List Char} {v : Nat} (h : parseNat max s = some v) : v ≤ max := by
  unfold parseNat at h
  generalize (if s.head? == some '+' then s.tail else s) = ds at h
  by_cases h1 : (ds.isEmpty || !ds.all Char.isDigit) = true
  · simp [h1] at h
  · by_cases h2 : Nat.ofDigitChars 10 ds 0 ≤ max
    · simp [h1, h2] at h; omega
    · simp [h1, h2] at h

theorem precScale_le (s : List Char) : (precScale s).1 ≤ 255 ∧ (precScale s).2 ≤ 255 := by
  unfold precScale
  constructor
  · simp only
    cases h : ((splitComma s).map trimSpaces)[0]?.bind (parseNat 255) with
    | none => simp
    | some v =>
      simp
      obtain ⟨x, _, hx⟩ := Option.bind_eq_some_iff.mp h
      exact parseNat_le hx
  · simp only
    cases h : ((splitComma s).map trimSpaces)[1]?.bind (parseNat 255) with
    | none => simp
    | some v =>
      simp
      obtain ⟨x, _, hx⟩ := Option.bind_eq_some_iff.mp h
      exact parseNat_le hx

theorem beq_false_symm {a b : Char} (h : (a == b) = false) : (b == a) = false := by
  simp at h ⊢; exact fun e => h e.symm

theorem strip (lit body : List Char) (hl : lit ≠ [])
    (hpre : lit.isPrefixOf (body ++ [')']) = false)
    (hz : ∃ b' z, body = b' ++ [z] ∧ (z == ')') = false) :
    trimEndParen (trimStartMatches lit (lit ++ (body ++ [')']))) = body := by
  rw [trimStartMatches_once lit _ hl hpre]
  obtain ⟨b', z, rfl, hz⟩ := hz
  exact trimEndParen_snoc b' z hz

theorem not_prefix_of_head {l0 a : Char} {lit' tl : List Char} (h : (l0 == a) = false) :
    (l0 :: lit').isPrefixOf (a :: tl) = false := by
  simp [List.isPrefixOf, h]

theorem roundtrip_numeric (p s : Nat) (hp : p ≤ 255) (hs : s ≤ 255) :
    parseDataType (formatDataType (.numeric p s)) = some (.numeric p s) := by
  have Hp := isNum_showNat p
  have Hs := isNum_showNat s
  show parseDataType ("NUMERIC(".toList ++ showNat p ++ ", ".toList ++ showNat s ++ [')']) = _
  generalize showNat p = dp at *
  generalize showNat s = ds at *
  have e : "NUMERIC(".toList ++ dp ++ ", ".toList ++ ds ++ [')'] =
      "NUMERIC(".toList ++ ((dp ++ ',' :: ' ' :: ds) ++ [')']) := by simp
  rw [e, parse_numeric_prefix]
  have hu : ((dp ++ ',' :: ' ' :: ds) ++ [')']).map Char.toUpper = (dp ++ ',' :: ' ' :: ds) ++ [')'] := by
    simp [Hp.upper, Hs.upper]
  rw [hu]
  obtain ⟨a, d', hd, ha⟩ := Hp.head
  obtain ⟨s', z, hsz, hz⟩ := Hs.last
  have hstrip := strip "NUMERIC(".toList (dp ++ ',' :: ' ' :: ds) (by decide)
    (by rw [hd]; exact not_prefix_of_head (beq_false_symm (digit_facts a ha).nN))
    ⟨dp ++ ',' :: ' ' :: s', z, by rw [hsz]; simp, (digit_facts z hz).paren⟩
  rw [hstrip, precScale_pair Hp Hs hp hs]

theorem parse_decimal_prefix (rest : List Char) :
    parseDataType ("DECIMAL(".toList ++ rest) =
      some (.decimal (precScale (trimEndParen (trimStartMatches "DECIMAL(".toList
              ("DECIMAL(".toList ++ rest.map Char.toUpper)))).1
            (precScale (trimEndParen (trimStartMatches "DECIMAL(".toList
              ("DECIMAL(".toList ++ rest.map Char.toUpper)))).2) := by
  unfold parseDataType
  rw [map_upper_append_lit _ _ (by decide)]
  simp [startsWith, List.isPrefixOf]

theorem parse_varchar_prefix (rest : List Char) :
    parseDataType ("VARCHAR(".toList ++ rest) =
      some (.varchar (parseNat usizeMax (trimEndParen (trimStartMatches "VARCHAR(".toList
              ("VARCHAR(".toList ++ rest.map Char.toUpper))))) := by
  unfold parseDataType
  rw [map_upper_append_lit _ _ (by decide)]
  simp [startsWith, List.isPrefixOf]

theorem parse_char_prefix (rest : List Char) :
    parseDataType ("CHAR(".toList ++ rest) =
      some (.character ((parseNat usizeMax (trimEndParen (trimStartMatches "CHAR(".toList
              ("CHAR(".toList ++ rest.map Char.toUpper)))).getD 1)) := by
  unfold parseDataType
  rw [map_upper_append_lit _ _ (by decide)]
  simp [startsWith, List.isPrefixOf]

theorem parse_float_prefix (rest : List Char) :
    parseDataType ("FLOAT(".toList ++ rest) =
      some (.float ((parseNat 255 (trimEndParen (trimStartMatches "FLOAT(".toList
              ("FLOAT(".toList ++ rest.map Char.toUpper)))).getD 53)) := by
  unfold parseDataType
  rw [map_upper_append_lit _ _ (by decide)]
  simp [startsWith, List.isPrefixOf]

theorem roundtrip_decimal (p s : Nat) (hp : p ≤ 255) (hs : s ≤ 255) :
    parseDataType (formatDataType (.decimal p s)) = some (.decimal p s) := by
  have Hp := isNum_showNat p
  have Hs := isNum_showNat s
  show parseDataType ("DECIMAL(".toList ++ showNat p ++ ", ".toList ++ showNat s ++ [')']) = _
  generalize showNat p = dp at *
  generalize showNat s = ds at *
  have e : "DECIMAL(".toList ++ dp ++ ", ".toList ++ ds ++ [')'] =
      "DECIMAL(".toList ++ ((dp ++ ',' :: ' ' :: ds) ++ [')']) := by simp
  rw [e, parse_decimal_prefix]
  have hu : ((dp ++ ',' :: ' ' :: ds) ++ [')']).map Char.toUpper = (dp ++ ',' :: ' ' :: ds) ++ [')'] := by
    simp [Hp.upper, Hs.upper]
  rw [hu]
  obtain ⟨a, d', hd, ha⟩ := Hp.head
  obtain ⟨s', z, hsz, hz⟩ := Hs.last
  have hstrip := strip "DECIMAL(".toList (dp ++ ',' :: ' ' :: ds) (by decide)
    (by rw [hd]; exact not_prefix_of_head (beq_false_symm (digit_facts a ha).nD))
    ⟨dp ++ ',' :: ' ' :: s', z, by rw [hsz]; simp, (digit_facts z hz).paren⟩
  rw [hstrip, precScale_pair Hp Hs hp hs]

/-- the text between `LIT(` and `)` comes back as the number, for a one-number type -/
theorem strip_single (lit : List Char) (l0 : Char) (lit' : List Char) (hl : lit = l0 :: lit')
    {d : List Char} {n : Nat} (H : IsNum d n) (h0 : ∀ a, a.isDigit = true → (l0 == a) = false) :
    trimEndParen (trimStartMatches lit (lit ++ ((d ++ [')']).map Char.toUpper))) = d := by
  have hu : (d ++ [')']).map Char.toUpper = d ++ [')'] := by simp [H.upper]
  rw [hu]
  obtain ⟨a, d', hd, ha⟩ := H.head
  obtain ⟨s', z, hsz, hz⟩ := H.last
  exact strip lit d (by rw [hl]; simp)
    (by rw [hd, hl]; exact not_prefix_of_head (h0 a ha))
    ⟨s', z, hsz, (digit_facts z hz).paren⟩

theorem roundtrip_varchar (n : Nat) (hn : n ≤ usizeMax) :
    parseDataType (formatDataType (.varchar (some n))) = some (.varchar (some n)) := by
  have H := isNum_showNat n
  show parseDataType ("VARCHAR(".toList ++ showNat n ++ [')']) = _
  generalize showNat n = d at *
  rw [List.append_assoc, parse_varchar_prefix,
    strip_single "VARCHAR(".toList 'V' "ARCHAR(".toList rfl H
      (fun a ha => beq_false_symm (digit_facts a ha).nV),
    parseNat_isNum H hn]

theorem roundtrip_char (n : Nat) (hn : n ≤ usizeMax) :
    parseDataType (formatDataType (.character n)) = some (.character n) := by
  have H := isNum_showNat n
  show parseDataType ("CHAR(".toList ++ showNat n ++ [')']) = _
  generalize showNat n = d at *
  rw [List.append_assoc, parse_char_prefix,
    strip_single "CHAR(".toList 'C' "HAR(".toList rfl H
      (fun a ha => beq_false_symm (digit_facts a ha).nC),
    parseNat_isNum H hn]
  rfl

theorem roundtrip_float (n : Nat) (hn : n ≤ 255) :
    parseDataType (formatDataType (.float n)) = some (.float n) := by
  have H := isNum_showNat n
  show parseDataType ("FLOAT(".toList ++ showNat n ++ [')']) = _
  generalize showNat n = d at *
  rw [List.append_assoc, parse_float_prefix,
    strip_single "FLOAT(".toList 'F' "LOAT(".toList rfl H
      (fun a ha => beq_false_symm (digit_facts a ha).nF),
    parseNat_isNum H hn]
  rfl

end VibeProof.BinTypes
