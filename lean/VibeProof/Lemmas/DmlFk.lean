import VibeProof.Model.DmlFk
/-! Lemmas for the recursive cascade (C12). -/
namespace VibeProof.Dml
open VibeProof

/-- rows only disappear -/
def Sub (db' db : Db) : Prop := ∀ i r, r ∈ db' i → r ∈ db i

/-- no row of any table references `row` of table `t` -/
def NoRef (fks : List FkDecl) (db : Db) (t : Nat) (row : Row) : Prop :=
  ∀ d ∈ fks, d.parent = t → ∀ c ∈ db d.child, d.fk.refers (keyOf d.pcols row) c = false

/-- the schema has no ON DELETE SET NULL (the transitive theorems are about CASCADE / NO ACTION) -/
def CascadeOnly (fks : List FkDecl) : Prop := ∀ d ∈ fks, d.onDelete ≠ .setNull

/-- what the recursive call is assumed (inductively) to establish -/
def Spec (fks : List FkDecl) (rec : Nat → Db → Row → Except CErr Db) : Prop :=
  ∀ t db v db', DbInv fks db → rec t db v = .ok db' → DbInv fks db' ∧ Sub db' db ∧ NoRef fks db' t v

theorem Sub.refl (db : Db) : Sub db db := fun _ _ h => h
theorem Sub.trans {a b c : Db} (h1 : Sub a b) (h2 : Sub b c) : Sub a c := fun i r h => h2 i r (h1 i r h)

theorem NoRef.mono {fks : List FkDecl} {db db' : Db} {t : Nat} {row : Row}
    (h : NoRef fks db t row) (hs : Sub db' db) : NoRef fks db' t row :=
  fun d hd hp c hc => h d hd hp c (hs _ c hc)

theorem runVictims_post (fks : List FkDecl) (rec : Nat → Db → Row → Except CErr Db) (hrec : Spec fks rec) (t : Nat) :
    ∀ (vs : List Row) (db db' : Db), DbInv fks db → runVictims (rec t) vs db = .ok db' →
      DbInv fks db' ∧ Sub db' db ∧ ∀ v ∈ vs, NoRef fks db' t v := by
  intro vs
  induction vs with
  | nil =>
    intro db db' h hr
    simp only [runVictims, Except.ok.injEq] at hr; subst hr
    exact ⟨h, Sub.refl _, by simp⟩
  | cons v vs ih =>
    intro db db' h hr
    unfold runVictims at hr
    split at hr
    · simp at hr
    · rename_i db1 h1
      obtain ⟨a1, a2, a3⟩ := hrec t db v db1 h h1
      obtain ⟨b1, b2, b3⟩ := ih db1 db' a1 hr
      refine ⟨b1, b2.trans a2, ?_⟩
      intro x hx
      rcases List.mem_cons.mp hx with rfl | hx
      · exact a3.mono b2
      · exact b3 x hx

theorem refers_of_key {d : FkDecl} {c p : Row} (hn : hasNull (keyOf d.fk.cols c) = false)
    (hk : keyOf d.fk.pcols p = keyOf d.fk.cols c) : d.fk.refers (keyOf d.pcols p) c = true := by
  have : d.fk.pcols = d.pcols := rfl
  simp only [Fk.refers, hn, Bool.not_false, Bool.true_and, beq_iff_eq]
  rw [← this, hk]

theorem deleteVictims_post (fks : List FkDecl) (rec : Nat → Db → Row → Except CErr Db) (hrec : Spec fks rec)
    (t : Nat) (victims : List Row) (db db' : Db) (h : DbInv fks db)
    (hr : deleteVictims (rec t) db t victims = .ok db') :
    DbInv fks db' ∧ Sub db' db ∧ ∀ r ∈ db' t, r ∉ victims := by
  unfold deleteVictims at hr
  split at hr
  · simp at hr
  · rename_i db1 h1
    obtain ⟨a1, a2, a3⟩ := runVictims_post fks rec hrec t victims db db1 h h1
    simp only [Except.ok.injEq] at hr; subst hr
    have hsub1 : Sub (db1.set t ((db1 t).filter (fun r => !(victims.contains r)))) db1 := by
      intro i r hr
      simp only [Db.set] at hr
      split at hr
      · rename_i hi; subst hi; exact (List.mem_filter.mp hr).1
      · exact hr
    refine ⟨?_, hsub1.trans a2, ?_⟩
    · intro d hd c hc hn
      have hc1 : c ∈ db1 d.child := hsub1 _ c hc
      obtain ⟨p, hp, hk⟩ := a1 d hd c hc1 hn
      refine ⟨p, ?_, hk⟩
      simp only [Db.set]
      split
      · rename_i hpt
        rw [List.mem_filter]
        refine ⟨by rw [← hpt]; exact hp, ?_⟩
        simp only [Bool.not_eq_true', List.contains_eq_mem, decide_eq_false_iff_not]
        intro hv
        have := a3 p hv d hd hpt c hc1
        rw [refers_of_key hn hk] at this
        exact absurd this (by simp)
      · exact hp
    · intro r hr
      simp only [Db.set, if_true, List.mem_filter, Bool.not_eq_true', List.contains_eq_mem,
        decide_eq_false_iff_not] at hr
      exact hr.2

theorem runActs_post (fks : List FkDecl) (hco : CascadeOnly fks) (rec : Nat → Db → Row → Except CErr Db)
    (hrec : Spec fks rec) (row : Row) : ∀ (ds : List FkDecl) (db db' : Db), (∀ d ∈ ds, d ∈ fks) → DbInv fks db →
      runActs rec row ds db = .ok db' →
      DbInv fks db' ∧ Sub db' db ∧ ∀ d ∈ ds, ∀ c ∈ db' d.child, d.fk.refers (keyOf d.pcols row) c = false := by
  intro ds
  induction ds with
  | nil =>
    intro db db' _ h hr
    simp only [runActs, Except.ok.injEq] at hr; subst hr
    exact ⟨h, Sub.refl _, by simp⟩
  | cons d ds ih =>
    intro db db' hmem h hr
    unfold runActs at hr
    split at hr
    · simp at hr
    · rename_i db1 h1
      have hd : d ∈ fks := hmem d List.mem_cons_self
      have hstep : DbInv fks db1 ∧ Sub db1 db ∧ ∀ c ∈ db1 d.child, d.fk.refers (keyOf d.pcols row) c = false := by
        unfold applyAct at h1
        simp only [] at h1
        split at h1
        · simp at h1
        · obtain ⟨a1, a2, a3⟩ := deleteVictims_post fks rec hrec d.child _ db db1 h h1
          refine ⟨a1, a2, ?_⟩
          intro c hc
          cases hr : d.fk.refers (keyOf d.pcols row) c with
          | false => rfl
          | true =>
            exfalso
            exact a3 c hc (List.mem_filter.mpr ⟨a2 _ c hc, hr⟩)
        · rename_i hsn
          exact absurd hsn (hco d hd)
      obtain ⟨a1, a2, a3⟩ := hstep
      obtain ⟨b1, b2, b3⟩ := ih db1 db' (fun x hx => hmem x (List.mem_cons_of_mem _ hx)) a1 hr
      refine ⟨b1, b2.trans a2, ?_⟩
      intro x hx c hc
      rcases List.mem_cons.mp hx with rfl | hx
      · exact a3 c (b2 _ c hc)
      · exact b3 x hx c hc

/-- `check_no_child_references` keeps every foreign key, only removes rows, and leaves no
referrer of the row it was called for -/
theorem checkRow_spec (fks : List FkDecl) (hco : CascadeOnly fks) :
    ∀ (fuel : Nat), Spec fks (fun t db v => checkRow fks fuel db t v) := by
  intro fuel
  induction fuel with
  | zero => intro t db v db' _ hr; simp [checkRow] at hr
  | succ f ih =>
    intro t db row db' h hr
    simp only [checkRow] at hr
    have hrec : Spec fks (fun child db v => checkRow fks f db child v) := ih
    obtain ⟨a1, a2, a3⟩ := runActs_post fks hco _ hrec row _ db db'
      (fun d hd => (List.mem_filter.mp hd).1) h hr
    refine ⟨a1, a2, ?_⟩
    intro d hd hp c hc
    by_cases hany : (db d.child).any (d.fk.refers (keyOf d.pcols row)) = true
    · exact a3 d (List.mem_filter.mpr ⟨hd, by simp [hp, hany]⟩) c hc
    · simp only [List.any_eq_true, not_exists, not_and, Bool.not_eq_true] at hany
      exact hany c (a2 _ c hc)

/-! termination within the fuel on an acyclic (ranked) reference graph -/

theorem runVictims_fuel (rec : Db → Row → Except CErr Db) (hrec : ∀ db v, rec db v ≠ .error .fuel) :
    ∀ (vs : List Row) (db : Db), runVictims rec vs db ≠ .error .fuel := by
  intro vs
  induction vs with
  | nil => intro db; simp [runVictims]
  | cons v vs ih =>
    intro db
    unfold runVictims
    split
    · rename_i e he; intro h; simp only [Except.error.injEq] at h; subst h; exact hrec db v he
    · exact ih _

theorem runActs_fuel (rec : Nat → Db → Row → Except CErr Db) (row : Row) :
    ∀ (ds : List FkDecl) (db : Db), (∀ d ∈ ds, ∀ db v, rec d.child db v ≠ .error .fuel) →
      runActs rec row ds db ≠ .error .fuel := by
  intro ds
  induction ds with
  | nil => intro db _; simp [runActs]
  | cons d ds ih =>
    intro db hrec
    unfold runActs
    split
    · rename_i e he
      intro h; simp only [Except.error.injEq] at h; subst h
      unfold applyAct at he
      simp only [] at he
      split at he
      · simp at he
      · unfold deleteVictims at he
        split at he
        · rename_i e' he'
          simp only [Except.error.injEq] at he; subst he
          exact runVictims_fuel _ (hrec d List.mem_cons_self) _ _ he'
        · simp at he
      · simp at he
    · exact ih _ (fun x hx => hrec x (List.mem_cons_of_mem _ hx))

/-- `rank` strictly decreases along every foreign key (child below parent): the reference graph
is acyclic, in particular no table references itself -/
def Ranked (fks : List FkDecl) (rank : Nat → Nat) : Prop := ∀ d ∈ fks, rank d.child < rank d.parent

theorem checkRow_terminates (fks : List FkDecl) (rank : Nat → Nat) (hr : Ranked fks rank) :
    ∀ (fuel : Nat) (db : Db) (t : Nat) (row : Row), rank t < fuel → checkRow fks fuel db t row ≠ .error .fuel := by
  intro fuel
  induction fuel with
  | zero => intro _ _ _ h; omega
  | succ f ih =>
    intro db t row hlt
    simp only [checkRow]
    apply runActs_fuel
    intro d hd db' v
    obtain ⟨hd1, hd2⟩ := List.mem_filter.mp hd
    simp only [Bool.and_eq_true, beq_iff_eq] at hd2
    have := hr d hd1
    apply ih
    rw [hd2.1] at this; omega

end VibeProof.Dml

namespace VibeProof.Dml
open VibeProof

/-! ### only transitive referrers are removed -/

/-- `r` (table `i`) references `(p, pr)` through a chain of ON DELETE CASCADE keys, all rows in `db` -/
inductive RF (fks : List FkDecl) (db : Db) (p : Nat) (pr : Row) : Nat → Row → Prop where
  | direct (d : FkDecl) (c : Row) : d ∈ fks → d.parent = p → d.onDelete = .cascade → c ∈ db d.child →
      d.fk.refers (keyOf d.pcols pr) c = true → RF fks db p pr d.child c
  | trans (q : Nat) (qr : Row) (d : FkDecl) (c : Row) : RF fks db p pr q qr → d ∈ fks → d.parent = q →
      d.onDelete = .cascade → c ∈ db d.child → d.fk.refers (keyOf d.pcols qr) c = true → RF fks db p pr d.child c

theorem RF.mono {fks : List FkDecl} {db1 db : Db} (hs : Sub db1 db) {p : Nat} {pr : Row} {i : Nat} {r : Row}
    (h : RF fks db1 p pr i r) : RF fks db p pr i r := by
  induction h with
  | direct d c hd hp ha hc hr => exact .direct d c hd hp ha (hs _ c hc) hr
  | trans q qr d c _ hd hp ha hc hr ih => exact .trans q qr d c ih hd hp ha (hs _ c hc) hr

theorem RF.comp {fks : List FkDecl} {db : Db} {p : Nat} {pr : Row} {q : Nat} {qr : Row} {i : Nat} {r : Row}
    (h1 : RF fks db p pr q qr) (h2 : RF fks db q qr i r) : RF fks db p pr i r := by
  induction h2 with
  | direct d c hd hp ha hc hr => exact .trans q qr d c h1 hd hp ha hc hr
  | trans q' qr' d c _ hd hp ha hc hr ih => exact .trans q' qr' d c ih hd hp ha hc hr

/-- every row the call removes referenced (transitively) the row it was called for -/
def Spec2 (fks : List FkDecl) (rec : Nat → Db → Row → Except CErr Db) : Prop :=
  ∀ t db v db', rec t db v = .ok db' → Sub db' db ∧ ∀ i r, r ∈ db i → r ∉ db' i → RF fks db t v i r

theorem runVictims_only (fks : List FkDecl) (rec : Nat → Db → Row → Except CErr Db) (hrec : Spec2 fks rec) (t : Nat) :
    ∀ (vs : List Row) (db db' : Db), runVictims (rec t) vs db = .ok db' →
      Sub db' db ∧ ∀ i r, r ∈ db i → r ∉ db' i → ∃ v ∈ vs, RF fks db t v i r := by
  intro vs
  induction vs with
  | nil =>
    intro db db' hr
    simp only [runVictims, Except.ok.injEq] at hr; subst hr
    exact ⟨Sub.refl _, fun i r h1 h2 => absurd h1 h2⟩
  | cons v vs ih =>
    intro db db' hr
    unfold runVictims at hr
    split at hr
    · simp at hr
    · rename_i db1 h1
      obtain ⟨a1, a2⟩ := hrec t db v db1 h1
      obtain ⟨b1, b2⟩ := ih db1 db' hr
      refine ⟨b1.trans a1, ?_⟩
      intro i r hin hout
      by_cases hmid : r ∈ db1 i
      · obtain ⟨v', hv', hrf⟩ := b2 i r hmid hout
        exact ⟨v', List.mem_cons_of_mem _ hv', hrf.mono a1⟩
      · exact ⟨v, List.mem_cons_self, a2 i r hin hmid⟩

theorem deleteVictims_only (fks : List FkDecl) (rec : Nat → Db → Row → Except CErr Db) (hrec : Spec2 fks rec)
    (t : Nat) (victims : List Row) (db db' : Db) (hr : deleteVictims (rec t) db t victims = .ok db') :
    Sub db' db ∧ ∀ i r, r ∈ db i → r ∉ db' i → (i = t ∧ r ∈ victims) ∨ ∃ v ∈ victims, RF fks db t v i r := by
  unfold deleteVictims at hr
  split at hr
  · simp at hr
  · rename_i db1 h1
    obtain ⟨a1, a2⟩ := runVictims_only fks rec hrec t victims db db1 h1
    simp only [Except.ok.injEq] at hr; subst hr
    constructor
    · intro i r hr
      simp only [Db.set] at hr
      split at hr
      · rename_i hi; subst hi; exact a1 _ r (List.mem_filter.mp hr).1
      · exact a1 _ r hr
    · intro i r hin hout
      by_cases hmid : r ∈ db1 i
      · left
        simp only [Db.set] at hout
        split at hout
        · rename_i hi
          refine ⟨hi, ?_⟩
          subst hi
          simp only [List.mem_filter, Bool.not_eq_true', List.contains_eq_mem, decide_eq_false_iff_not, not_and,
            Decidable.not_not] at hout
          exact hout hmid
        · exact absurd hmid hout
      · exact Or.inr (a2 i r hin hmid)

theorem runActs_only (fks : List FkDecl) (hco : CascadeOnly fks) (rec : Nat → Db → Row → Except CErr Db)
    (hrec : Spec2 fks rec) (t : Nat) (row : Row) : ∀ (ds : List FkDecl) (db0 db db' : Db),
      (∀ d ∈ ds, d ∈ fks ∧ d.parent = t) → Sub db db0 → runActs rec row ds db = .ok db' →
      Sub db' db ∧ ∀ i r, r ∈ db i → r ∉ db' i → RF fks db0 t row i r := by
  intro ds
  induction ds with
  | nil =>
    intro db0 db db' _ _ hr
    simp only [runActs, Except.ok.injEq] at hr; subst hr
    exact ⟨Sub.refl _, fun i r h1 h2 => absurd h1 h2⟩
  | cons d ds ih =>
    intro db0 db db' hmem hs0 hr
    unfold runActs at hr
    split at hr
    · simp at hr
    · rename_i db1 h1
      obtain ⟨hd, hp⟩ := hmem d List.mem_cons_self
      have hstep : Sub db1 db ∧ ∀ i r, r ∈ db i → r ∉ db1 i → RF fks db t row i r := by
        unfold applyAct at h1
        simp only [] at h1
        split at h1
        · simp at h1
        · rename_i hcas
          obtain ⟨a1, a2⟩ := deleteVictims_only fks rec hrec d.child _ db db1 h1
          refine ⟨a1, ?_⟩
          intro i r hin hout
          rcases a2 i r hin hout with ⟨hi, hv⟩ | ⟨v, hv, hrf⟩
          · subst hi
            obtain ⟨hv1, hv2⟩ := List.mem_filter.mp hv
            exact .direct d r hd hp hcas hv1 hv2
          · obtain ⟨hv1, hv2⟩ := List.mem_filter.mp hv
            exact (RF.direct d v hd hp hcas hv1 hv2).comp hrf
        · rename_i hsn
          exact absurd hsn (hco d hd)
      obtain ⟨a1, a2⟩ := hstep
      obtain ⟨b1, b2⟩ := ih db0 db1 db' (fun x hx => hmem x (List.mem_cons_of_mem _ hx)) (a1.trans hs0) hr
      refine ⟨b1.trans a1, ?_⟩
      intro i r hin hout
      by_cases hmid : r ∈ db1 i
      · exact b2 i r hmid hout
      · exact (a2 i r hin hmid).mono hs0

theorem checkRow_spec2 (fks : List FkDecl) (hco : CascadeOnly fks) :
    ∀ (fuel : Nat), Spec2 fks (fun t db v => checkRow fks fuel db t v) := by
  intro fuel
  induction fuel with
  | zero => intro t db v db' hr; simp [checkRow] at hr
  | succ f ih =>
    intro t db row db' hr
    simp only [checkRow] at hr
    exact runActs_only fks hco _ ih t row _ db db db'
      (fun d hd => by
        obtain ⟨h1, h2⟩ := List.mem_filter.mp hd
        simp only [Bool.and_eq_true, beq_iff_eq] at h2
        exact ⟨h1, h2.1⟩) (Sub.refl _) hr

end VibeProof.Dml

namespace VibeProof.Dml
open VibeProof

/-! ### TRUNCATE … CASCADE -/

theorem mem_fkChildren (fks : List FkDecl) (tables : List Nat) (p c : Nat) :
    c ∈ fkChildren fks tables p ↔ c ∈ tables ∧ c ≠ p ∧ ∃ d ∈ fks, d.child = c ∧ d.parent = p := by
  simp [fkChildren]

theorem fkChildren_perm {fks fks' : List FkDecl} (h : fks.Perm fks') (tables : List Nat) (p : Nat) :
    fkChildren fks' tables p = fkChildren fks tables p := by
  unfold fkChildren
  apply List.filter_congr
  intro c _
  congr 1
  rw [Bool.eq_iff_iff]
  simp only [List.any_eq_true]
  constructor
  · rintro ⟨d, hd, h2⟩; exact ⟨d, h.mem_iff.mpr hd, h2⟩
  · rintro ⟨d, hd, h2⟩; exact ⟨d, h.mem_iff.mp hd, h2⟩

/-- every visited table that is not on the recursion stack has all its children visited -/
def ClosedExcept (fks : List FkDecl) (tables vis stack : List Nat) : Prop :=
  ∀ x ∈ vis, x ∉ stack → ∀ c ∈ fkChildren fks tables x, c ∈ vis

def VisitSpec (fks : List FkDecl) (tables : List Nat) (stack : List Nat)
    (rec : List Nat → Nat → Except TErr (List Nat)) : Prop :=
  ∀ vis c vis', ClosedExcept fks tables vis stack → rec vis c = .ok vis' →
    (∀ x ∈ vis, x ∈ vis') ∧ c ∈ vis' ∧ ClosedExcept fks tables vis' stack

theorem visitAll_spec (fks : List FkDecl) (tables stack : List Nat) (rec : List Nat → Nat → Except TErr (List Nat))
    (hrec : VisitSpec fks tables stack rec) : ∀ (cs vis vis' : List Nat), ClosedExcept fks tables vis stack →
      visitAll rec vis cs = .ok vis' →
      (∀ x ∈ vis, x ∈ vis') ∧ (∀ c ∈ cs, c ∈ vis') ∧ ClosedExcept fks tables vis' stack := by
  intro cs
  induction cs with
  | nil =>
    intro vis vis' h hr
    simp only [visitAll, Except.ok.injEq] at hr; subst hr
    exact ⟨fun _ h => h, by simp, h⟩
  | cons c cs ih =>
    intro vis vis' h hr
    unfold visitAll at hr
    split at hr
    · simp at hr
    · rename_i vis1 h1
      obtain ⟨a1, a2, a3⟩ := hrec vis c vis1 h h1
      obtain ⟨b1, b2, b3⟩ := ih vis1 vis' a3 hr
      refine ⟨fun x hx => b1 x (a1 x hx), ?_, b3⟩
      intro x hx
      rcases List.mem_cons.mp hx with rfl | hx
      · exact b1 _ a2
      · exact b2 x hx

theorem visit_spec (fks : List FkDecl) (tables : List Nat) :
    ∀ (fuel : Nat) (stack : List Nat), VisitSpec fks tables stack (fun vis c => visit fks tables fuel vis stack c) := by
  intro fuel
  induction fuel with
  | zero => intro stack vis c vis' _ hr; simp [visit] at hr
  | succ f ih =>
    intro stack vis t vis' hcl hr
    simp only [visit] at hr
    split at hr
    · simp at hr
    · rename_i hns
      split at hr
      · rename_i hv
        simp only [Except.ok.injEq] at hr; subst hr
        exact ⟨fun _ h => h, hv, hcl⟩
      · rename_i hnv
        have hcl1 : ClosedExcept fks tables (t :: vis) (t :: stack) := by
          intro x hx hxs c hc
          rcases List.mem_cons.mp hx with rfl | hx
          · exact absurd List.mem_cons_self hxs
          · exact List.mem_cons_of_mem _ (hcl x hx (fun h => hxs (List.mem_cons_of_mem _ h)) c hc)
        obtain ⟨a1, a2, a3⟩ := visitAll_spec fks tables (t :: stack) _ (ih (t :: stack)) _ (t :: vis) vis' hcl1 hr
        refine ⟨fun x hx => a1 x (List.mem_cons_of_mem _ hx), a1 t List.mem_cons_self, ?_⟩
        intro x hx hxs c hc
        by_cases hxt : x = t
        · subst hxt; exact a2 c hc
        · exact a3 x hx (by simp [hxt, hxs]) c hc

end VibeProof.Dml

namespace VibeProof.Dml
open VibeProof

/-! ### the repaired (visited-set) recursion: results only lose rows, `in_progress` only grows, and
the recursion terminates on *every* reference graph -/

def RowsIn (db : Db) (u : Seen) : Prop := ∀ i r, r ∈ db i → (i, r) ∈ u

/-- what every call preserves -/
def MonoSpec (fks : List FkDecl) (u : Seen) (rec : Nat → Seen → Db → Row → Except CErr (Db × Seen)) : Prop :=
  ∀ t seen db v db' seen', RowsIn db u → rec t seen db v = .ok (db', seen') →
    RowsIn db' u ∧ ∀ p ∈ seen, p ∈ seen'

theorem rowsIn_set_filter {db : Db} {u : Seen} (h : RowsIn db u) (t : Nat) (p : Row → Bool) :
    RowsIn (db.set t ((db t).filter p)) u := by
  intro i r hr
  simp only [Db.set] at hr
  split at hr
  · rename_i hi; subst hi; exact h _ r (List.mem_filter.mp hr).1
  · exact h i r hr

theorem runVictimsV_mono (fks : List FkDecl) (u : Seen) (rec : Nat → Seen → Db → Row → Except CErr (Db × Seen))
    (hrec : MonoSpec fks u rec) (t : Nat) : ∀ (vs : List Row) (seen : Seen) (db db' : Db) (seen' : Seen),
      RowsIn db u → runVictimsV (rec t) vs seen db = .ok (db', seen') → RowsIn db' u ∧ ∀ p ∈ seen, p ∈ seen' := by
  intro vs
  induction vs with
  | nil =>
    intro seen db db' seen' h hr
    simp only [runVictimsV, Except.ok.injEq, Prod.mk.injEq] at hr
    obtain ⟨rfl, rfl⟩ := hr
    exact ⟨h, fun _ hp => hp⟩
  | cons v vs ih =>
    intro seen db db' seen' h hr
    unfold runVictimsV at hr
    split at hr
    · simp at hr
    · rename_i db1 seen1 h1
      obtain ⟨a1, a2⟩ := hrec t seen db v db1 seen1 h h1
      obtain ⟨b1, b2⟩ := ih seen1 db1 db' seen' a1 hr
      exact ⟨b1, fun p hp => b2 p (a2 p hp)⟩

theorem applyActV_mono (fks : List FkDecl) (hco : CascadeOnly fks) (u : Seen)
    (rec : Nat → Seen → Db → Row → Except CErr (Db × Seen)) (hrec : MonoSpec fks u rec) (row : Row) (d : FkDecl)
    (hd : d ∈ fks) (seen : Seen) (db db' : Db) (seen' : Seen) (h : RowsIn db u)
    (hr : applyActV rec row d seen db = .ok (db', seen')) : RowsIn db' u ∧ ∀ p ∈ seen, p ∈ seen' := by
  unfold applyActV at hr
  simp only [] at hr
  split at hr
  · simp at hr
  · unfold deleteVictimsV at hr
    split at hr
    · simp at hr
    · rename_i db1 seen1 h1
      obtain ⟨a1, a2⟩ := runVictimsV_mono fks u rec hrec d.child _ seen db db1 seen1 h h1
      simp only [Except.ok.injEq, Prod.mk.injEq] at hr
      obtain ⟨rfl, rfl⟩ := hr
      exact ⟨rowsIn_set_filter a1 _ _, a2⟩
  · rename_i hsn; exact absurd hsn (hco d hd)

theorem runActsV_mono (fks : List FkDecl) (hco : CascadeOnly fks) (u : Seen)
    (rec : Nat → Seen → Db → Row → Except CErr (Db × Seen)) (hrec : MonoSpec fks u rec) (row : Row) :
    ∀ (ds : List FkDecl) (seen : Seen) (db db' : Db) (seen' : Seen), (∀ d ∈ ds, d ∈ fks) → RowsIn db u →
      runActsV rec row ds seen db = .ok (db', seen') → RowsIn db' u ∧ ∀ p ∈ seen, p ∈ seen' := by
  intro ds
  induction ds with
  | nil =>
    intro seen db db' seen' _ h hr
    simp only [runActsV, Except.ok.injEq, Prod.mk.injEq] at hr
    obtain ⟨rfl, rfl⟩ := hr
    exact ⟨h, fun _ hp => hp⟩
  | cons d ds ih =>
    intro seen db db' seen' hmem h hr
    unfold runActsV at hr
    split at hr
    · simp at hr
    · rename_i db1 seen1 h1
      obtain ⟨a1, a2⟩ := applyActV_mono fks hco u rec hrec row d (hmem d List.mem_cons_self) seen db db1 seen1 h h1
      obtain ⟨b1, b2⟩ := ih seen1 db1 db' seen' (fun x hx => hmem x (List.mem_cons_of_mem _ hx)) a1 hr
      exact ⟨b1, fun p hp => b2 p (a2 p hp)⟩

theorem checkRowV_mono (fks : List FkDecl) (hco : CascadeOnly fks) (u : Seen) :
    ∀ (fuel : Nat), MonoSpec fks u (fun t seen db v => checkRowV fks fuel seen db t v) := by
  intro fuel
  induction fuel with
  | zero => intro t seen db v db' seen' _ hr; simp [checkRowV] at hr
  | succ f ih =>
    intro t seen db row db' seen' h hr
    simp only [checkRowV] at hr
    split at hr
    · simp only [Except.ok.injEq, Prod.mk.injEq] at hr
      obtain ⟨rfl, rfl⟩ := hr
      exact ⟨h, fun _ hp => hp⟩
    · obtain ⟨a1, a2⟩ := runActsV_mono fks hco u _ ih row _ _ db db' seen'
        (fun d hd => (List.mem_filter.mp hd).1) h hr
      exact ⟨a1, fun p hp => a2 p (List.mem_cons_of_mem _ hp)⟩

/-- pairs of the universe not yet in progress: the termination measure -/
def unseen (u seen : Seen) : Nat := u.countP (fun p => !(seen.contains p))

theorem unseen_mono (u : Seen) {seen seen' : Seen} (h : ∀ p ∈ seen, p ∈ seen') : unseen u seen' ≤ unseen u seen := by
  unfold unseen
  apply List.countP_mono_left
  intro x _ hx
  simp only [Bool.not_eq_true', List.contains_eq_mem, decide_eq_false_iff_not] at hx ⊢
  exact fun hs => hx (h x hs)

theorem unseen_cons_lt (u seen : Seen) (p : Nat × Row) (hp : p ∈ u) (hs : seen.contains p = false) :
    unseen u (p :: seen) < unseen u seen := by
  unfold unseen
  induction u with
  | nil => simp at hp
  | cons x xs ih =>
    have hle : xs.countP (fun q => !((p :: seen).contains q)) ≤ xs.countP (fun q => !(seen.contains q)) :=
      unseen_mono xs (fun q hq => List.mem_cons_of_mem _ hq)
    rw [List.countP_cons, List.countP_cons]
    by_cases hx : x = p
    · subst hx
      have h1 : (!((x :: seen).contains x)) = false := by simp
      have h2 : (!(seen.contains x)) = true := by rw [hs]; rfl
      simp only [h1, h2, if_true]
      simp only [Bool.false_eq_true, if_false]
      omega
    · have hpx : p ∈ xs := by
        rcases List.mem_cons.mp hp with h | h
        · exact absurd h.symm hx
        · exact h
      have := ih hpx
      by_cases h1 : seen.contains x = true
      · have h2 : (p :: seen).contains x = true := by
          simp only [List.contains_eq_mem, decide_eq_true_eq] at h1 ⊢
          exact List.mem_cons_of_mem _ h1
        simp only [h1, h2, Bool.not_true, Bool.false_eq_true, if_false]
        omega
      · have h1' : seen.contains x = false := by simpa using h1
        have h2 : (p :: seen).contains x = false := by
          simp only [List.contains_eq_mem, decide_eq_false_iff_not, List.mem_cons, not_or] at h1' ⊢
          exact ⟨hx, h1'⟩
        simp only [h1', h2, Bool.not_false, if_true]
        omega

/-- fuel suffices for the call and for everything it calls -/
def FuelSpec (u : Seen) (fuel : Nat) (rec : Nat → Seen → Db → Row → Except CErr (Db × Seen)) : Prop :=
  ∀ t seen db v, RowsIn db u → (t, v) ∈ u → unseen u seen < fuel → rec t seen db v ≠ .error .fuel

theorem runVictimsV_fuel (fks : List FkDecl) (u : Seen) (fuel : Nat)
    (rec : Nat → Seen → Db → Row → Except CErr (Db × Seen)) (hm : MonoSpec fks u rec) (hf : FuelSpec u fuel rec) (t : Nat) :
    ∀ (vs : List Row) (seen : Seen) (db : Db), RowsIn db u → (∀ v ∈ vs, (t, v) ∈ u) → unseen u seen < fuel →
      runVictimsV (rec t) vs seen db ≠ .error .fuel := by
  intro vs
  induction vs with
  | nil => intro seen db _ _ _; simp [runVictimsV]
  | cons v vs ih =>
    intro seen db h hv hlt
    unfold runVictimsV
    split
    · rename_i e he
      intro heq; simp only [Except.error.injEq] at heq; subst heq
      exact hf t seen db v h (hv v List.mem_cons_self) hlt he
    · rename_i db1 seen1 h1
      obtain ⟨a1, a2⟩ := hm t seen db v db1 seen1 h h1
      exact ih seen1 db1 a1 (fun x hx => hv x (List.mem_cons_of_mem _ hx))
        (Nat.lt_of_le_of_lt (unseen_mono u a2) hlt)

theorem runActsV_fuel (fks : List FkDecl) (hco : CascadeOnly fks) (u : Seen) (fuel : Nat)
    (rec : Nat → Seen → Db → Row → Except CErr (Db × Seen)) (hm : MonoSpec fks u rec) (hf : FuelSpec u fuel rec)
    (row : Row) : ∀ (ds : List FkDecl) (seen : Seen) (db : Db), (∀ d ∈ ds, d ∈ fks) → RowsIn db u →
      unseen u seen < fuel → runActsV rec row ds seen db ≠ .error .fuel := by
  intro ds
  induction ds with
  | nil => intro seen db _ _ _; simp [runActsV]
  | cons d ds ih =>
    intro seen db hmem h hlt
    unfold runActsV
    split
    · rename_i e he
      intro heq; simp only [Except.error.injEq] at heq; subst heq
      unfold applyActV at he
      simp only [] at he
      split at he
      · simp at he
      · unfold deleteVictimsV at he
        split at he
        · rename_i e' he'
          simp only [Except.error.injEq] at he; subst he
          exact runVictimsV_fuel fks u fuel rec hm hf d.child _ seen db h
            (fun v hv => h _ v (List.mem_filter.mp hv).1) hlt he'
        · simp at he
      · simp at he
    · rename_i db1 seen1 h1
      obtain ⟨a1, a2⟩ := applyActV_mono fks hco u rec hm row d (hmem d List.mem_cons_self) seen db db1 seen1 h h1
      exact ih seen1 db1 (fun x hx => hmem x (List.mem_cons_of_mem _ hx)) a1
        (Nat.lt_of_le_of_lt (unseen_mono u a2) hlt)

theorem checkRowV_fuel (fks : List FkDecl) (hco : CascadeOnly fks) (u : Seen) :
    ∀ (fuel : Nat), FuelSpec u fuel (fun t seen db v => checkRowV fks fuel seen db t v) := by
  intro fuel
  induction fuel with
  | zero => intro t seen db v _ _ hlt; omega
  | succ f ih =>
    intro t seen db row h hin hlt
    simp only [checkRowV]
    split
    · simp
    · rename_i hns
      have hns' : seen.contains (t, row) = false := by simpa using hns
      have hdec := unseen_cons_lt u seen (t, row) hin hns'
      exact runActsV_fuel fks hco u f _ (checkRowV_mono fks hco u f) ih row _ _ db
        (fun d hd => (List.mem_filter.mp hd).1) h (by omega)

end VibeProof.Dml

namespace VibeProof.Dml
open VibeProof

/-! ### the repaired recursion keeps every foreign key (ranked graphs, CASCADE / NO ACTION) -/

/-- entries of `in_progress` at tables of rank ≤ ρ are finished calls: nothing references them -/
def SeenDone (fks : List FkDecl) (rank : Nat → Nat) (db : Db) (seen : Seen) (ρ : Nat) : Prop :=
  ∀ p ∈ seen, rank p.1 ≤ ρ → NoRef fks db p.1 p.2

def SpecV (fks : List FkDecl) (rank : Nat → Nat) (rec : Nat → Seen → Db → Row → Except CErr (Db × Seen)) : Prop :=
  ∀ t seen db v db' seen', DbInv fks db → SeenDone fks rank db seen (rank t) → rec t seen db v = .ok (db', seen') →
    DbInv fks db' ∧ Sub db' db ∧ NoRef fks db' t v ∧ SeenDone fks rank db' seen' (rank t) ∧
    (∀ p ∈ seen, p ∈ seen') ∧ (∀ p ∈ seen', p ∈ seen ∨ rank p.1 ≤ rank t)

theorem SeenDone.mono {fks : List FkDecl} {rank : Nat → Nat} {db db' : Db} {seen : Seen} {ρ : Nat}
    (h : SeenDone fks rank db seen ρ) (hs : Sub db' db) : SeenDone fks rank db' seen ρ :=
  fun p hp hr => (h p hp hr).mono hs

theorem runVictimsV_post (fks : List FkDecl) (rank : Nat → Nat) (rec : Nat → Seen → Db → Row → Except CErr (Db × Seen))
    (hrec : SpecV fks rank rec) (t : Nat) : ∀ (vs : List Row) (seen : Seen) (db db' : Db) (seen' : Seen),
      DbInv fks db → SeenDone fks rank db seen (rank t) → runVictimsV (rec t) vs seen db = .ok (db', seen') →
      DbInv fks db' ∧ Sub db' db ∧ (∀ v ∈ vs, NoRef fks db' t v) ∧ SeenDone fks rank db' seen' (rank t) ∧
      (∀ p ∈ seen, p ∈ seen') ∧ (∀ p ∈ seen', p ∈ seen ∨ rank p.1 ≤ rank t) := by
  intro vs
  induction vs with
  | nil =>
    intro seen db db' seen' h hs hr
    simp only [runVictimsV, Except.ok.injEq, Prod.mk.injEq] at hr
    obtain ⟨rfl, rfl⟩ := hr
    exact ⟨h, Sub.refl _, by simp, hs, fun _ hp => hp, fun _ hp => Or.inl hp⟩
  | cons v vs ih =>
    intro seen db db' seen' h hs hr
    unfold runVictimsV at hr
    split at hr
    · simp at hr
    · rename_i db1 seen1 h1
      obtain ⟨a1, a2, a3, a4, a5, a6⟩ := hrec t seen db v db1 seen1 h hs h1
      obtain ⟨b1, b2, b3, b4, b5, b6⟩ := ih seen1 db1 db' seen' a1 a4 hr
      refine ⟨b1, b2.trans a2, ?_, b4, fun p hp => b5 p (a5 p hp), ?_⟩
      · intro x hx
        rcases List.mem_cons.mp hx with rfl | hx
        · exact a3.mono b2
        · exact b3 x hx
      · intro p hp
        rcases b6 p hp with h' | h'
        · exact a6 p h'
        · exact Or.inr h'

theorem deleteVictimsV_post (fks : List FkDecl) (rank : Nat → Nat) (rec : Nat → Seen → Db → Row → Except CErr (Db × Seen))
    (hrec : SpecV fks rank rec) (t : Nat) (victims : List Row) (seen : Seen) (db db' : Db) (seen' : Seen)
    (h : DbInv fks db) (hs : SeenDone fks rank db seen (rank t))
    (hr : deleteVictimsV (rec t) seen db t victims = .ok (db', seen')) :
    DbInv fks db' ∧ Sub db' db ∧ (∀ r ∈ db' t, r ∉ victims) ∧ SeenDone fks rank db' seen' (rank t) ∧
    (∀ p ∈ seen, p ∈ seen') ∧ (∀ p ∈ seen', p ∈ seen ∨ rank p.1 ≤ rank t) := by
  unfold deleteVictimsV at hr
  split at hr
  · simp at hr
  · rename_i db1 seen1 h1
    obtain ⟨a1, a2, a3, a4, a5, a6⟩ := runVictimsV_post fks rank rec hrec t victims seen db db1 seen1 h hs h1
    simp only [Except.ok.injEq, Prod.mk.injEq] at hr
    obtain ⟨rfl, rfl⟩ := hr
    have hsub1 : Sub (db1.set t ((db1 t).filter (fun r => !(victims.contains r)))) db1 := by
      intro i r hr
      simp only [Db.set] at hr
      split at hr
      · rename_i hi; subst hi; exact (List.mem_filter.mp hr).1
      · exact hr
    refine ⟨?_, hsub1.trans a2, ?_, a4.mono hsub1, a5, a6⟩
    · intro d hd c hc hn
      have hc1 : c ∈ db1 d.child := hsub1 _ c hc
      obtain ⟨p, hp, hk⟩ := a1 d hd c hc1 hn
      refine ⟨p, ?_, hk⟩
      simp only [Db.set]
      split
      · rename_i hpt
        rw [List.mem_filter]
        refine ⟨by rw [← hpt]; exact hp, ?_⟩
        simp only [Bool.not_eq_true', List.contains_eq_mem, decide_eq_false_iff_not]
        intro hv
        have := a3 p hv d hd hpt c hc1
        rw [refers_of_key hn hk] at this
        exact absurd this (by simp)
      · exact hp
    · intro r hr
      simp only [Db.set, if_true, List.mem_filter, Bool.not_eq_true', List.contains_eq_mem,
        decide_eq_false_iff_not] at hr
      exact hr.2

/-- invariant of the action loop of a call for `(t0, row)`: every other entry of rank ≤ rank t0 is done -/
def ActsInv (fks : List FkDecl) (rank : Nat → Nat) (t0 : Nat) (row : Row) (db : Db) (seen : Seen) : Prop :=
  ∀ p ∈ seen, p ≠ (t0, row) → rank p.1 ≤ rank t0 → NoRef fks db p.1 p.2

theorem runActsV_post (fks : List FkDecl) (hco : CascadeOnly fks) (rank : Nat → Nat) (hrk : Ranked fks rank)
    (rec : Nat → Seen → Db → Row → Except CErr (Db × Seen)) (hrec : SpecV fks rank rec) (t0 : Nat) (row : Row) :
    ∀ (ds : List FkDecl) (seen : Seen) (db db' : Db) (seen' : Seen), (∀ d ∈ ds, d ∈ fks ∧ d.parent = t0) →
      DbInv fks db → ActsInv fks rank t0 row db seen → runActsV rec row ds seen db = .ok (db', seen') →
      DbInv fks db' ∧ Sub db' db ∧ (∀ d ∈ ds, ∀ c ∈ db' d.child, d.fk.refers (keyOf d.pcols row) c = false) ∧
      ActsInv fks rank t0 row db' seen' ∧ (∀ p ∈ seen, p ∈ seen') ∧ (∀ p ∈ seen', p ∈ seen ∨ rank p.1 ≤ rank t0) := by
  intro ds
  induction ds with
  | nil =>
    intro seen db db' seen' _ h hk hr
    simp only [runActsV, Except.ok.injEq, Prod.mk.injEq] at hr
    obtain ⟨rfl, rfl⟩ := hr
    exact ⟨h, Sub.refl _, by simp, hk, fun _ hp => hp, fun _ hp => Or.inl hp⟩
  | cons d ds ih =>
    intro seen db db' seen' hmem h hk hr
    unfold runActsV at hr
    split at hr
    · simp at hr
    · rename_i db1 seen1 h1
      obtain ⟨hd, hp⟩ := hmem d List.mem_cons_self
      have hlt : rank d.child < rank t0 := hp ▸ hrk d hd
      have hstep : DbInv fks db1 ∧ Sub db1 db ∧ (∀ c ∈ db1 d.child, d.fk.refers (keyOf d.pcols row) c = false) ∧
          ActsInv fks rank t0 row db1 seen1 ∧ (∀ p ∈ seen, p ∈ seen1) ∧ (∀ p ∈ seen1, p ∈ seen ∨ rank p.1 ≤ rank t0) := by
        unfold applyActV at h1
        simp only [] at h1
        split at h1
        · simp at h1
        · have hsd : SeenDone fks rank db seen (rank d.child) := by
            intro p hpm hr'
            apply hk p hpm
            · intro heq; rw [heq] at hr'; simp only at hr'; omega
            · omega
          obtain ⟨a1, a2, a3, a4, a5, a6⟩ := deleteVictimsV_post fks rank rec hrec d.child _ seen db db1 seen1 h hsd h1
          refine ⟨a1, a2, ?_, ?_, a5, ?_⟩
          · intro c hc
            cases hr' : d.fk.refers (keyOf d.pcols row) c with
            | false => rfl
            | true => exact absurd (List.mem_filter.mpr ⟨a2 _ c hc, hr'⟩) (a3 c hc)
          · intro p hpm hne hr'
            rcases a6 p hpm with h' | h'
            · exact (hk p h' hne hr').mono a2
            · exact a4 p hpm h'
          · intro p hpm
            rcases a6 p hpm with h' | h'
            · exact Or.inl h'
            · exact Or.inr (by omega)
        · rename_i hsn; exact absurd hsn (hco d hd)
      obtain ⟨a1, a2, a3, a4, a5, a6⟩ := hstep
      obtain ⟨b1, b2, b3, b4, b5, b6⟩ := ih seen1 db1 db' seen' (fun x hx => hmem x (List.mem_cons_of_mem _ hx)) a1 a4 hr
      refine ⟨b1, b2.trans a2, ?_, b4, fun p hp => b5 p (a5 p hp), ?_⟩
      · intro x hx c hc
        rcases List.mem_cons.mp hx with rfl | hx
        · exact a3 c (b2 _ c hc)
        · exact b3 x hx c hc
      · intro p hpm
        rcases b6 p hpm with h' | h'
        · exact a6 p h'
        · exact Or.inr h'

theorem checkRowV_spec (fks : List FkDecl) (hco : CascadeOnly fks) (rank : Nat → Nat) (hrk : Ranked fks rank) :
    ∀ (fuel : Nat), SpecV fks rank (fun t seen db v => checkRowV fks fuel seen db t v) := by
  intro fuel
  induction fuel with
  | zero => intro t seen db v db' seen' _ _ hr; simp [checkRowV] at hr
  | succ f ih =>
    intro t seen db row db' seen' h hs hr
    simp only [checkRowV] at hr
    split at hr
    · rename_i hc
      simp only [Except.ok.injEq, Prod.mk.injEq] at hr
      obtain ⟨rfl, rfl⟩ := hr
      have hmem : (t, row) ∈ seen := by simpa using hc
      exact ⟨h, Sub.refl _, hs (t, row) hmem (Nat.le_refl _), hs, fun _ hp => hp, fun _ hp => Or.inl hp⟩
    · have hk : ActsInv fks rank t row db ((t, row) :: seen) := by
        intro p hpm hne hr'
        rcases List.mem_cons.mp hpm with h' | h'
        · exact absurd h' hne
        · exact hs p h' hr'
      obtain ⟨a1, a2, a3, a4, a5, a6⟩ := runActsV_post fks hco rank hrk _ ih t row _ _ db db' seen'
        (fun d hd => by
          obtain ⟨h1, h2⟩ := List.mem_filter.mp hd
          simp only [Bool.and_eq_true, beq_iff_eq] at h2
          exact ⟨h1, h2.1⟩) h hk hr
      have hnoref : NoRef fks db' t row := by
        intro d hd hp c hc
        by_cases hany : (db d.child).any (d.fk.refers (keyOf d.pcols row)) = true
        · exact a3 d (List.mem_filter.mpr ⟨hd, by simp [hp, hany]⟩) c hc
        · simp only [List.any_eq_true, not_exists, not_and, Bool.not_eq_true] at hany
          exact hany c (a2 _ c hc)
      refine ⟨a1, a2, hnoref, ?_, fun p hp => a5 p (List.mem_cons_of_mem _ hp), ?_⟩
      · intro p hpm hr'
        by_cases hne : p = (t, row)
        · subst hne; exact hnoref
        · exact a4 p hpm hne hr'
      · intro p hpm
        rcases a6 p hpm with h' | h'
        · rcases List.mem_cons.mp h' with h'' | h''
          · right; rw [h'']; exact Nat.le_refl _
          · exact Or.inl h''
        · exact Or.inr h'

end VibeProof.Dml

namespace VibeProof.Dml
open VibeProof

/-! ### undoing the recorded writes of a referential action restores the child table -/

theorem split_at' {α : Type} : ∀ (l : List α) (i : Nat) (x : α), l[i]? = some x →
    ∃ pre post, l = pre ++ x :: post ∧ ∀ y, l.set i y = pre ++ y :: post := by
  intro l
  induction l with
  | nil => intro i x h; simp at h
  | cons a as ih =>
    intro i x h
    cases i with
    | zero => simp at h; exact ⟨[], as, by simp [h], by intro y; simp⟩
    | succ j =>
      simp at h
      obtain ⟨pre, post, h1, h2⟩ := ih j x h
      exact ⟨a :: pre, post, by simp [h1], by intro y; simp [h2 y]⟩

theorem undoAll_append (rows : List Row) (a b : List (Row × Row)) :
    undoAll rows (a ++ b) = (undoAll rows a).bind (fun r => undoAll r b) := by
  induction a generalizing rows with
  | nil => simp [undoAll]
  | cons e es ih =>
    simp only [List.cons_append, undoAll]
    cases undoOne rows e with
    | none => simp
    | some r => simp [ih]

theorem undoAll_perm_congr : ∀ (log : List (Row × Row)) (a b : List Row), a.Perm b →
    ∀ ra, undoAll a log = some ra → ∃ rb, undoAll b log = some rb ∧ ra.Perm rb := by
  intro log
  induction log with
  | nil => intro a b h ra hr; simp only [undoAll, Option.some.injEq] at hr; subst hr; exact ⟨b, rfl, h⟩
  | cons e es ih =>
    intro a b h ra hr
    simp only [undoAll, undoOne] at hr ⊢
    by_cases hm : e.2 ∈ a
    · have hm' : e.2 ∈ b := h.mem_iff.mp hm
      simp only [hm, if_true] at hr
      simp only [hm', if_true]
      exact ih _ _ ((h.erase e.2).append_right [e.1]) ra hr
    · simp [hm] at hr

/-- undoing the log of any sequence of recorded writes gives back the table (as a multiset: the undo
re-inserts old rows at the end) — because `old` is read *before* the write -/
theorem undo_applyRecorded : ∀ (us : List (Nat × Row)) (rows : List Row),
    ∃ r, undoAll (applyRecorded rows us).1 (applyRecorded rows us).2 = some r ∧ r.Perm rows := by
  intro us
  induction us with
  | nil => intro rows; exact ⟨rows, rfl, List.Perm.refl _⟩
  | cons u us ih =>
    intro rows
    obtain ⟨i, new⟩ := u
    simp only [applyRecorded, updateRecorded]
    cases hget : rows[i]? with
    | none => simp only; exact ih rows
    | some old =>
      simp only
      obtain ⟨pre, post, hsplit, hset⟩ := split_at' rows i old hget
      obtain ⟨r1, hr1, hp1⟩ := ih (rows.set i new)
      rw [undoAll_append, hr1]
      simp only [Option.bind_some, undoAll, undoOne]
      have hmem : new ∈ r1 := hp1.mem_iff.mpr (by rw [hset new]; simp)
      simp only [hmem, if_true]
      refine ⟨_, rfl, ?_⟩
      have h1 : (r1.erase new).Perm ((rows.set i new).erase new) := hp1.erase new
      have h2 : ((rows.set i new).erase new).Perm (pre ++ post) := by
        rw [hset new]
        have : (pre ++ new :: post).Perm (new :: (pre ++ post)) := List.perm_middle
        exact (this.erase new).trans (by simp)
      have h3 : (r1.erase new ++ [old]).Perm (pre ++ post ++ [old]) := (h1.trans h2).append_right [old]
      refine h3.trans ?_
      rw [hsplit]
      have : (pre ++ post ++ [old]).Perm (old :: (pre ++ post)) := List.perm_append_comm
      exact this.trans List.perm_middle.symm

end VibeProof.Dml
