import VibeProof.Model.Join
namespace VibeProof.Join
open VibeProof

theorem lookup_addRow (t : Table) (w v : Value) (r : Row) :
    lookup (addRow t w r) v = if w = v then lookup t v ++ [r] else lookup t v := by
  induction t with
  | nil =>
    by_cases h : w = v <;> simp [addRow, lookup, List.find?, h]
  | cons p rest ih =>
    obtain ⟨x, rs⟩ := p
    by_cases hxw : x = w
    · subst hxw
      by_cases hxv : x = v
      · subst hxv; simp [addRow, lookup, List.find?]
      · simp [addRow, lookup, List.find?, hxv]
    · by_cases hxv : x = v
      · subst hxv
        have : ¬ w = x := fun h => hxw h.symm
        simp [addRow, lookup, List.find?, hxw, this]
      · simp only [addRow, hxw, if_false]
        have : lookup ((x, rs) :: addRow rest w r) v = lookup (addRow rest w r) v := by
          simp [lookup, List.find?, hxv]
        rw [this, ih]
        simp [lookup, List.find?, hxv]

theorem lookup_build (k : Row → Value) (rs : List Row) (t : Table) (v : Value) :
    lookup (build k rs t) v = lookup t v ++ rs.filter (fun r => k r ≠ .null && k r = v) := by
  induction rs generalizing t with
  | nil => simp [build]
  | cons r rs ih =>
    simp only [build]
    by_cases hn : k r = .null
    · simp [hn, ih, List.filter_cons]
    · simp only [hn, if_false, ih, lookup_addRow, List.filter_cons]
      by_cases hv : k r = v
      · subst hv; simp [hn]
      · simp [hv]

theorem lookup_build_nil (k : Row → Value) (rs : List Row) (v : Value) (hv : v ≠ .null) :
    lookup (build k rs []) v = rs.filter (fun r => k r = v) := by
  rw [lookup_build]
  simp only [lookup, List.find?, List.nil_append]
  apply List.filter_congr
  intro r _
  by_cases h : k r = v
  · simp [h, hv]
  · simp [h]

end VibeProof.Join
