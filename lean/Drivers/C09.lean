import VibeProof.Model.Codec
import VibeProof.Model.TableDml
open VibeProof VibeProof.Proto VibeProof.Codec VibeProof.TableDml

/-- DELETE's scan treats an evaluation error as "not selected" (`collect_rows_with_scan`) -/
def tvLenient (e : Expr) (r : Row) : TV :=
  match e.tv r with
  | .ok v => v
  | .error _ => .f

def decAssign : Sx → Option (Nat × Expr)
  | .list [.atom c, e] => do pure ((← c.toNat?), (← decExpr e))
  | _ => none

/-- `delete (rows) PRED` → `(delete COUNT (remaining…))`
    `update (rows) PRED ((col EXPR)…)` → `(update COUNT (rows…))` or `(err …)` when the predicate
    or a SET expression fails on some row
    `deletepk PKCOL (rows) LIT SAMETYPE` → `(delete COUNT (remaining…))` through the PK fast path -/
def handle : List Sx → Sx
  | [.atom "delete", rows, p] =>
    match decRows rows, decExpr p with
    | some rs, some e =>
      let d := deleteWhere (tvLenient e) rs
      .list [.atom "delete", sxNat d.count, encRows d.remaining]
    | _, _ => .atom "bad-request"
  | [.atom "update", rows, p, .list as] =>
    match decRows rows, decExpr p, as.mapM decAssign with
    | some rs, some e, some asg =>
      -- UPDATE propagates evaluation errors
      match rs.mapM (fun r => e.tv r) with
      | .error er => encErr er
      | .ok _ =>
        let selRows := rs.filter (sel (tvLenient e))
        match selRows.mapM (fun r => asg.mapM (fun a => a.2.eval r)) with
        | .error er => encErr er
        | .ok _ =>
          let fs : List (Nat × (Row → Value)) :=
            asg.map (fun a => (a.1, fun r => match a.2.eval r with | .ok v => v | .error _ => .null))
          let u := updateWhere (tvLenient e) fs rs
          .list [.atom "update", sxNat u.count, encRows u.rows]
    | _, _, _ => .atom "bad-request"
  | [.atom "deletepk", .atom c, rows, .atom lit, .atom same] =>
    match c.toNat?, decRows rows, decValue lit with
    | some i, some rs, some v =>
      let d := deleteByPk (fun r => (r[i]?).getD .null) rs ⟨v, same == "1"⟩
      .list [.atom "delete", sxNat d.count, encRows d.remaining]
    | _, _, _ => .atom "bad-request"
  | _ => .atom "bad-request"

def main : IO Unit := runDriver handle
