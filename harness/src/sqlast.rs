//! Query AST mirrored from lean/VibeProof/Model/Sql.lean: SQL rendering, protocol rendering
//! and a type-directed generator for the shared SQL subset of C01 (also used by C05 / C32).
use crate::qast::*;
use crate::rng::Rng;
use crate::sx::Sx;

#[derive(Clone, Debug)]
pub struct TableDef {
    pub schema: Schema,
    pub rows: Vec<Vec<Lit>>,
}

#[derive(Clone, Debug)]
pub struct DbDef {
    pub tables: Vec<TableDef>,
}

impl DbDef {
    pub fn sx(&self) -> Sx {
        Sx::List(
            self.tables
                .iter()
                .map(|t| Sx::List(vec![Sx::int(t.schema.cols.len() as i128), rows_sx(&t.rows)]))
                .collect(),
        )
    }
    pub fn load(&self, db: &mut crate::engine::Db) {
        for t in &self.tables {
            load(db, &t.schema, &t.rows);
        }
    }
    pub fn script(&self) -> String {
        let mut s = String::new();
        for t in &self.tables {
            s.push_str(&format!("{};\n", t.schema.create_sql()));
            for r in &t.rows {
                s.push_str(&format!(
                    "INSERT INTO {} SELECT {};\n",
                    t.schema.table,
                    r.iter().map(|v| v.sql()).collect::<Vec<_>>().join(", ")
                ));
            }
        }
        s
    }
}

/// CREATE INDEX statements over random column subsets of the database's tables (1–2 indexes on
/// about two tables in three, 1–2 columns each): results of queries must not depend on them
pub fn random_index_sql(r: &mut Rng, dbd: &DbDef) -> Vec<String> {
    let mut out = vec![];
    for (ti, t) in dbd.tables.iter().enumerate() {
        if !r.chance(2, 3) {
            continue;
        }
        let n = t.schema.cols.len();
        for k in 0..(1 + r.below(2)) {
            let a = r.below(n as u64) as usize;
            let mut cols = vec![a];
            if n > 1 && r.chance(1, 2) {
                let b = (a + 1 + r.below(n as u64 - 1) as usize) % n;
                cols.push(b);
            }
            let list: Vec<String> = cols.iter().map(|c| format!("{}{}", t.schema.cols[*c].0, if r.chance(1, 5) { " DESC" } else { "" })).collect();
            out.push(format!("CREATE INDEX ix{}_{} ON {} ({})", ti, k, t.schema.table, list.join(", ")));
        }
    }
    out
}

/// deterministic 64-bit hash of a case text (to derive per-case choices without threading an rng)
pub fn text_hash(s: &str) -> u64 {
    let mut h: u64 = 0xcbf29ce484222325;
    for b in s.bytes() {
        h ^= b as u64;
        h = h.wrapping_mul(0x100000001b3);
    }
    h
}

#[derive(Clone, Copy, Debug, PartialEq, Eq)]
pub enum AggFn {
    CountStar,
    Count,
    Sum,
    Min,
    Max,
}

#[derive(Clone, Debug)]
pub struct AggCall {
    pub f: AggFn,
    pub arg: E,
    pub distinct: bool,
}

impl AggCall {
    pub fn sql(&self, names: &[String]) -> String {
        let d = if self.distinct { "DISTINCT " } else { "" };
        match self.f {
            AggFn::CountStar => "COUNT(*)".into(),
            AggFn::Count => format!("COUNT({}{})", d, self.arg.sql(names)),
            AggFn::Sum => format!("SUM({}{})", d, self.arg.sql(names)),
            AggFn::Min => format!("MIN({}{})", d, self.arg.sql(names)),
            AggFn::Max => format!("MAX({}{})", d, self.arg.sql(names)),
        }
    }
    pub fn sx(&self) -> Sx {
        let n = match self.f {
            AggFn::CountStar => "countstar",
            AggFn::Count => "count",
            AggFn::Sum => "sum",
            AggFn::Min => "min",
            AggFn::Max => "max",
        };
        Sx::List(vec![Sx::a(n), Sx::a(if self.distinct { "1" } else { "0" }), self.arg.sx()])
    }
    pub fn ty(&self, tys: &[Ty]) -> Ty {
        match self.f {
            AggFn::CountStar | AggFn::Count | AggFn::Sum => Ty::Int,
            _ => expr_ty(&self.arg, tys),
        }
    }
}

/// static type of a well-typed expression (Bool is reported as Int: never used as a key type)
pub fn expr_ty(e: &E, tys: &[Ty]) -> Ty {
    match e {
        E::Col(i) => tys[*i],
        E::Lit(Lit::S(_)) => Ty::Str,
        E::Lit(_) => Ty::Int,
        // a NULL literal carries no type: look at the other branch
        E::Ite(_, r, e2) => {
            if matches!(**r, E::Lit(Lit::Null)) {
                expr_ty(e2, tys)
            } else {
                expr_ty(r, tys)
            }
        }
        E::Coalesce(a, b) => {
            if matches!(**a, E::Lit(Lit::Null)) {
                expr_ty(b, tys)
            } else {
                expr_ty(a, tys)
            }
        }
        _ => Ty::Int,
    }
}

#[derive(Clone, Debug)]
pub enum SubOut {
    Col(E),
    Agg(AggCall),
}

#[derive(Clone, Debug)]
pub struct SubQ {
    pub tbl: usize,
    pub filter: Option<E>,
    pub out: SubOut,
}

#[derive(Clone, Debug)]
pub enum Pred {
    Ex(E),
    InSub(E, SubQ, bool),
    Exists(SubQ, bool),
    CmpSub(Op, E, SubQ),
    And(Box<Pred>, Box<Pred>),
    Or(Box<Pred>, Box<Pred>),
    Not(Box<Pred>),
}

#[derive(Clone, Debug)]
pub enum From {
    Table(usize),
    Cross(Box<From>, Box<From>),
    Inner(Box<From>, Box<From>, E),
    Left(Box<From>, Box<From>, E),
    Right(Box<From>, Box<From>, E),
    Full(Box<From>, Box<From>, E),
}

#[derive(Clone, Debug)]
pub struct Group {
    pub keys: Vec<E>,
    pub aggs: Vec<AggCall>,
    pub having: Option<E>,
}

#[derive(Clone, Debug)]
pub struct Core {
    pub from: From,
    pub where_: Option<Pred>,
    pub group: Option<Group>,
    pub select: Vec<E>,
    pub distinct: bool,
    pub order_by: Vec<(usize, bool)>,
    pub limit: Option<u64>,
    pub offset: u64,
}

#[derive(Clone, Copy, Debug, PartialEq, Eq)]
pub enum SetOp {
    Union,
    Intersect,
    Except,
}

#[derive(Clone, Debug)]
pub enum Query {
    Core(Core),
    SetOp(SetOp, bool, Box<Query>, Box<Query>),
}

fn none() -> Sx {
    Sx::a("none")
}

thread_local! {
    /// render column references without the table qualifier (only safe when no subquery reads a
    /// table of its outer FROM clause: see `Query::unqualified_safe`)
    pub static UNQUALIFIED: std::cell::Cell<bool> = std::cell::Cell::new(false);
}

fn qname(table: &str, col: &str) -> String {
    if UNQUALIFIED.with(|u| u.get()) { col.to_string() } else { format!("{}.{}", table, col) }
}

impl Pred {
    pub fn sub_tables(&self, out: &mut Vec<usize>) {
        match self {
            Pred::Ex(_) => {}
            Pred::InSub(_, s, _) | Pred::Exists(s, _) | Pred::CmpSub(_, _, s) => out.push(s.tbl),
            Pred::And(a, b) | Pred::Or(a, b) => {
                a.sub_tables(out);
                b.sub_tables(out);
            }
            Pred::Not(a) => a.sub_tables(out),
        }
    }
}

impl Query {
    /// unqualified rendering keeps the meaning iff no subquery reads a table of its outer FROM
    pub fn unqualified_safe(&self) -> bool {
        match self {
            Query::Core(c) => {
                let (mut ft, mut st) = (vec![], vec![]);
                c.from.tables(&mut ft);
                if let Some(w) = &c.where_ {
                    w.sub_tables(&mut st);
                }
                st.iter().all(|t| !ft.contains(t))
            }
            Query::SetOp(_, _, l, r) => l.unqualified_safe() && r.unqualified_safe(),
        }
    }
    pub fn sql_unqualified(&self, db: &DbDef) -> String {
        UNQUALIFIED.with(|u| u.set(true));
        let s = self.sql(db);
        UNQUALIFIED.with(|u| u.set(false));
        s
    }
}

impl From {
    pub fn tables(&self, out: &mut Vec<usize>) {
        match self {
            From::Table(i) => out.push(*i),
            From::Cross(l, r) | From::Inner(l, r, _) | From::Left(l, r, _) | From::Right(l, r, _) | From::Full(l, r, _) => {
                l.tables(out);
                r.tables(out);
            }
        }
    }
    pub fn names(&self, db: &DbDef) -> Vec<String> {
        let mut ts = vec![];
        self.tables(&mut ts);
        // qualified names: the engine resolves unqualified outer / multi-table references only
        // in some positions (recorded as findings by C01's probes), qualified ones everywhere
        ts.iter()
            .flat_map(|t| {
                let tn = db.tables[*t].schema.table.clone();
                db.tables[*t].schema.cols.iter().map(move |c| qname(&tn, &c.0))
            })
            .collect()
    }
    pub fn tys(&self, db: &DbDef) -> Vec<Ty> {
        let mut ts = vec![];
        self.tables(&mut ts);
        ts.iter().flat_map(|t| db.tables[*t].schema.cols.iter().map(|c| c.1)).collect()
    }
    pub fn sql(&self, db: &DbDef) -> String {
        match self {
            From::Table(i) => db.tables[*i].schema.table.clone(),
            From::Cross(l, r) => format!("{}, {}", l.sql(db), r.sql(db)),
            From::Inner(l, r, on) => {
                format!("{} INNER JOIN {} ON {}", l.sql(db), r.sql(db), on.sql(&self.names(db)))
            }
            From::Left(l, r, on) => {
                format!("{} LEFT JOIN {} ON {}", l.sql(db), r.sql(db), on.sql(&self.names(db)))
            }
            From::Right(l, r, on) => {
                format!("{} RIGHT JOIN {} ON {}", l.sql(db), r.sql(db), on.sql(&self.names(db)))
            }
            From::Full(l, r, on) => {
                format!("{} FULL OUTER JOIN {} ON {}", l.sql(db), r.sql(db), on.sql(&self.names(db)))
            }
        }
    }
    pub fn sx(&self) -> Sx {
        match self {
            From::Table(i) => Sx::List(vec![Sx::a("t"), Sx::int(*i as i128)]),
            From::Cross(l, r) => Sx::List(vec![Sx::a("cross"), l.sx(), r.sx()]),
            From::Inner(l, r, e) => Sx::List(vec![Sx::a("inner"), l.sx(), r.sx(), e.sx()]),
            From::Left(l, r, e) => Sx::List(vec![Sx::a("left"), l.sx(), r.sx(), e.sx()]),
            From::Right(l, r, e) => Sx::List(vec![Sx::a("right"), l.sx(), r.sx(), e.sx()]),
            From::Full(l, r, e) => Sx::List(vec![Sx::a("full"), l.sx(), r.sx(), e.sx()]),
        }
    }
}

impl SubQ {
    /// `outer` = names of the outer row's columns
    pub fn sql(&self, db: &DbDef, outer: &[String]) -> String {
        let t = &db.tables[self.tbl].schema;
        let mut names: Vec<String> = outer.to_vec();
        names.extend(t.cols.iter().map(|c| qname(&t.table, &c.0)));
        let out = match &self.out {
            SubOut::Col(e) => e.sql(&names),
            SubOut::Agg(a) => a.sql(&names),
        };
        match &self.filter {
            None => format!("SELECT {} FROM {}", out, t.table),
            Some(f) => format!("SELECT {} FROM {} WHERE {}", out, t.table, f.sql(&names)),
        }
    }
    pub fn sx(&self) -> Sx {
        Sx::List(vec![
            Sx::a("sub"),
            Sx::int(self.tbl as i128),
            self.filter.as_ref().map(|f| f.sx()).unwrap_or_else(none),
            match &self.out {
                SubOut::Col(e) => Sx::List(vec![Sx::a("col"), e.sx()]),
                SubOut::Agg(a) => Sx::List(vec![Sx::a("agg"), a.sx()]),
            },
        ])
    }
}

impl Pred {
    pub fn sql(&self, db: &DbDef, names: &[String]) -> String {
        match self {
            Pred::Ex(e) => e.sql(names),
            Pred::InSub(a, s, neg) => {
                format!("({} {}IN ({}))", a.sql(names), if *neg { "NOT " } else { "" }, s.sql(db, names))
            }
            Pred::Exists(s, neg) => format!("({}EXISTS ({}))", if *neg { "NOT " } else { "" }, s.sql(db, names)),
            Pred::CmpSub(op, a, s) => format!("({} {} ({}))", a.sql(names), op.sql(), s.sql(db, names)),
            Pred::And(a, b) => format!("({} AND {})", a.sql(db, names), b.sql(db, names)),
            Pred::Or(a, b) => format!("({} OR {})", a.sql(db, names), b.sql(db, names)),
            Pred::Not(a) => format!("(NOT {})", a.sql(db, names)),
        }
    }
    pub fn sx(&self) -> Sx {
        match self {
            Pred::Ex(e) => Sx::List(vec![Sx::a("ex"), e.sx()]),
            Pred::InSub(a, s, neg) => Sx::List(vec![Sx::a(if *neg { "ninsub" } else { "insub" }), a.sx(), s.sx()]),
            Pred::Exists(s, neg) => Sx::List(vec![Sx::a(if *neg { "nexists" } else { "exists" }), s.sx()]),
            Pred::CmpSub(op, a, s) => Sx::List(vec![Sx::a("cmpsub"), Sx::a(op.proto()), a.sx(), s.sx()]),
            Pred::And(a, b) => Sx::List(vec![Sx::a("pand"), a.sx(), b.sx()]),
            Pred::Or(a, b) => Sx::List(vec![Sx::a("por"), a.sx(), b.sx()]),
            Pred::Not(a) => Sx::List(vec![Sx::a("pnot"), a.sx()]),
        }
    }
    /// features used (for the measured distribution and for finding signatures)
    pub fn features(&self, out: &mut Vec<&'static str>) {
        match self {
            Pred::Ex(_) => out.push("pred_expr"),
            Pred::InSub(_, _, false) => out.push("in_subquery"),
            Pred::InSub(_, _, true) => out.push("not_in_subquery"),
            Pred::Exists(_, false) => out.push("exists"),
            Pred::Exists(_, true) => out.push("not_exists"),
            Pred::CmpSub(..) => out.push("scalar_subquery"),
            Pred::And(a, b) | Pred::Or(a, b) => {
                a.features(out);
                b.features(out);
            }
            Pred::Not(a) => {
                out.push("pred_not");
                a.features(out)
            }
        }
    }
}

impl Core {
    /// static types of the output columns
    pub fn out_tys(&self, db: &DbDef) -> Vec<Ty> {
        let ft = self.from.tys(db);
        let base: Vec<Ty> = match &self.group {
            None => ft,
            Some(g) => g.keys.iter().map(|k| expr_ty(k, &ft)).chain(g.aggs.iter().map(|a| a.ty(&ft))).collect(),
        };
        self.select.iter().map(|e| expr_ty(e, &base)).collect()
    }
    /// names / types of the row the select list (and HAVING) is evaluated on
    pub fn base_names(&self, db: &DbDef) -> Vec<String> {
        let f = self.from.names(db);
        match &self.group {
            None => f,
            Some(g) => g.keys.iter().map(|k| k.sql(&f)).chain(g.aggs.iter().map(|a| a.sql(&f))).collect(),
        }
    }
    pub fn sql(&self, db: &DbDef) -> String {
        let fnames = self.from.names(db);
        let base = self.base_names(db);
        let items: Vec<String> =
            self.select.iter().enumerate().map(|(i, e)| format!("{} AS o{}", e.sql(&base), i)).collect();
        let mut s = format!(
            "SELECT {}{} FROM {}",
            if self.distinct { "DISTINCT " } else { "" },
            items.join(", "),
            self.from.sql(db)
        );
        if let Some(w) = &self.where_ {
            s.push_str(&format!(" WHERE {}", w.sql(db, &fnames)));
        }
        if let Some(g) = &self.group {
            if !g.keys.is_empty() {
                s.push_str(&format!(" GROUP BY {}", g.keys.iter().map(|k| k.sql(&fnames)).collect::<Vec<_>>().join(", ")));
            }
            if let Some(h) = &g.having {
                s.push_str(&format!(" HAVING {}", h.sql(&base)));
            }
        }
        if !self.order_by.is_empty() {
            let ks: Vec<String> =
                self.order_by.iter().map(|(i, d)| format!("o{}{}", i, if *d { " DESC" } else { "" })).collect();
            s.push_str(&format!(" ORDER BY {}", ks.join(", ")));
        }
        if let Some(l) = self.limit {
            s.push_str(&format!(" LIMIT {}", l));
        }
        if self.offset > 0 {
            if self.limit.is_none() {
                s.push_str(" LIMIT 1000000");
            }
            s.push_str(&format!(" OFFSET {}", self.offset));
        }
        s
    }
    pub fn sx(&self) -> Sx {
        Sx::List(vec![
            Sx::a("core"),
            self.from.sx(),
            self.where_.as_ref().map(|w| w.sx()).unwrap_or_else(none),
            match &self.group {
                None => none(),
                Some(g) => Sx::List(vec![
                    Sx::a("group"),
                    Sx::List(g.keys.iter().map(|k| k.sx()).collect()),
                    Sx::List(g.aggs.iter().map(|a| a.sx()).collect()),
                    g.having.as_ref().map(|h| h.sx()).unwrap_or_else(none),
                ]),
            },
            Sx::List(self.select.iter().map(|e| e.sx()).collect()),
            Sx::a(if self.distinct { "1" } else { "0" }),
            Sx::List(
                self.order_by
                    .iter()
                    .map(|(i, d)| Sx::List(vec![Sx::int(*i as i128), Sx::a(if *d { "1" } else { "0" })]))
                    .collect(),
            ),
            match (self.limit, self.offset) {
                (Some(l), _) => Sx::int(l as i128),
                (None, 0) => none(),
                (None, _) => Sx::int(1000000),
            },
            Sx::int(self.offset as i128),
        ])
    }
}

impl Query {
    pub fn sql(&self, db: &DbDef) -> String {
        match self {
            Query::Core(c) => c.sql(db),
            Query::SetOp(op, all, l, r) => format!(
                "{} {}{} {}",
                l.sql(db),
                match op {
                    SetOp::Union => "UNION",
                    SetOp::Intersect => "INTERSECT",
                    SetOp::Except => "EXCEPT",
                },
                if *all { " ALL" } else { "" },
                r.sql(db)
            ),
        }
    }
    pub fn sx(&self) -> Sx {
        match self {
            Query::Core(c) => c.sx(),
            Query::SetOp(op, all, l, r) => Sx::List(vec![
                Sx::a("setop"),
                Sx::a(match op {
                    SetOp::Union => "union",
                    SetOp::Intersect => "intersect",
                    SetOp::Except => "except",
                }),
                Sx::a(if *all { "1" } else { "0" }),
                l.sx(),
                r.sx(),
            ]),
        }
    }
    pub fn features(&self, out: &mut Vec<&'static str>) {
        match self {
            Query::SetOp(op, all, l, r) => {
                out.push(match (op, all) {
                    (SetOp::Union, true) => "union_all",
                    (SetOp::Union, false) => "union",
                    (SetOp::Intersect, true) => "intersect_all",
                    (SetOp::Intersect, false) => "intersect",
                    (SetOp::Except, true) => "except_all",
                    (SetOp::Except, false) => "except",
                });
                l.features(out);
                r.features(out);
            }
            Query::Core(c) => {
                let mut ts = vec![];
                c.from.tables(&mut ts);
                if ts.len() >= 3 {
                    out.push("from_three_tables");
                }
                match &c.from {
                    From::Table(_) => out.push("from_table"),
                    From::Cross(..) => out.push("from_comma_join"),
                    From::Inner(..) => out.push("from_inner_join"),
                    From::Left(..) => out.push("from_left_join"),
                    From::Right(..) => out.push("from_right_join"),
                    From::Full(..) => out.push("from_full_join"),
                }
                if let Some(w) = &c.where_ {
                    out.push("where");
                    w.features(out);
                }
                if let Some(g) = &c.group {
                    out.push(if g.keys.is_empty() { "aggregate_no_group_by" } else { "group_by" });
                    if g.having.is_some() {
                        out.push("having");
                    }
                    for a in &g.aggs {
                        out.push(match a.f {
                            AggFn::CountStar => "agg_count_star",
                            AggFn::Count => "agg_count",
                            AggFn::Sum => "agg_sum",
                            AggFn::Min => "agg_min",
                            AggFn::Max => "agg_max",
                        });
                        if a.distinct {
                            out.push("agg_distinct");
                        }
                    }
                }
                if c.distinct {
                    out.push("distinct");
                }
                if !c.order_by.is_empty() {
                    out.push("order_by");
                }
                if c.limit.is_some() || c.offset > 0 {
                    out.push("limit_offset");
                }
            }
        }
    }
}

// ------------------------------------------------------------------------------------------
// generator

pub fn gen_db(r: &mut Rng, ntables: usize, max_rows: usize) -> DbDef {
    let mut tables = vec![];
    for t in 0..ntables {
        let ncols = r.range(2, 3) as usize;
        let mut cols = vec![];
        for i in 0..ncols {
            let ty = if i == 0 || r.chance(3, 5) { Ty::Int } else { Ty::Str };
            cols.push((format!("t{}c{}", t, i), ty));
        }
        let schema = Schema { table: format!("t{}", t), cols };
        let n = match r.below(10) {
            0 => 0,
            1 => 1,
            _ => r.range(2, max_rows as i64) as usize,
        };
        let rows = gen_rows(r, &schema, n);
        tables.push(TableDef { schema, rows });
    }
    DbDef { tables }
}

fn pseudo_schema(names: &[String], tys: &[Ty]) -> Schema {
    Schema { table: "_".into(), cols: names.iter().cloned().zip(tys.iter().cloned()).collect() }
}

pub struct QGen<'a> {
    pub db: &'a DbDef,
    pub subqueries: bool,
    /// when set, every generated core reads exactly this FROM clause
    pub force_from: Option<From>,
}

impl<'a> QGen<'a> {
    fn gen_from(&self, r: &mut Rng) -> From {
        let n = self.db.tables.len();
        let k = r.below(12);
        if n < 2 || k < 5 {
            return From::Table(r.below(n as u64 - if n > 2 { 1 } else { 0 }) as usize);
        }
        // two distinct tables among the first n-1 (the last stays free for subqueries) when possible
        let lim = if n > 2 { n - 1 } else { n };
        let a = r.below(lim as u64) as usize;
        let mut b = r.below(lim as u64) as usize;
        if b == a {
            b = (a + 1) % lim;
        }
        let l = Box::new(From::Table(a));
        let rr = Box::new(From::Table(b));
        let f = From::Cross(l.clone(), rr.clone());
        let tys = f.tys(self.db);
        let names = f.names(self.db);
        let ps = pseudo_schema(&names, &tys);
        let g = Gen::new(&ps);
        // join condition: mostly an equi-join between an int column of each side
        let lw = self.db.tables[a].schema.cols.len();
        let li: Vec<usize> = (0..lw).filter(|i| tys[*i] == Ty::Int).collect();
        let ri: Vec<usize> = (lw..tys.len()).filter(|i| tys[*i] == Ty::Int).collect();
        let eq = |x: usize, y: usize| E::Bin(Op::Eq, Box::new(E::Col(x)), Box::new(E::Col(y)));
        let on = if !li.is_empty() && !ri.is_empty() && (li.len() + ri.len() >= 3) && r.chance(1, 6) {
            // OR of two equi-joins that share one side, sometimes with a further conjunct in a branch
            let (x, p) = (*r.pick(&li), *r.pick(&ri));
            let second = if ri.len() >= 2 && (li.len() < 2 || r.chance(1, 2)) {
                eq(x, *ri.iter().find(|q| **q != p).unwrap())
            } else {
                eq(*li.iter().find(|y| **y != x).unwrap(), p)
            };
            let first = if r.chance(1, 3) { E::Bin(Op::And, Box::new(eq(x, p)), Box::new(g.boolean(r, 0))) } else { eq(x, p) };
            if r.chance(1, 2) { E::Bin(Op::Or, Box::new(first), Box::new(second)) } else { E::Bin(Op::Or, Box::new(second), Box::new(first)) }
        } else if !li.is_empty() && !ri.is_empty() && r.chance(3, 4) {
            eq(*r.pick(&li), *r.pick(&ri))
        } else {
            g.boolean(r, 1)
        };
        let two = match k {
            5 | 6 => f,
            7 | 8 => From::Inner(l, rr, on),
            9 => From::Left(l, rr, on),
            10 => From::Right(l, rr, on),
            _ => if r.chance(1, 2) { From::Full(l, rr, on) } else { From::Left(l, rr, on) },
        };
        // sometimes a third table joins the pair (left-deep: the shapes the engine supports have a
        // single table on the right of every join)
        if n >= 3 && r.chance(1, 6) {
            let c = (0..n).find(|t| *t != a && *t != b).unwrap();
            let cr = Box::new(From::Table(c));
            let f3 = From::Cross(Box::new(two.clone()), cr.clone());
            let tys3 = f3.tys(self.db);
            let names3 = f3.names(self.db);
            let ps3 = pseudo_schema(&names3, &tys3);
            let g3 = Gen::new(&ps3);
            let w2 = tys.len();
            let li3: Vec<usize> = (0..w2).filter(|i| tys3[*i] == Ty::Int).collect();
            let ri3: Vec<usize> = (w2..tys3.len()).filter(|i| tys3[*i] == Ty::Int).collect();
            let on3 = if !li3.is_empty() && !ri3.is_empty() && r.chance(3, 4) {
                E::Bin(Op::Eq, Box::new(E::Col(*r.pick(&li3))), Box::new(E::Col(*r.pick(&ri3))))
            } else {
                g3.boolean(r, 1)
            };
            return match r.below(3) {
                0 => f3,
                1 => From::Inner(Box::new(two), cr, on3),
                _ => From::Left(Box::new(two), cr, on3),
            };
        }
        two
    }

    fn gen_sub(&self, r: &mut Rng, outer_tbls: &[usize], outer_names: &[String], outer_tys: &[Ty], want: Ty, scalar: bool) -> Option<SubQ> {
        let cands: Vec<usize> = (0..self.db.tables.len()).filter(|t| !outer_tbls.contains(t)).collect();
        if cands.is_empty() {
            return None;
        }
        let tbl = *r.pick(&cands);
        let t = &self.db.tables[tbl].schema;
        let mut names = outer_names.to_vec();
        let mut tys = outer_tys.to_vec();
        let ow = names.len();
        names.extend(t.cols.iter().map(|c| c.0.clone()));
        tys.extend(t.cols.iter().map(|c| c.1));
        let inner_cols: Vec<usize> = (ow..tys.len()).filter(|i| tys[*i] == want).collect();
        if inner_cols.is_empty() {
            return None;
        }
        let inner_schema = Schema { table: "_".into(), cols: names[ow..].iter().cloned().zip(tys[ow..].iter().cloned()).collect() };
        let gi = Gen::new(&inner_schema);
        let shift = |e: E| shift_cols(e, ow);
        let filter = match r.below(4) {
            0 => None,
            1 => {
                // correlated equality on int columns
                let oi: Vec<usize> = (0..ow).filter(|i| tys[*i] == Ty::Int).collect();
                let ii: Vec<usize> = (ow..tys.len()).filter(|i| tys[*i] == Ty::Int).collect();
                if oi.is_empty() || ii.is_empty() {
                    None
                } else {
                    Some(E::Bin(Op::Eq, Box::new(E::Col(*r.pick(&ii))), Box::new(E::Col(*r.pick(&oi)))))
                }
            }
            _ => Some(shift(gi.boolean(r, 1))),
        };
        let col = *r.pick(&inner_cols);
        let out = if scalar {
            let f = if want == Ty::Int { *r.pick(&[AggFn::Max, AggFn::Min, AggFn::Sum, AggFn::Count]) } else { *r.pick(&[AggFn::Max, AggFn::Min]) };
            SubOut::Agg(AggCall { f, arg: E::Col(col), distinct: false })
        } else {
            SubOut::Col(E::Col(col))
        };
        Some(SubQ { tbl, filter, out })
    }

    fn gen_pred(&self, r: &mut Rng, from: &From, depth: u32) -> Pred {
        let names = from.names(self.db);
        let tys = from.tys(self.db);
        let ps = pseudo_schema(&names, &tys);
        let g = Gen::new(&ps);
        let mut tbls = vec![];
        from.tables(&mut tbls);
        if depth > 0 && r.chance(1, 4) {
            let a = Box::new(self.gen_pred(r, from, depth - 1));
            let b = Box::new(self.gen_pred(r, from, depth - 1));
            return match r.below(3) {
                0 => Pred::And(a, b),
                1 => Pred::Or(a, b),
                _ => Pred::Not(a),
            };
        }
        if self.subqueries && r.chance(2, 5) {
            let want = if r.chance(4, 5) || ps.cols_of(Ty::Str).is_empty() { Ty::Int } else { Ty::Str };
            let probe = if want == Ty::Int { g.int(r, 1) } else { g.string(r, 0) };
            match r.below(5) {
                0 | 1 => {
                    if let Some(s) = self.gen_sub(r, &tbls, &names, &tys, want, false) {
                        return Pred::InSub(probe, s, r.chance(1, 3));
                    }
                }
                2 | 3 => {
                    if let Some(s) = self.gen_sub(r, &tbls, &names, &tys, want, false) {
                        return Pred::Exists(s, r.chance(1, 3));
                    }
                }
                _ => {
                    if let Some(s) = self.gen_sub(r, &tbls, &names, &tys, want, true) {
                        let op = *r.pick(&[Op::Eq, Op::Ne, Op::Lt, Op::Le, Op::Gt, Op::Ge]);
                        return Pred::CmpSub(op, probe, s);
                    }
                }
            }
        }
        let d = r.range(0, 2) as u32;
        Pred::Ex(g.boolean(r, d))
    }

    pub fn gen_core(&self, r: &mut Rng, allow_order: bool) -> Core {
        let from = self.force_from.clone().unwrap_or_else(|| self.gen_from(r));
        let names = from.names(self.db);
        let tys = from.tys(self.db);
        let ps = pseudo_schema(&names, &tys);
        let g = Gen::new(&ps);
        let where_ = if r.chance(1, 14) {
            // an INTEGER-valued WHERE clause: non-zero is TRUE, zero FALSE, NULL unknown
            Some(Pred::Ex(g.int(r, 1)))
        } else if r.chance(3, 5) {
            Some(self.gen_pred(r, &from, 1))
        } else {
            None
        };
        let aggregate = r.chance(2, 5);
        let (group, select, out_tys): (Option<Group>, Vec<E>, Vec<Ty>) = if aggregate {
            let nkeys = if r.chance(1, 3) { 0 } else { r.range(1, 2) as usize };
            let mut keys = vec![];
            for _ in 0..nkeys {
                keys.push(E::Col(r.below(tys.len() as u64) as usize));
            }
            let naggs = r.range(1, 3) as usize;
            let mut aggs = vec![];
            for _ in 0..naggs {
                let int_cols = ps.cols_of(Ty::Int);
                let mut f = *r.pick(&[AggFn::CountStar, AggFn::Count, AggFn::Sum, AggFn::Min, AggFn::Max]);
                if f == AggFn::Sum && int_cols.is_empty() {
                    f = AggFn::CountStar;
                }
                let arg = match f {
                    AggFn::CountStar => E::Lit(Lit::Null),
                    AggFn::Sum => {
                        if r.chance(1, 4) {
                            g.int(r, 1)
                        } else {
                            E::Col(*r.pick(&int_cols))
                        }
                    }
                    _ => E::Col(r.below(tys.len() as u64) as usize),
                };
                let distinct = f != AggFn::CountStar && r.chance(1, 5);
                aggs.push(AggCall { f, arg, distinct });
            }
            let mut btys: Vec<Ty> = keys.iter().map(|k| expr_ty(k, &tys)).collect();
            btys.extend(aggs.iter().map(|a| a.ty(&tys)));
            let bnames: Vec<String> = keys.iter().map(|k| k.sql(&names)).chain(aggs.iter().map(|a| a.sql(&names))).collect();
            let having = if r.chance(1, 3) {
                let hs = pseudo_schema(&bnames, &btys);
                let hg = Gen::new(&hs);
                Some(hg.boolean(r, 1))
            } else {
                None
            };
            let select: Vec<E> = (0..btys.len()).map(E::Col).collect();
            (Some(Group { keys, aggs, having }), select, btys)
        } else {
            let n = r.range(1, 3) as usize;
            let mut sel = vec![];
            let mut st = vec![];
            for _ in 0..n {
                let (e, t) = match r.below(5) {
                    0 => (g.int(r, 2), Ty::Int),
                    1 if !ps.cols_of(Ty::Str).is_empty() => (g.string(r, 1), Ty::Str),
                    _ => {
                        let c = r.below(tys.len() as u64) as usize;
                        (E::Col(c), tys[c])
                    }
                };
                sel.push(e);
                st.push(t);
            }
            (None, sel, st)
        };
        let distinct = group.is_none() && r.chance(1, 5);
        let mut order_by = vec![];
        let mut limit = None;
        let mut offset = 0;
        if allow_order && r.chance(2, 5) {
            let nk = r.range(1, out_tys.len().min(2) as i64) as usize;
            let mut idx: Vec<usize> = (0..out_tys.len()).collect();
            r.shuffle(&mut idx);
            for i in idx.into_iter().take(nk) {
                order_by.push((i, r.chance(1, 3)));
            }
            if r.chance(1, 2) {
                limit = Some(r.below(6));
                if r.chance(1, 2) {
                    offset = r.below(4);
                }
            }
        }
        Core { from, where_, group, select, distinct, order_by, limit, offset }
    }

    pub fn gen_query(&self, r: &mut Rng) -> Query {
        if r.chance(1, 5) {
            // set operation between two single-column cores of the same type
            let mk = |r: &mut Rng, want: Ty| -> Core {
                loop {
                    let mut c = self.gen_core(r, false);
                    if c.group.is_some() {
                        continue;
                    }
                    let tys = c.from.tys(self.db);
                    let cols: Vec<usize> = (0..tys.len()).filter(|i| tys[*i] == want).collect();
                    if cols.is_empty() {
                        continue;
                    }
                    c.select = vec![E::Col(*r.pick(&cols))];
                    c.distinct = false;
                    return c;
                }
            };
            let want = Ty::Int;
            let op = *r.pick(&[SetOp::Union, SetOp::Intersect, SetOp::Except]);
            let all = r.chance(1, 2);
            if r.chance(1, 4) {
                // both branches compute the SAME aggregate (identical text) over different row sets of
                // one table: one statement, several aggregation blocks
                let t = r.below(self.db.tables.len() as u64) as usize;
                let ints = self.db.tables[t].schema.cols_of(Ty::Int);
                let f = *r.pick(&[AggFn::CountStar, AggFn::Count, AggFn::Sum, AggFn::Min, AggFn::Max]);
                let agg = AggCall { f, arg: E::Col(*r.pick(&ints)), distinct: f != AggFn::CountStar && r.chance(1, 4) };
                let fg = QGen { db: self.db, subqueries: false, force_from: Some(From::Table(t)) };
                let branch = |r: &mut Rng| -> Query {
                    let where_ = if r.chance(4, 5) { Some(fg.gen_pred(r, &From::Table(t), 1)) } else { None };
                    Query::Core(Core {
                        from: From::Table(t),
                        where_,
                        group: Some(Group { keys: vec![], aggs: vec![agg.clone()], having: None }),
                        select: vec![E::Col(0)],
                        distinct: false,
                        order_by: vec![],
                        limit: None,
                        offset: 0,
                    })
                };
                let (l, rr) = (branch(r), branch(r));
                let two = Query::SetOp(op, all, Box::new(l), Box::new(rr));
                return if r.chance(1, 3) { Query::SetOp(SetOp::Union, true, Box::new(two), Box::new(branch(r))) } else { two };
            }
            let l = Query::Core(mk(r, want));
            let rr = Query::Core(mk(r, want));
            if r.chance(1, 4) {
                let op2 = *r.pick(&[SetOp::Union, SetOp::Intersect, SetOp::Except]);
                let third = Query::Core(mk(r, want));
                // chains are left-associative in the engine and in the model
                return Query::SetOp(op2, r.chance(1, 2), Box::new(Query::SetOp(op, all, Box::new(l), Box::new(rr))), Box::new(third));
            }
            return Query::SetOp(op, all, Box::new(l), Box::new(rr));
        }
        Query::Core(self.gen_core(r, true))
    }
}

/// AND/OR tree of comparisons between a column and a literal of its type (either operand order)
/// and BETWEENs; literals mostly occur in the column, so equality boundaries are hit
pub fn simple_pred_tree(r: &mut Rng, t: &TableDef) -> E {
    let cmp = [Op::Eq, Op::Ne, Op::Lt, Op::Le, Op::Gt, Op::Ge];
    let ncols = t.schema.cols.len();
    let mut leaf = |r: &mut Rng| -> E {
        let col = r.below(ncols as u64) as usize;
        let from_data = if t.rows.is_empty() { Lit::Null } else { t.rows[r.below(t.rows.len() as u64) as usize][col].clone() };
        let lit = match (t.schema.cols[col].1, from_data) {
            (Ty::Int, Lit::I(v)) if r.chance(4, 5) => Lit::I(v),
            (Ty::Int, _) => Lit::I(r.range(-3, 6)),
            (_, Lit::S(v)) if r.chance(4, 5) => Lit::S(v),
            (_, _) => Lit::S(r.pick(&["a", "ab", "b", ""]).to_string()),
        };
        // a negative number is rendered `(-n)`, which the engine parses as a unary minus, not a
        // literal, and then leaves the predicate-tree path: keep most literals non-negative
        let lit = match lit {
            Lit::I(v) if v < 0 && r.chance(4, 5) => Lit::I(-v),
            other => other,
        };
        match r.below(5) {
            0 | 1 => E::Bin(*r.pick(&cmp), Box::new(E::Col(col)), Box::new(E::Lit(lit))),
            2 | 3 => E::Bin(*r.pick(&cmp), Box::new(E::Lit(lit)), Box::new(E::Col(col))),
            _ => E::Between(Box::new(E::Col(col)), Box::new(E::Lit(lit.clone())), Box::new(E::Lit(lit)), r.chance(1, 4)),
        }
    };
    let mut pred = leaf(r);
    for k in 0..r.range(1, 3) {
        let l = leaf(r);
        let op = if k == 0 || r.chance(2, 3) { Op::Or } else { Op::And };
        pred = if r.chance(1, 2) { E::Bin(op, Box::new(pred), Box::new(l)) } else { E::Bin(op, Box::new(l), Box::new(pred)) };
    }
    pred
}

pub fn shift_cols(e: E, by: usize) -> E {
    let b = |x: Box<E>| Box::new(shift_cols(*x, by));
    match e {
        E::Col(i) => E::Col(i + by),
        E::Lit(l) => E::Lit(l),
        E::Bin(op, x, y) => E::Bin(op, b(x), b(y)),
        E::Not(x) => E::Not(b(x)),
        E::IsNull(x, n) => E::IsNull(b(x), n),
        E::Between(x, y, z, n) => E::Between(b(x), b(y), b(z), n),
        E::InList(x, vs, n) => E::InList(b(x), vs, n),
        E::Like(x, y, n) => E::Like(b(x), b(y), n),
        E::Ite(x, y, z) => E::Ite(b(x), b(y), b(z)),
        E::Coalesce(x, y) => E::Coalesce(b(x), b(y)),
    }
}

// ------------------------------------------------------------------------------------------
// tie-robust comparison of a query result with the reference

/// parsed `(rows DET (R…) (FULL…))` reply of the C01 / C32 drivers
pub struct RefResult {
    pub det: bool,
    pub rows: Vec<Vec<String>>,
    pub full: Vec<Vec<String>>,
}

pub fn parse_ref(reply: &str) -> Result<RefResult, String> {
    fn rows_of(s: &Sx) -> Vec<Vec<String>> {
        s.as_list().unwrap_or(&[]).iter().map(|r| r.as_list().unwrap_or(&[]).iter().map(|v| v.to_string()).collect()).collect()
    }
    match Sx::parse(reply) {
        Some(Sx::List(v)) if v.len() == 4 && v[0].as_atom() == Some("rows") => {
            Ok(RefResult { det: v[1].as_atom() == Some("1"), rows: rows_of(&v[2]), full: rows_of(&v[3]) })
        }
        _ => Err(reply.to_string()),
    }
}

fn join_row(r: &[String]) -> String {
    format!("({})", r.join(" "))
}

/// Compare an engine result with the reference. Returns Err(description) on a real difference.
/// * no LIMIT/OFFSET: multisets must be equal; sequences too when `det`
/// * LIMIT/OFFSET with a determined order: sequences must be equal
/// * LIMIT/OFFSET with ties ("ties aside"): same number of rows, the ORDER BY key columns form the
///   same sequence, and the rows are a sub-multiset of the unlimited reference result
pub fn compare_with_ref(engine: &[Vec<vibesql_types::SqlValue>], m: &RefResult, order_by: &[(usize, bool)], limited: bool) -> Result<&'static str, String> {
    let eng: Vec<Vec<String>> = engine.iter().map(|r| r.iter().map(crate::canon::val).collect()).collect();
    let bag = |x: &Vec<Vec<String>>| {
        let mut v: Vec<String> = x.iter().map(|r| join_row(r)).collect();
        v.sort();
        v
    };
    if !limited {
        if bag(&eng) != bag(&m.rows) {
            return Err("result multiset differs from the reference semantics".into());
        }
        if m.det && eng != m.rows {
            return Err("row sequence differs from the reference although ORDER BY determines it".into());
        }
        if !order_by.is_empty() {
            let keys = |x: &Vec<Vec<String>>| -> Vec<Vec<String>> { x.iter().map(|r| order_by.iter().map(|(i, _)| r.get(*i).cloned().unwrap_or_default()).collect()).collect() };
            if keys(&eng) != keys(&m.rows) {
                return Err("ORDER BY key sequence differs from the reference".into());
            }
        }
        return Ok(if m.det { "sequence_compared" } else { "multiset_compared" });
    }
    if m.det {
        if eng != m.rows {
            return Err("LIMIT/OFFSET slice differs from the reference although ORDER BY determines the order".into());
        }
        return Ok("limited_sequence_compared");
    }
    if eng.len() != m.rows.len() {
        return Err("LIMIT/OFFSET returns a different number of rows than the reference".into());
    }
    if !order_by.is_empty() {
        let keys = |x: &Vec<Vec<String>>| -> Vec<Vec<String>> { x.iter().map(|r| order_by.iter().map(|(i, _)| r.get(*i).cloned().unwrap_or_default()).collect()).collect() };
        if keys(&eng) != keys(&m.rows) {
            return Err("LIMIT/OFFSET slice: ORDER BY key sequence differs from the reference".into());
        }
    }
    let mut pool = bag(&m.full);
    for r in bag(&eng) {
        match pool.iter().position(|x| *x == r) {
            Some(i) => {
                pool.remove(i);
            }
            None => return Err("LIMIT/OFFSET slice contains a row that the unlimited reference result does not".into()),
        }
    }
    Ok("limited_ties_compared")
}
