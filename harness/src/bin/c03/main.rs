//! C03 — the columnar aggregate fast path returns exactly what row execution returns.
//!
//! Direct oracle (real engine only): every statement is executed twice in-process, with the
//! columnar gate enabled and with it forced off (hook H1, env VIBESQL_VERIF_NO_COLUMNAR read by
//! `should_use_columnar` on every call); the two results must agree (numerics by value, floats
//! to 1e-9 relative; error vs error).  Hook-free cross-check: the same statement with its WHERE
//! clause wrapped as `NOT (NOT (p))`, which the gate rejects.
//! Correspondence: Lean model `execute` (= columnar path as coded, row path when it declines)
//! vs engine gate-on, and model `rowPath` vs engine gate-off.
mod agg_common;
use agg_common::*;
use serde_json::json;
use vharness::qast::{Lit, Schema};
use vharness::*;

struct Ctx<'a> {
    rep: &'a mut Report,
    model: &'a mut model::Model,
}

fn replay(s: &Schema, t: &Table, sql: &str, extra: &str) -> String {
    format!(
        "{}-- gate on: as is; gate off: run with env {}=1 (harness built with --cfg vibesql_verif)\n{};\n{}",
        script(s, t),
        ENV_NO_COLUMNAR,
        sql,
        extra
    )
}

/// runs `sql` with the gate on and off
fn both(db: &mut Db, sql: &str) -> (Out, Out) {
    columnar(true);
    let on = db.query(sql);
    columnar(false);
    let off = db.query(sql);
    columnar(true);
    (on, off)
}

/// known-finding class: a predicate compares a column with a literal of another type class.
/// Row execution raises TypeMismatch; the columnar filter cannot report errors.
fn ill_typed(q: &Stmt, s: &Schema) -> bool {
    use vharness::qast::Ty;
    let bad = |col: usize, l: &Lit| match (s.cols[col].1, l) {
        (_, Lit::Null) => false,
        (Ty::Int, Lit::I(_)) | (Ty::Str, Lit::S(_)) => false,
        _ => true,
    };
    q.preds.iter().any(|p| match p {
        Pred::Cmp { col, lit, .. } => bad(*col, lit),
        Pred::Between { col, lo, hi } => bad(*col, lo) || bad(*col, hi),
    })
}

fn run_stmt(cx: &mut Ctx, s: &Schema, t: &Table, db: &mut Db, rows_sx: &str, q: &Stmt, tag: &str) {
    let sql = q.sql(s);
    let id = format!("{}|{}|{}", rows_sx.len(), rows_sx, sql);
    let (on, off) = both(db, &sql);
    let sig = if ill_typed(q, s) { Some("C03/ill-typed-predicate") } else { None };

    // ---- direct oracle: gate on == gate off ----
    let agree = outs_agree(&on, &off);
    if on.is_panic() || off.is_panic() {
        cx.rep.fail(FailKind::Oracle, sig, "engine panicked on an aggregate query", &replay(s, t, &sql, &format!("on : {}\noff: {}", on.brief(), off.brief())));
    } else if !agree {
        cx.rep.fail(
            FailKind::Oracle,
            sig,
            &format!("columnar gate on and off give different results ({})", tag),
            &replay(s, t, &sql, &format!("on : {}\noff: {}", on.brief(), off.brief())),
        );
    }
    // hook-free cross-check: NOT (NOT p) is rejected by the gate
    if !q.preds.is_empty() && sig.is_none() {
        let mut q2 = sql.clone();
        let w = q.preds.iter().map(|p| p.sql(s)).collect::<Vec<_>>().join(" AND ");
        q2 = q2.replacen(&format!("WHERE {}", w), &format!("WHERE NOT (NOT ({}))", w), 1);
        columnar(true);
        let rw = db.query(&q2);
        if !outs_agree(&on, &rw) {
            cx.rep.fail(
                FailKind::Oracle,
                None,
                "statement and its gate-rejected rewrite WHERE NOT (NOT p) give different results",
                &replay(s, t, &sql, &format!("{};\nfirst : {}\nsecond: {}", q2, on.brief(), rw.brief())),
            );
        }
        cx.rep.count("rewrite_crosschecks");
    }

    // ---- measured distribution / non-triviality ----
    let filtered = ref_filter(&q.preds, &t.rows).map(|f| f.len()).unwrap_or(0);
    let gate = q.gate_shape();
    cx.rep.case(&id, t.rows.len() > 0 && (gate || q.having.is_some() || q.limit.is_some() || q.offset.is_some()));
    cx.rep.count(&format!("table_size_{}", size_class(t.rows.len())));
    cx.rep.count(if gate { "shape_gate_accepted" } else { "shape_gate_rejected(having/order/limit/offset/distinct/sum-int)" });
    for it in &q.items {
        cx.rep.count(&format!("agg_{}{}", it.f.proto(), if it.arg.is_none() { "_star" } else if it.distinct { "_distinct" } else { "" }));
    }
    for p in &q.preds {
        cx.rep.count(match p {
            Pred::Between { .. } => "pred_between",
            Pred::Cmp { reversed: true, .. } => "pred_cmp_reversed",
            Pred::Cmp { .. } => "pred_cmp",
        });
    }
    if q.preds.len() >= 2 {
        cx.rep.count("pred_and");
    }
    if q.having.is_some() {
        cx.rep.count("having");
    }
    if q.order_by {
        cx.rep.count("order_by");
    }
    if q.limit.is_some() {
        cx.rep.count("limit");
    }
    if q.offset.is_some() {
        cx.rep.count("offset");
    }
    if filtered == 0 && !t.rows.is_empty() {
        cx.rep.count("where_selects_nothing");
    }
    match &on {
        Out::Rows(r) => cx.rep.count(&format!("result_rows_{}", r.len())),
        Out::Err { class, .. } => cx.rep.count(&format!("engine_error_{}", class)),
        _ => {}
    }

    // ---- correspondence with the Lean model ----
    let reply = cx.model.ask(&format!("query {} {}", q.sx_head(), rows_sx));
    let parsed = Sx::parse(&reply);
    let parts = parsed.as_ref().and_then(|x| x.as_list()).filter(|v| v.len() == 4 && v[0].as_atom() == Some("q"));
    let Some(parts) = parts else {
        cx.rep.fail(FailKind::ModelDiff, None, "model driver did not answer the query request", &replay(s, t, &sql, &format!("model: {}", reply)));
        return;
    };
    cx.rep.traces_validated += 1;
    if parts[3].as_atom() == Some("declined") {
        cx.rep.count("model_columnar_declined");
    } else {
        cx.rep.count("model_columnar_taken");
    }
    for (which, out, mx) in [("gate on vs model execute", &on, &parts[1]), ("gate off vs model rowPath", &off, &parts[2])] {
        let m = rows_of_sx(mx);
        let ok = match (&m, out) {
            (Some(Ok(want)), Out::Rows(got)) => rows_match(got, want),
            (Some(Err(_)), Out::Err { .. }) => true,
            _ => false,
        };
        if !ok {
            cx.rep.fail(
                FailKind::ModelDiff,
                sig,
                &format!("engine and model disagree ({})", which),
                &replay(s, t, &sql, &format!("engine: {}\nmodel : {}\nrequest: query {} <rows>", out.brief(), mx, q.sx_head())),
            );
        }
    }
}

fn rows_sx_of(t: &Table) -> String {
    vharness::qast::rows_sx(&t.rows).to_string()
}

/// deterministic probes: every defect repaired for C03 plus boundary tables, each on every run
fn probes(cx: &mut Ctx, s: &Schema) {
    let n = Lit::Null;
    let i = |x: i64| Lit::I(x);
    let st = |x: &str| Lit::S(x.to_string());
    let base = Table {
        rows: vec![
            vec![i(1), i(10), i(7), st("b")],
            vec![n.clone(), i(20), i(7), st("a")],
            vec![i(3), n.clone(), i(7), st("c")],
            vec![n.clone(), n.clone(), n.clone(), n.clone()],
            vec![i(5), i(50), i(-7), st("ab")],
        ],
        fill: vec![],
    };
    let all_null = Table { rows: (0..3).map(|_| vec![n.clone(), n.clone(), n.clone(), n.clone()]).collect(), fill: vec![] };
    let empty = Table { rows: vec![], fill: vec![] };
    let one = Table { rows: vec![vec![i(2), n.clone(), i(0), st("")]], fill: vec![] };
    // 110 rows: c0 NULL in the first 105 rows (scalar kernel), c1 dense
    let prefix = Table {
        rows: (0..110).map(|k| vec![if k < 105 { n.clone() } else { i(k - 100) }, i(k % 7), if k % 2 == 0 { n.clone() } else { i(k) }, if k < 105 { n.clone() } else { st(STRS[(k % 5) as usize]) }]).collect(),
        fill: vec![],
    };
    // 1030 rows: more than one SIMD batch of 1024, a remainder not divisible by 4
    let big = Table {
        rows: (0..1030).map(|k| vec![if k % 9 == 0 { n.clone() } else { i(k % 13 - 4) }, i(k), if k == 1029 { i(-99) } else { n.clone() }, st(STRS[(k % 7) as usize])]).collect(),
        fill: vec![],
    };
    let item = |f: Fn_, arg: Option<usize>| Item { f, arg, distinct: false };
    let all_items = |c: usize| vec![item(Fn_::Count, None), item(Fn_::Count, Some(c)), item(Fn_::Sum, Some(c)), item(Fn_::Avg, Some(c)), item(Fn_::Min, Some(c)), item(Fn_::Max, Some(c))];
    let plain = |items: Vec<Item>, preds: Vec<Pred>| Stmt { items, preds, having: None, order_by: false, limit: None, offset: None };
    let cmp = |op: Cmp, col: usize, lit: Lit| Pred::Cmp { op, col, lit, reversed: false };
    let mut shapes: Vec<Stmt> = vec![];
    for c in 0..3 {
        shapes.push(plain(all_items(c), vec![]));
        shapes.push(plain(all_items(c), vec![cmp(Cmp::Ge, 0, i(0))]));
        shapes.push(plain(all_items(c), vec![cmp(Cmp::Gt, 1, i(1000000))])); // selects nothing
    }
    shapes.push(plain(vec![item(Fn_::Count, None)], vec![]));
    shapes.push(plain(vec![item(Fn_::Count, Some(3)), item(Fn_::Min, Some(3)), item(Fn_::Max, Some(3)), item(Fn_::Count, None)], vec![]));
    shapes.push(plain(vec![item(Fn_::Min, Some(3)), item(Fn_::Max, Some(3))], vec![cmp(Cmp::Gt, 3, st("a"))]));
    for op in Cmp::ALL {
        shapes.push(plain(vec![item(Fn_::Count, None), item(Fn_::Avg, Some(1)), item(Fn_::Max, Some(1))], vec![cmp(op, 0, i(3))]));
        shapes.push(plain(vec![item(Fn_::Count, None), item(Fn_::Count, Some(0))], vec![Pred::Cmp { op, col: 0, lit: i(3), reversed: true }]));
        shapes.push(plain(vec![item(Fn_::Count, None)], vec![cmp(op, 0, n.clone())]));
        shapes.push(plain(vec![item(Fn_::Count, None), item(Fn_::Min, Some(0))], vec![cmp(op, 3, st("b"))]));
    }
    shapes.push(plain(vec![item(Fn_::Count, None), item(Fn_::Avg, Some(1))], vec![Pred::Between { col: 0, lo: i(1), hi: i(3) }]));
    shapes.push(plain(vec![item(Fn_::Count, None)], vec![Pred::Between { col: 0, lo: i(3), hi: i(1) }]));
    shapes.push(plain(vec![item(Fn_::Count, None)], vec![Pred::Between { col: 0, lo: n.clone(), hi: i(3) }]));
    shapes.push(plain(vec![item(Fn_::Count, None), item(Fn_::Avg, Some(1))], vec![cmp(Cmp::Ge, 0, i(1)), Pred::Between { col: 1, lo: i(5), hi: i(50) }]));
    // HAVING / ORDER BY / LIMIT / OFFSET
    for (h, l, o, ob) in [
        (Some(Having { item: 0, op: Cmp::Gt, lit: 100 }), None, None, false),
        (Some(Having { item: 0, op: Cmp::Ge, lit: 0 }), None, None, false),
        (None, Some(0), None, false),
        (None, Some(1), None, false),
        (None, None, Some(1), false),
        (None, None, Some(0), false),
        (None, Some(1), Some(1), false),
        (None, None, None, true),
        (Some(Having { item: 1, op: Cmp::Lt, lit: 4 }), Some(1), Some(0), true),
    ] {
        shapes.push(Stmt { items: vec![item(Fn_::Count, None), item(Fn_::Avg, Some(0))], preds: vec![], having: h, order_by: ob, limit: l, offset: o });
    }
    // DISTINCT aggregates (declined by the extractor)
    shapes.push(plain(vec![Item { f: Fn_::Count, arg: Some(2), distinct: true }, Item { f: Fn_::Sum, arg: Some(2), distinct: true }, Item { f: Fn_::Avg, arg: Some(2), distinct: true }], vec![]));
    for (name, t) in [("base", &base), ("all-null", &all_null), ("empty", &empty), ("one-row", &one), ("null-prefix-110", &prefix), ("big-1030", &big)] {
        let mut db = load_table(s, t);
        let rsx = rows_sx_of(t);
        for q in &shapes {
            run_stmt(cx, s, t, &mut db, &rsx, q, name);
            cx.rep.count("probe_statements");
        }
        // raw SQL probes (shapes outside the model): on vs off only
        for sql in [
            "SELECT *, COUNT(*) FROM t",
            "SELECT COUNT(*) + 1, SUM(c0) FROM t",
            "SELECT SUM(c0 + c1), AVG(c0 * 2), MIN(c0 - c1), MAX(c1 + 1), COUNT(c0 + c1) FROM t",
            "SELECT SUM(c0 + c1), COUNT(*) FROM t WHERE c1 >= 10",
            "SELECT COUNT(*) FROM t WHERE c0 BETWEEN SYMMETRIC 3 AND 1",
            "SELECT COUNT(*) FROM t WHERE c0 NOT BETWEEN 1 AND 3",
            "SELECT COUNT(*) FROM t WHERE c0 <> 1",
            "SELECT COUNT(*) FROM t WHERE c0 > 0 OR c1 > 0",
            "SELECT COUNT(*), MIN(c0) FROM t WHERE c0 = c1",
            "SELECT COUNT(*) FROM t AS x WHERE x.c0 < 5",
            "SELECT count(*), avg(t.c0) FROM t WHERE t.c0 < 5",
            "SELECT AVG(s), SUM(s) FROM t",
            "SELECT COUNT(1), MAX(1), SUM(1) FROM t",
            "SELECT DISTINCT COUNT(*) FROM t",
            "SELECT COUNT(*) FROM t WHERE c0 > -1",
        ] {
            let (on, off) = both(&mut db, sql);
            cx.rep.case(&format!("{}|{}", name, sql), !t.rows.is_empty());
            cx.rep.count("probe_raw_sql");
            if !outs_agree(&on, &off) {
                cx.rep.fail(FailKind::Oracle, None, &format!("columnar gate on and off give different results (raw probe, table {})", name), &replay(s, t, sql, &format!("on : {}\noff: {}", on.brief(), off.brief())));
            }
        }
    }
    // several full SIMD batches (1024 values each) + a remainder.  c0 (NULL every 11th row) has its
    // unique minimum / maximum planted in the FIRST batch (big-2100; big-2400 and big-3413 have two /
    // three full batches of non-NULL c0 after it), in the LAST FULL batch
    // (big-3300) and in the REMAINDER (big-2048: 1861 non-NULL values = 1 batch + 837); c1 = k is
    // dense with its minimum in the first batch and its maximum in the remainder.  A kernel that
    // forgets earlier batches, the last full batch or the remainder is wrong on one of them.
    // Reduced shape list, the tables are large.
    for (name, n_rows, at_min, at_max) in [("big-2100", 2100i64, 10i64, 20i64), ("big-2400", 2400, 10, 20), ("big-3300", 3300, 2500, 2600), ("big-2048", 2048, 2040, 1500), ("big-3413", 3413, 3400, 5)] {
        let t = Table {
            rows: (0..n_rows)
                .map(|k| {
                    let c0 = if k == at_min { i(-500) } else if k == at_max { i(9000) } else if k % 11 == 0 { n.clone() } else { i(k % 97) };
                    vec![c0, i(k), if k % 3 == 0 { n.clone() } else { i(k % 5) }, st(STRS[(k % 7) as usize])]
                })
                .collect(),
            fill: vec![],
        };
        let mut db = load_table(s, &t);
        let rsx = rows_sx_of(&t);
        for q in [
            plain(all_items(0), vec![]),
            plain(all_items(0), vec![cmp(Cmp::Ge, 1, i(5))]),
            plain(all_items(1), vec![cmp(Cmp::Lt, 1, i(n_rows - 3))]),
            plain(vec![item(Fn_::Min, Some(3)), item(Fn_::Max, Some(3)), item(Fn_::Count, Some(3))], vec![]),
            // without SUM(int) (which makes the whole statement decline the columnar path)
            plain(vec![item(Fn_::Min, Some(1)), item(Fn_::Max, Some(1)), item(Fn_::Count, Some(1)), item(Fn_::Count, None)], vec![]),
            plain(vec![item(Fn_::Min, Some(1)), item(Fn_::Max, Some(1)), item(Fn_::Avg, Some(1))], vec![cmp(Cmp::Lt, 1, i(n_rows - 3))]),
            plain(vec![item(Fn_::Min, Some(0)), item(Fn_::Max, Some(0)), item(Fn_::Avg, Some(0)), item(Fn_::Count, Some(0))], vec![]),
            plain(vec![item(Fn_::Max, Some(1)), item(Fn_::Min, Some(1))], vec![cmp(Cmp::Ge, 1, i(7))]),
        ] {
            run_stmt(cx, s, &t, &mut db, &rsx, &q, name);
            cx.rep.count("probe_statements_large");
        }
    }
    // known finding: ill-typed predicate (column compared with a literal of another type class)
    {
        let mut db = load_table(s, &base);
        let rsx = rows_sx_of(&base);
        for q in [
            plain(vec![item(Fn_::Count, None)], vec![cmp(Cmp::Eq, 0, st("a"))]),
            plain(vec![item(Fn_::Count, None)], vec![cmp(Cmp::Ge, 3, i(3))]),
        ] {
            run_stmt(cx, s, &base, &mut db, &rsx, &q, "ill-typed");
        }
    }
}

/// floats are not modelled: SUM/AVG/MIN/MAX over a DOUBLE column, gate on vs gate off only.
/// Values are multiples of 1/4 so that every partial sum is exact in f64.
fn float_stream(cx: &mut Ctx, rng: &mut Rng, tables: u64) {
    let forced: [usize; 4] = [1500, 2600, 1024, 2050];
    for ti in 0..tables + forced.len() as u64 {
        let class = *rng.pick(&[0u32, 1, 2, 2, 3, 4]);
        // the first tables have several full 1024-value batches plus a remainder
        let n = if (ti as usize) < forced.len() { forced[ti as usize] } else { gen_size(rng, class, 1100) };
        let mut db = Db::new();
        db.keep_log = true;
        db.must("CREATE TABLE f (k INTEGER, d DOUBLE PRECISION)");
        let null_pct = if (ti as usize) < forced.len() { [10u64, 0, 0, 20][ti as usize] } else { *rng.pick(&[0u64, 20, 100]) };
        let mut batch = vec![];
        for k in 0..n {
            let mut d = if rng.below(100) < null_pct { "NULL".to_string() } else { format!("{}", rng.range(0, 400) as f64 / 4.0 + 0.25) };
            if (ti as usize) < forced.len() {
                // unique extremes: minimum in the first batch, maximum in the last full batch (forced
                // tables 0,1) or in the remainder / first batch (2,3)
                let (at_min, at_max) = [(5usize, 1100usize), (2590, 2100), (1000, 3), (2049, 700)][ti as usize];
                if k == at_min {
                    d = "0.0".into();
                } else if k == at_max {
                    d = "5000.5".into();
                }
            }
            batch.push(format!("({}, {})", k % 10, d));
            if batch.len() == 50 || k + 1 == n {
                db.must(&format!("INSERT INTO f VALUES {}", batch.join(", ")));
                batch.clear();
            }
        }
        for sql in [
            "SELECT COUNT(*), COUNT(d), SUM(d), AVG(d), MIN(d), MAX(d) FROM f",
            "SELECT SUM(d), AVG(d), COUNT(*) FROM f WHERE k >= 5",
            "SELECT MIN(d), MAX(d), AVG(d) FROM f WHERE k >= 0",
            "SELECT SUM(d), MIN(d) FROM f WHERE k BETWEEN 2 AND 3 AND k < 3",
            "SELECT SUM(d * 2), AVG(d + k) FROM f WHERE k = 4",
            "SELECT SUM(d) FROM f WHERE k > 100",
        ] {
            let (on, off) = both(&mut db, sql);
            cx.rep.case(&format!("float|{}|{}|{}", n, null_pct, sql), n > 0);
            cx.rep.count("float_statements(direct oracle only)");
            if !outs_agree(&on, &off) {
                cx.rep.fail(
                    FailKind::Oracle,
                    None,
                    "columnar gate on and off give different results over a DOUBLE column",
                    &format!("{};\n{};\non : {}\noff: {}", db.log.join(";\n"), sql, on.brief(), off.brief()),
                );
            }
        }
    }
}

/// Value-domain stream (floats and i64 extremes are not modelled: direct oracle only).  Every
/// statement runs with the gate on and forced off; MIN / MAX / COUNT must agree exactly, SUM / AVG
/// to 1e-9 relative.
fn num_stream(cx: &mut Ctx, rng: &mut Rng, thorough: bool) {
    for (n, d_dom, b_dom) in num_plan(rng, thorough) {
        let c = gen_num_case(rng, n, d_dom, b_dom);
        let mut db = load_num_case(&c);
        cx.rep.count(&format!("num_domain_d_{}", d_dom));
        cx.rep.count(&format!("num_domain_b_{}", b_dom));
        cx.rep.count(&format!("num_size_{}", n));
        for st in num_statements(&c) {
            let sql = st.sql();
            let (on, off) = both(&mut db, &sql);
            let sig = if epsilon_class(&c, &st) { Some("C03/filter-epsilon") } else { None };
            cx.rep.case(&format!("num|{}|{}|{}|{}|{}", n, d_dom, b_dom, c.null_pct, sql), true);
            cx.rep.count("num_statements(direct oracle only)");
            if let Some((op, fl)) = st.pred {
                cx.rep.count(&format!("num_pred_{}_{}_{}", st.col, op.proto(), if fl { "0.0" } else { "0" }));
            }
            if !num_outs_agree(&st, &on, &off) {
                cx.rep.fail(
                    FailKind::Oracle,
                    sig,
                    &format!("columnar gate on and off give different results (value domain stream, column {})", st.col),
                    &format!("{}{};
on : {}
off: {}", num_case_text(&c), sql, on.brief(), off.brief()),
                );
            }
        }
    }
}

fn main() {
    engine::silence_panics();
    let args = Args::parse("C03");
    let mut rep = Report::new(
        &args,
        "case = (table contents, aggregate statement); each run with the columnar gate on, off, and through the Lean model; \
         non-trivial = non-empty table and the statement either has a gate-accepted shape (so the two executions really use \
         different code) or carries HAVING/LIMIT/OFFSET; distinct by hash of (rows, SQL)",
    );
    rep.assumptions.push("integer values are small (|v| <= 1100), so sums stay far below 2^53 and i64 (overflow / f64 rounding of huge sums is C24's subject)".into());
    rep.assumptions.push("floats are not modelled: DOUBLE columns are covered by the gate-on vs gate-off oracle only, with values that are multiples of 1/4".into());
    rep.assumptions.push("numerics are compared by value: SUM/AVG come back as DOUBLE from the columnar kernels and as INTEGER/NUMERIC from the accumulators".into());
    rep.assumptions.push("the hook VIBESQL_VERIF_NO_COLUMNAR (cfg vibesql_verif) only skips should_use_columnar; strings are ASCII".into());
    let mut model = args.model();
    let mut rng = Rng::new(args.seed);
    let s = schema();
    {
        let mut cx = Ctx { rep: &mut rep, model: &mut model };
        probes(&mut cx, &s);
        // generated: tables x statements
        let tables = args.n(150, 1500);
        let per_table = args.n(14, 30);
        let big_hi = args.n(1100, 5000) as i64;
        for ti in 0..tables {
            let class = match ti % 12 {
                0 => 0,
                1 => 1,
                2..=6 => 2,
                7..=10 => 3,
                _ => 4,
            };
            let mut r = rng.fork();
            let n = gen_size(&mut r, class, big_hi);
            let t = gen_table(&mut r, &s, n);
            let mut db = load_table(&s, &t);
            let rsx = rows_sx_of(&t);
            for f in &t.fill {
                cx.rep.count(&format!("column_fill_{}", f));
            }
            for qi in 0..per_table {
                // 2/3 gate-accepted shapes, 1/3 with HAVING/ORDER BY/LIMIT/OFFSET or DISTINCT
                let tail = qi % 3 == 2;
                let dist = tail && r.chance(1, 2);
                let q = gen_stmt(&mut r, &s, tail, dist);
                if ti < 3 && qi == 0 {
                    cx.rep.sample(json!({"table_rows": t.rows.len(), "sql": q.sql(&s), "model_request": format!("query {} <rows>", q.sx_head())}));
                }
                run_stmt(&mut cx, &s, &t, &mut db, &rsx, &q, "generated");
            }
        }
        let mut r = rng.fork();
        float_stream(&mut cx, &mut r, args.n(8, 80));
        let mut r = rng.fork();
        num_stream(&mut cx, &mut r, !args.quick());
    }
    columnar(true);
    std::process::exit(rep.finish());
}
