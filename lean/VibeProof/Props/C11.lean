import VibeProof.Lemmas.Dml
import VibeProof.Generated.Consts
/-
C11 — failed DML statements leave the database unchanged.

Same state machine as C10 (`VibeProof.Dml`, Model/Dml.lean), whose statements are split in the
executors' phases.  Observable state of a table = rows in storage order + what its hash indexes
answer (`observe`).  The theorems quantify over every table state (no invariant needed), every
row list, predicate and assignment function, hence over every position at which a row fails.

Full on the fragment where every write happens after the last fallible phase (plain and REPLACE
INSERT, UPDATE, DELETE, TRUNCATE, ALTER TABLE ADD CONSTRAINT); false as coded for the row-by-row
loop of ON DUPLICATE KEY UPDATE (no statement-level undo; counterexample below; the bulk INSERT … SELECT
transfer had the same defect and was repaired) and for statements with triggers (Props/C34.lean,
`C34_fail_*_counterexample`), which are replayed on the real code by the C11 harness.
-/
namespace VibeProof.C11
open VibeProof VibeProof.Dml

abbrev thr : Nat := VibeProof.Generated.appendModeThreshold

/-- the full statement: an erroring statement leaves the observable state unchanged -/
def C11_full : Prop :=
  ∀ (t : Table) (s : Stmt) (e : DErr), (step thr t s).2 = .err e → observe (step thr t s).1 = observe t

/-- statements whose executor validates everything before it writes anything -/
def ValidateThenWrite : Stmt → Prop
  | .insert _ (.onDup _) => False
  | _ => True

/-- on that fragment a failing statement changes nothing at all (not even unobservable state) -/
theorem C11_failed_statement_unchanged_partial (n : Nat) (t : Table) (s : Stmt) (e : DErr)
    (hs : ValidateThenWrite s) (h : (step n t s).2 = .err e) : (step n t s).1 = t := by
  cases s with
  | insert rows mode =>
    cases mode with
    | plain =>
      simp only [step, Table.insertStmt] at h ⊢
      split
      · rfl
      · split
        · rfl
        · rename_i h1 _ hv; simp [h1, hv] at h
    | replace =>
      simp only [step, Table.insertStmt] at h ⊢
      split
      · rfl
      · split
        · rfl
        · rename_i h1 _ hv; simp [h1, hv] at h
    | onDup f => exact absurd hs (by simp [ValidateThenWrite])
  | bulk rows =>
    simp only [step, Table.bulkStmt] at h ⊢
    split
    · rfl
    · split
      · rfl
      · simp_all
  | update sel f =>
    simp only [step, Table.updateStmt] at h ⊢
    split
    · rfl
    · split
      · rfl
      · simp_all
  | delete sel => simp [step, Table.deleteStmt] at h
  | truncate => simp [step, Table.truncateStmt] at h
  | addPk cols =>
    simp only [step, Table.addPrimaryKey] at h ⊢
    split
    · rfl
    · split
      · rfl
      · split
        · rfl
        · rename_i h1 h2 h3; simp [h1, h2, h3] at h
  | addUnique cols =>
    simp only [step, Table.addUnique] at h ⊢
    split
    · rfl
    · split
      · rfl
      · rename_i h1 h2; simp [h1, h2] at h
  | addCheck c =>
    simp only [step, Table.addCheck] at h ⊢
    split
    · rfl
    · rename_i h1; simp [h1] at h

/-- hence the observable state is unchanged -/
theorem C11_failed_statement_observe_partial (t : Table) (s : Stmt) (e : DErr)
    (hs : ValidateThenWrite s) (h : (step thr t s).2 = .err e) : observe (step thr t s).1 = observe t := by
  rw [C11_failed_statement_unchanged_partial thr t s e hs h]

theorem foldl_pushRow_rows (n : Nat) : ∀ (rows : List Row) (t : Table),
    (rows.foldl (Table.pushRow n) t).rows = t.rows ++ rows := by
  intro rows
  induction rows with
  | nil => intro t; simp
  | cons r rs ih => intro t; simp [ih, Table.pushRow]

/-- a successful multi-row INSERT applies all of its rows, in order -/
theorem C11_successful_insert_applies_all_rows (n : Nat) (t : Table) (rows : List Row) (k : Nat)
    (h : (step n t (.insert rows .plain)).2 = .ok k) :
    (step n t (.insert rows .plain)).1.rows = t.rows ++ rows ∧ k = rows.length := by
  simp only [step, Table.insertStmt] at h ⊢
  split at h
  · simp at h
  · split at h
    · simp at h
    · rename_i hv
      rename_i hne _
      simp only [Out.ok.injEq] at h
      rw [if_neg hne]
      simp [hv, foldl_pushRow_rows, h]

/-- a successful UPDATE writes exactly the planned rows: every selected row is replaced by its
new image (`applyUpdates` is a fold of `updateAt` over all of them) and the count is their number -/
theorem C11_successful_update_count (t : Table) (sel : Row → Except DErr Bool) (f : Row → Except DErr Row)
    (k : Nat) (h : (t.updateStmt sel f).2 = .ok k) :
    ∃ cands us, Table.selectRows sel t.rows 0 = .ok cands ∧ t.planUpdates f cands [] = .ok us ∧
      us.map Prod.fst = cands.map Prod.fst ∧ k = us.length ∧ (t.updateStmt sel f).1 = t.applyUpdates us := by
  unfold Table.updateStmt at h ⊢
  split at h
  · simp at h
  · rename_i cands hc
    split at h
    · simp at h
    · rename_i us hus
      simp only [Out.ok.injEq] at h
      refine ⟨cands, us, hc, hus, (planUpdates_spec t f cands [] us hus).1, h.symm, ?_⟩
      simp [hus]

/-- The write phase of UPDATE cannot fail once planning succeeded: every planned row passed the
column-type / NOT NULL / CHECK / key validation (`validateUpdateRow`, which is what
`Table::normalize_row` + `ConstraintValidator` check before the first write since the repair),
and every planned position is an existing row position at every step of the write loop
(`update_row_selective` returns `ColumnIndexOutOfBounds` only for a position past the end; the
model's `updateAt` would silently skip it). -/
theorem C11_update_write_phase_infallible (t : Table) (sel : Row → Except DErr Bool) (f : Row → Except DErr Row)
    (cands us : List (Nat × Row)) (hc : Table.selectRows sel t.rows 0 = .ok cands)
    (hp : t.planUpdates f cands [] = .ok us) :
    (∀ p ∈ us, p.1 < t.rows.length ∧ p.2.all Table.coerceOk = true ∧ t.checkNotNull p.2 = true) ∧
    (∀ (i : Nat) (new : Row) (t' : Table), (t'.updateAt i new).rows.length = t'.rows.length) := by
  constructor
  · intro p hpm
    obtain ⟨s1, _⟩ := selectRows_spec sel t.rows 0 cands hc
    obtain ⟨_, p2, _⟩ := planUpdates_spec t f cands [] us hp
    obtain ⟨old, ho1, ho2, _⟩ := p2 p hpm
    have hget := (s1 (p.1, old) ho1).2
    simp only [Nat.sub_zero] at hget
    have hlt : p.1 < t.rows.length := by
      rcases Nat.lt_or_ge p.1 t.rows.length with h | h
      · exact h
      · rw [List.getElem?_eq_none h] at hget; simp at hget
    refine ⟨hlt, ?_, (validateUpdateRow_ok t old p.2 ho2).1⟩
    unfold Table.validateUpdateRow at ho2
    split at ho2
    · simp at ho2
    · rename_i h; simpa using h
  · intro i new t'
    unfold Table.updateAt
    split <;> simp

/-! non-vacuity of the hypotheses: a failing statement of the fragment on a non-trivial state -/

def demo : Table := run thr (Table.create 2 [0] (some [0]) [] [])
  [.insert [[.int 1, .int 1], [.int 2, .int 1]] .plain]

example : ValidateThenWrite (.insert [[.int 3, .int 1], [.int 2, .int 5]] .plain) ∧
    (step thr demo (.insert [[.int 3, .int 1], [.int 2, .int 5]] .plain)).2 = .err .constraint ∧
    demo.rows.length = 2 := ⟨trivial, by decide, by decide⟩

/-! counterexamples: the full statement is false of the code as it is -/

/-- ON DUPLICATE KEY UPDATE: the second row's update is rejected, the first row stays inserted -/
theorem C11_on_duplicate_key_counterexample : ¬ C11_full := by
  intro h
  have := h demo (.insert [[.int 3, .int 1], [.int 2, .int 5]] (.onDup (fun old _ => .ok (old.set 0 (.int 1)))))
    .constraint (by decide)
  revert this
  decide

/-- the bulk INSERT … SELECT transfer *before* the repair (row-by-row `bulkLoop`): the second
source row fails, the first one stays — repaired by validating all rows first (`bulkStmt`) -/
theorem C11_bulk_pre_repair_counterexample :
    (Table.bulkLoop thr false demo [] [[.int 3, .int 1], [.int 2, .int 5]] 0).2 = .err .constraint ∧
    (Table.bulkLoop thr false demo [] [[.int 3, .int 1], [.int 2, .int 5]] 0).1.rows ≠ demo.rows := by
  decide

end VibeProof.C11
