import VibeProof.Props.C17
#print axioms VibeProof.C17.C17_new
#print axioms VibeProof.C17.C17_insert
#print axioms VibeProof.C17.C17_lookup
#print axioms VibeProof.C17.C17_multi_lookup
#print axioms VibeProof.C17.C17_range_scan
#print axioms VibeProof.C17.C17_delete_partial
#print axioms VibeProof.C17.C17_delete_specific_partial
#print axioms VibeProof.C17.C17_run_refines
#print axioms VibeProof.C17.C17_delete
#print axioms VibeProof.C17.C17_delete_specific
#print axioms VibeProof.C17.C17_bulk_load
#print axioms VibeProof.C17.C17_range_scan_entries
