//! C17 — the disk-backed B+ tree behaves as an ordered multimap and stays well-formed.
//!
//! Real code: `BTreeIndex::{new, bulk_load, insert, delete, delete_specific, lookup, multi_lookup,
//! range_scan}` over a `PageManager` on a private directory under /verif/.run (removed afterwards).
//! After every operation:
//!   * direct oracle (no model): the answer equals that of a `BTreeMap<rank, Vec<row id>>`, and the
//!     persisted pages (hook `verif_dump`) are well-formed: keys strictly sorted in every node, every
//!     key between the separators around its child, uniform leaf depth = height - 1, the `next_leaf`
//!     chain visits exactly the in-order leaves, node sizes within the bounds the code maintains, no
//!     empty row-id list, in-order entries = the reference map;
//!   * correspondence: answer and the whole node structure equal the Lean model's (`drv_c17`).
use std::collections::BTreeMap;
use std::panic::{catch_unwind, AssertUnwindSafe};
use std::sync::Arc;

use vharness::*;
use vibesql_storage::btree::{BTreeIndex, VerifNode};
use vibesql_storage::page::PageManager;
use vibesql_storage::NativeStorage;
use vibesql_types::{DataType, SqlValue};

type RKey = Vec<SqlValue>;

#[derive(Clone, Debug)]
enum Op {
    Ins(usize, usize),
    Del(usize),
    DelS(usize, usize),
    Get(usize),
    MGet(Vec<usize>),
    Range(Option<usize>, Option<usize>, bool, bool),
}

impl Op {
    fn sx(&self) -> String {
        let b = |o: &Option<usize>| o.map(|x| x.to_string()).unwrap_or_else(|| "N".into());
        match self {
            Op::Ins(k, r) => format!("(ins {} {})", k, r),
            Op::Del(k) => format!("(del {})", k),
            Op::DelS(k, r) => format!("(dels {} {})", k, r),
            Op::Get(k) => format!("(get {})", k),
            Op::MGet(ks) => format!("(mget{})", ks.iter().map(|k| format!(" {}", k)).collect::<String>()),
            Op::Range(s, e, a, c) => format!("(range {} {} {} {})", b(s), b(e), *a as u8, *c as u8),
        }
    }
    fn parse(s: &Sx) -> Option<Op> {
        let l = s.as_list()?;
        let n = |i: usize| l.get(i)?.as_atom()?.parse::<usize>().ok();
        let bd = |i: usize| -> Option<Option<usize>> {
            let a = l.get(i)?.as_atom()?;
            if a == "N" { Some(None) } else { a.parse().ok().map(Some) }
        };
        match l.first()?.as_atom()? {
            "ins" => Some(Op::Ins(n(1)?, n(2)?)),
            "del" => Some(Op::Del(n(1)?)),
            "dels" => Some(Op::DelS(n(1)?, n(2)?)),
            "get" => Some(Op::Get(n(1)?)),
            "mget" => Some(Op::MGet((1..l.len()).map(n).collect::<Option<Vec<_>>>()?)),
            "range" => Some(Op::Range(bd(1)?, bd(2)?, n(3)? == 1, n(4)? == 1)),
            _ => None,
        }
    }
}

#[derive(Clone, Debug)]
struct Case {
    kind: &'static str, // key pool kind
    pool: usize,        // pool size
    vlen: usize,        // VARCHAR(vlen) key schema → degree
    bulk: Option<Vec<(usize, usize)>>, // sorted (rank, row id), None = BTreeIndex::new
    ops: Vec<Op>,
}

impl Case {
    fn init_sx(&self) -> String {
        match &self.bulk {
            None => "(new)".into(),
            Some(es) => format!("(bulk{})", es.iter().map(|(k, r)| format!(" ({} {})", k, r)).collect::<String>()),
        }
    }
    fn line(&self) -> String {
        format!("{} {} {} | {} ({})", self.kind, self.pool, self.vlen, self.init_sx(), self.ops.iter().map(|o| o.sx()).collect::<Vec<_>>().join(" "))
    }
    fn parse(line: &str) -> Option<Case> {
        let (head, body) = line.split_once(" | ")?;
        let h: Vec<&str> = head.split_whitespace().collect();
        let kind = KINDS.iter().find(|k| **k == h[0])?;
        let sx = Sx::parse(&format!("({})", body))?;
        let l = sx.as_list()?;
        let init = l.first()?.as_list()?;
        let bulk = match init.first()?.as_atom()? {
            "new" => None,
            _ => Some(
                init[1..]
                    .iter()
                    .map(|p| {
                        let p = p.as_list()?;
                        Some((p[0].as_atom()?.parse().ok()?, p[1].as_atom()?.parse().ok()?))
                    })
                    .collect::<Option<Vec<_>>>()?,
            ),
        };
        let ops = l.get(1)?.as_list()?.iter().map(Op::parse).collect::<Option<Vec<_>>>()?;
        Some(Case { kind, pool: h[1].parse().ok()?, vlen: h[2].parse().ok()?, bulk, ops })
    }
}

const KINDS: [&str; 5] = ["int", "str", "composite", "nulls", "prefix"];

/// deterministic key pool of a kind, sorted by the order the B+ tree itself uses (`Ord for Vec<SqlValue>`)
fn pool(kind: &str, n: usize) -> Vec<RKey> {
    let mut v: Vec<RKey> = Vec::new();
    for i in 0..n as i64 {
        let j = (i * 7919 + 13) % 10007; // scrambled, distinct for i < 10007
        v.push(match kind {
            "int" => vec![SqlValue::Integer(j - 5000)],
            "str" => vec![SqlValue::Varchar(format!("{}{}", ["", "a", "B", "é", "zz"][(i % 5) as usize], "x".repeat((j % 23) as usize) + &j.to_string()))],
            "composite" => vec![SqlValue::Integer(j % 7), SqlValue::Varchar(format!("v{}", j))],
            "nulls" => match i % 4 {
                0 => vec![SqlValue::Null, SqlValue::Integer(j)],
                1 => vec![SqlValue::Integer(j % 5), SqlValue::Null],
                2 => vec![SqlValue::Integer(j % 5), SqlValue::Integer(j)],
                _ => if i == 3 { vec![SqlValue::Null, SqlValue::Null] } else { vec![SqlValue::Integer(j), SqlValue::Integer(-j)] },
            },
            _ => match i % 3 {
                0 => vec![SqlValue::Integer(j % 11)],
                1 => vec![SqlValue::Integer(j % 11), SqlValue::Integer(j)],
                _ => vec![SqlValue::Integer(j % 11), SqlValue::Integer(j), SqlValue::Varchar("t".into())],
            },
        });
    }
    // `Ord::cmp` (what `binary_search` in the B+ tree uses), not `PartialOrd::lt` (NULL is unordered there)
    v.sort_by(|a, b| a.cmp(b));
    v.dedup_by(|a, b| a.as_slice().cmp(b.as_slice()) == std::cmp::Ordering::Equal);
    v
}

/// flattened view of a dumped tree
#[derive(Default)]
struct Shape {
    sx: String,
    leaves: Vec<(u64, u64, usize)>, // (page id, next_leaf, entries) in order
    internals: Vec<usize>,          // children counts, pre-order
    leaf_keys: Vec<Vec<usize>>,     // key ranks per leaf, in order
    parent_of: BTreeMap<u64, u64>,  // internal child page → parent page
    entries: Vec<(usize, Vec<usize>)>,
    problems: Vec<String>,
}

fn rank_of(pool: &[RKey], k: &RKey) -> Option<usize> {
    pool.binary_search(k).ok()
}

#[allow(clippy::too_many_arguments)]
fn walk(n: &VerifNode, depth: usize, height: usize, degree: usize, pool: &[RKey], lo: Option<usize>, hi: Option<usize>, is_root: bool, sh: &mut Shape) {
    let inb = |r: usize| lo.map_or(true, |l| l <= r) && hi.map_or(true, |h| r < h);
    match n {
        VerifNode::Leaf { page_id, entries, next_leaf } => {
            if depth + 1 != height {
                sh.problems.push(format!("leaf page {} at depth {} but height is {}", page_id, depth, height));
            }
            if entries.len() >= degree {
                sh.problems.push(format!("leaf page {} has {} entries at degree {}", page_id, entries.len(), degree));
            }
            if entries.is_empty() && !is_root {
                sh.problems.push(format!("non-root leaf page {} is empty", page_id));
            }
            sh.sx.push_str("(L");
            let mut prev: Option<usize> = None;
            let mut lk: Vec<usize> = vec![];
            for (k, rs) in entries {
                match rank_of(pool, k) {
                    None => sh.problems.push(format!("leaf page {} holds a key that was never inserted: {:?}", page_id, k)),
                    Some(r) => {
                        if prev.map_or(false, |p| p >= r) {
                            sh.problems.push(format!("leaf page {} keys not strictly sorted", page_id));
                        }
                        if !inb(r) {
                            sh.problems.push(format!("leaf page {} key rank {} outside its separators {:?}..{:?}", page_id, r, lo, hi));
                        }
                        if rs.is_empty() {
                            sh.problems.push(format!("leaf page {} key rank {} has an empty row-id list", page_id, r));
                        }
                        prev = Some(r);
                        sh.sx.push_str(&format!(" ({}{})", r, rs.iter().map(|x| format!(" {}", x)).collect::<String>()));
                        sh.entries.push((r, rs.clone()));
                        lk.push(r);
                    }
                }
            }
            sh.sx.push(')');
            sh.leaves.push((*page_id, *next_leaf, entries.len()));
            sh.leaf_keys.push(lk);
        }
        VerifNode::Internal { page_id, keys, children } => {
            if depth + 1 >= height {
                sh.problems.push(format!("internal page {} at depth {} but height is {}", page_id, depth, height));
            }
            if children.len() != keys.len() + 1 {
                sh.problems.push(format!("internal page {}: {} keys, {} children", page_id, keys.len(), children.len()));
            }
            if children.len() < 2 || children.len() >= degree {
                sh.problems.push(format!("internal page {} has {} children at degree {}", page_id, children.len(), degree));
            }
            sh.internals.push(children.len());
            for c in children {
                if let VerifNode::Internal { page_id: cp, .. } = c {
                    sh.parent_of.insert(*cp, *page_id);
                }
            }
            let ranks: Vec<Option<usize>> = keys.iter().map(|k| rank_of(pool, k)).collect();
            sh.sx.push_str("(I (");
            let mut prev: Option<usize> = None;
            for (i, r) in ranks.iter().enumerate() {
                match r {
                    None => sh.problems.push(format!("internal page {} separator not a pool key: {:?}", page_id, keys[i])),
                    Some(r) => {
                        if prev.map_or(false, |p| p >= *r) {
                            sh.problems.push(format!("internal page {} separators not strictly sorted", page_id));
                        }
                        // a separator s bounds its neighbours: lo < s < hi (lo itself may be a key of the left part)
                        if lo.map_or(false, |l| l >= *r) || hi.map_or(false, |h| *r >= h) {
                            sh.problems.push(format!("internal page {} separator rank {} outside {:?}..{:?}", page_id, r, lo, hi));
                        }
                        prev = Some(*r);
                        if i > 0 {
                            sh.sx.push(' ');
                        }
                        sh.sx.push_str(&r.to_string());
                    }
                }
            }
            sh.sx.push(')');
            for (i, c) in children.iter().enumerate() {
                let clo = if i == 0 { lo } else { ranks.get(i - 1).copied().flatten().or(lo) };
                let chi = if i < keys.len() { ranks[i].or(hi) } else { hi };
                sh.sx.push(' ');
                walk(c, depth + 1, height, degree, pool, clo, chi, false, sh);
            }
            sh.sx.push(')');
        }
    }
}

fn shape(t: &BTreeIndex, pool: &[RKey]) -> Result<Shape, String> {
    let dump = t.verif_dump().map_err(|e| format!("verif_dump failed: {:?}", e))?;
    let mut sh = Shape::default();
    walk(&dump, 0, t.height(), t.degree(), pool, None, None, true, &mut sh);
    // leaf chain: next_leaf of the i-th in-order leaf is the (i+1)-th, the last one is 0
    for i in 0..sh.leaves.len() {
        let want = if i + 1 < sh.leaves.len() { sh.leaves[i + 1].0 } else { 0 };
        if sh.leaves[i].1 != want {
            sh.problems.push(format!("leaf chain broken: leaf #{} (page {}) points to page {}, in-order successor is page {}", i, sh.leaves[i].0, sh.leaves[i].1, want));
        }
    }
    sh.sx = format!("({} {})", t.height() - 1, sh.sx);
    Ok(sh)
}

fn ref_range(m: &BTreeMap<usize, Vec<usize>>, s: Option<usize>, e: Option<usize>, inc_s: bool, inc_e: bool) -> Vec<usize> {
    let mut out = vec![];
    for (k, rs) in m {
        let ok_s = s.map_or(true, |s| if inc_s { s <= *k } else { s < *k });
        let ok_e = e.map_or(true, |e| if inc_e { *k <= e } else { *k < e });
        if ok_s && ok_e {
            out.extend(rs.iter().copied());
        }
    }
    out
}

fn rows_sx(rs: &[usize]) -> String {
    format!("(r{})", rs.iter().map(|x| format!(" {}", x)).collect::<String>())
}

struct Outcome {
    failed: bool,
    structural_changes: u64,
}

fn schema(vlen: usize) -> Vec<DataType> {
    vec![DataType::Varchar { max_length: Some(vlen) }]
}

/// run one case on the real code, the reference map and the model
fn run_case(c: &Case, id: u64, args: &Args, model: &mut model::Model, rep: &mut Report) -> Outcome {
    let pool = pool(c.kind, c.pool);
    let mut out = Outcome { failed: false, structural_changes: 0 };
    let replay = |extra: &str| format!("case: {}\n(re-run: harness/target/debug/c17 --driver lean/.lake/build/bin/drv_c17 --replay <this file>)\nkeys are ranks in the sorted pool `{}` of {} keys; degree from key schema VARCHAR({})\n{}\n", c.line(), c.kind, c.pool, c.vlen, extra);
    if pool.windows(2).any(|w| w[0].cmp(&w[1]) != std::cmp::Ordering::Less) {
        rep.count("pool_not_strictly_ordered_skipped");
        return out;
    }
    let dir = args.scratch.join(format!("t{}", id));
    let _ = std::fs::remove_dir_all(&dir);
    std::fs::create_dir_all(&dir).unwrap();
    let storage = Arc::new(NativeStorage::new(&dir).unwrap());
    let pm = Arc::new(PageManager::new("idx.db", storage).unwrap());

    // ---- initial tree ----
    let mut reference: BTreeMap<usize, Vec<usize>> = BTreeMap::new();
    let built = catch_unwind(AssertUnwindSafe(|| match &c.bulk {
        None => BTreeIndex::new(pm.clone(), schema(c.vlen)),
        Some(es) => BTreeIndex::bulk_load(es.iter().map(|(k, r)| (pool[*k].clone(), *r)).collect(), schema(c.vlen), pm.clone()),
    }));
    let mut tree = match built {
        Ok(Ok(t)) => t,
        Ok(Err(e)) => {
            rep.fail(FailKind::Oracle, None, "BTreeIndex::new / bulk_load returned an error", &replay(&format!("error: {:?}", e)));
            out.failed = true;
            let _ = std::fs::remove_dir_all(&dir);
            return out;
        }
        Err(_) => {
            rep.fail(FailKind::Oracle, None, "BTreeIndex::new / bulk_load panicked", &replay(""));
            out.failed = true;
            let _ = std::fs::remove_dir_all(&dir);
            return out;
        }
    };
    if let Some(es) = &c.bulk {
        for (k, r) in es {
            reference.entry(*k).or_default().push(*r);
        }
    }
    let degree = tree.degree();
    rep.count(&format!("degree_{}", degree));

    // ---- model ----
    let reply = model.ask(&format!("run {} {} ({})", degree, c.init_sx(), c.ops.iter().map(|o| o.sx()).collect::<Vec<_>>().join(" ")));
    let msteps: Vec<Sx> = match Sx::parse(&reply) {
        Some(Sx::List(v)) if v.first().and_then(|x| x.as_atom()) == Some("ok") => v[1..].to_vec(),
        _ => {
            rep.fail(FailKind::ModelDiff, None, "model driver rejected the request", &replay(&format!("model reply: {}", reply)));
            out.failed = true;
            let _ = std::fs::remove_dir_all(&dir);
            return out;
        }
    };

    let mut prev_nodes = 0usize;
    let mut prev_leaf_sizes: Vec<usize> = vec![];
    let mut prev_leaf_keys: Vec<Vec<usize>> = vec![];
    let mut prev_parent_of: BTreeMap<u64, u64> = BTreeMap::new();
    let mut prev_int_sizes: Vec<usize> = vec![];
    let mut prev_height = tree.height();
    // step 0 = the initial tree, step i = after ops[i-1]
    for step in 0..=c.ops.len() {
        let opname = if step == 0 { "init".to_string() } else { c.ops[step - 1].sx() };
        // -- real answer --
        let mut real_ans = String::from("init");
        let mut want_ans = String::from("init");
        if step > 0 {
            let op = &c.ops[step - 1];
            let res = catch_unwind(AssertUnwindSafe(|| -> Result<String, String> {
                let e = |e| format!("{:?}", e);
                Ok(match op {
                    Op::Ins(k, r) => {
                        tree.insert(pool[*k].clone(), *r).map_err(e)?;
                        "u".into()
                    }
                    Op::Del(k) => format!("b{}", tree.delete(&pool[*k]).map_err(e)? as u8),
                    Op::DelS(k, r) => format!("b{}", tree.delete_specific(&pool[*k], *r).map_err(e)? as u8),
                    Op::Get(k) => rows_sx(&tree.lookup(&pool[*k]).map_err(e)?),
                    Op::MGet(ks) => rows_sx(&tree.multi_lookup(&ks.iter().map(|k| pool[*k].clone()).collect::<Vec<_>>()).map_err(e)?),
                    Op::Range(s, en, a, b) => rows_sx(&tree.range_scan(s.map(|s| &pool[s]), en.map(|s| &pool[s]), *a, *b).map_err(e)?),
                })
            }));
            real_ans = match res {
                Ok(Ok(a)) => a,
                Ok(Err(e)) => format!("(err {})", e),
                Err(_) => "(panic)".into(),
            };
            // -- reference map (direct oracle) --
            want_ans = match op {
                Op::Ins(k, r) => {
                    reference.entry(*k).or_default().push(*r);
                    "u".into()
                }
                Op::Del(k) => format!("b{}", reference.remove(k).is_some() as u8),
                Op::DelS(k, r) => {
                    let mut hit = false;
                    if let Some(v) = reference.get_mut(k) {
                        if let Some(p) = v.iter().position(|x| x == r) {
                            v.remove(p);
                            hit = true;
                        }
                        if v.is_empty() {
                            reference.remove(k);
                        }
                    }
                    format!("b{}", hit as u8)
                }
                Op::Get(k) => rows_sx(reference.get(k).map(|v| v.as_slice()).unwrap_or(&[])),
                Op::MGet(ks) => rows_sx(&ks.iter().flat_map(|k| reference.get(k).cloned().unwrap_or_default()).collect::<Vec<_>>()),
                Op::Range(s, e, a, b) => rows_sx(&ref_range(&reference, *s, *e, *a, *b)),
            };
            let kind = opname.trim_start_matches('(').trim_end_matches(')').split(' ').next().unwrap_or("").to_string();
            rep.count(&format!("op_{}", kind));
            if real_ans != want_ans {
                rep.fail(
                    FailKind::Oracle,
                    None,
                    &format!("answer of `{}` differs from the ordered multimap's", kind),
                    &replay(&format!("step {} {}\nB+ tree answered: {}\nordered multimap:  {}", step, opname, real_ans, want_ans)),
                );
                out.failed = true;
                break;
            }
        }
        // -- persisted structure: well-formedness (direct) --
        let sh = match shape(&tree, &pool) {
            Ok(s) => s,
            Err(e) => {
                rep.fail(FailKind::Oracle, None, "persisted tree cannot be read back", &replay(&format!("step {} {}: {}", step, opname, e)));
                out.failed = true;
                break;
            }
        };
        let mut problems = sh.problems.clone();
        let want_entries: Vec<(usize, Vec<usize>)> = reference.iter().map(|(k, v)| (*k, v.clone())).collect();
        if sh.entries != want_entries {
            problems.push("in-order leaf entries differ from the ordered multimap".into());
        }
        if !problems.is_empty() {
            rep.fail(
                FailKind::Oracle,
                None,
                &format!("persisted tree not well-formed: {}", problems[0].split(|c: char| c.is_ascii_digit()).next().unwrap_or("").trim()),
                &replay(&format!("step {} {}\nproblems: {:?}\npersisted tree: {}", step, opname, problems, sh.sx)),
            );
            out.failed = true;
            break;
        }
        // -- model: answer + structure --
        let (m_ans, m_tree) = match msteps.get(step).and_then(|s| s.as_list()) {
            Some([a, t]) => (a.to_string(), t.to_string()),
            Some(other) => (Sx::List(other.to_vec()).to_string(), String::new()),
            None => ("<model stopped earlier>".to_string(), String::new()),
        };
        if (step > 0 && m_ans != real_ans) || m_tree != sh.sx {
            rep.fail(
                FailKind::ModelDiff,
                None,
                if m_tree != sh.sx && m_ans == real_ans { "node structure differs from the model's" } else { "answer differs from the model's" },
                &replay(&format!("step {} {}\ncode : {} {}\nmodel: {} {}", step, opname, real_ans, sh.sx, m_ans, m_tree)),
            );
            out.failed = true;
            break;
        }
        rep.traces_validated += 1;
        // -- measured structural events --
        let nodes = sh.leaves.len() + sh.internals.len();
        let leaf_sizes: Vec<usize> = sh.leaves.iter().map(|l| l.2).collect();
        if step > 0 {
            let h = tree.height();
            if h > prev_height {
                rep.count("event_root_split");
            }
            if h < prev_height {
                rep.count("event_root_collapse");
            }
            if nodes != prev_nodes {
                out.structural_changes += 1;
            }
            if leaf_sizes.len() > prev_leaf_sizes.len() {
                rep.count("event_leaf_split");
            }
            if leaf_sizes.len() < prev_leaf_sizes.len() {
                rep.count("event_leaf_merge");
            }
            if sh.internals.len() > prev_int_sizes.len() && h == prev_height {
                rep.count("event_internal_split");
            }
            if sh.internals.len() + (prev_height - h.min(prev_height)) < prev_int_sizes.len() {
                rep.count("event_internal_merge");
            }
            let is_del = matches!(c.ops[step - 1], Op::Del(_) | Op::DelS(_, _));
            if is_del && real_ans == "b1" && leaf_sizes.len() == prev_leaf_sizes.len() {
                let k = match &c.ops[step - 1] { Op::Del(k) | Op::DelS(k, _) => *k, _ => 0 };
                if let Some(i) = prev_leaf_keys.iter().position(|l| l.contains(&k)) {
                    let gone = !sh.leaf_keys.iter().any(|l| l.contains(&k));
                    if gone && leaf_sizes[i] == prev_leaf_sizes[i] {
                        if i > 0 && leaf_sizes[i - 1] + 1 == prev_leaf_sizes[i - 1] {
                            rep.count("event_leaf_borrow_from_left");
                        } else {
                            rep.count("event_leaf_borrow_from_right");
                        }
                    }
                }
            }
            if is_del {
                // an internal page that hangs below a different, still existing parent was borrowed
                let parents: std::collections::BTreeSet<u64> = sh.parent_of.values().copied().collect();
                if sh.parent_of.iter().any(|(c, p)| prev_parent_of.get(c).map_or(false, |q| q != p && parents.contains(q))) {
                    rep.count("event_internal_borrow");
                }
            }
            prev_height = h;
        }
        prev_nodes = nodes;
        prev_leaf_sizes = leaf_sizes;
        prev_leaf_keys = sh.leaf_keys.clone();
        prev_parent_of = sh.parent_of.clone();
        prev_int_sizes = sh.internals.clone();
    }
    drop(tree);
    let _ = std::fs::remove_dir_all(&dir);
    out
}

/// op sequence generator: phases of growth, mixed traffic and shrinking over a pool of `n` keys
fn gen_ops(rng: &mut Rng, n: usize, len: usize, live: &mut BTreeMap<usize, Vec<usize>>, next_rid: &mut usize) -> Vec<Op> {
    let mut ops = vec![];
    let mut phase = rng.below(3); // 0 grow, 1 mixed, 2 shrink
    let hot = rng.below(n as u64) as usize;
    while ops.len() < len {
        if rng.chance(1, 25) {
            phase = rng.below(3);
        }
        let pick_live = |rng: &mut Rng, live: &BTreeMap<usize, Vec<usize>>| -> Option<usize> {
            if live.is_empty() {
                None
            } else {
                live.keys().nth(rng.below(live.len() as u64) as usize).copied()
            }
        };
        let any = |rng: &mut Rng| -> usize {
            if rng.chance(1, 10) { hot } else { rng.below(n as u64) as usize }
        };
        let (w_ins, w_del, w_dels) = match phase {
            0 => (70, 5, 5),
            1 => (30, 20, 15),
            _ => (8, 50, 20),
        };
        let x = rng.below(100);
        let op = if x < w_ins {
            let k = if rng.chance(1, 6) { pick_live(rng, live).unwrap_or_else(|| any(rng)) } else { any(rng) };
            // row ids are not unique on purpose now and then (the multimap keeps duplicates)
            let r = if rng.chance(1, 12) { rng.below(5) as usize } else { *next_rid };
            *next_rid += 1;
            live.entry(k).or_default().push(r);
            Op::Ins(k, r)
        } else if x < w_ins + w_del {
            let k = if rng.chance(5, 6) { pick_live(rng, live).unwrap_or_else(|| any(rng)) } else { any(rng) };
            live.remove(&k);
            Op::Del(k)
        } else if x < w_ins + w_del + w_dels {
            let k = if rng.chance(5, 6) { pick_live(rng, live).unwrap_or_else(|| any(rng)) } else { any(rng) };
            let r = match live.get(&k) {
                Some(v) if rng.chance(7, 8) => v[rng.below(v.len() as u64) as usize],
                _ => rng.below(50) as usize,
            };
            if let Some(v) = live.get_mut(&k) {
                if let Some(p) = v.iter().position(|x| *x == r) {
                    v.remove(p);
                }
                if v.is_empty() {
                    live.remove(&k);
                }
            }
            Op::DelS(k, r)
        } else {
            match rng.below(3) {
                0 => Op::Get(if rng.chance(2, 3) { pick_live(rng, live).unwrap_or_else(|| any(rng)) } else { any(rng) }),
                1 => Op::MGet((0..rng.below(5)).map(|_| any(rng)).collect()),
                _ => {
                    let b = |rng: &mut Rng| if rng.chance(1, 5) { None } else { Some(any(rng)) };
                    let s = b(rng);
                    let e = if rng.chance(1, 8) { s } else { b(rng) };
                    Op::Range(s, e, rng.chance(1, 2), rng.chance(1, 2))
                }
            }
        };
        ops.push(op);
    }
    ops
}

fn queries_all(n: usize) -> Vec<Op> {
    let mut v: Vec<Op> = (0..n).map(Op::Get).collect();
    v.push(Op::Range(None, None, true, true));
    v
}

/// deterministic probes: boundary sizes of bulk load and of insert/delete orders, every degree
fn probes() -> Vec<Case> {
    let mut cs = vec![];
    for &vlen in &[255usize, 160, 140, 120] {
        // degree 5, 6, 7, 8
        let maxn = if vlen == 255 { 64 } else { 40 };
        // bulk load of n distinct keys (+ duplicates), look every key up, then delete every key
        for n in 0..=maxn {
            if vlen != 255 && n % 3 != 0 && n > 20 {
                continue;
            }
            let es: Vec<(usize, usize)> = (0..n).flat_map(|k| if k % 5 == 0 { vec![(k, k), (k, 1000 + k)] } else { vec![(k, k)] }).collect();
            let mut ops = queries_all(n);
            match n % 3 {
                0 => ops.extend((0..n).map(Op::Del)),
                1 => ops.extend((0..n).rev().map(Op::Del)),
                _ => ops.extend((0..n).map(|k| Op::DelS(k, k))),
            }
            ops.push(Op::Range(None, None, true, true));
            cs.push(Case { kind: "str", pool: maxn + 2, vlen, bulk: Some(es), ops });
        }
        // ascending / descending / alternating inserts to n keys, then deletes in several orders
        for (w, &n) in [4usize, 5, 6, 9, 10, 11, 14, 15, 16, 24, 25, 26, 36, 40, 49, 50, 51].iter().enumerate() {
            if vlen != 255 && w % 2 == 1 {
                continue;
            }
            for order in 0..3 {
                let keys: Vec<usize> = match order {
                    0 => (0..n).collect(),
                    1 => (0..n).rev().collect(),
                    _ => (0..n).map(|i| if i % 2 == 0 { i / 2 } else { n - 1 - i / 2 }).collect(),
                };
                for dorder in 0..4 {
                    let mut ops: Vec<Op> = keys.iter().map(|k| Op::Ins(*k, 100 + *k)).collect();
                    ops.extend(queries_all(n));
                    let dels: Vec<usize> = match dorder {
                        0 => (0..n).collect(),
                        1 => (0..n).rev().collect(),
                        2 => (0..n).map(|i| if i % 2 == 0 { n / 2 + i / 2 } else { n / 2 - 1 - i / 2 }).filter(|k| *k < n).collect(),
                        _ => (0..n).map(|i| (i * 7) % n).collect(),
                    };
                    for (i, k) in dels.iter().enumerate() {
                        ops.push(if i % 4 == 3 { Op::DelS(*k, 100 + *k) } else { Op::Del(*k) });
                        if i % 5 == 0 {
                            ops.push(Op::Range(Some(*k), None, false, true));
                        }
                    }
                    ops.push(Op::Range(None, None, true, true));
                    cs.push(Case { kind: "int", pool: 64, vlen, bulk: None, ops });
                }
            }
        }
    }
    // range bounds: every inclusive/exclusive combination around present and absent keys
    let mut ops: Vec<Op> = (0..30).map(|k| Op::Ins(k * 2, k)).collect();
    for s in [None, Some(0usize), Some(1), Some(9), Some(10), Some(58), Some(59), Some(61)] {
        for e in [None, Some(0usize), Some(9), Some(10), Some(11), Some(58), Some(60)] {
            for f in 0..4 {
                ops.push(Op::Range(s, e, f & 1 == 1, f & 2 == 2));
            }
        }
    }
    cs.push(Case { kind: "composite", pool: 64, vlen: 255, bulk: None, ops });
    // duplicates: many row ids on few keys, delete_specific of first / middle / last / absent row id
    let mut ops: Vec<Op> = vec![];
    for r in 0..40 {
        ops.push(Op::Ins(r % 4 * 3, r));
    }
    for r in [0usize, 39, 17, 17, 500, 4, 36] {
        ops.push(Op::DelS(r % 4 * 3, r));
        ops.push(Op::Get(r % 4 * 3));
    }
    ops.push(Op::Del(3));
    ops.push(Op::Del(3));
    ops.push(Op::Range(None, None, true, true));
    cs.push(Case { kind: "nulls", pool: 24, vlen: 255, bulk: None, ops });
    cs
}

fn main() {
    let args = Args::parse("C17");
    let mut rep = Report::new(
        &args,
        "a case (initial tree + operation sequence) is non-trivial iff every answer and every persisted tree of it was compared (model, reference map, well-formedness) and the number of nodes changed at least 3 times (splits / merges / root growth / collapse)",
    );
    rep.assumptions.push("keys are compared with `Ord for Vec<SqlValue>` (the order the B+ tree itself uses); each key pool is checked to be strictly ordered by it; consistency of that order across value types is C21".into());
    rep.assumptions.push("every node fits a 4 KiB page (row-id lists stay far below the ~500 row ids that overflow a page; the degree computation assumes one row id per key)".into());
    rep.assumptions.push("`BTreeIndex::load` (re-opening an index file) is not exercised".into());
    let mut model = args.model();
    let mut id = 0u64;

    if let Some(path) = &args.replay {
        let text = std::fs::read_to_string(path).unwrap_or_default();
        let mut ran = false;
        for l in text.lines() {
            if let Some(rest) = l.strip_prefix("case: ") {
                if let Some(c) = Case::parse(rest) {
                    let o = run_case(&c, 0, &args, &mut model, &mut rep);
                    rep.case(&c.line(), o.structural_changes >= 3);
                    println!("replayed {} ops: {}", c.ops.len(), if o.failed { "FAILED" } else { "no discrepancy" });
                    ran = true;
                }
            }
        }
        if !ran {
            eprintln!("no `case: ` line found in {}", path);
        }
        std::process::exit(rep.finish());
    }

    // ---- deterministic probes ----
    for c in probes() {
        id += 1;
        let o = run_case(&c, id, &args, &mut model, &mut rep);
        rep.count("probe_cases");
        rep.case(&c.line(), !o.failed && o.structural_changes >= 3);
    }

    // ---- generated sequences ----
    let mut rng = Rng::new(args.seed);
    let n_cases = args.n(150, 2000);
    for i in 0..n_cases {
        id += 1;
        let kind = KINDS[(i % KINDS.len() as u64) as usize];
        let vlen = *rng.pick(&[255usize, 255, 255, 160, 140, 120]);
        let psize = *rng.pick(&[12usize, 30, 60, 120]);
        let p = pool(kind, psize);
        let n = p.len();
        let mut live: BTreeMap<usize, Vec<usize>> = BTreeMap::new();
        let mut next_rid = 1usize;
        let bulk = if rng.chance(1, 3) {
            let m = rng.below(n as u64 + 1) as usize;
            let mut ks: Vec<usize> = (0..m).map(|_| rng.below(n as u64) as usize).collect();
            ks.sort();
            let es: Vec<(usize, usize)> = ks
                .iter()
                .map(|k| {
                    next_rid += 1;
                    (*k, next_rid)
                })
                .collect();
            for (k, r) in &es {
                live.entry(*k).or_default().push(*r);
            }
            Some(es)
        } else {
            None
        };
        let len = args.n(160, 400) as usize;
        let ops = gen_ops(&mut rng, n, len, &mut live, &mut next_rid);
        let c = Case { kind, pool: psize, vlen, bulk, ops };
        rep.count(&format!("pool_{}", kind));
        rep.count(if c.bulk.is_some() { "init_bulk_load" } else { "init_new" });
        let o = run_case(&c, id, &args, &mut model, &mut rep);
        rep.case(&c.line(), !o.failed && o.structural_changes >= 3);
        if i < 3 {
            rep.sample(serde_json::json!({"pool": kind, "pool_size": n, "vlen": vlen, "bulk_entries": c.bulk.as_ref().map(|b| b.len()), "ops": c.ops.len(), "first_ops": c.ops.iter().take(12).map(|o| o.sx()).collect::<Vec<_>>(), "node_count_changes": o.structural_changes}));
        }
    }
    std::process::exit(rep.finish());
}
