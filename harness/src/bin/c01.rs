//! C01 — SELECT results agree with the reference SQL semantics (the Lean `Sql.Query.eval`).
//!
//! The diff engine-vs-reference *is* the property: result multisets must be equal, and the row
//! sequences too when ORDER BY fully determines the order (decided by the model on its output).
use vharness::qast::*;
use vharness::sqlast::*;
use vharness::*;

/// Narrow classes of recorded engine defects reachable from C01's generator. Each is a
/// predicate over the failing case (query shape + data + how the engine failed).
fn classify(q: &Query, db: &DbDef, out: &Out) -> Option<&'static str> {
    if let Out::Err { class, .. } = out {
        if class == "ColumnNotFound" && right_branch_has_correlated_in(q, false) {
            return Some("C01/setop-right-correlated-in");
        }
        return None;
    }
    // (the NOT IN / NULL finding was repaired by 38420538: nothing is classified any more)
    let _ = (not_in_with_null(q, db), db);
    None
}

/// a correlated IN / NOT IN subquery inside a non-leftmost operand of a set operation
fn right_branch_has_correlated_in(q: &Query, is_right: bool) -> bool {
    match q {
        Query::Core(c) => is_right && c.where_.as_ref().map(pred_corr).unwrap_or(false),
        Query::SetOp(_, _, l, r) => right_branch_has_correlated_in(l, is_right) || right_branch_has_correlated_in(r, true),
    }
}

/// correlated = the subquery filter is the generator's correlated equality `inner = outer`
/// (inner column index > outer column index) or any filter mentioning a column of the outer row
fn pred_corr(p: &Pred) -> bool {
    match p {
        Pred::InSub(_, s, _) => match &s.filter {
            Some(E::Bin(Op::Eq, a, b)) => matches!((&**a, &**b), (E::Col(i), E::Col(o)) if o < i),
            _ => false,
        },
        Pred::And(a, b) | Pred::Or(a, b) => pred_corr(a) || pred_corr(b),
        Pred::Not(a) => pred_corr(a),
        _ => false,
    }
}

fn table_has_null(db: &DbDef, t: usize) -> bool {
    db.tables[t].rows.iter().any(|r| r.iter().any(|v| *v == Lit::Null))
}

/// NOT IN (subquery) where a NULL can reach the probe or the subquery column: exactly the
/// region excluded by the hypothesis of the anti-join `_partial` theorem (C05)
fn not_in_with_null(q: &Query, db: &DbDef) -> bool {
    fn pred_has(p: &Pred, db: &DbDef, outer: &[usize]) -> bool {
        match p {
            Pred::InSub(a, s, true) => {
                let mut lits_null = vec![];
                a.ops(&mut lits_null);
                table_has_null(db, s.tbl) || outer.iter().any(|t| table_has_null(db, *t)) || lits_null.contains(&"null-literal")
            }
            Pred::And(a, b) | Pred::Or(a, b) => pred_has(a, db, outer) || pred_has(b, db, outer),
            Pred::Not(a) => pred_has(a, db, outer),
            _ => false,
        }
    }
    match q {
        Query::Core(c) => {
            let mut ts = vec![];
            c.from.tables(&mut ts);
            // an outer join NULL-extends rows: a NULL can reach the probe although no table holds one
            fn has_outer(f: &From) -> bool {
                match f {
                    From::Table(_) => false,
                    From::Left(..) | From::Right(..) | From::Full(..) => true,
                    From::Cross(l, r) | From::Inner(l, r, _) => has_outer(l) || has_outer(r),
                }
            }
            fn has_not_in(p: &Pred) -> bool {
                match p {
                    Pred::InSub(_, _, true) => true,
                    Pred::And(a, b) | Pred::Or(a, b) => has_not_in(a) || has_not_in(b),
                    Pred::Not(a) => has_not_in(a),
                    _ => false,
                }
            }
            c.where_.as_ref().map(|w| pred_has(w, db, &ts) || (has_outer(&c.from) && has_not_in(w))).unwrap_or(false)
        }
        Query::SetOp(_, _, l, r) => not_in_with_null(l, db) || not_in_with_null(r, db),
    }
}

fn run_case(db_def: &DbDef, q: &Query, force_unq: bool, model: &mut model::Model, rep: &mut Report) {
    let req = format!("query {} {}", db_def.sx(), q.sx());
    let case_id = format!("{} {}", db_def.sx(), q.sx());
    // one case in four (when the meaning cannot change) is written with unqualified column names
    let unq = q.unqualified_safe() && (force_unq || case_id.len() % 4 == 0);
    let sql = if unq { q.sql_unqualified(db_def) } else { q.sql(db_def) };
    rep.count(if unq { "names_unqualified" } else { "names_qualified" });
    let mut db = Db::new();
    db_def.load(&mut db);
    // one case in three runs on a database with secondary indexes (single and composite, over
    // random columns): the reference semantics knows no indexes, the result must not change
    let h = text_hash(&case_id);
    let mut index_script = String::new();
    if h % 3 == 1 {
        for ix in random_index_sql(&mut Rng::new(h), db_def) {
            db.must(&ix);
            index_script.push_str(&format!("{};\n", ix));
        }
        rep.count("database_with_secondary_indexes");
    }
    let out = db.query(&sql);
    let reply = model.ask(&req);
    let m = parse_ref(&reply);
    let mut feats = vec![];
    q.features(&mut feats);
    for f in &feats {
        rep.count(&format!("feature_{}", f));
    }
    let replay = || format!("{}{}{};\n-- model request: {}\n-- engine: {}\n-- model:  {}", db_def.script(), index_script, sql, req, out.brief(), reply);
    match (&out, &m) {
        (Out::Panic(p), _) => {
            rep.case(&case_id, true);
            rep.fail(FailKind::Oracle, None, &format!("engine panicked: {}", p), &replay());
        }
        (Out::Rows(rows), Ok(mr)) => {
            let nontrivial = !rows.is_empty() && feats.len() >= 2;
            rep.case(&case_id, nontrivial);
            rep.count(if rows.is_empty() { "result_empty" } else { "result_nonempty" });
            rep.traces_validated += 1;
            let (order_by, limited) = match q {
                Query::Core(c) => (c.order_by.clone(), c.limit.is_some() || c.offset > 0),
                _ => (vec![], false),
            };
            match compare_with_ref(rows, mr, &order_by, limited) {
                Ok(kind) => rep.count(kind),
                Err(what) => rep.fail(FailKind::Oracle, classify(q, db_def, &out), &what, &replay()),
            }
        }
        (Out::Err { class, .. }, Err(_)) => {
            rep.case(&case_id, false);
            rep.count(&format!("both_error_{}", class));
        }
        (Out::Err { class, msg }, Ok(_)) => {
            rep.case(&case_id, false);
            // the shared subset is what both define: an engine rejection of a query the
            // reference evaluates is reported (unsupported-feature rejections are counted apart)
            if class == "UnsupportedFeature" || class == "UnsupportedExpression" {
                rep.count("engine_unsupported");
            } else {
                rep.fail(FailKind::Oracle, classify(q, db_def, &out), &format!("engine rejects a query of the shared subset: {} {}", class, msg.chars().take(120).collect::<String>()), &replay());
            }
        }
        (Out::Rows(_), Err(e)) => {
            rep.case(&case_id, false);
            rep.fail(FailKind::ModelDiff, None, &format!("reference evaluator rejects a query the engine answers: {}", e), &replay());
        }
        (Out::Count(_), _) => {
            rep.case(&case_id, false);
            rep.fail(FailKind::ModelDiff, None, "SELECT returned a count", &replay());
        }
    }
}

/// Deterministic probes: name-resolution defects found while building C01 (DESIGN.md §8).
/// The generated stream qualifies every column reference; these probes keep the unqualified
/// forms under watch: the unqualified query must answer exactly like its qualified twin.
fn probes(rep: &mut Report) {
    let setup = [
        "CREATE TABLE p1 (a INTEGER, b INTEGER)",
        "CREATE TABLE p2 (c INTEGER, d INTEGER)",
        "INSERT INTO p1 VALUES (1, 2), (3, NULL), (5, 6)",
        "INSERT INTO p2 VALUES (1, 2), (3, 9), (7, 6)",
    ];
    let pairs: [(&str, &str, &str); 7] = [
        (
            "C01/unqualified-correlated-in",
            "SELECT a FROM p1 WHERE NOT (a IN (SELECT c FROM p2 WHERE d = b))",
            "SELECT p1.a FROM p1 WHERE NOT (p1.a IN (SELECT p2.c FROM p2 WHERE p2.d = p1.b))",
        ),
        (
            "C01/unqualified-correlated-in",
            "SELECT a FROM p1 WHERE a IN (SELECT c FROM p2 WHERE d = b) OR a = 5",
            "SELECT p1.a FROM p1 WHERE p1.a IN (SELECT p2.c FROM p2 WHERE p2.d = p1.b) OR p1.a = 5",
        ),
        (
            "C01/unqualified-multitable-case",
            "SELECT a, c FROM p1, p2 WHERE (CASE WHEN (b IS NOT NULL) THEN (5 > c) ELSE (2 >= 3) END)",
            "SELECT p1.a, p2.c FROM p1, p2 WHERE (CASE WHEN (p1.b IS NOT NULL) THEN (5 > p2.c) ELSE (2 >= 3) END)",
        ),
        (
            "C01/setop-right-correlated-in",
            "SELECT a FROM p1 UNION ALL SELECT a FROM p1 WHERE a IN (SELECT c FROM p2 WHERE d = b)",
            "SELECT p1.a FROM p1 UNION ALL SELECT p1.a FROM p1 WHERE p1.a IN (SELECT p2.c FROM p2 WHERE p2.d = p1.b)",
        ),
        (
            "fixed-65d096d2",
            "SELECT a, c FROM p1 LEFT JOIN p2 ON a = c WHERE d IS NULL",
            "SELECT p1.a, p2.c FROM p1 LEFT JOIN p2 ON p1.a = p2.c WHERE p2.d IS NULL",
        ),
        (
            "fixed-65d096d2",
            "SELECT a, c FROM p1 LEFT JOIN p2 ON a = c WHERE COALESCE(d, 0) = 0",
            "SELECT p1.a, p2.c FROM p1 LEFT JOIN p2 ON p1.a = p2.c WHERE COALESCE(p2.d, 0) = 0",
        ),
        (
            "fixed-65d096d2",
            "SELECT a, c FROM p2 RIGHT JOIN p1 ON a = c WHERE CASE WHEN d = 2 THEN 0 ELSE 1 END = 1",
            "SELECT p1.a, p2.c FROM p2 RIGHT JOIN p1 ON p1.a = p2.c WHERE CASE WHEN p2.d = 2 THEN 0 ELSE 1 END = 1",
        ),
    ];
    for (sig, unq, qual) in pairs.iter() {
        let _ = sig;
        let mut db = Db::new();
        for s in setup.iter() {
            db.must(s);
        }
        let a = db.query(unq);
        let b = db.query(qual);
        rep.case(&format!("probe {}", unq), true);
        rep.count("probe_name_resolution");
        let same = match (&a, &b) {
            (Out::Rows(x), Out::Rows(y)) => canon::rows_bag(x) == canon::rows_bag(y),
            _ => false,
        };
        if !same {
            rep.fail(
                FailKind::Oracle,
                None,
                "unqualified column references change the answer of a query (vs the qualified spelling)",
                &format!("{};\n{};\n  => {}\n{};\n  => {}", setup.join(";\n"), unq, a.brief(), qual, b.brief()),
            );
        }
    }
}

/// `x [NOT] IN (SELECT a FROM ta [WHERE …] <set operator> SELECT b FROM tb [WHERE …])`: the subquery
/// body is a set operation (outside the model's single-table subqueries), so the expected rows are
/// computed here from the definitions: set operators compare NULLs as equal; IN is TRUE on a match,
/// UNKNOWN when there is no match and the operand or a member is NULL, FALSE otherwise; NOT IN
/// negates; WHERE keeps the TRUE rows.  Positions: whole WHERE, AND operand, OR operand.
fn in_setop_family(r: &mut Rng, dbd: &DbDef, rep: &mut Report) {
    let int_cols = |t: &TableDef| t.schema.cols_of(Ty::Int);
    let ts: Vec<usize> = (0..dbd.tables.len()).filter(|t| !int_cols(&dbd.tables[*t]).is_empty()).collect();
    if ts.len() < 3 {
        return;
    }
    let (to, ta, tb) = (ts[0], ts[1], ts[2]);
    let val = |l: &Lit| match l { Lit::I(i) => Some(*i), _ => None };
    let col = |t: usize, r: &mut Rng| *r.pick(&int_cols(&dbd.tables[t]));
    let (xo, ca, cb) = (col(to, r), col(ta, r), col(tb, r));
    // optional simple filters inside the operands
    let side = |t: usize, c: usize, r: &mut Rng| -> (String, Vec<Option<i64>>) {
        let td = &dbd.tables[t];
        let (name, cname) = (&td.schema.table, &td.schema.cols[c].0);
        if r.chance(1, 2) {
            let fc = *r.pick(&int_cols(td));
            let k = r.range(-2, 3);
            let vals = td.rows.iter().filter(|row| val(&row[fc]).map(|v| v >= k).unwrap_or(false)).map(|row| val(&row[c])).collect();
            (format!("SELECT {n}.{c} FROM {n} WHERE {n}.{f} >= {k}", n = name, c = cname, f = td.schema.cols[fc].0, k = Lit::I(k).sql()), vals)
        } else {
            (format!("SELECT {n}.{c} FROM {n}", n = name, c = cname), td.rows.iter().map(|row| val(&row[c])).collect())
        }
    };
    let (sql_a, va) = side(ta, ca, r);
    let (sql_b, vb) = side(tb, cb, r);
    let dedup = |v: &Vec<Option<i64>>| { let mut o: Vec<Option<i64>> = vec![]; for x in v { if !o.contains(x) { o.push(*x); } } o };
    for (op, members) in [
        ("UNION", dedup(&va.iter().chain(vb.iter()).cloned().collect())),
        ("UNION ALL", va.iter().chain(vb.iter()).cloned().collect::<Vec<_>>()),
        ("INTERSECT", dedup(&va).into_iter().filter(|x| vb.contains(x)).collect()),
        ("EXCEPT", dedup(&va).into_iter().filter(|x| !vb.contains(x)).collect()),
    ] {
        let tod = &dbd.tables[to];
        let x = format!("{}.{}", tod.schema.table, tod.schema.cols[xo].0);
        // three-valued IN: Some(true) / Some(false) / None = UNKNOWN
        let in3 = |v: Option<i64>| -> Option<bool> {
            if members.is_empty() { return Some(false); }
            match v {
                None => None,
                Some(v) => if members.contains(&Some(v)) { Some(true) } else if members.contains(&None) { None } else { Some(false) },
            }
        };
        let k = r.range(-2, 3);
        let fo = *r.pick(&int_cols(tod));
        let f = |row: &Vec<Lit>| val(&row[fo]).map(|v| v <= k);     // Some(bool) or UNKNOWN
        let fsql = format!("{}.{} <= {}", tod.schema.table, tod.schema.cols[fo].0, Lit::I(k).sql());
        let sub = format!("({} {} {})", sql_a, op, sql_b);
        let and3 = |a: Option<bool>, b: Option<bool>| match (a, b) { (Some(false), _) | (_, Some(false)) => Some(false), (Some(true), Some(true)) => Some(true), _ => None };
        let or3 = |a: Option<bool>, b: Option<bool>| match (a, b) { (Some(true), _) | (_, Some(true)) => Some(true), (Some(false), Some(false)) => Some(false), _ => None };
        let forms: Vec<(&str, String, Box<dyn Fn(&Vec<Lit>) -> Option<bool>>)> = vec![
            ("in_whole_where", format!("{} IN {}", x, sub), Box::new(|row: &Vec<Lit>| in3(val(&row[xo])))),
            ("not_in_whole_where", format!("{} NOT IN {}", x, sub), Box::new(|row: &Vec<Lit>| in3(val(&row[xo])).map(|b| !b))),
            ("in_and_filter", format!("{} AND {} IN {}", fsql, x, sub), Box::new(|row: &Vec<Lit>| and3(f(row), in3(val(&row[xo]))))),
            ("not_in_and_filter", format!("{} NOT IN {} AND {}", x, sub, fsql), Box::new(|row: &Vec<Lit>| and3(in3(val(&row[xo])).map(|b| !b), f(row)))),
            ("in_or_filter", format!("{} IN {} OR {}", x, sub, fsql), Box::new(|row: &Vec<Lit>| or3(in3(val(&row[xo])), f(row)))),
        ];
        let mut db = Db::new();
        dbd.load(&mut db);
        for (name, wh, truth) in forms.iter() {
            let sql = format!("SELECT {}.* FROM {} WHERE {}", tod.schema.table, tod.schema.table, wh);
            let want: Vec<Vec<Lit>> = tod.rows.iter().filter(|row| truth(row) == Some(true)).cloned().collect();
            let mut want_s: Vec<String> = want.iter().map(|row| format!("({})", row.iter().map(|l| match l { Lit::Null => "N".to_string(), Lit::I(i) => format!("I{}", i), Lit::S(t) => format!("S{}", vharness::sx::hex_str(t)) }).collect::<Vec<_>>().join(" "))).collect();
            want_s.sort();
            let o = db.query(&sql);
            rep.count(&format!("in_setop_{}_{}", op.to_lowercase().replace(' ', "_"), name));
            rep.case(&format!("in-setop {} {} {}", dbd.sx(), sql, name), !want.is_empty());
            match o.rows() {
                Some(rows) => {
                    if canon::bag_vec(rows) != want_s {
                        rep.fail(FailKind::Oracle, None, "IN / NOT IN over a set-operation subquery: rows differ from the definition (three-valued IN over the set operation's result)",
                            &format!("{}{};\n  => {}\n-- expected {:?}\n-- members of the set operation: {:?}", dbd.script(), sql, o.brief(), want_s, members));
                        return;
                    }
                }
                None => {
                    if o.is_panic() {
                        rep.fail(FailKind::Oracle, None, "engine panicked on IN over a set-operation subquery", &format!("{}{};\n  => {}", dbd.script(), sql, o.brief()));
                        return;
                    }
                    rep.count("in_setop_rejected");
                }
            }
        }
    }
}

fn main() {
    engine::silence_panics();
    let args = Args::parse("C01");
    let mut rep = Report::new(
        &args,
        "case = (database of ≤3 INTEGER/VARCHAR tables with NULLs/duplicates/empty tables, SELECT from the shared subset); \
         non-trivial = non-empty result and at least two query features; distinct by hash of (database, query)",
    );
    rep.assumptions.push("AVG and float arithmetic are covered by C07, not here; integers small (no overflow)".into());
    rep.assumptions.push("each table appears at most once in a FROM clause; subqueries are single-table (possibly correlated)".into());
    let mut model = args.model();
    probes(&mut rep);
    let mut rng = Rng::new(args.seed);
    let n = args.n(1500, 20000);
    for i in 0..n {
        let mut r = rng.fork();
        let max_rows = if args.quick() { 8 } else { 20 };
        let mut db_def = gen_db(&mut r, 3, max_rows);
        let mut large = None;
        if i % 12 == 11 {
            // large-table stream: one table of 100–400 rows (reaches the columnar / batched /
            // parallel paths), the others at most 4 rows so that joins stay small
            db_def = gen_db(&mut r, 3, 4);
            let t = r.below(3) as usize;
            let n = *r.pick(&[100usize, 101, 127, 128, 129, 200, 255, 256, 257, 300, 400]);
            db_def.tables[t].rows = gen_rows(&mut r, &db_def.tables[t].schema, n);
            rep.count("large_table_case");
            large = Some(t);
        }
        let g = QGen { db: &db_def, subqueries: true, force_from: None };
        let mut q = g.gen_query(&mut r);
        let mut force_unq = false;
        if let (Some(t), true) = (large, r.chance(1, 2)) {
            // half of the large cases: a query over the large table whose WHERE is an AND/OR tree of
            // column-vs-literal comparisons in both operand orders and BETWEENs (the shape the
            // scan-level columnar predicate tree handles), literals taken from the data
            let sg = QGen { db: &db_def, subqueries: false, force_from: Some(From::Table(t)) };
            let mut core = sg.gen_core(&mut r, true);
            core.where_ = Some(Pred::Ex(simple_pred_tree(&mut r, &db_def.tables[t])));
            q = Query::Core(core);
            rep.count("large_table_simple_predicate_tree");
            // the engine's scan-level predicate tree only recognises unqualified column references
            force_unq = r.chance(3, 4);
            if i < 200 {
                rep.sample(serde_json::json!({"large_simple_tree_sql": if force_unq { q.sql_unqualified(&db_def) } else { q.sql(&db_def) }}));
            }
        }
        if i < 5 {
            rep.sample(serde_json::json!({"sql": q.sql(&db_def), "tables": db_def.tables.iter().map(|t| t.rows.len()).collect::<Vec<_>>()}));
        }
        run_case(&db_def, &q, force_unq, &mut model, &mut rep);
        if i % 10 == 5 && large.is_none() {
            in_setop_family(&mut r, &db_def, &mut rep);
        }
    }
    std::process::exit(rep.finish());
}
