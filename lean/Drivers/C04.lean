import VibeProof.Model.SqlDriver
import VibeProof.Model.Par
open VibeProof VibeProof.Proto

/-- C04 uses the reference evaluator (`query DB Q`): every parallelism configuration of the
engine must return what the (sequential, definitional) reference returns. -/
def main : IO Unit := runDriver VibeProof.SqlDriver.handleQuery
