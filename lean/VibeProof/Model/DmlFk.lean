import VibeProof.Model.Dml
/-
Foreign keys (C12): one FOREIGN KEY from a child table to the PRIMARY KEY of a parent table,
over the rows of `Dml` tables.  Mirrors insert/foreign_keys.rs + row_validator.rs phase 6 +
update/foreign_keys.rs (`validate_constraints`: a key with a NULL is not checked, otherwise a
parent row with equal key must exist) and delete/integrity.rs (`check_no_child_references`:
referrers are the child rows whose non-NULL key equals the parent key; NO ACTION / RESTRICT
reject, CASCADE deletes them, SET NULL nulls their key columns) and update/foreign_keys.rs
(`check_no_child_references` for a parent key change: NO ACTION rejects, CASCADE rewrites the
referrers' key columns).
-/
namespace VibeProof.Dml
open VibeProof

structure Fk where
  /-- child columns -/
  cols : List Nat
  /-- parent primary-key columns -/
  pcols : List Nat
  deriving Repr, Inhabited

inductive Action where
  | noAction | cascade | setNull
  deriving DecidableEq, Repr, Inhabited

namespace Fk

/-- `validate_foreign_key_constraints` for one row of the child -/
def rowOk (fk : Fk) (parents : List Row) (c : Row) : Bool :=
  hasNull (keyOf fk.cols c) || parents.any (fun p => keyOf fk.pcols p == keyOf fk.cols c)

/-- a child row references the parent key `k` (`child_fk_values == parent_key_values`, NULLs skipped) -/
def refers (fk : Fk) (k : Key) (c : Row) : Bool :=
  !hasNull (keyOf fk.cols c) && keyOf fk.cols c == k

/-- write `vals` into the key columns of a child row -/
def setCols : List Nat → List Value → Row → Row
  | i :: is, v :: vs, r => setCols is vs (r.set i v)
  | _, _, r => r

def nullCols (fk : Fk) (c : Row) : Row := setCols fk.cols (fk.cols.map (fun _ => Value.null)) c

/-- INSERT into the child / UPDATE of a child row: accepted iff the row passes `rowOk` -/
def insertChild (fk : Fk) (parents children : List Row) (c : Row) : Option (List Row) :=
  if fk.rowOk parents c then some (children ++ [c]) else none

/-- DELETE of the parent row `p` (already selected): the action on the child table;
`none` = statement rejected -/
def onDeleteParent (fk : Fk) (a : Action) (children : List Row) (p : Row) : Option (List Row) :=
  let k := keyOf fk.pcols p
  if children.any (fk.refers k) then
    match a with
    | .noAction => none
    | .cascade => some (children.filter (fun c => !(fk.refers k c)))
    | .setNull => some (children.map (fun c => if fk.refers k c then fk.nullCols c else c))
  else some children

/-- UPDATE of the parent key from `p` to `p'`: NO ACTION rejects when referrers exist, CASCADE
rewrites their key columns to the new key -/
def onUpdateParent (fk : Fk) (a : Action) (children : List Row) (p p' : Row) : Option (List Row) :=
  let k := keyOf fk.pcols p
  if children.any (fun c => keyOf fk.cols c == k) then
    match a with
    | .noAction => none
    | .cascade => some (children.map (fun c => if keyOf fk.cols c == k then setCols fk.cols (keyOf fk.pcols p') c else c))
    | .setNull => some (children.map (fun c => if keyOf fk.cols c == k then fk.nullCols c else c))
  else some children

/-- self-referencing table, DELETE of the row at position `i` as coded: the cascade removes the
referrers *by value* first, then the executor deletes *position* `i` of what is left
(delete/executor.rs keeps the positions collected before `check_no_child_references` ran) -/
def deleteSelfRefAsCoded (fk : Fk) (rows : List Row) (i : Nat) : List Row :=
  match rows[i]? with
  | none => rows
  | some victim =>
    let k := keyOf fk.pcols victim
    (rows.filter (fun c => !(fk.refers k c))).eraseIdx i

end Fk

/-- every child row with a NULL-free key has a parent row with that key -/
def FKInv (fk : Fk) (parents children : List Row) : Prop :=
  ∀ c ∈ children, hasNull (keyOf fk.cols c) = false → ∃ p ∈ parents, keyOf fk.pcols p = keyOf fk.cols c

end VibeProof.Dml
