# C06 / C01: the operator tables of the columnar predicate extractors (select/columnar/filter.rs)
# and of the index range extractor (select/scan/index_scan/predicate.rs), re-read on every run:
# every `match op { BinaryOperator::X => <Pred>::Y … }` block, tagged "direct" (column op literal)
# or "reversed" (literal op column) by the comment / destructuring pattern that precedes it.
import re


def blocks(src):
    """yield (kind, [(BinaryOperator variant, predicate variant)]) for every operator match block"""
    out = []
    # a block starts at `match op {` (or `match *op {`) and runs to the first `_ =>` arm
    for m in re.finditer(r"match\s+\*?op\s*\{(.*?)\n\s*_\s*=>", src, re.S):
        body = m.group(1)
        pairs = re.findall(r"BinaryOperator::(\w+)\s*=>\s*(?:\w+::)*ColumnPredicate::(\w+)", body)
        if not pairs:
            continue
        # which destructuring precedes the block: (ColumnRef, Literal) = direct, (Literal, ColumnRef) = reversed
        head = src[max(0, m.start() - 700):m.start()]
        d = head.rfind("Expression::ColumnRef { table, column }, Expression::Literal(")
        r = head.rfind("Expression::Literal(value), Expression::ColumnRef")
        if d < 0 and r < 0:
            kind = "unknown"
        else:
            kind = "direct" if d > r else "reversed"
        out.append((kind, pairs))
    return out


def extract(read):
    src = read("crates/vibesql-executor/src/select/columnar/filter.rs")
    bl = blocks(src)
    out = ["/-- select/columnar/filter.rs: every operator table of the predicate extractors, as written:\n(kind, [(BinaryOperator, ColumnPredicate)]) with kind = \"direct\" (column op literal) or \"reversed\" (literal op column) -/"]
    rows = []
    for kind, pairs in bl:
        rows.append('("%s", [%s])' % (kind, ", ".join('("%s", "%s")' % p for p in pairs)))
    out.append("def c06ColumnarOpTables : List (String × List (String × String)) := [%s]" % ", ".join(rows))
    return "\n".join(out) + "\n"
