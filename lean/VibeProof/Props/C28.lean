import VibeProof.Model.WireBackend
import VibeProof.Lemmas.WireBackend
import VibeProof.Generated.Consts
/-
C28 — Server messages are well-formed protocol frames.

Model: `VibeProof.Wire.encodeBackend` = `BackendMessage::encode` as coded (type byte, the length
each arm computes by hand and truncates with `as i32`, the payload written field by field) and
the independent frame parser `parseBackend` (Model/WireBackend.lean).

For every message, of any size, satisfying `wfBackend` (strings NUL-free, error field codes
non-zero, counts < 2^15, values and the frame < 2^31 — the limits of the wire format itself):
the bytes are exactly one frame whose length field is the number of bytes after the type byte,
and the independent parser recovers the message and leaves following bytes alone.
-/
namespace VibeProof.C28
open VibeProof.Wire

/-- the hand-computed length of every arm is exactly 4 + the number of payload bytes it writes
    (before truncation to `i32`) -/
theorem C28_length_exact (m : BackendMsg) (h : wfContent m) :
    lenAsCoded m = 4 + (payload m).length := by
  cases m with
  | authenticationOk => rfl
  | authenticationCleartextPassword => rfl
  | authenticationMD5Password salt =>
    simp only [wfContent] at h
    simp only [lenAsCoded, payload, List.length_append, be32i_length, h]
  | parameterStatus n v => simp [lenAsCoded, payload, putCString]; omega
  | backendKeyData p k => rfl
  | readyForQuery s => rfl
  | rowDescription fs =>
    simp only [lenAsCoded, payload, List.length_append, be16_length]
    rw [putFields_length]; omega
  | dataRow vs =>
    simp only [lenAsCoded, payload, List.length_append, be16_length]
    rw [putValues_length]; omega
  | commandComplete t => simp [lenAsCoded, payload, putCString]; omega
  | errorResponse fs =>
    simp only [lenAsCoded, noticeLen, payload, List.length_append, List.length_cons, List.length_nil]
    rw [putNoticeFields_length]; omega
  | noticeResponse fs =>
    simp only [lenAsCoded, noticeLen, payload, List.length_append, List.length_cons, List.length_nil]
    rw [putNoticeFields_length]; omega
  | emptyQueryResponse => rfl

/-- bytes written for the fields of an ErrorResponse / NoticeResponse: code byte + value + NUL for
    every field of the map, empty values included -/
theorem putNoticeFields_length_sum (fs : List (UInt8 × Bytes)) :
    (putNoticeFields fs).length = (fs.map (fun f => 2 + f.2.length)).sum := by
  induction fs with
  | nil => rfl
  | cons f fs ih =>
    obtain ⟨k, v⟩ := f
    simp only [putNoticeFields, List.length_cons, List.length_append, putCString, List.length_nil,
      List.map_cons, List.sum_cons, ih]
    omega

/-- ErrorResponse / NoticeResponse: the length the first loop of `encode_notice_or_error` computes
    is 4 + Σ (2 + |value|) + 1 over ALL fields (empty values included), and the second loop writes
    exactly Σ (2 + |value|) + 1 bytes — every field that is counted is written -/
theorem C28_notice_length_sum (fs : List (UInt8 × Bytes)) :
    lenAsCoded (.errorResponse fs) = 4 + ((fs.map (fun f => 2 + f.2.length)).sum + 1) ∧
    (payload (.errorResponse fs)).length = (fs.map (fun f => 2 + f.2.length)).sum + 1 ∧
    lenAsCoded (.noticeResponse fs) = 4 + ((fs.map (fun f => 2 + f.2.length)).sum + 1) ∧
    (payload (.noticeResponse fs)).length = (fs.map (fun f => 2 + f.2.length)).sum + 1 := by
  have hp : ∀ m, payload m = putNoticeFields fs ++ [0] →
      (payload m).length = (fs.map (fun f => 2 + f.2.length)).sum + 1 := by
    intro m hm
    rw [hm, List.length_append, putNoticeFields_length_sum]
    rfl
  refine ⟨?_, hp _ rfl, ?_, hp _ rfl⟩
  · simp only [lenAsCoded, noticeLen]
    rw [putNoticeFields_length, putNoticeFields_length_sum]; omega
  · simp only [lenAsCoded, noticeLen]
    rw [putNoticeFields_length, putNoticeFields_length_sum]; omega

/-- frame law: type byte, then a big-endian length that counts itself and the body, then the body -/
theorem C28_frame_law (m : BackendMsg) (h : wfBackend m) :
    ∃ body, encodeBackend m = tyByte m :: (be32 (4 + body.length) ++ body) ∧
      4 + body.length < 2147483648 := by
  refine ⟨payload m, ?_, h.2⟩
  unfold encodeBackend
  rw [C28_length_exact m h.1]

/-- the length field, read as the protocol's `Int32`, equals the number of bytes after the type
    byte, and the frame is all there is -/
theorem C28_length_field (m : BackendMsg) (h : wfBackend m) :
    ∃ a b c d body, encodeBackend m = tyByte m :: a :: b :: c :: d :: body ∧
      i32OfBytes a b c d = ((a :: b :: c :: d :: body).length : Int) := by
  obtain ⟨body, he, hl⟩ := C28_frame_law m h
  refine ⟨_, _, _, _, body, by rw [he]; rfl, ?_⟩
  rw [i32OfBytes_ofNat _ hl]
  simp only [List.length_cons]
  omega

/-- the independent parser on a frame: split by the length field, then the body grammar -/
theorem parseBackend_frame (ty : UInt8) (p rest : Bytes) (h : 4 + p.length < 2147483648) :
    parseBackend (ty :: (be32 (4 + p.length) ++ p) ++ rest) =
      match parseBody ty p with
      | some m => some (m, rest)
      | none => none := by
  have e : ty :: (be32 (4 + p.length) ++ p) ++ rest =
      ty :: UInt8.ofNat ((4 + p.length) / 16777216 % 256) :: UInt8.ofNat ((4 + p.length) / 65536 % 256) ::
        UInt8.ofNat ((4 + p.length) / 256 % 256) :: UInt8.ofNat ((4 + p.length) % 256) :: (p ++ rest) := by
    simp [be32]
  rw [e]
  unfold parseBackend
  simp only [i32OfBytes_ofNat _ h]
  rw [if_neg (by omega)]
  have : ((4 + p.length : Nat) : Int).toNat - 4 = p.length := by omega
  rw [this, pBytes_append]
  rfl

theorem done_some {α : Type} (a : α) : done (some (a, ([] : Bytes))) = some a := rfl

/-- the body grammar of the protocol description accepts what each arm of `encode` writes and
    gives the message back -/
theorem parseBody_payload (m : BackendMsg) (h : wfContent m) :
    parseBody (tyByte m) (payload m) = some m := by
  cases m with
  | authenticationOk => decide
  | authenticationCleartextPassword => decide
  | authenticationMD5Password salt =>
    simp only [wfContent] at h
    have : pI32 (be32i 5 ++ salt) = some (5, salt) := pI32_be32i 5 salt (by decide)
    simp [parseBody, tyByte, payload, this, h]
  | parameterStatus n v =>
    obtain ⟨hn, hv⟩ := h
    have h1 := pCStr_put n (putCString v) hn
    have h2 := pCStr_put v [] hv
    rw [List.append_nil] at h2
    simp [parseBody, tyByte, payload, h1, h2, done]
  | backendKeyData p k =>
    obtain ⟨hp, hk⟩ := h
    have h1 := pI32_be32i p (be32i k) hp
    have h2 := pI32_be32i k [] hk
    rw [List.append_nil] at h2
    simp [parseBody, tyByte, payload, h1, h2, done]
  | readyForQuery s => cases s <;> decide
  | rowDescription fs =>
    obtain ⟨hl, hf⟩ := h
    have h1 := pI16_be16 fs.length (putFields fs) hl
    have h2 := pFields_put fs [] hf
    rw [List.append_nil] at h2
    have h3 : ¬ ((fs.length : Int) < 0) := by omega
    simp [parseBody, tyByte, payload, h1, h2, h3, done]
  | dataRow vs =>
    obtain ⟨hl, hv⟩ := h
    have h1 := pI16_be16 vs.length (putValues vs) hl
    have h2 := pValues_put vs [] hv
    rw [List.append_nil] at h2
    have h3 : ¬ ((vs.length : Int) < 0) := by omega
    simp [parseBody, tyByte, payload, h1, h2, h3, done]
  | commandComplete t =>
    have h1 := pCStr_put t [] h
    rw [List.append_nil] at h1
    simp [parseBody, tyByte, payload, h1, done]
  | errorResponse fs =>
    have h1 := pNoticeFields_put fs [] ((putNoticeFields fs).length + 1 + 1) h (by omega)
    simp [parseBody, tyByte, payload, h1, done]
  | noticeResponse fs =>
    have h1 := pNoticeFields_put fs [] ((putNoticeFields fs).length + 1 + 1) h (by omega)
    simp [parseBody, tyByte, payload, h1, done]
  | emptyQueryResponse => decide

/-- parsing the encoding with the independent parser recovers the same fields, consumes exactly
    the frame and leaves whatever follows untouched -/
theorem C28_parse_encode (m : BackendMsg) (rest : Bytes) (h : wfBackend m) :
    parseBackend (encodeBackend m ++ rest) = some (m, rest) := by
  unfold encodeBackend
  rw [C28_length_exact m h.1, parseBackend_frame _ _ _ h.2, parseBody_payload m h.1]

/-- exactly one frame: the parser, run on the encoding alone, leaves nothing -/
theorem C28_exactly_one_frame (m : BackendMsg) (h : wfBackend m) :
    parseBackend (encodeBackend m) = some (m, []) := by
  have := C28_parse_encode m [] h
  rwa [List.append_nil] at this

/-- a sequence of messages written one after the other parses back message by message -/
def parseMany : Nat → Bytes → List BackendMsg × Bytes
  | 0, b => ([], b)
  | n + 1, b =>
    match parseBackend b with
    | some (m, rest) => let r := parseMany n rest; (m :: r.1, r.2)
    | none => ([], b)

def encodeMany : List BackendMsg → Bytes
  | [] => []
  | m :: ms => encodeBackend m ++ encodeMany ms

theorem parseMany_succ (n : Nat) (b : Bytes) :
    parseMany (n + 1) b =
      match parseBackend b with
      | some (m, rest) => ((m :: (parseMany n rest).1), (parseMany n rest).2)
      | none => ([], b) := rfl

theorem C28_stream (ms : List BackendMsg) (h : ∀ m ∈ ms, wfBackend m) :
    parseMany ms.length (encodeMany ms) = (ms, []) := by
  induction ms with
  | nil => rfl
  | cons m ms ih =>
    have e : encodeMany (m :: ms) = encodeBackend m ++ encodeMany ms := rfl
    rw [e, List.length_cons, parseMany_succ, C28_parse_encode m _ (h m (by simp))]
    have ih' := ih (fun x hx => h x (by simp [hx]))
    show ((m :: (parseMany ms.length (encodeMany ms)).1), (parseMany ms.length (encodeMany ms)).2) = _
    rw [ih']

/-! ### outside `wfBackend` the law fails: what the callers must not construct -/

/-- a NUL inside a CommandComplete tag: the frame parses to a different message -/
theorem C28_nul_in_tag_counterexample :
    parseBackend (encodeBackend (.commandComplete [0x61, 0, 0x62])) ≠
      some (.commandComplete [0x61, 0, 0x62], []) := by
  decide

/-- an ErrorResponse field with code 0 reads as the terminator -/
theorem C28_zero_field_code_counterexample :
    parseBackend (encodeBackend (.errorResponse [(0, [0x78])])) ≠
      some (.errorResponse [(0, [0x78])], []) := by
  decide

/-- the column count is written with `as i16`: the two bytes after the length field are the low
    16 bits of the number of values … -/
theorem C28_count_field (vs : List (Option Bytes)) :
    ((encodeBackend (.dataRow vs)).drop 5).take 2 = be16 vs.length := by
  simp [encodeBackend, be32, payload, be16]

/-- … so 65 536 values are announced as 0 -/
theorem C28_count_overflow_counterexample :
    ((encodeBackend (.dataRow (List.replicate 65536 none))).drop 5).take 2 = [0, 0] := by
  rw [C28_count_field, List.length_replicate]
  decide

/-! ### constants -/

/-- the type byte of every arm of `BackendMessage::encode` in the source right now (re-extracted
    on every run) is the one the model uses -/
theorem C28_type_bytes_match_source :
    Generated.wireBackendTypeBytes =
      [("AuthenticationOk", (tyByte .authenticationOk).toNat),
       ("AuthenticationCleartextPassword", (tyByte .authenticationCleartextPassword).toNat),
       ("AuthenticationMD5Password", (tyByte (.authenticationMD5Password [])).toNat),
       ("ParameterStatus", (tyByte (.parameterStatus [] [])).toNat),
       ("BackendKeyData", (tyByte (.backendKeyData 0 0)).toNat),
       ("ReadyForQuery", (tyByte (.readyForQuery .idle)).toNat),
       ("RowDescription", (tyByte (.rowDescription [])).toNat),
       ("DataRow", (tyByte (.dataRow [])).toNat),
       ("CommandComplete", (tyByte (.commandComplete [])).toNat),
       ("ErrorResponse", (tyByte (.errorResponse [])).toNat),
       ("NoticeResponse", (tyByte (.noticeResponse [])).toNat),
       ("EmptyQueryResponse", (tyByte .emptyQueryResponse).toNat)] := by
  decide

/-! ### non-vacuity -/

/-- a RowDescription with a column `id` of type int4 -/
example : wfBackend (.rowDescription [⟨[0x69, 0x64], 0, 1, 23, 4, -1, 0⟩]) := by
  refine ⟨⟨by decide, ?_⟩, by decide⟩
  intro f hf
  simp only [List.mem_singleton] at hf
  subst hf
  simp only [wfField, isI32, isI16]
  decide

/-- a DataRow with a NULL, an empty value and a value containing a NUL byte -/
example : wfBackend (.dataRow [none, some [], some [0x31, 0, 0x32]]) := by
  refine ⟨⟨by decide, ?_⟩, by decide⟩
  intro v hv
  simp only [List.mem_cons, List.not_mem_nil, or_false] at hv
  rcases hv with rfl | rfl | rfl <;> simp [wfValue]

/-- an ErrorResponse with severity, code and message -/
example : wfBackend (.errorResponse [(0x53, [0x45]), (0x43, [0x34, 0x32]), (0x4d, [0x78])]) := by
  refine ⟨?_, by decide⟩
  intro f hf
  simp only [List.mem_cons, List.not_mem_nil, or_false] at hf
  rcases hf with rfl | rfl | rfl <;> (simp only [wfNoticeField]; decide)

end VibeProof.C28
