import VibeProof.Model.Expr
import VibeProof.Model.Rel
/-
Row selection and effect of DELETE / UPDATE / INSERT on one table (C09), mirroring
`delete/executor.rs` (`collect_rows_with_scan`, the primary-key fast path, `delete_where` by
position), `update/row_selector.rs` + `value_updater.rs` (SET evaluated on the pre-update row)
and `insert/execution.rs` (rows appended after coercion).  Predicates and SET expressions are
function parameters, so the theorems hold for every predicate / expression.
-/
namespace VibeProof.TableDml
open VibeProof

/-- the scan selects a row iff the predicate is TRUE on it (`where_value_is_true`) -/
def sel (p : Row → TV) (r : Row) : Bool := p r == TV.t

structure DeleteResult where
  deleted : List Row
  remaining : List Row
  count : Nat

/-- scan path: collect the positions whose row is selected, then `delete_where` by position -/
def deleteWhere (p : Row → TV) (rows : List Row) : DeleteResult :=
  { deleted := rows.filter (sel p), remaining := rows.filter (fun r => !sel p r),
    count := (rows.filter (sel p)).length }

/-- `SET c₁ = e₁, …` : every right-hand side is evaluated on the *pre-update* row -/
def applyAssignments (as : List (Nat × (Row → Value))) (old : Row) : Row :=
  as.foldl (fun acc a => acc.set a.1 (a.2 old)) old

structure UpdateResult where
  rows : List Row
  count : Nat

def updateWhere (p : Row → TV) (as : List (Nat × (Row → Value))) (rows : List Row) : UpdateResult :=
  { rows := rows.map (fun r => if sel p r then applyAssignments as r else r),
    count := (rows.filter (sel p)).length }

/-- A literal as the PK fast path sees it: its SQL value and whether it has the *same storage
type* as the key column (the hash index is keyed by the typed value: `Integer 1 ≠ Bigint 1`,
`Integer 1 ≠ Numeric 1.0`). -/
structure KeyLit where
  v : Value
  sameType : Bool

/-- `primary_key_index().get(lit)`: position of the row whose key is the literal, typed -/
def pkLookup (pk : Row → Value) (rows : List Row) (lit : KeyLit) : Option Nat :=
  if lit.sameType then rows.findIdx? (fun r => pk r = lit.v) else none

/-- `pk = lit` as the evaluator compares it (by value; NULL never matches) -/
def pkEq (pk : Row → Value) (lit : KeyLit) (r : Row) : TV :=
  if pk r = .null ∨ lit.v = .null then .u else if pk r = lit.v then .t else .f

/-- DELETE … WHERE pk = lit as coded (after the repair): an index hit deletes exactly that
position, a miss falls back to the scan -/
def deleteByPk (pk : Row → Value) (rows : List Row) (lit : KeyLit) : DeleteResult :=
  match pkLookup pk rows lit with
  | some i =>
    { deleted := (rows[i]?).toList, remaining := rows.eraseIdx i, count := (rows[i]?).toList.length }
  | none => deleteWhere (pkEq pk lit) rows

/-- INSERT: the given rows, each coerced to the column types, are appended -/
def insertRows (coerce : Row → Row) (new rows : List Row) : List Row × Nat :=
  (rows ++ new.map coerce, new.length)

end VibeProof.TableDml
