import VibeProof.Model.Proto
import VibeProof.Model.Temporal
open VibeProof.Proto VibeProof.Temporal

/-
Requests (strings are hex of UTF-8, `-` = empty)
  date_parse S | time_parse S | ts_parse S | interval S
      → (ok …fields…) | err | panic
  date_show y m d | time_show h mi s ns | ts_show y m d h mi s ns → (s HEX)
  date_new y m d | time_new h mi s ns → (ok …) | err
-/

def decBytes : Sx → Option Bytes
  | .atom "-" => some []
  | .atom h => hexToBytes h
  | _ => none

def encBytes (b : Bytes) : Sx := .atom (if b.isEmpty then "-" else bytesToHex b)

def encR {α : Type} (f : α → List Sx) : R α → Sx
  | .ok v => .list (.atom "ok" :: f v)
  | .error .err => .atom "err"
  | .error .panic => .atom "panic"

def dateF (d : Date) : List Sx := [sxInt d.year, sxNat d.month, sxNat d.day]
def timeF (t : Time) : List Sx := [sxNat t.hour, sxNat t.minute, sxNat t.second, sxNat t.nano]

def handle : List Sx → Sx
  | [.atom "date_parse", s] =>
    match decBytes s with
    | some b => encR dateF (Date.fromStr b)
    | none => .atom "bad-request"
  | [.atom "time_parse", s] =>
    match decBytes s with
    | some b => encR timeF (Time.fromStr b)
    | none => .atom "bad-request"
  | [.atom "ts_parse", s] =>
    match decBytes s with
    | some b => encR (fun t => dateF t.date ++ timeF t.time) (Timestamp.fromStr b)
    | none => .atom "bad-request"
  | [.atom "interval", s] =>
    match decBytes s with
    | some b => encR (fun i => [sxInt i.months, sxInt i.days, sxInt i.micros]) (Interval.new b)
    | none => .atom "bad-request"
  | [.atom "date_show", y, m, d] =>
    match y.int?, m.nat?, d.nat? with
    | some y, some m, some d => .list [.atom "s", encBytes (Date.display ⟨y, m, d⟩)]
    | _, _, _ => .atom "bad-request"
  | [.atom "time_show", h, mi, s, n] =>
    match h.nat?, mi.nat?, s.nat?, n.nat? with
    | some h, some mi, some s, some n => .list [.atom "s", encBytes (Time.display ⟨h, mi, s, n⟩)]
    | _, _, _, _ => .atom "bad-request"
  | [.atom "ts_show", y, m, d, h, mi, s, n] =>
    match y.int?, m.nat?, d.nat?, h.nat?, mi.nat?, s.nat?, n.nat? with
    | some y, some m, some d, some h, some mi, some s, some n =>
      .list [.atom "s", encBytes (Timestamp.display ⟨⟨y, m, d⟩, ⟨h, mi, s, n⟩⟩)]
    | _, _, _, _, _, _, _ => .atom "bad-request"
  | [.atom "date_new", y, m, d] =>
    match y.int?, m.nat?, d.nat? with
    | some y, some m, some d => encR dateF (Date.new y m d)
    | _, _, _ => .atom "bad-request"
  | [.atom "time_new", h, mi, s, n] =>
    match h.nat?, mi.nat?, s.nat?, n.nat? with
    | some h, some mi, some s, some n => encR timeF (Time.new h mi s n)
    | _, _, _, _ => .atom "bad-request"
  | _ => .atom "bad-request"

def main : IO Unit := runDriver handle
