import VibeProof.Model.Text
import VibeProof.Lemmas.Text
/-
Lemmas about the CSV model (C31): the reference reader inverts the writer.
-/
namespace VibeProof.Text.Csv

/-- a cell that is written without quotes contains none of `,` `"` LF -/
def plainChar (c : Char) : Bool := c ≠ ',' && c ≠ '"' && c ≠ '\n' && c ≠ '\r'

theorem needsQuote_false (v : Str) (h : needsQuote v = false) : v.all plainChar = true := by
  simp only [needsQuote, Bool.or_eq_false_iff, List.any_eq_false, decide_eq_true_eq] at h
  obtain ⟨⟨⟨h1, h2⟩, h3⟩, h4⟩ := h
  simp only [List.all_eq_true, plainChar, Bool.and_eq_true, decide_eq_true_eq]
  intro c hc
  exact ⟨⟨⟨h1 c hc, h2 c hc⟩, h3 c hc⟩, h4 c hc⟩

theorem stripCr_noCr (l : Str) (h : ∀ x ∈ l, x ≠ '\r') : stripCr l = l := by
  cases l with
  | nil => rfl
  | cons x xs =>
    have hx : x ≠ '\r' := h x (by simp)
    unfold stripCr
    split
    · rename_i heq; injection heq with h1 _; exact absurd h1 hx
    · rfl

theorem plain_noCr (v : Str) (h : v.all plainChar = true) : ∀ x ∈ v.reverse, x ≠ '\r' := by
  intro x hx
  have := (List.all_eq_true.mp h) x (by simpa using hx)
  simp only [plainChar, Bool.and_eq_true, decide_eq_true_eq] at this
  exact this.2

/-- reading the characters of an unquoted cell -/
theorem rRun_plain (v : Str) : ∀ (st : RSt) (acc : Str) (rest : Str), st.mode = .unq acc →
    v.all plainChar = true →
    rRun st (v ++ rest) = rRun { st with mode := .unq (v.reverse ++ acc) } rest := by
  induction v with
  | nil => intro st acc rest hm _; cases st; simp_all
  | cons c cs ih =>
    intro st acc rest hm hall
    simp only [List.all_cons, Bool.and_eq_true, plainChar, decide_eq_true_eq] at hall
    obtain ⟨⟨⟨⟨h1, h2⟩, h3⟩, _⟩, hrest⟩ := hall
    have hstep : rStep st c = .ok { st with mode := .unq (c :: acc) } := by
      simp [rStep, hm, h1, h2, h3]
    simp only [List.cons_append, rRun, hstep]
    rw [ih { st with mode := .unq (c :: acc) } (c :: acc) rest rfl (by simpa [plainChar] using hrest)]
    simp

/-- reading the doubled content of a quoted cell -/
theorem rRun_quoted (v : Str) : ∀ (st : RSt) (acc : Str) (rest : Str), st.mode = .quoted acc →
    rRun st (dbl '"' v ++ rest) = rRun { st with mode := .quoted (v.reverse ++ acc) } rest := by
  induction v with
  | nil => intro st acc rest hm; cases st; simp_all [dbl]
  | cons c cs ih =>
    intro st acc rest hm
    by_cases hq : c = '"'
    · subst hq
      have s1 : rStep st '"' = .ok { st with mode := .quoteSeen acc } := by simp [rStep, hm]
      have s2 : rStep { st with mode := .quoteSeen acc } '"' = .ok { st with mode := .quoted ('"' :: acc) } := by
        simp [rStep]
      simp only [dbl, if_true, List.cons_append, rRun, s1, s2]
      rw [ih { st with mode := .quoted ('"' :: acc) } ('"' :: acc) rest rfl]
      simp
    · have s1 : rStep st c = .ok { st with mode := .quoted (c :: acc) } := by simp [rStep, hm, hq]
      simp only [dbl, hq, if_false, List.cons_append, rRun, s1]
      rw [ih { st with mode := .quoted (c :: acc) } (c :: acc) rest rfl]
      simp

/-- after the escaped form of a cell the reader is about to end a cell with content `v`:
`sep` is the separator that follows (`,` or LF) -/
theorem rRun_cell (v : Str) (st : RSt) (hm : st.mode = .fieldStart) (sep : Char) (rest : Str)
    (hsep : sep = ',' ∨ sep = '\n') :
    rRun st (escape v ++ sep :: rest) =
      rRun (if sep = ',' then endCell st v else endRow st v) rest := by
  by_cases hq : needsQuote v = true
  · have s0 : rStep st '"' = .ok { st with mode := .quoted [], fresh := false } := by simp [rStep, hm]
    simp only [escape, hq, if_true, List.cons_append, List.append_assoc, rRun, s0]
    rw [rRun_quoted v _ [] _ rfl]
    have s1 : rStep { st with mode := RMode.quoted (v.reverse ++ []), fresh := false } '"' =
        .ok { st with mode := .quoteSeen v.reverse, fresh := false } := by simp [rStep]
    simp only [List.cons_append, List.nil_append, rRun, s1]
    rcases hsep with h | h <;> subst h
    · simp [rStep, endCell]
    · simp [rStep, endRow]
  · have hq' : needsQuote v = false := by simpa using hq
    have hall := needsQuote_false v hq'
    simp only [escape, hq', Bool.false_eq_true, if_false]
    cases v with
    | nil =>
      rcases hsep with h | h <;> subst h
      · simp [rRun, rStep, hm]
      · simp [rRun, rStep, hm]
    | cons c cs =>
      have hcr := stripCr_noCr _ (plain_noCr (c :: cs) hall)
      simp only [List.all_cons, Bool.and_eq_true, plainChar, decide_eq_true_eq] at hall
      obtain ⟨⟨⟨⟨h1, h2⟩, h3⟩, _⟩, hrest⟩ := hall
      have s0 : rStep st c = .ok { st with mode := .unq [c], fresh := false } := by
        simp [rStep, hm, h1, h2, h3]
      simp only [List.cons_append, rRun, s0]
      rw [rRun_plain cs _ [c] _ rfl (by simpa [plainChar] using hrest)]
      simp only [List.reverse_cons] at hcr
      rcases hsep with h | h <;> subst h
      · simp [rRun, rStep, endCell]
      · simp [rRun, rStep, endRow, hcr]

/-- reading one written record (at least one cell) -/
theorem rRun_row (cells : List Str) (hne : cells ≠ []) : ∀ (st : RSt) (rest : Str),
    st.mode = .fieldStart →
    rRun st (writeRow cells ++ rest) =
      rRun { rows := (st.cells.reverse ++ cells) :: st.rows, cells := [], mode := .fieldStart, fresh := true } rest := by
  induction cells with
  | nil => exact absurd rfl hne
  | cons c cs ih =>
    intro st rest hm
    cases cs with
    | nil =>
      simp only [writeRow, joinCells, List.append_assoc, List.singleton_append]
      rw [rRun_cell c st hm '\n' rest (Or.inr rfl)]
      simp [endRow]
    | cons c2 cs2 =>
      have := ih (by simp) (endCell st c) rest rfl
      simp only [writeRow, joinCells, List.append_assoc, List.cons_append] at this ⊢
      rw [rRun_cell c st hm ',' _ (Or.inl rfl)]
      simp only [if_true]
      rw [this]
      simp [endCell]

theorem rRun_rows (rows : List (List Str)) (hne : ∀ r ∈ rows, r ≠ []) : ∀ (acc : List (List Str)),
    rRun { rows := acc, cells := [], mode := .fieldStart, fresh := true } (writeCsv rows) =
      .ok { rows := rows.reverse ++ acc, cells := [], mode := .fieldStart, fresh := true } := by
  induction rows with
  | nil => intro acc; simp [writeCsv, rRun]
  | cons r rs ih =>
    intro acc
    have h1 := rRun_row r (hne r (by simp)) { rows := acc, cells := [], mode := .fieldStart, fresh := true }
      (writeCsv rs) rfl
    simp only [writeCsv, List.map_cons, List.flatten_cons] at h1 ⊢
    rw [h1]
    have h2 := ih (fun r' h => hne r' (by simp [h])) (r :: acc)
    simp only [writeCsv] at h2
    simp only [List.reverse_nil, List.nil_append]
    rw [h2]
    simp

end VibeProof.Text.Csv
