import VibeProof.Model.Value
/-
Scalar expressions over one row (no subqueries) and their evaluation, mirroring
`ExpressionEvaluator::eval` for the shared SQL subset: column refs, literals, + - *,
six comparisons, AND / OR / NOT, IS [NOT] NULL, [NOT] BETWEEN, [NOT] IN (list),
[NOT] LIKE, searched CASE, COALESCE.
-/
namespace VibeProof

inductive BinOp where
  | add | sub | mul
  | eq | ne | lt | le | gt | ge
  | and | or
  deriving DecidableEq, Repr, Inhabited

inductive Expr where
  | col (i : Nat)
  | lit (v : Value)
  | bin (op : BinOp) (a b : Expr)
  | not (a : Expr)
  | isNull (a : Expr) (neg : Bool)
  | between (a lo hi : Expr) (neg : Bool)
  | inList (a : Expr) (vs : List Value) (neg : Bool)
  | like (a pat : Expr) (neg : Bool)
  /-- `CASE WHEN c THEN r ELSE e END`; multi-arm CASE nests in `e`, a missing ELSE is `lit null` -/
  | ite (c r e : Expr)
  /-- `COALESCE(a, b)`; longer argument lists nest in `b` -/
  | coalesce (a b : Expr)
  deriving Repr, Inhabited

/-- `like_match_recursive` (evaluator/pattern.rs): `%` any run, `_` one unit, else literal. -/
def likeMatch : List Char → List Char → Bool
  | text, [] => text.isEmpty
  | text, '%' :: ps =>
      -- try every suffix of text
      let rec anySuffix : List Char → Bool
        | [] => likeMatch [] ps
        | c :: cs => likeMatch (c :: cs) ps || anySuffix cs
      anySuffix text
  | [], _ :: _ => false
  | c :: cs, p :: ps => (p == '_' || p == c) && likeMatch cs ps

def arith (op : BinOp) (a b : Int) : Except Err Value :=
  let r := match op with
    | .add => a + b
    | .sub => a - b
    | _ => a * b
  if Value.inRange64 r then .ok (.int r) else .error .overflow

def cmpOp (op : BinOp) (o : Ordering) : Bool :=
  match op with
  | .eq => o == .eq
  | .ne => o != .eq
  | .lt => o == .lt
  | .le => o != .gt
  | .gt => o == .gt
  | _ => o != .lt

/-- `eval_binary_op`: NULL op x = NULL except AND / OR which are Kleene. -/
def evalBin (op : BinOp) (a b : Value) : Except Err Value :=
  match op with
  | .and => do
      let x ← a.toTV
      let y ← b.toTV
      pure (Value.ofTV (TV.and3 x y))
  | .or => do
      let x ← a.toTV
      let y ← b.toTV
      pure (Value.ofTV (TV.or3 x y))
  | .add | .sub | .mul =>
      match a, b with
      | .null, _ => .ok .null
      | _, .null => .ok .null
      | .int x, .int y => arith op x y
      | _, _ => .error .typeMismatch
  | _ =>
      match a, b with
      | .null, _ => .ok .null
      | _, .null => .ok .null
      | x, y =>
        match Value.cmp? x y with
        | some o => .ok (.bool (cmpOp op o))
        | none => .error .typeMismatch

def notV (v : Value) : Except Err Value := do
  let x ← v.toTV
  pure (Value.ofTV x.not3)

/-- `eval_in_list` once the operand and the list are evaluated. -/
def inListV (a : Value) (vs : List Value) (neg : Bool) : Except Err Value :=
  if vs.isEmpty then .ok (.bool neg)
  else if a.isNull then .ok .null
  else
    let rec go : List Value → Bool → Except Err Value
      | [], foundNull => .ok (if foundNull then .null else .bool neg)
      | v :: rest, foundNull =>
        if v.isNull then go rest true
        else
          match evalBin .eq a v with
          | .error e => .error e
          | .ok (.bool true) => .ok (.bool (!neg))
          | .ok _ => go rest foundNull
    go vs false

def betweenV (x lo hi : Value) (neg : Bool) : Except Err Value := do
  let rev ← evalBin .gt lo hi
  if rev == .bool true then
    if x.isNull then pure .null else pure (.bool neg)
  else if neg then
    let a ← evalBin .lt x lo
    let b ← evalBin .gt x hi
    evalBin .or a b
  else
    let a ← evalBin .ge x lo
    let b ← evalBin .le x hi
    evalBin .and a b

def likeV (a p : Value) (neg : Bool) : Except Err Value :=
  match a, p with
  | .null, _ => .ok .null
  | .str _, .null => .ok .null
  | .str s, .str q => .ok (.bool ((likeMatch s.toList q.toList) != neg))
  | _, _ => .error .typeMismatch

def Expr.eval (row : Row) : Expr → Except Err Value
  | .col i => match row[i]? with
      | some v => .ok v
      | none => .error .columnOutOfRange
  | .lit v => .ok v
  | .bin op a b => do
      let x ← a.eval row
      let y ← b.eval row
      evalBin op x y
  | .not a => do notV (← a.eval row)
  | .isNull a neg => do
      let x ← a.eval row
      pure (.bool (x.isNull != neg))
  | .between a lo hi neg => do
      let x ← a.eval row
      let l ← lo.eval row
      let h ← hi.eval row
      betweenV x l h neg
  | .inList a vs neg => do
      let x ← a.eval row
      inListV x vs neg
  | .like a p neg => do
      let x ← a.eval row
      let q ← p.eval row
      likeV x q neg
  | .ite c r e => do
      let cv ← c.eval row
      if cv == .bool true then r.eval row else e.eval row
  | .coalesce a b => do
      let v ← a.eval row
      if v.isNull then b.eval row else pure v

/-- Truth value of a predicate expression on a row as the WHERE filter uses it;
evaluation errors are reported, never defaulted. -/
def Expr.tv (e : Expr) (row : Row) : Except Err TV := do
  let v ← e.eval row
  v.truthy

end VibeProof
