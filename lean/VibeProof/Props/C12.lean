import VibeProof.Model.DmlFk
/-
C12 — referential integrity holds after every statement.

Model: Model/DmlFk.lean (one FOREIGN KEY child → parent PRIMARY KEY over the row lists of the
`Dml` tables).  `FKInv` = every child row whose key has no NULL has a parent row with that key.
Proved for every parent / child content and every row: the child-side checks (INSERT / UPDATE of
a child row), the parent-side actions of DELETE (NO ACTION / RESTRICT, CASCADE, SET NULL) and of
a parent-key UPDATE (NO ACTION), each with its exact effect on the child table.

Not proved, because the code as it is violates it: DELETE on a *self-referencing* table whose
cascade removes rows stored before the selected row (`C12_self_reference_counterexample`), and
the termination of the recursive cascade on cyclic references (the real code overflows its
stack; replayed in a subprocess by the harness).  Multi-level cascades are the composition of
the one-level lemma along the chain and are exercised by the harness only.
-/
namespace VibeProof.C12
open VibeProof VibeProof.Dml

/-- INSERT / UPDATE of a child row is accepted iff its key has a NULL or a parent with that key exists -/
theorem C12_child_accept_iff (fk : Fk) (parents children : List Row) (c : Row) :
    (fk.insertChild parents children c).isSome ↔
      (hasNull (keyOf fk.cols c) = true ∨ ∃ p ∈ parents, keyOf fk.pcols p = keyOf fk.cols c) := by
  simp [Fk.insertChild, Fk.rowOk]

/-- … and an accepted child row keeps the invariant (a row that would be an orphan is rejected) -/
theorem C12_insert_child_preserves (fk : Fk) (parents children ch' : List Row) (c : Row)
    (h : FKInv fk parents children) (ha : fk.insertChild parents children c = some ch') :
    FKInv fk parents ch' ∧ ch' = children ++ [c] := by
  unfold Fk.insertChild at ha
  split at ha
  · rename_i hok
    simp only [Option.some.injEq] at ha; subst ha
    refine ⟨?_, rfl⟩
    intro x hx hn
    rcases List.mem_append.mp hx with hx | hx
    · exact h x hx hn
    · simp only [List.mem_singleton] at hx; subst hx
      simp only [Fk.rowOk, hn, Bool.false_or, List.any_eq_true, beq_iff_eq] at hok
      exact hok
  · simp at ha

/-- inserting a parent row never breaks the invariant -/
theorem C12_insert_parent_preserves (fk : Fk) (parents children : List Row) (p : Row)
    (h : FKInv fk parents children) : FKInv fk (parents ++ [p]) children := by
  intro c hc hn
  obtain ⟨q, hq, hk⟩ := h c hc hn
  exact ⟨q, List.mem_append_left _ hq, hk⟩

/-- NO ACTION / RESTRICT: the DELETE is rejected iff a referrer exists -/
theorem C12_restrict_rejects_iff (fk : Fk) (children : List Row) (p : Row) :
    fk.onDeleteParent .noAction children p = none ↔ ∃ c ∈ children, fk.refers (keyOf fk.pcols p) c = true := by
  simp only [Fk.onDeleteParent]
  split <;> simp_all

/-- CASCADE removes exactly the referrers of the deleted key -/
theorem C12_cascade_removes_exactly_referrers (fk : Fk) (children : List Row) (p : Row) :
    fk.onDeleteParent .cascade children p = some (children.filter (fun c => !(fk.refers (keyOf fk.pcols p) c))) := by
  simp only [Fk.onDeleteParent]
  split
  · rfl
  · rename_i hno
    simp only [List.any_eq_true, not_exists, not_and, Bool.not_eq_true] at hno
    congr 1
    symm
    rw [List.filter_eq_self]
    intro c hc; simp [hno c hc]

/-- SET NULL nulls exactly the key columns of the referrers -/
theorem C12_set_null_changes_exactly_referrers (fk : Fk) (children : List Row) (p : Row) :
    fk.onDeleteParent .setNull children p =
      some (children.map (fun c => if fk.refers (keyOf fk.pcols p) c then fk.nullCols c else c)) := by
  simp only [Fk.onDeleteParent]
  split
  · rfl
  · rename_i hno
    simp only [List.any_eq_true, not_exists, not_and, Bool.not_eq_true] at hno
    congr 1
    symm
    conv => rhs; rw [← List.map_id children]
    apply List.map_congr_left
    intro c hc; simp [hno c hc]

/-- DELETE of a parent row: whatever the action, if the statement is accepted the invariant holds
for the new child table and every parent table that keeps all rows with a different key.
(`hnull`: nulling the key columns yields a key with a NULL — true for well-formed foreign keys,
see `nullCols_single`.) -/
theorem C12_delete_parent_preserves (fk : Fk) (a : Action) (parents parents' children ch' : List Row) (p : Row)
    (h : FKInv fk parents children)
    (hkeep : ∀ q ∈ parents, keyOf fk.pcols q ≠ keyOf fk.pcols p → q ∈ parents')
    (hnull : ∀ c ∈ children, hasNull (keyOf fk.cols (fk.nullCols c)) = true)
    (ha : fk.onDeleteParent a children p = some ch') : FKInv fk parents' ch' := by
  have hsurv : ∀ c ∈ children, fk.refers (keyOf fk.pcols p) c = false → hasNull (keyOf fk.cols c) = false →
      ∃ q ∈ parents', keyOf fk.pcols q = keyOf fk.cols c := by
    intro c hc hr hn
    obtain ⟨q, hq, hk⟩ := h c hc hn
    refine ⟨q, hkeep q hq ?_, hk⟩
    intro heq
    have : fk.refers (keyOf fk.pcols p) c = true := by
      have e : keyOf fk.cols c = keyOf fk.pcols p := by rw [← hk, heq]
      simp only [Fk.refers, hn, Bool.not_false, Bool.true_and, beq_iff_eq]; exact e
    rw [hr] at this; exact absurd this (by simp)
  unfold Fk.onDeleteParent at ha
  simp only [] at ha
  split at ha
  · cases a with
    | noAction => simp at ha
    | cascade =>
      simp only [Option.some.injEq] at ha; subst ha
      intro c hc hn
      simp only [List.mem_filter, Bool.not_eq_true'] at hc
      exact hsurv c hc.1 hc.2 hn
    | setNull =>
      simp only [Option.some.injEq] at ha; subst ha
      intro c' hc' hn
      obtain ⟨c, hc, rfl⟩ := List.mem_map.mp hc'
      by_cases hr : fk.refers (keyOf fk.pcols p) c = true
      · simp only [hr, if_true] at hn
        rw [hnull c hc] at hn; simp at hn
      · simp only [hr] at hn ⊢
        exact hsurv c hc (by simpa using hr) hn
  · rename_i hno
    simp only [List.any_eq_true, not_exists, not_and, Bool.not_eq_true] at hno
    simp only [Option.some.injEq] at ha; subst ha
    intro c hc hn
    exact hsurv c hc (hno c hc) hn

/-- the `hnull` hypothesis holds for a single-column foreign key on rows wide enough -/
theorem nullCols_single (i : Nat) (pc : List Nat) (c : Row) (hi : i < c.length) :
    hasNull (keyOf [i] (Fk.nullCols { cols := [i], pcols := pc } c)) = true := by
  simp [Fk.nullCols, Fk.setCols, keyOf, hasNull, List.getD, hi, Value.isNull]

/-- parent-key UPDATE under NO ACTION: rejected iff some child row carries the old key; accepted
updates leave the child table untouched -/
theorem C12_update_parent_no_action (fk : Fk) (children : List Row) (p p' : Row) :
    (fk.onUpdateParent .noAction children p p' = none ↔ ∃ c ∈ children, keyOf fk.cols c = keyOf fk.pcols p) ∧
    (∀ ch', fk.onUpdateParent .noAction children p p' = some ch' → ch' = children) := by
  simp only [Fk.onUpdateParent]
  split <;> simp_all

/-! non-vacuity -/

def fk1 : Fk := { cols := [1], pcols := [0] }
def parents1 : List Row := [[.int 1, .int 10], [.int 2, .int 20]]
def children1 : List Row := [[.int 1, .int 1], [.int 2, .int 1], [.int 3, .int 2], [.int 4, .null]]

example : FKInv fk1 parents1 children1 := by
  intro c hc hn
  simp only [children1, List.mem_cons, List.not_mem_nil, or_false] at hc
  rcases hc with rfl | rfl | rfl | rfl <;> simp_all [fk1, parents1, keyOf, hasNull, Value.isNull]

example : fk1.onDeleteParent .cascade children1 [.int 1, .int 10] = some [[.int 3, .int 2], [.int 4, .null]] := by decide
example : fk1.onDeleteParent .setNull children1 [.int 1, .int 10] =
    some [[.int 1, .null], [.int 2, .null], [.int 3, .int 2], [.int 4, .null]] := by decide
example : fk1.onDeleteParent .noAction children1 [.int 1, .int 10] = none := by decide

/-! the part the code as it is violates -/

/-- the full statement for a self-referencing table (parents = children = the table itself) -/
def C12_self_reference_full : Prop :=
  ∀ (fk : Fk) (rows : List Row) (i : Nat), FKInv fk rows rows → FKInv fk (fk.deleteSelfRefAsCoded rows i) (fk.deleteSelfRefAsCoded rows i)

/-- rows (2→1), (1), (3), (4→3): DELETE of key 1 (position 1) cascades to the row stored before
it, then position 1 of the shrunk table — key 3 — is deleted; (4→3) is left an orphan and the
selected row (1) survives -/
theorem C12_self_reference_counterexample : ¬ C12_self_reference_full := by
  intro h
  let fk : Fk := { cols := [1], pcols := [0] }
  let rows : List Row := [[.int 2, .int 1], [.int 1, .null], [.int 3, .null], [.int 4, .int 3]]
  have h0 : FKInv fk rows rows := by
    intro c hc hn
    simp only [rows, List.mem_cons, List.not_mem_nil, or_false] at hc
    rcases hc with rfl | rfl | rfl | rfl <;> simp_all [fk, rows, keyOf, hasNull, Value.isNull]
  have h1 := h fk rows 1 h0
  have hres : fk.deleteSelfRefAsCoded rows 1 = [[.int 1, .null], [.int 4, .int 3]] := by decide
  rw [hres] at h1
  have := h1 [.int 4, .int 3] (by simp) (by decide)
  simp [fk, keyOf] at this

end VibeProof.C12
