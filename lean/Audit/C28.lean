import VibeProof.Props.C28
#print axioms VibeProof.C28.C28_length_exact
#print axioms VibeProof.C28.C28_frame_law
#print axioms VibeProof.C28.C28_length_field
#print axioms VibeProof.C28.C28_parse_encode
#print axioms VibeProof.C28.C28_exactly_one_frame
#print axioms VibeProof.C28.C28_stream
#print axioms VibeProof.C28.C28_nul_in_tag_counterexample
#print axioms VibeProof.C28.C28_zero_field_code_counterexample
#print axioms VibeProof.C28.C28_count_field
#print axioms VibeProof.C28.C28_count_overflow_counterexample
#print axioms VibeProof.C28.C28_type_bytes_match_source
#print axioms VibeProof.C28.C28_notice_length_sum
