# C05: which subquery clauses keep optimizer/subquery_to_join.rs from turning an IN / EXISTS subquery
# into a semi / anti join.  The conversion keeps only FROM, the select item and WHERE of the subquery,
# so every other clause that changes the subquery's rows must block it.  Re-read on every run.
import re


def guards(src, fn):
    m = re.search(r"fn %s\b.*?\n\}\n" % fn, src, re.S)
    if not m:
        return None
    body = m.group(0)
    return sorted(set(re.findall(r"subquery\.(\w+)\.is_some\(\)", body)))


def extract(read):
    src = read("crates/vibesql-executor/src/optimizer/subquery_to_join.rs")
    out = ["/-- optimizer/subquery_to_join.rs: per conversion function, the subquery clauses whose presence blocks the conversion (`subquery.<clause>.is_some()` tests in its body) -/"]
    rows = []
    for fn in ["try_convert_in_to_join_parts", "try_convert_exists_to_join", "plain_subquery_parts"]:
        g = guards(src, fn)
        if g is None:
            rows.append('("%s", ["NOT-FOUND"])' % fn)
        else:
            rows.append('("%s", [%s])' % (fn, ", ".join('"%s"' % x for x in g)))
    out.append("def c05JoinConversionGuards : List (String × List String) := [%s]" % ", ".join(rows))
    return "\n".join(out) + "\n"
