import VibeProof.Props.C06
#print axioms VibeProof.C06.C06_exactly_one
#print axioms VibeProof.C06.C06_partition
#print axioms VibeProof.C06.C06_lengths
#print axioms VibeProof.C06.C06_disjoint
#print axioms VibeProof.C06.C06_count_matches_select_list
#print axioms VibeProof.C06.C06_filter_mem
#print axioms VibeProof.C06.C06_distinct_form
#print axioms VibeProof.C06.C06_additive_aggregate
#print axioms VibeProof.C06.C06_sql_not
#print axioms VibeProof.C06.C06_sql_is_null
#print axioms VibeProof.C06.C06_group_partition
#print axioms VibeProof.C06.C06_group_counts_additive
#print axioms VibeProof.C06.C06_group_keys
#print axioms VibeProof.C06.C06_having_partition
#print axioms VibeProof.C06.C06_sql_where_is_filter3
#print axioms VibeProof.C06.C06_sql_partition
