//! throw-away probe: runs SQL statements from argv[1] file (one per line) and prints results
use vharness::*;
fn main() {
    engine::silence_panics();
    let path = std::env::args().nth(1).expect("file");
    let text = std::fs::read_to_string(path).unwrap();
    let mut db = Db::new();
    for line in text.lines() {
        let l = line.trim();
        if l.is_empty() || l.starts_with("--") { continue; }
        if let Some(v) = l.strip_prefix("!env ") {
            if v == "off" { std::env::set_var("VIBESQL_VERIF_NO_COLUMNAR", "1"); } else { std::env::remove_var("VIBESQL_VERIF_NO_COLUMNAR"); }
            println!("[columnar {}]", if v == "off" {"OFF"} else {"ON"});
            continue;
        }
        let o = db.exec(l);
        let raw = match &o { Out::Rows(r) => format!("{:?}", r), _ => String::new() };
        println!("{}\n    => {}   {}", l, o.brief(), raw);
    }
}
