//! C26 — access control is complete and follows the GRANT/REVOKE history.
//!
//! Real parts: the catalog privilege store, GRANT / REVOKE / role DDL executors (through SQL),
//! `PrivilegeChecker` as reached by every statement shape under `enable_security` + `set_role`.
//!
//! Direct oracles (no model):
//!  * history: `has_privilege` = "the last operation on the exact (grantee, object, privilege)
//!    triple is a grant" (store level, computed independently in this file);
//!  * non-interference: a statement run by a role must behave identically on two databases that
//!    differ only in the contents of tables the role holds no SELECT on (so it neither returns
//!    nor copies their rows), and a denied statement changes nothing; a statement whose write
//!    privilege is missing leaves its target unchanged.
//! Correspondence: store ops, statement-level GRANT/REVOKE outcomes and resulting privileges,
//! and allow / deny (+ which checks can be named) against the Lean model (`Model/Priv.lean`).
use std::collections::{BTreeMap, BTreeSet};
use vharness::*;
use vibesql_ast::{ObjectType, PrivilegeType};
use vibesql_catalog::PrivilegeGrant;

fn hx(s: &str) -> String {
    sx::hex_str(s)
}

fn model_items(reply: &str) -> Option<Vec<String>> {
    match Sx::parse(reply) {
        Some(Sx::List(v)) if v.first().and_then(|x| x.as_atom()) == Some("r") => Some(v[1..].iter().map(|x| x.to_string()).collect()),
        _ => None,
    }
}

// ---------------------------------------------------------------- privileges

#[derive(Clone, Debug, PartialEq, Eq, PartialOrd, Ord)]
enum P {
    Sel,
    Ins,
    Upd,
    Del,
    Ref,
    All,
    SelCols(Vec<String>),
}

impl P {
    fn real(&self) -> PrivilegeType {
        match self {
            P::Sel => PrivilegeType::Select(None),
            P::Ins => PrivilegeType::Insert(None),
            P::Upd => PrivilegeType::Update(None),
            P::Del => PrivilegeType::Delete,
            P::Ref => PrivilegeType::References(None),
            P::All => PrivilegeType::AllPrivileges,
            P::SelCols(c) => PrivilegeType::Select(Some(c.clone())),
        }
    }
    fn sx(&self) -> String {
        match self {
            P::Sel => "sel".into(),
            P::Ins => "ins".into(),
            P::Upd => "upd".into(),
            P::Del => "del".into(),
            P::Ref => "ref".into(),
            P::All => "all".into(),
            P::SelCols(c) => format!("(selc {})", c.iter().map(|x| hx(x)).collect::<Vec<_>>().join(" ")),
        }
    }
    fn sql(&self) -> String {
        match self {
            P::Sel => "SELECT".into(),
            P::Ins => "INSERT".into(),
            P::Upd => "UPDATE".into(),
            P::Del => "DELETE".into(),
            P::Ref => "REFERENCES".into(),
            P::All => "ALL PRIVILEGES".into(),
            P::SelCols(c) => format!("SELECT ({})", c.join(", ")),
        }
    }
}

// ---------------------------------------------------------------- 1. store level

fn store_case(r: &mut Rng, model: &mut model::Model, rep: &mut Report) {
    let names = ["R1", "r1", "R2", "PUBLIC"];
    let objs = ["T", "t", "U"];
    let privs = [P::Sel, P::Ins, P::Del, P::SelCols(vec!["A".into()])];
    let mut db = Db::new();
    let mut items: Vec<String> = vec![];
    let mut expect: Vec<String> = vec![];
    // independent oracle state: last operation per exact triple (true = grant)
    let mut last: BTreeMap<(String, String, P), bool> = BTreeMap::new();
    let n = r.range(4, 30);
    let mut n_has_true = 0;
    let mut n_has_false_after_revoke = 0;
    for _ in 0..n {
        let g = r.pick(&names).to_string();
        let o = r.pick(&objs).to_string();
        let p = r.pick(&privs).clone();
        match r.below(10) {
            0..=3 => {
                let grantor = r.pick(&names).to_string();
                let wgo = r.chance(1, 3);
                db.db.catalog.add_grant(PrivilegeGrant { object: o.clone(), object_type: ObjectType::Table, privilege: p.real(), grantee: g.clone(), grantor: grantor.clone(), with_grant_option: wgo });
                items.push(format!("(add {} {} {} {} {})", hx(&o), p.sx(), hx(&g), hx(&grantor), wgo as u8));
                expect.push("ok".into());
                last.insert((g, o, p), true);
            }
            4 | 5 => {
                db.db.catalog.remove_grants(&o, &g, &p.real(), false);
                items.push(format!("(rem {} {} {} 0)", hx(&o), hx(&g), p.sx()));
                expect.push("ok".into());
                last.insert((g, o, p), false);
            }
            6 => {
                db.db.catalog.remove_grants(&o, &g, &p.real(), true);
                items.push(format!("(rem {} {} {} 1)", hx(&o), hx(&g), p.sx()));
                expect.push("ok".into());
            }
            7 => {
                let d = db.db.catalog.has_dependent_grants(&o, &g, &p.real());
                items.push(format!("(dep {} {} {})", hx(&o), hx(&g), p.sx()));
                expect.push(format!("{}", d as u8));
            }
            _ => {
                let h = db.db.catalog.has_privilege(&g, &o, &p.real());
                items.push(format!("(has {} {} {})", hx(&g), hx(&o), p.sx()));
                expect.push(format!("{}", h as u8));
                let want = last.get(&(g.clone(), o.clone(), p.clone())).cloned().unwrap_or(false);
                if h {
                    n_has_true += 1;
                } else if last.contains_key(&(g.clone(), o.clone(), p.clone())) {
                    n_has_false_after_revoke += 1;
                }
                if h != want {
                    rep.fail(
                        FailKind::Oracle,
                        None,
                        "has_privilege disagrees with the GRANT/REVOKE history (last operation on the exact triple)",
                        &format!("store ops: {}\nhas_privilege({}, {}, {:?}) = {} but the last operation on that triple says {}", items.join(" "), g, o, p, h, want),
                    );
                }
            }
        }
    }
    items.push("(ngrants)".into());
    expect.push(format!("{}", db.db.catalog.get_all_grants().len()));
    let reply = model.ask(&format!("script {}", items.join(" ")));
    rep.traces_validated += 1;
    rep.case(&format!("store {}", items.join(" ")), n_has_true >= 1 && n_has_false_after_revoke >= 1);
    if model_items(&reply).as_ref() != Some(&expect) {
        rep.fail(FailKind::ModelDiff, None, "privilege store (add_grant / remove_grants / has_privilege / has_dependent_grants) differs from the model", &format!("ops:   {}\ncode:  {}\nmodel: {}", items.join(" "), expect.join(" "), reply));
    }
}

// ---------------------------------------------------------------- 2. statement level GRANT / REVOKE

#[derive(Clone, Debug)]
enum H {
    SetRole(String),
    CreateRole(String),
    DropRole(String),
    Grant { privs: Vec<P>, obj: String, to: Vec<String>, wgo: bool },
    Revoke { privs: Vec<P>, obj: String, from: Vec<String>, gof: bool, casc: &'static str },
}

fn err_class(o: &Out) -> String {
    match o {
        Out::Count(_) | Out::Rows(_) => "ok".into(),
        Out::Err { class, msg } => match class.as_str() {
            "TableNotFound" => "(err tablenotfound)".into(),
            "RoleNotFound" => "(err rolenotfound)".into(),
            "DependentPrivilegesExist" => "(err dependent)".into(),
            "StorageError" if msg.contains("RoleAlreadyExists") => "(err roleexists)".into(),
            "StorageError" if msg.contains("RoleNotFound") => "(err rolenotfound)".into(),
            _ => format!("(err other-{})", class),
        },
        Out::Panic(m) => format!("(panic {})", m.replace(' ', "_")),
    }
}

/// applies the history to the database through SQL; returns (model items, code replies, sql script)
fn apply_history(db: &mut Db, hist: &[H], cur: &mut String) -> (Vec<String>, Vec<String>, Vec<String>) {
    let mut items = vec![];
    let mut replies = vec![];
    let mut script = vec![];
    for h in hist {
        match h {
            H::SetRole(r) => {
                db.db.set_role(Some(r.clone()));
                *cur = r.clone();
                script.push(format!("-- set_role({})", r));
            }
            H::CreateRole(r) => {
                let sql = format!("CREATE ROLE {}", r);
                replies.push(err_class(&db.exec(&sql)));
                items.push(format!("(createrole {})", hx(&r.to_uppercase())));
                script.push(sql);
            }
            H::DropRole(r) => {
                let sql = format!("DROP ROLE {}", r);
                replies.push(err_class(&db.exec(&sql)));
                items.push(format!("(droprole {})", hx(&r.to_uppercase())));
                script.push(sql);
            }
            H::Grant { privs, obj, to, wgo } => {
                let sql = format!("GRANT {} ON {} TO {}{}", privs.iter().map(|p| p.sql()).collect::<Vec<_>>().join(", "), obj, to.join(", "), if *wgo { " WITH GRANT OPTION" } else { "" });
                replies.push(err_class(&db.exec(&sql)));
                items.push(format!(
                    "(grant {} ({}) {} ({}) {})",
                    hx(cur),
                    privs.iter().map(|p| p.sx()).collect::<Vec<_>>().join(" "),
                    hx(&obj.to_uppercase()),
                    to.iter().map(|g| hx(&g.to_uppercase())).collect::<Vec<_>>().join(" "),
                    *wgo as u8
                ));
                script.push(sql);
            }
            H::Revoke { privs, obj, from, gof, casc } => {
                let sql = format!(
                    "REVOKE {}{} ON {} FROM {}{}",
                    if *gof { "GRANT OPTION FOR " } else { "" },
                    privs.iter().map(|p| p.sql()).collect::<Vec<_>>().join(", "),
                    obj,
                    from.join(", "),
                    match *casc {
                        "cascade" => " CASCADE",
                        "restrict" => " RESTRICT",
                        _ => "",
                    }
                );
                replies.push(err_class(&db.exec(&sql)));
                items.push(format!(
                    "(revoke ({}) {} ({}) {} {})",
                    privs.iter().map(|p| p.sx()).collect::<Vec<_>>().join(" "),
                    hx(&obj.to_uppercase()),
                    from.iter().map(|g| hx(&g.to_uppercase())).collect::<Vec<_>>().join(" "),
                    *gof as u8,
                    casc
                ));
                script.push(sql);
            }
        }
    }
    (items, replies, script)
}

fn gen_history(r: &mut Rng, len: usize, rich: bool) -> Vec<H> {
    let roles = ["r1", "r2", "r3"];
    let objs = ["t", "u", "w"];
    let mut h = vec![];
    for _ in 0..len {
        let privs: Vec<P> = {
            let mut v = vec![];
            if r.chance(1, 8) {
                v.push(P::All);
            } else {
                for _ in 0..r.range(1, 2) {
                    v.push(r.pick(&[P::Sel, P::Sel, P::Ins, P::Upd, P::Del]).clone());
                }
                if rich && r.chance(1, 12) {
                    v.push(P::SelCols(vec!["A".into()]));
                }
                if rich && r.chance(1, 15) {
                    v.push(P::Ref);
                }
            }
            v
        };
        let obj = if rich && r.chance(1, 20) { "nosuch".to_string() } else { r.pick(&objs).to_string() };
        let who: Vec<String> = {
            let mut v = vec![if rich && r.chance(1, 20) { "ghost".to_string() } else { r.pick(&roles[..if rich { 3 } else { 2 }]).to_string() }];
            if r.chance(1, 6) {
                v.push(r.pick(&roles[..2]).to_string());
            }
            v
        };
        match r.below(if rich { 14 } else { 10 }) {
            0..=5 => h.push(H::Grant { privs, obj, to: who, wgo: r.chance(1, 3) }),
            6..=9 => {
                let gof = rich && r.chance(1, 6);
                // GRANT OPTION FOR … CASCADE recurses without shrinking anything: with a cycle of
                // grantors the executor overflows the stack; not generated (noted in notes/C26.md)
                let casc = if gof { *r.pick(&["none", "restrict"]) } else { *r.pick(&["none", "none", "cascade", "restrict"]) };
                h.push(H::Revoke { privs, obj, from: who, gof, casc })
            }
            10 => h.push(H::SetRole(r.pick(&["R1", "R2", "PUBLIC", "ADMIN"]).to_string())),
            11 => h.push(H::CreateRole(r.pick(&roles).to_string())),
            12 => h.push(H::DropRole(r.pick(&roles).to_string())),
            _ => h.push(H::SetRole("R1".into())),
        }
    }
    h
}

fn grant_case(r: &mut Rng, model: &mut model::Model, rep: &mut Report, sample: bool) {
    let mut db = Db::new();
    for s in ["CREATE TABLE t (a INTEGER, b VARCHAR(10))", "CREATE TABLE u (a INTEGER, b VARCHAR(10))", "CREATE TABLE w (a INTEGER, b VARCHAR(10))"] {
        db.must(s);
    }
    let mut hist = vec![H::CreateRole("r1".into()), H::CreateRole("r2".into())];
    if r.chance(2, 3) {
        hist.push(H::CreateRole("r3".into()));
    }
    let hl = r.range(3, 16) as usize;
    hist.extend(gen_history(r, hl, true));
    let mut cur = "PUBLIC".to_string();
    let (mut items, mut replies, script) = apply_history(&mut db, &hist, &mut cur);
    let mut pre = vec!["(table 54)".to_string(), "(table 55)".to_string(), "(table 57)".to_string()];
    let mut n_true = 0;
    let mut n_false = 0;
    for g in ["R1", "R2", "R3"] {
        for o in ["T", "U", "W"] {
            for p in [P::Sel, P::Ins, P::Upd, P::Del, P::Ref] {
                let h = db.db.catalog.has_privilege(g, o, &p.real());
                if h {
                    n_true += 1
                } else {
                    n_false += 1
                }
                items.push(format!("(has {} {} {})", hx(g), hx(o), p.sx()));
                replies.push(format!("{}", h as u8));
                if p == P::Sel {
                    let flags: Vec<String> = db.db.catalog.get_all_grants().iter().filter(|x| x.grantee == g && x.object == o && x.privilege == p.real()).map(|x| format!("{}", x.with_grant_option as u8)).collect();
                    items.push(format!("(wgo {} {} {})", hx(g), hx(o), p.sx()));
                    replies.push(format!("({})", flags.join(" ")));
                }
            }
        }
    }
    items.push("(ngrants)".into());
    replies.push(format!("{}", db.db.catalog.get_all_grants().len()));
    let mut expect = vec!["ok".to_string(); 3];
    expect.extend(replies);
    pre.extend(items);
    let reply = model.ask(&format!("script {}", pre.join(" ")));
    rep.traces_validated += 1;
    let n_err = expect.iter().filter(|x| x.starts_with("(err")).count();
    rep.add("grant_revoke_statements_rejected", n_err as u64);
    rep.case(&format!("grants {}", script.join(";")), n_true >= 1 && n_false >= 1 && hist.iter().any(|h| matches!(h, H::Revoke { .. })));
    if sample {
        rep.sample(serde_json::json!({"kind": "GRANT/REVOKE history", "sql": script, "privileges_held_after": n_true}));
    }
    if model_items(&reply).as_ref() != Some(&expect) {
        let got = model_items(&reply).unwrap_or_default();
        let first = got.iter().zip(expect.iter()).position(|(a, b)| a != b);
        rep.fail(
            FailKind::ModelDiff,
            None,
            "GRANT / REVOKE / role DDL outcome or the resulting privileges differ from the model",
            &format!("SQL:\n{}\nmodel request: script {}\nfirst difference at item {:?}: code {:?} model {:?}\ncode:  {}\nmodel: {}", script.join(";\n"), pre.join(" "), first, first.map(|i| &expect[i]), first.map(|i| &got[i]), expect.join(" "), reply),
        );
    }
}

// ---------------------------------------------------------------- 3. statements under a role

#[derive(Clone, Debug)]
enum Fp {
    None,
    T(&'static str),
    V(&'static str, Box<Fp>),
    B(Box<Fp>, Box<Fp>),
}

impl Fp {
    fn sx(&self) -> String {
        match self {
            Fp::None => "none".into(),
            Fp::T(n) => format!("(t {})", hx(n)),
            Fp::V(n, b) => format!("(v {} {})", hx(n), b.sx()),
            Fp::B(a, b) => format!("(b {} {})", a.sx(), b.sx()),
        }
    }
    fn reads(&self, out: &mut Vec<&'static str>) {
        match self {
            Fp::None => {}
            Fp::T(n) => out.push(n),
            Fp::V(n, b) => {
                out.push(n);
                b.reads(out)
            }
            Fp::B(a, b) => {
                a.reads(out);
                b.reads(out)
            }
        }
    }
}

#[derive(Clone, Debug)]
struct Shape {
    name: &'static str,
    sql: String,
    kind: &'static str, // select | insert | update | delete
    target: Option<&'static str>,
    fp: Fp,
}

fn src(n: &'static str) -> Fp {
    if n == "VU" {
        Fp::V("VU", Box::new(Fp::T("U")))
    } else {
        Fp::T(n)
    }
}
fn both(a: Fp, b: Fp) -> Fp {
    Fp::B(Box::new(a), Box::new(b))
}

fn shapes(r: &mut Rng) -> Shape {
    let tabs = ["T", "U", "W"];
    let srcs = ["T", "U", "W", "VU"];
    let x = *r.pick(&srcs);
    let y = *r.pick(&srcs);
    let tx = *r.pick(&tabs);
    let k = r.below(33);
    let sel = |name: &'static str, sql: String, fp: Fp| Shape { name, sql, kind: "select", target: None, fp };
    match k {
        0 => sel("scan", format!("SELECT * FROM {}", x), src(x)),
        1 => sel("index_scan", "SELECT * FROM U WHERE a = 1".into(), src("U")),
        2 => sel("join", format!("SELECT p.a, q.b FROM {} AS p JOIN {} AS q ON p.a = q.a", x, y), both(src(x), src(y))),
        3 => sel("comma_join", format!("SELECT p.a FROM {} AS p, {} AS q WHERE p.a = q.a", x, y), both(src(x), src(y))),
        4 => sel("scalar_subquery_select_list", format!("SELECT a, (SELECT MAX(a) FROM {}) FROM {}", y, x), both(src(x), src(y))),
        5 => sel("in_subquery_where", format!("SELECT a FROM {} WHERE a IN (SELECT a FROM {})", x, y), both(src(x), src(y))),
        6 => sel("exists_where", format!("SELECT p.a FROM {} AS p WHERE EXISTS (SELECT 1 FROM {} AS q WHERE q.a = p.a)", x, y), both(src(x), src(y))),
        7 => sel("having_subquery", format!("SELECT a, COUNT(*) FROM {} GROUP BY a HAVING a IN (SELECT a FROM {})", x, y), both(src(x), src(y))),
        8 => sel("order_by_in_subquery_indexed", format!("SELECT a FROM {} ORDER BY a IN (SELECT a FROM U), a", x), both(src(x), src("U"))),
        9 => sel("group_by_in_subquery_indexed", format!("SELECT a FROM {} GROUP BY a, a IN (SELECT a FROM U)", x), both(src(x), src("U"))),
        10 => sel("view", "SELECT * FROM VU".into(), src("VU")),
        11 => sel("cte", format!("WITH q AS (SELECT a, b FROM {}) SELECT a FROM q", y), src(y)),
        12 => sel("derived_table", format!("SELECT d.a FROM (SELECT a FROM {}) AS d", y), src(y)),
        13 => sel("union", format!("SELECT a FROM {} UNION SELECT a FROM {}", x, y), both(src(x), src(y))),
        14 => sel("select_list_in_subquery", format!("SELECT a, a IN (SELECT a FROM {}) FROM {}", y, x), both(src(x), src(y))),
        15 => sel("aggregate", format!("SELECT COUNT(*), SUM(a) FROM {}", x), src(x)),
        16 => sel("scalar_subquery_where", format!("SELECT a FROM {} WHERE a >= (SELECT MIN(a) FROM {})", x, y), both(src(x), src(y))),
        17 => sel("in_subquery_indexed_where_filter", format!("SELECT a FROM {} ORDER BY a IN (SELECT a FROM U WHERE a >= 2), a", x), both(src(x), src("U"))),
        18 | 19 => {
            let s = *r.pick(&tabs);
            if s == tx {
                Shape { name: "insert_values", sql: format!("INSERT INTO {} VALUES (7, 'n')", tx), kind: "insert", target: Some(tx), fp: Fp::None }
            } else {
                Shape { name: "insert_select_star_bulk", sql: format!("INSERT INTO {} SELECT * FROM {}", tx, s), kind: "insert", target: Some(tx), fp: src(s) }
            }
        }
        20 => Shape { name: "insert_select_column_list", sql: format!("INSERT INTO {} (a, b) SELECT a, b FROM {}", tx, y), kind: "insert", target: Some(tx), fp: src(y) },
        21 => Shape { name: "insert_select_where_subquery", sql: format!("INSERT INTO {} SELECT a, b FROM {} WHERE a IN (SELECT a FROM {})", tx, x, y), kind: "insert", target: Some(tx), fp: both(src(x), src(y)) },
        22 => Shape { name: "insert_values", sql: format!("INSERT INTO {} VALUES (7, 'n')", tx), kind: "insert", target: Some(tx), fp: Fp::None },
        23 => Shape { name: "update_set_subquery", sql: format!("UPDATE {} SET a = (SELECT MAX(a) FROM {})", tx, y), kind: "update", target: Some(tx), fp: src(y) },
        24 => Shape { name: "update_where_in_subquery", sql: format!("UPDATE {} SET b = 'hit' WHERE a IN (SELECT a FROM {})", tx, y), kind: "update", target: Some(tx), fp: src(y) },
        25 => Shape { name: "update_plain", sql: format!("UPDATE {} SET b = 'p' WHERE a = 1", tx), kind: "update", target: Some(tx), fp: Fp::None },
        26 => Shape { name: "delete_where_in_subquery", sql: format!("DELETE FROM {} WHERE a IN (SELECT a FROM {})", tx, y), kind: "delete", target: Some(tx), fp: src(y) },
        27 => Shape { name: "delete_where_exists", sql: format!("DELETE FROM {} WHERE EXISTS (SELECT 1 FROM {} AS q WHERE q.a = {}.a)", tx, y, tx), kind: "delete", target: Some(tx), fp: src(y) },
        28 => Shape { name: "delete_plain", sql: format!("DELETE FROM {} WHERE a = 1", tx), kind: "delete", target: Some(tx), fp: Fp::None },
        29 => sel("count_star_order_by", format!("SELECT COUNT(*) FROM {} ORDER BY 1", tx), src(tx)),
        30 => sel("count_star", format!("SELECT COUNT(*) FROM {}", tx), src(tx)),
        31 => sel("count_star_limit", format!("SELECT COUNT(*) FROM {} LIMIT 1", tx), src(tx)),
        _ => Shape { name: "delete_all", sql: format!("DELETE FROM {}", tx), kind: "delete", target: Some(tx), fp: Fp::None },
    }
}

const TABLES: [&str; 3] = ["T", "U", "W"];

fn build(hist: &[H], view_grant: bool, alt: &BTreeSet<&str>) -> (Db, Vec<String>, Vec<String>, Vec<String>) {
    let mut db = Db::new();
    db.keep_log = false;
    for s in ["CREATE TABLE t (a INTEGER, b VARCHAR(10))", "CREATE TABLE u (a INTEGER, b VARCHAR(10))", "CREATE TABLE w (a INTEGER, b VARCHAR(10))", "CREATE INDEX iu ON u (a)", "CREATE VIEW vu AS SELECT a, b FROM u"] {
        db.must(s);
    }
    // the twin holds different rows in the tables of `alt`
    for t in TABLES {
        let rows: &[(i64, &str)] = if alt.contains(t) { &[(2, "alt2"), (4, "alt4"), (5, "alt5"), (5, "alt5b")] } else { &[(1, "one"), (2, "two"), (3, "three")] };
        for (a, b) in rows {
            db.must(&format!("INSERT INTO {} VALUES ({}, '{}{}')", t, a, t.to_lowercase(), b));
        }
    }
    let mut cur = "PUBLIC".to_string();
    let (mut items, mut replies, mut script) = apply_history(&mut db, hist, &mut cur);
    if view_grant {
        // GRANT … ON <view> is rejected by the executor (TableNotFound), so the grant on the view
        // goes through the catalog API
        db.db.catalog.add_grant(PrivilegeGrant { object: "VU".into(), object_type: ObjectType::Table, privilege: PrivilegeType::Select(None), grantee: "R1".into(), grantor: "PUBLIC".into(), with_grant_option: false });
        items.push(format!("(add {} sel {} {} 0)", hx("VU"), hx("R1"), hx("PUBLIC")));
        replies.push("ok".into());
        script.push("-- catalog.add_grant(SELECT on VU to R1)".into());
    }
    (db, items, replies, script)
}

fn state(db: &Db) -> BTreeMap<&'static str, Vec<String>> {
    TABLES.iter().map(|t| (*t, canon::bag_vec(&db.scan(t).unwrap_or_default()))).collect()
}

fn delta(pre: &[String], post: &[String]) -> (Vec<String>, Vec<String>) {
    let mut added = post.to_vec();
    let mut removed = vec![];
    for p in pre {
        if let Some(i) = added.iter().position(|x| x == p) {
            added.remove(i);
        } else {
            removed.push(p.clone());
        }
    }
    (added, removed)
}

fn denied_detail(o: &Out) -> Option<(String, String)> {
    if let Out::Err { class, msg } = o {
        if class == "PermissionDenied" {
            let q: Vec<&str> = msg.split('"').collect();
            // PermissionDenied { role: "R1", privilege: "SELECT", object: "U" }
            if q.len() >= 6 {
                return Some((q[3].to_lowercase(), q[5].to_string()));
            }
        }
    }
    None
}

fn same_out(a: &Out, b: &Out) -> bool {
    match (a, b) {
        (Out::Rows(x), Out::Rows(y)) => canon::rows_bag(x) == canon::rows_bag(y),
        (Out::Count(x), Out::Count(y)) => x == y,
        (Out::Err { class: c1, .. }, Out::Err { class: c2, .. }) => c1 == c2,
        _ => false,
    }
}

fn stmt_case(r: &mut Rng, model: &mut model::Model, rep: &mut Report, probe: Option<(Vec<H>, Shape, &str, bool)>, sample: bool) {
    let (hist, shape, role, sec) = match probe {
        Some((h, s, role, sec)) => (h, s, role.to_string(), sec),
        None => {
            let mut hist = vec![H::CreateRole("r1".into()), H::CreateRole("r2".into())];
            // start from a generous grant so that allowed statements are common
            for t in ["t", "u", "w"] {
                if r.chance(3, 5) {
                    hist.push(H::Grant { privs: vec![P::All], obj: t.into(), to: vec!["r1".into()], wgo: false });
                }
            }
            let hl = r.range(0, 8) as usize;
            hist.extend(gen_history(r, hl, false));
            let role = match r.below(20) {
                0 => "r1",
                1 => "ADMIN",
                2 => "DBA",
                3 => "R2",
                _ => "R1",
            };
            (hist, shapes(r), role.to_string(), !r.chance(1, 25))
        }
    };
    let view_grant = r.chance(2, 3);
    let none: BTreeSet<&str> = BTreeSet::new();
    let (mut db, mut items, mut replies, script) = build(&hist, view_grant, &none);
    // tables the role holds no SELECT on (the checker's own view of it, read from the real store)
    let admin = role == "ADMIN" || role == "DBA";
    let holds = |db: &Db, t: &str, p: &PrivilegeType| !sec || admin || db.db.catalog.has_privilege(&role, t, p);
    let unreadable: BTreeSet<&str> = TABLES.iter().cloned().filter(|t| !holds(&db, t, &PrivilegeType::Select(None))).collect();
    // the twin differs in every unreadable table that is not the statement's write target
    let alt: BTreeSet<&str> = unreadable.iter().cloned().filter(|t| Some(*t) != shape.target).collect();
    let (mut twin, _, _, _) = build(&hist, view_grant, &alt);
    for d in [&mut db, &mut twin] {
        if sec {
            d.db.enable_security();
        }
        d.db.set_role(Some(role.clone()));
    }
    let pre = state(&db);
    let pre_twin = state(&twin);
    let out = db.exec(&shape.sql);
    let out_twin = twin.exec(&shape.sql);
    let post = state(&db);
    let post_twin = state(&twin);

    let stmt_sx = match shape.kind {
        "select" => format!("(select {})", shape.fp.sx()),
        k => format!("({} {} {})", k, hx(shape.target.unwrap()), shape.fp.sx()),
    };
    let mut pre_items = vec!["(table 54)".to_string(), "(table 55)".to_string(), "(table 57)".to_string()];
    items.push(format!("(auth {} {} {})", sec as u8, hx(&role), stmt_sx));
    pre_items.extend(items);
    let reply = model.ask(&format!("script {}", pre_items.join(" ")));
    let got = model_items(&reply).unwrap_or_default();
    let verdict = got.last().cloned().unwrap_or_default();
    let replay = || {
        format!(
            "setup: tables T,U,W (a INTEGER, b VARCHAR(10)) with rows (1,'<t>one'),(2,'<t>two'),(3,'<t>three'); CREATE INDEX iu ON u (a); CREATE VIEW vu AS SELECT a, b FROM u\n{}\n-- enable_security = {}; set_role({})\n{};\n-- outcome: {}\n-- outcome on the twin (other rows in {:?}): {}\n-- model: {}\n-- tables before: {:?}\n-- tables after:  {:?}",
            script.join(";\n"),
            sec,
            role,
            shape.sql,
            out.brief(),
            alt,
            out_twin.brief(),
            verdict,
            pre,
            post
        )
    };
    // model vs code on the history part
    let mut expect = vec!["ok".to_string(); 3];
    expect.append(&mut replies);
    if got.len() != expect.len() + 1 || got[..expect.len()] != expect[..] {
        rep.fail(FailKind::ModelDiff, None, "GRANT/REVOKE history outcome differs from the model (statement case)", &format!("{}\ncode:  {}\nmodel: {}", replay(), expect.join(" "), reply));
        return;
    }
    rep.traces_validated += 1;

    let changed = pre != post;
    let denied = denied_detail(&out);
    let mut reads = vec![];
    shape.fp.reads(&mut reads);
    let reads_unreadable = sec && !admin && reads.iter().any(|t| !db.db.catalog.has_privilege(&role, t, &PrivilegeType::Select(None)));
    rep.count(&format!("shape_{}", shape.name));
    rep.count(&format!(
        "outcome_{}",
        match &out {
            Out::Rows(_) | Out::Count(_) => "executed",
            Out::Err { class, .. } if class == "PermissionDenied" => "permission_denied",
            Out::Err { .. } => "other_error",
            Out::Panic(_) => "panic",
        }
    ));
    rep.count(&format!("model_{}", verdict.split(' ').next().unwrap_or("").trim_start_matches('(')));
    // non-trivial: the role is an ordinary one under enabled security and the statement reads or
    // writes at least one table for which the decision depends on the grant history
    rep.case(&format!("{} | {} | {} | {}", script.join(";"), role, sec, shape.sql), sec && !admin && (reads_unreadable || verdict == "done"));
    if sample {
        rep.sample(serde_json::json!({"kind": "statement under a role", "history": script, "role": role, "security": sec, "statement": shape.sql, "model": verdict, "engine": out.brief().chars().take(80).collect::<String>()}));
    }

    // ---- direct oracles
    if out.is_panic() {
        rep.fail(FailKind::Oracle, None, "engine panicked", &replay());
        return;
    }
    // (1) non-interference: nothing of an unreadable table may show in the outcome or be copied
    if !same_out(&out, &out_twin) {
        rep.fail(FailKind::Oracle, None, "the statement's outcome depends on rows of a table the role holds no SELECT on", &replay());
    }
    for t in TABLES {
        let (d1, d2) = (delta(&pre[t], &post[t]), delta(&pre_twin[t], &post_twin[t]));
        if Some(t) == shape.target && unreadable.contains(t) {
            continue; // UPDATE/DELETE … WHERE on an unreadable target reads it by design of the code (noted)
        }
        if alt.contains(t) {
            if pre[t] != post[t] || pre_twin[t] != post_twin[t] {
                rep.fail(FailKind::Oracle, None, "a table that is not the statement's target changed", &replay());
            }
        } else if d1 != d2 {
            rep.fail(FailKind::Oracle, None, "rows written by the statement depend on a table the role holds no SELECT on (rows were copied out of it)", &replay());
        }
    }
    // (2) a denied statement changes nothing
    if denied.is_some() && changed {
        rep.fail(FailKind::Oracle, None, "a statement that failed with PermissionDenied changed table contents", &replay());
    }
    // (3) a missing write privilege protects the target
    if let Some(t) = shape.target {
        let p = match shape.kind {
            "insert" => PrivilegeType::Insert(None),
            "update" => PrivilegeType::Update(None),
            _ => PrivilegeType::Delete,
        };
        if !holds(&db, t, &p) && (denied.is_none() || pre[t] != post[t]) {
            rep.fail(FailKind::Oracle, None, "a write without the matching privilege was not refused", &replay());
        }
    }
    // (4) history-following: with every needed privilege held the statement is not refused
    // ---- model vs code
    match verdict.as_str() {
        "done" => {
            if denied.is_some() {
                rep.fail(FailKind::ModelDiff, None, "engine refuses a statement for which the role holds every needed privilege", &replay());
            }
        }
        "inert" => {
            // DELETE as coded: the denied subquery is swallowed; reported as the recorded finding
            let as_coded = matches!(out, Out::Count(0)) && !changed;
            if as_coded {
                rep.fail(FailKind::Oracle, Some("C26/delete-swallows-denied-subquery"), "DELETE whose WHERE reads a table without SELECT privilege reports success instead of failing", &replay());
            } else {
                rep.fail(FailKind::ModelDiff, None, "DELETE with an unreadable subquery table: engine neither fails nor behaves as the model of the code says", &replay());
            }
        }
        v if v.starts_with("(denied") => match &denied {
            Some((privilege, object)) => {
                // the engine may meet the failing checks in another order: the named check must be
                // one the statement needs and the role lacks
                let mut lacking: Vec<(String, String)> = reads.iter().filter(|t| !holds(&db, t, &PrivilegeType::Select(None))).map(|t| ("select".to_string(), t.to_string())).collect();
                if let Some(t) = shape.target {
                    lacking.push((shape.kind.to_string(), t.to_string()));
                }
                if !lacking.contains(&(privilege.clone(), object.clone())) {
                    rep.fail(FailKind::ModelDiff, None, "engine's PermissionDenied names a check the statement does not need or the role holds", &replay());
                }
            }
            None => {
                rep.count("model_denies_engine_executes");
                rep.fail(FailKind::ModelDiff, None, "model denies (a needed privilege is missing) but the engine executed the statement", &replay());
            }
        },
        _ => rep.fail(FailKind::ModelDiff, None, "unexpected model reply", &replay()),
    }
}

// ---------------------------------------------------------------- 4. statements that change several (FK-related) tables

const FK_TABLES: [&str; 5] = ["P", "C", "G", "N", "Q"];

fn fk_build(grants: &[(P, &'static str)]) -> (Db, Vec<String>, Vec<String>) {
    let mut db = Db::new();
    db.keep_log = false;
    let mut script = vec![];
    for s in [
        "CREATE TABLE p (id INTEGER PRIMARY KEY, v VARCHAR(10))",
        "CREATE TABLE c (id INTEGER PRIMARY KEY, pid INTEGER, FOREIGN KEY (pid) REFERENCES p(id) ON DELETE CASCADE)",
        "CREATE TABLE g (id INTEGER, cid INTEGER, FOREIGN KEY (cid) REFERENCES c(id) ON DELETE CASCADE)",
        "CREATE TABLE n (id INTEGER, pid INTEGER, FOREIGN KEY (pid) REFERENCES p(id) ON DELETE SET NULL)",
        "CREATE TABLE q (id INTEGER PRIMARY KEY, v VARCHAR(10))",
        "INSERT INTO p VALUES (1, 'a'), (2, 'b'), (3, 'c')",
        "INSERT INTO c VALUES (10, 1), (20, 2), (30, 3)",
        "INSERT INTO g VALUES (100, 10), (200, 20)",
        "INSERT INTO n VALUES (5, 1), (6, 2)",
        "INSERT INTO q VALUES (7, 'q')",
        "CREATE ROLE r1",
    ] {
        db.must(s);
        script.push(s.to_string());
    }
    let mut items: Vec<String> = FK_TABLES.iter().map(|t| format!("(table {})", hx(t))).collect();
    items.push(format!("(createrole {})", hx("R1")));
    for (p, t) in grants {
        let sql = format!("GRANT {} ON {} TO r1", p.sql(), t);
        db.must(&sql);
        script.push(sql);
        items.push(format!("(grant {} ({}) {} ({}) 0)", hx("PUBLIC"), p.sx(), hx(&t.to_uppercase()), hx("R1")));
    }
    (db, items, script)
}

fn fk_state(db: &Db) -> BTreeMap<&'static str, Option<Vec<String>>> {
    FK_TABLES.iter().map(|t| (*t, db.scan(t).map(|r| canon::bag_vec(&r)))).collect()
}

fn fk_case(r: &mut Rng, model: &mut model::Model, rep: &mut Report, fixed: Option<(Vec<(P, &'static str)>, usize)>, sample: bool) {
    // (sql, model statement, is a DELETE on an FK parent)
    let shapes: Vec<(&str, String, bool)> = vec![
        ("TRUNCATE TABLE p CASCADE", format!("(truncate {} {} {} {})", hx("G"), hx("C"), hx("N"), hx("P")), false),
        ("TRUNCATE TABLE c CASCADE", format!("(truncate {} {})", hx("G"), hx("C")), false),
        ("TRUNCATE TABLE p RESTRICT", format!("(truncate {})", hx("P")), false),
        ("TRUNCATE TABLE p", format!("(truncate {})", hx("P")), false),
        ("TRUNCATE TABLE q", format!("(truncate {})", hx("Q")), false),
        ("TRUNCATE TABLE g", format!("(truncate {})", hx("G")), false),
        ("TRUNCATE TABLE q, g", format!("(truncate {} {})", hx("Q"), hx("G")), false),
        ("TRUNCATE TABLE g, n, q", format!("(truncate {} {} {})", hx("G"), hx("N"), hx("Q")), false),
        ("DELETE FROM p WHERE id = 1", format!("(delete {} none)", hx("P")), true),
        ("DELETE FROM p", format!("(delete {} none)", hx("P")), true),
        ("DELETE FROM c WHERE id = 10", format!("(delete {} none)", hx("C")), true),
        ("DELETE FROM g WHERE id = 100", format!("(delete {} none)", hx("G")), false),
        ("UPDATE p SET id = id + 10 WHERE id = 1", format!("(update {} none)", hx("P")), false),
        ("UPDATE n SET pid = 3 WHERE id = 5", format!("(update {} none)", hx("N")), false),
        ("DROP TABLE q", format!("(truncate {})", hx("Q")), false),
        ("DROP TABLE g", format!("(truncate {})", hx("G")), false),
        ("INSERT INTO q SELECT * FROM p", format!("(insert {} (t {}))", hx("Q"), hx("P")), false),
        ("INSERT INTO g VALUES (300, 30)", format!("(insert {} none)", hx("G")), false),
    ];
    let (grants, k) = match fixed {
        Some(x) => x,
        None => {
            let mut g: Vec<(P, &'static str)> = vec![];
            for t in ["p", "c", "g", "n", "q"] {
                match r.below(6) {
                    0 => {}
                    1 | 2 => g.push((P::All, t)),
                    3 => g.push((P::Del, t)),
                    4 => {
                        g.push((P::Sel, t));
                        g.push((P::Ins, t))
                    }
                    _ => {
                        g.push((P::Sel, t));
                        g.push((P::Upd, t));
                    }
                }
            }
            (g, r.below(shapes.len() as u64) as usize)
        }
    };
    let (sql, stmt_sx, parent_delete) = (&shapes[k].0, &shapes[k].1, shapes[k].2);
    let (mut db, mut items, script) = fk_build(&grants);
    db.db.enable_security();
    db.db.set_role(Some("R1".into()));
    let holds = |db: &Db, t: &str, p: &PrivilegeType| db.db.catalog.has_privilege("R1", t, p);
    let pre = fk_state(&db);
    let out = db.exec(sql);
    let post = fk_state(&db);
    items.push(format!("(auth 1 {} {})", hx("R1"), stmt_sx));
    let reply = model.ask(&format!("script {}", items.join(" ")));
    let verdict = model_items(&reply).and_then(|v| v.last().cloned()).unwrap_or_default();
    rep.traces_validated += 1;
    let replay = || format!("{};\n-- enable_security; set_role(R1)\n{};\n-- outcome: {}\n-- model: {}\n-- before: {:?}\n-- after:  {:?}", script.join(";\n"), sql, out.brief(), verdict, pre, post);
    rep.count(&format!("fk_shape_{}", sql.split_whitespace().take(2).collect::<Vec<_>>().join("_").to_lowercase()));
    rep.count(if out.is_ok() { "fk_outcome_executed" } else if denied_detail(&out).is_some() { "fk_outcome_permission_denied" } else { "fk_outcome_other_error" });
    let partial = FK_TABLES.iter().any(|t| holds(&db, t, &PrivilegeType::Delete)) && FK_TABLES.iter().any(|t| !holds(&db, t, &PrivilegeType::Delete));
    rep.case(&format!("fk {} | {}", script[11..].join(";"), sql), partial);
    if sample {
        rep.sample(serde_json::json!({"kind": "statement over FK-related tables", "grants": script[11..].to_vec(), "statement": sql, "model": verdict, "engine": out.brief().chars().take(90).collect::<String>()}));
    }
    if out.is_panic() {
        rep.fail(FailKind::Oracle, None, "engine panicked", &replay());
        return;
    }
    // ---- direct oracle: rows of a table change only with the matching privilege on THAT table;
    //      a failing statement changes nothing
    if !out.is_ok() && pre != post {
        rep.fail(FailKind::Oracle, None, "a statement that failed changed table contents", &replay());
    }
    for t in FK_TABLES {
        if pre[t] == post[t] {
            continue;
        }
        let need: Option<PrivilegeType> = match (&pre[t], &post[t]) {
            (Some(_), None) => Some(PrivilegeType::Delete),
            (Some(a), Some(b)) => {
                let (added, removed) = delta(a, b);
                if !removed.is_empty() && added.is_empty() {
                    Some(PrivilegeType::Delete)
                } else if !added.is_empty() && removed.is_empty() {
                    Some(PrivilegeType::Insert(None))
                } else {
                    Some(PrivilegeType::Update(None))
                }
            }
            _ => None,
        };
        if let Some(p) = need {
            if !holds(&db, t, &p) {
                // recorded finding: the referential action of a DELETE on the parent (the role
                // holds DELETE on the statement's own target) changes a descendant table
                let target = sql.split_whitespace().nth(2).unwrap_or("").to_uppercase();
                let sig = if parent_delete && t != target && holds(&db, &target, &PrivilegeType::Delete) && ["C", "G", "N"].contains(&t) {
                    Some("C26/fk-referential-action-unchecked")
                } else {
                    None
                };
                rep.fail(FailKind::Oracle, sig, &format!("rows of a table were changed by a role without the matching privilege on that table ({:?} on {})", p, t), &replay());
            }
        }
    }
    // ---- model vs code
    let denied = denied_detail(&out);
    match verdict.as_str() {
        "done" => {
            if denied.is_some() {
                rep.fail(FailKind::ModelDiff, None, "engine refuses a multi-table statement for which the role holds every needed privilege", &replay());
            }
        }
        v if v.starts_with("(denied") => {
            if out.is_ok() {
                rep.fail(FailKind::ModelDiff, None, "model denies (a needed privilege on one of the tables is missing) but the engine executed the statement", &replay());
            } else if let Some((privilege, object)) = &denied {
                let p = match privilege.as_str() {
                    "select" => PrivilegeType::Select(None),
                    "insert" => PrivilegeType::Insert(None),
                    "update" => PrivilegeType::Update(None),
                    _ => PrivilegeType::Delete, // "delete" and check_drop's "drop"
                };
                if holds(&db, object, &p) {
                    rep.fail(FailKind::ModelDiff, None, "engine's PermissionDenied names a privilege the role holds", &replay());
                }
            } else {
                rep.count("fk_model_denies_engine_fails_otherwise");
            }
        }
        _ => rep.fail(FailKind::ModelDiff, None, "unexpected model reply", &format!("{}\nmodel reply: {}", replay(), reply)),
    }
}

fn main() {
    // every SelectExecutor (one per query and per evaluated subquery) allocates a zeroed 10 MB arena;
    // keep such blocks on mmap so that glibc hands out fresh zero pages instead of memset-ing 10 MB each time
    unsafe {
        libc::mallopt(libc::M_MMAP_THRESHOLD, 1 << 20);
    }
    engine::silence_panics();
    let args = Args::parse("C26");
    let mut rep = Report::new(
        &args,
        "cases: (1) privilege-store op sequences — non-trivial with a positive and a revoked has_privilege answer; \
         (2) GRANT/REVOKE/role-DDL histories through SQL — non-trivial with a REVOKE and both held and missing privileges afterwards; \
         (3) (history, role, statement shape) under enable_security+set_role with a twin database differing in unreadable tables — \
         non-trivial when the role is non-admin with security on and the statement touches a table whose decision depends on the history; \
         distinct by hash of the case text",
    );
    rep.assumptions.push("GRANT OPTION FOR … CASCADE is not generated: RevokeExecutor::revoke_cascade recurses without shrinking the grant list and overflows the stack on a cycle of grantors (modelled as fuel exhaustion)".into());
    rep.assumptions.push("UPDATE/DELETE … WHERE on the statement's own target needs only UPDATE/DELETE in the code (no SELECT): outside the property's wording, the twin keeps such a target identical".into());
    rep.assumptions.push("subqueries are evaluated at least once in every generated statement (tables are non-empty, no short-circuit in front of them), so the lazy engine and the eager footprint agree".into());
    let mut model = args.model();
    let mut rng = Rng::new(args.seed);

    // ---- deterministic probes: every shape × {no privilege at all, everything but SELECT on U}
    let base = |extra: Vec<H>| {
        let mut h = vec![H::CreateRole("r1".into()), H::CreateRole("r2".into())];
        h.extend(extra);
        h
    };
    let all_but_u_select = base(vec![
        H::Grant { privs: vec![P::All], obj: "t".into(), to: vec!["r1".into()], wgo: false },
        H::Grant { privs: vec![P::All], obj: "w".into(), to: vec!["r1".into()], wgo: false },
        H::Grant { privs: vec![P::All], obj: "u".into(), to: vec!["r1".into()], wgo: false },
        H::Revoke { privs: vec![P::Sel], obj: "u".into(), from: vec!["r1".into()], gof: false, casc: "none" },
    ]);
    let fixed: Vec<Shape> = vec![
        Shape { name: "probe_bulk_transfer", sql: "INSERT INTO W SELECT * FROM U".into(), kind: "insert", target: Some("W"), fp: src("U") },
        Shape { name: "probe_order_by_in_indexed", sql: "SELECT a FROM T ORDER BY a IN (SELECT a FROM U), a".into(), kind: "select", target: None, fp: both(src("T"), src("U")) },
        Shape { name: "probe_group_by_in_indexed", sql: "SELECT a FROM T GROUP BY a, a IN (SELECT a FROM U)".into(), kind: "select", target: None, fp: both(src("T"), src("U")) },
        Shape { name: "probe_order_by_in_indexed_range", sql: "SELECT a FROM T ORDER BY a IN (SELECT a FROM U WHERE a >= 2), a".into(), kind: "select", target: None, fp: both(src("T"), src("U")) },
        Shape { name: "probe_index_scan", sql: "SELECT * FROM U WHERE a = 1".into(), kind: "select", target: None, fp: src("U") },
        Shape { name: "probe_view", sql: "SELECT * FROM VU".into(), kind: "select", target: None, fp: src("VU") },
        Shape { name: "probe_insert_select_cols", sql: "INSERT INTO W (a, b) SELECT a, b FROM U".into(), kind: "insert", target: Some("W"), fp: src("U") },
        Shape { name: "probe_update_subquery", sql: "UPDATE W SET b = 'hit' WHERE a IN (SELECT a FROM U)".into(), kind: "update", target: Some("W"), fp: src("U") },
        Shape { name: "probe_delete_subquery", sql: "DELETE FROM W WHERE a IN (SELECT a FROM U)".into(), kind: "delete", target: Some("W"), fp: src("U") },
        Shape { name: "probe_count_star_order_by", sql: "SELECT COUNT(*) FROM U ORDER BY 1".into(), kind: "select", target: None, fp: src("U") },
        Shape { name: "probe_count_star", sql: "SELECT COUNT(*) FROM U".into(), kind: "select", target: None, fp: src("U") },
        Shape { name: "probe_aggregate", sql: "SELECT COUNT(*), SUM(a) FROM U".into(), kind: "select", target: None, fp: src("U") },
        Shape { name: "probe_join", sql: "SELECT p.a FROM T AS p JOIN U AS q ON p.a = q.a".into(), kind: "select", target: None, fp: both(src("T"), src("U")) },
    ];
    for s in &fixed {
        for (hist, role, sec) in [(all_but_u_select.clone(), "R1", true), (base(vec![]), "R1", true), (all_but_u_select.clone(), "r1", true), (base(vec![]), "ADMIN", true), (base(vec![]), "R1", false)] {
            let mut r = rng.fork();
            stmt_case(&mut r, &mut model, &mut rep, Some((hist, s.clone(), role, sec)), false);
        }
    }

    // ---- statements over FK-related tables: probes (privileges on the parent only / all but one
    //      descendant / everything / SELECT only / children only) × every shape, then generated sets
    for k in 0..18 {
        for grants in [
            vec![(P::All, "p")],
            vec![(P::All, "p"), (P::All, "c"), (P::All, "n"), (P::All, "q")],
            vec![(P::All, "p"), (P::All, "c"), (P::All, "g"), (P::All, "n"), (P::All, "q")],
            vec![(P::Sel, "p"), (P::Sel, "c"), (P::Sel, "g"), (P::Sel, "n"), (P::Sel, "q")],
            vec![(P::All, "c"), (P::All, "g"), (P::All, "q")],
        ] {
            let mut r = rng.fork();
            fk_case(&mut r, &mut model, &mut rep, Some((grants, k)), false);
        }
    }
    for i in 0..args.n(400, 4000) {
        let mut r = rng.fork();
        fk_case(&mut r, &mut model, &mut rep, None, i < 2);
    }

    // ---- generated
    for _ in 0..args.n(400, 4000) {
        let mut r = rng.fork();
        store_case(&mut r, &mut model, &mut rep);
    }
    for i in 0..args.n(300, 3000) {
        let mut r = rng.fork();
        grant_case(&mut r, &mut model, &mut rep, i < 2);
    }
    for i in 0..args.n(1500, 10000) {
        let mut r = rng.fork();
        stmt_case(&mut r, &mut model, &mut rep, None, i < 3);
    }
    std::process::exit(rep.finish());
}
