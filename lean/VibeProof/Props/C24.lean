import VibeProof.Model.Arith
import VibeProof.Model.RangeGuard
/-
C24 — statement execution never panics and never silently wraps numbers.

Proved here, about the as-coded models `Model/Arith.lean` and `Model/RangeGuard.lean`:
* integer expressions of any nesting depth: a returned value is the exact integer and a machine
  integer; an error other than overflow is the error of the exact semantics (never spurious);
* the SUM accumulator returns the exact sum, in range, or NULL;
* `IndexData::range_scan` never calls `BTreeMap::range` with a pair of bounds on which it panics,
  for every key type, order, increment function and input; before the repair it did;
* LIMIT/OFFSET arithmetic never underflows and is `drop`/`take`;
* SUBSTRING returns a contiguous run of whole characters of its argument.
-/
namespace VibeProof.C24
open VibeProof VibeProof.Arith VibeProof.RangeGuard

/-- a value is a machine value: integers within the signed 64-bit range -/
def valInRange : Value → Prop
  | .int i => Value.inRange64 i = true
  | _ => True

theorem inRange_iff (i : Int) : Value.inRange64 i = true ↔ (-(2^63 : Int) ≤ i ∧ i ≤ 2^63 - 1) := by
  simp [Value.inRange64]

theorem chk_ok {r : Int} {v : Value} (h : chk r = .ok v) : v = .int r ∧ Value.inRange64 r = true := by
  unfold chk at h
  split at h
  · next hr => cases h; exact ⟨rfl, hr⟩
  · cases h

/-- truncated remainder of a machine integer is a machine integer (why `checked_rem(..).unwrap_or(0)`
    needs no range error) -/
theorem tmod_inRange (x y : Int) (hx : Value.inRange64 x = true) : Value.inRange64 (Int.tmod x y) = true := by
  rw [inRange_iff] at *
  have habs := Int.natAbs_tmod x y
  have hle : (Int.tmod x y).natAbs ≤ x.natAbs := by
    rw [habs]; exact Nat.mod_le _ _
  by_cases h0 : 0 ≤ x
  · have := Int.tmod_nonneg y h0
    omega
  · have hneg : Int.tmod x y = -Int.tmod (-x) y := by
      rw [Int.neg_tmod]; omega
    have h2 : 0 ≤ Int.tmod (-x) y := Int.tmod_nonneg y (by omega)
    omega


theorem iToI64_ofValue (a : Value) : iToI64? (IVal.ofValue a) = toI64? a := by
  cases a <;> rfl

theorem arithI_exact (op : AOp) (x y : Int) (v : Value) (hx : Value.inRange64 x = true)
    (h : arithI op x y = .ok v) :
    (exactOp op x y = .ok none ∧ v = .null) ∨
    (∃ r, exactOp op x y = .ok (some r) ∧ v = .int r ∧ Value.inRange64 r = true) := by
  unfold arithI at h
  cases hop : exactOp op x y with
  | error e => rw [hop] at h; cases h
  | ok o =>
    rw [hop] at h
    cases o with
    | none => left; simp at h; exact ⟨rfl, h.symm⟩
    | some r =>
      right
      by_cases hm : op = .imod
      · subst hm
        simp at h
        refine ⟨r, rfl, h.symm, ?_⟩
        simp only [exactOp] at hop
        split at hop
        · cases hop
        · cases hop; exact tmod_inRange x y hx
      · simp [hm] at h
        have := chk_ok h
        exact ⟨r, rfl, this.1, this.2⟩

/-- one binary operator on machine values: a returned value is the exact result of the unbounded
    semantics, and a machine value -/
theorem C24_binop_exact (op : AOp) (a b v : Value) (ha : valInRange a) (hb : valInRange b)
    (h : evalBin op a b = .ok v) :
    idealBin op (IVal.ofValue a) (IVal.ofValue b) = .ok (IVal.ofValue v) ∧ valInRange v := by
  cases a <;> cases b <;>
    simp only [evalBin, idealBin, IVal.ofValue, toI64?, iToI64?, Except.ok.injEq, reduceCtorEq] at h ⊢ <;>
    first
    | (subst h; exact ⟨rfl, trivial⟩)
    | skip
  all_goals trace_state
  all_goals sorry
end VibeProof.C24
