import VibeProof.Props.C01
#print axioms VibeProof.C01.C01_kleene_tables
#print axioms VibeProof.C01.C01_and_or_kleene
#print axioms VibeProof.C01.C01_null_propagates
#print axioms VibeProof.C01.C01_cmp_total
#print axioms VibeProof.C01.C01_filter
#print axioms VibeProof.C01.C01_union_all
#print axioms VibeProof.C01.C01_intersect_all
#print axioms VibeProof.C01.C01_except_all
#print axioms VibeProof.C01.C01_union
#print axioms VibeProof.C01.C01_intersect
#print axioms VibeProof.C01.C01_except
#print axioms VibeProof.C01.C01_setop_query
#print axioms VibeProof.C01.C01_distinct
#print axioms VibeProof.C01.C01_limit_offset
#print axioms VibeProof.C01.C01_group_partition
#print axioms VibeProof.C01.C01_no_group_by_one_row
