import VibeProof.Lemmas.Join
import VibeProof.Model.Sql
import VibeProof.Lemmas.Reindex
import VibeProof.Generated.Consts
/-
C05 — join ordering, join algorithms and subquery rewrites preserve query meaning.

Kernel-level: for every pair of row lists and every pair of key functions the hash, semi and
anti join algorithms (as coded) agree with the definitional nested evaluation; the cross
product is symmetric up to re-projection; an inner join is a filter over the cross product.
The anti join agrees with NOT EXISTS in full and with NOT IN only outside the NULL region
(`_partial` + counterexample); since fix 38420538 the engine converts a user-written NOT IN to
the anti join *plus a NULL guard* (`notInNullAware`), which is NOT IN in full
(`C05_not_in_null_aware`).
-/
namespace VibeProof.C05
open VibeProof VibeProof.Join

/-! ### auxiliary: transposing a nested flatMap is a permutation -/

theorem flatMap_append_perm {α β : Type} (l : List α) (f g : α → List β) :
    (l.flatMap (fun x => f x ++ g x)).Perm (l.flatMap f ++ l.flatMap g) := by
  induction l with
  | nil => simp
  | cons x xs ih =>
    simp only [List.flatMap_cons]
    -- (f x ++ g x) ++ rest  ~  (f x ++ fs) ++ (g x ++ gs)
    have h1 : (f x ++ g x ++ xs.flatMap (fun x => f x ++ g x)).Perm
        (f x ++ g x ++ (xs.flatMap f ++ xs.flatMap g)) := List.Perm.append_left _ ih
    refine h1.trans ?_
    simp only [List.append_assoc]
    refine List.Perm.append_left _ ?_
    simp only [← List.append_assoc]
    exact List.Perm.append_right _ List.perm_append_comm

theorem flatMap_transpose {α β γ : Type} (ls : List α) (rs : List β) (f : α → β → List γ) :
    (rs.flatMap (fun r => ls.flatMap (fun l => f l r))).Perm
      (ls.flatMap (fun l => rs.flatMap (fun r => f l r))) := by
  induction ls with
  | nil => simp
  | cons l ls ih =>
    simp only [List.flatMap_cons]
    exact (flatMap_append_perm rs (fun r => f l r) (fun r => ls.flatMap (fun l => f l r))).trans
      (List.Perm.append_left _ ih)

/-! ### hash inner join = nested loop -/

theorem filter_map_flat {α β : Type} (p : α → Bool) (g : α → β) (l : List α) :
    (l.filter p).map g = l.flatMap (fun x => if p x then [g x] else []) := by
  induction l with
  | nil => rfl
  | cons x xs ih => by_cases h : p x <;> simp [List.filter_cons, h, ih]

theorem eqTrue_comm (a b : Value) : eqTrue a b = eqTrue b a := by
  unfold eqTrue
  by_cases h : a = b
  · subst h; simp [Bool.and_comm]
  · have : ¬ b = a := fun h' => h h'.symm
    simp [h, this]

/-- the hash join returns exactly the rows of the nested-loop join, as a multiset (and in the
same order when the right side is the build side) -/
theorem C05_hash_inner_eq_nested (kl kr : Row → Value) (left right : List Row) :
    (hashJoinInner kl kr left right).Perm (nestedLoop kl kr left right) := by
  unfold hashJoinInner nestedLoop
  by_cases hlen : left.length ≤ right.length
  · simp only [hlen, if_true]
    -- build = left, probe = right : right-major order; transpose
    have hprobe : ∀ p : Row, (if kr p = Value.null then []
          else (lookup (build kl left []) (kr p)).map (fun b => b ++ p))
        = left.flatMap (fun l => if eqTrue (kl l) (kr p) then [l ++ p] else []) := by
      intro p
      by_cases hn : kr p = .null
      · simp [hn, eqTrue]
      · simp only [hn, if_false, lookup_build_nil kl left (kr p) hn, filter_map_flat]
        congr 1; funext l
        by_cases hk : kl l = kr p
        · have : kl l ≠ .null := fun h => hn (hk ▸ h)
          simp [hk, eqTrue, hn]
        · simp [hk, eqTrue]
    have hnl : ∀ l : Row, (right.filter (fun r => eqTrue (kl l) (kr r))).map (fun r => l ++ r)
        = right.flatMap (fun r => if eqTrue (kl l) (kr r) then [l ++ r] else []) := by
      intro l; exact filter_map_flat _ _ _
    simp only [hprobe, hnl]
    exact flatMap_transpose left right (fun l r => if eqTrue (kl l) (kr r) then [l ++ r] else [])
  · simp only [hlen, if_false]
    -- build = right, probe = left : same order as the nested loop
    have : ∀ p : Row, (if kl p = Value.null then []
          else (lookup (build kr right []) (kl p)).map (fun b => p ++ b))
        = (right.filter (fun r => eqTrue (kl p) (kr r))).map (fun r => p ++ r) := by
      intro p
      by_cases hn : kl p = .null
      · simp [hn, eqTrue]
      · simp only [hn, if_false, lookup_build_nil kr right (kl p) hn]
        congr 1
        apply List.filter_congr
        intro r _
        by_cases hk : kr r = kl p
        · have : kr r ≠ .null := fun h => hn (hk ▸ h)
          simp [hk, eqTrue, hn]
        · have : ¬ kl p = kr r := fun h => hk h.symm
          simp [hk, eqTrue, this]
    simp only [this]
    exact List.Perm.refl _

/-! ### semi join = TRUE-set of `x IN (S)`; anti join = NOT EXISTS -/

theorem lookup_nonempty_iff (k : Row → Value) (rs : List Row) (v : Value) (hv : v ≠ .null) :
    (lookup (build k rs []) v).isEmpty = !(rs.any (fun r => eqTrue v (k r))) := by
  rw [lookup_build_nil k rs v hv]
  induction rs with
  | nil => simp
  | cons r rs ih =>
    by_cases h : k r = v
    · subst h; simp [List.filter_cons, eqTrue, hv]
    · have h' : ¬ v = k r := fun e => h e.symm
      simp only [List.filter_cons, h, decide_false, List.any_cons, eqTrue, h', Bool.and_false, Bool.false_or]
      simpa [eqTrue] using ih

/-- the hash semi join keeps exactly the left rows for which `key IN (right keys)` is TRUE -/
theorem C05_semi_eq_in (kl kr : Row → Value) (left right : List Row) :
    hashSemi kl kr left right = filter3 (fun l => inTV (kl l) (right.map kr)) left := by
  unfold hashSemi filter3
  apply List.filter_congr
  intro l _
  by_cases hn : kl l = .null
  · simp [hn, inTV, eqTrue]
    by_cases he : right = [] <;> simp [he]
  · rw [lookup_nonempty_iff kr right (kl l) hn]
    by_cases hany : right.any (fun r => eqTrue (kl l) (kr r)) = true
    · have hne : right ≠ [] := by intro h; simp [h] at hany
      have : (right.map kr).any (fun v => eqTrue (kl l) v) = true := by
        simpa [List.any_map, Function.comp] using hany
      simp [hn, hany, inTV, this, hne]
    · have hany' : right.any (fun r => eqTrue (kl l) (kr r)) = false := by simpa using hany
      have : (right.map kr).any (fun v => eqTrue (kl l) v) = false := by
        simpa [List.any_map, Function.comp] using hany'
      simp only [hn, hany', inTV, this]
      by_cases he : right = []
      · simp [he]
      · by_cases hnull : (List.map kr right).any (fun v => v = Value.null) = true <;> simp [he, hn, hnull]

/-- the hash anti join keeps exactly the left rows with no TRUE match: `NOT EXISTS (… WHERE kr = kl)` -/
theorem C05_anti_eq_not_exists (kl kr : Row → Value) (left right : List Row) :
    hashAnti kl kr left right = left.filter (fun l => !(right.any (fun r => eqTrue (kl l) (kr r)))) := by
  unfold hashAnti
  apply List.filter_congr
  intro l _
  by_cases hn : kl l = .null
  · simp [hn, eqTrue]
  · rw [lookup_nonempty_iff kr right (kl l) hn]
    simp [hn]

/-- and the semi join is `EXISTS (… WHERE kr = kl)` -/
theorem C05_semi_eq_exists (kl kr : Row → Value) (left right : List Row) :
    hashSemi kl kr left right = left.filter (fun l => right.any (fun r => eqTrue (kl l) (kr r))) := by
  unfold hashSemi
  apply List.filter_congr
  intro l _
  by_cases hn : kl l = .null
  · simp [hn, eqTrue]
  · rw [lookup_nonempty_iff kr right (kl l) hn]
    simp [hn]

/-- full statement for NOT IN: the anti join is the TRUE-set of `x NOT IN (S)` -/
def C05_anti_eq_not_in_full : Prop :=
  ∀ (kl kr : Row → Value) (left right : List Row),
    hashAnti kl kr left right = filter3 (fun l => TV.not3 (inTV (kl l) (right.map kr))) left

/-- it holds when no NULL can reach the comparison: the subquery column has no NULL and every
probe is non-NULL (or the subquery is empty) -/
theorem C05_anti_eq_not_in_partial (kl kr : Row → Value) (left right : List Row)
    (hS : ∀ r ∈ right, kr r ≠ .null) (hP : right = [] ∨ ∀ l ∈ left, kl l ≠ .null) :
    hashAnti kl kr left right = filter3 (fun l => TV.not3 (inTV (kl l) (right.map kr))) left := by
  rw [C05_anti_eq_not_exists]
  unfold filter3
  apply List.filter_congr
  intro l hl
  rcases hP with he | hP
  · subst he; simp [inTV, TV.not3]
  · have hn := hP l hl
    have hnonull : (right.map kr).any (fun v => v = Value.null) = false := by
      simp only [List.any_map, List.any_eq_false, Function.comp]
      intro r hr; simpa using hS r hr
    have hmap : (right.map kr).any (fun v => eqTrue (kl l) v) = right.any (fun r => eqTrue (kl l) (kr r)) := by
      rw [List.any_map]; rfl
    by_cases he : right = []
    · subst he; simp [inTV, TV.not3]
    · by_cases hany : right.any (fun r => eqTrue (kl l) (kr r)) = true
      · simp [inTV, he, hmap, hany, TV.not3]
      · have hany' : right.any (fun r => eqTrue (kl l) (kr r)) = false := by simpa using hany
        simp [inTV, he, hmap, hany', hn, hnonull, TV.not3]

/-- as coded the full statement is false: one NULL in the subquery column, or a NULL probe -/
theorem C05_anti_not_in_counterexample : ¬ C05_anti_eq_not_in_full := by
  intro h
  have := h (fun r => r.headD .null) (fun r => r.headD .null) [[.int 1]] [[.null]]
  revert this
  decide

/-- the second excluded region: a NULL probe against a non-empty NULL-free subquery -/
example : hashAnti (fun r => r.headD .null) (fun r => r.headD .null) [[.null]] [[.int 2]] = [[.null]] ∧
    filter3 (fun l => TV.not3 (inTV (l.headD .null) ([[Value.int 2]].map (fun r => r.headD .null)))) [[Value.null]] = [] := by
  decide

/-- the repaired conversion (fix 38420538): anti join + guard is exactly the TRUE-set of
`x NOT IN (S)` — for every key function and every pair of row lists, NULLs included -/
theorem C05_not_in_null_aware (kl kr : Row → Value) (left right : List Row) :
    notInNullAware kl kr left right = filter3 (fun l => TV.not3 (inTV (kl l) (right.map kr))) left := by
  unfold notInNullAware
  rw [C05_anti_eq_not_exists, List.filter_filter]
  unfold filter3
  apply List.filter_congr
  intro l _
  have hmap : (right.map kr).any (fun v => eqTrue (kl l) v) = right.any (fun r => eqTrue (kl l) (kr r)) := by
    rw [List.any_map]; rfl
  have hnull : (right.map kr).any (fun v => decide (v = Value.null)) = right.any (fun r => decide (kr r = Value.null)) := by
    rw [List.any_map]; rfl
  by_cases he : right = []
  · subst he; simp [inTV, TV.not3]
  · have hne : right.isEmpty = false := by cases right <;> simp_all
    have hne' : (right.map kr).isEmpty = false := by cases right <;> simp_all
    simp only [inTV, hne, hne', hmap, hnull, Bool.or_false, Bool.false_eq_true, if_false]
    by_cases hany : right.any (fun r => eqTrue (kl l) (kr r)) = true
    · simp [hany, TV.not3]
    · have hany' : right.any (fun r => eqTrue (kl l) (kr r)) = false := by simpa using hany
      by_cases hx : kl l = .null
      · rw [hx] at hany'
        simp [hany', hx, TV.not3]
      · by_cases hn : right.any (fun r => decide (kr r = Value.null)) = true
        · simp [hany', hx, hn, TV.not3]
        · have hn' : right.any (fun r => decide (kr r = Value.null)) = false := by simpa using hn
          simp [hany', hx, hn', TV.not3]

/-- non-vacuity: the two regions where the plain anti join was wrong -/
example : notInNullAware (fun r => r.headD .null) (fun r => r.headD .null) [[.int 1], [.null], [.int 2]] [[.int 1], [.null]] = [] ∧
    notInNullAware (fun r => r.headD .null) (fun r => r.headD .null) [[.int 1], [.null], [.int 2]] [[.int 1]] = [[.int 2]] ∧
    notInNullAware (fun r => r.headD .null) (fun r => r.headD .null) [[.int 1], [.null]] [] = [[.int 1], [.null]] := by
  decide

/-! ### join order and join syntax -/

theorem map_eq_flatMap_single {α β : Type} (f : α → β) (l : List α) :
    l.map f = l.flatMap (fun x => [f x]) := by
  induction l with
  | nil => rfl
  | cons x xs ih => simp [List.flatMap_cons, ih]

theorem flatMap_congr' {α β : Type} (l : List α) (f g : α → List β) (h : ∀ x ∈ l, f x = g x) :
    l.flatMap f = l.flatMap g := by
  induction l with
  | nil => rfl
  | cons x xs ih =>
    simp only [List.flatMap_cons]
    rw [h x List.mem_cons_self, ih (fun y hy => h y (List.mem_cons_of_mem _ hy))]

/-- a comma join of the tables in the other order, re-projected to the original column order,
has the same rows (as a multiset) -/
theorem C05_cross_swap (l r : List Row) (swap : Row → Row)
    (hswap : ∀ a ∈ l, ∀ b ∈ r, swap (b ++ a) = a ++ b) :
    ((r.flatMap (fun b => l.map (fun a => b ++ a))).map swap).Perm
      (l.flatMap (fun a => r.map (fun b => a ++ b))) := by
  have h1 : (r.flatMap (fun b => l.map (fun a => b ++ a))).map swap
      = r.flatMap (fun b => l.flatMap (fun a => [swap (b ++ a)])) := by
    rw [List.map_flatMap]
    apply flatMap_congr'
    intro b _
    rw [List.map_map, map_eq_flatMap_single]
    rfl
  have h2 : l.flatMap (fun a => r.map (fun b => a ++ b))
      = l.flatMap (fun a => r.flatMap (fun b => [a ++ b])) := by
    apply flatMap_congr'
    intro a _
    exact map_eq_flatMap_single _ _
  rw [h1, h2]
  refine (flatMap_transpose l r (fun a b => [swap (b ++ a)])).trans ?_
  have : l.flatMap (fun a => r.flatMap (fun b => [swap (b ++ a)]))
      = l.flatMap (fun a => r.flatMap (fun b => [a ++ b])) := by
    apply flatMap_congr'
    intro a ha
    apply flatMap_congr'
    intro b hb; rw [hswap a ha b hb]
  rw [this]

/-- `FROM l INNER JOIN r ON c` = `FROM l, r WHERE c` in the reference evaluator -/
theorem C05_inner_join_is_filtered_cross (db : Sql.Db) (l r : Sql.From) (c : Expr) :
    (Sql.From.inner l r c).eval db =
      (do let rows ← (Sql.From.cross l r).eval db
          Sql.filterM' (fun row => do Sql.isTrue (← c.eval row)) rows) := by
  simp only [Sql.From.eval, bind, Except.bind, pure, Except.pure]
  cases l.eval db <;> simp
  cases r.eval db <;> simp

/-! ### join reordering: associativity; predicate pushdown through a cross product -/

/-- `(A, B), C` and `A, (B, C)` produce the same rows in the same order: together with
`C05_cross_swap` every permutation of a comma join is the same multiset up to re-projection -/
theorem C05_cross_assoc (a b c : List Row) :
    (a.flatMap (fun x => b.map (fun y => x ++ y))).flatMap (fun xy => c.map (fun z => xy ++ z))
      = a.flatMap (fun x => (b.flatMap (fun y => c.map (fun z => y ++ z))).map (fun yz => x ++ yz)) := by
  rw [List.flatMap_assoc]
  apply flatMap_congr'
  intro x _
  rw [List.flatMap_map, List.map_flatMap]
  apply flatMap_congr'
  intro y _
  simp [List.map_map, Function.comp_def, List.append_assoc]

/-- predicate pushdown to the left input: a conjunct that only looks at the left columns may
be applied before the join -/
theorem C05_pushdown_left (l r : List Row) (p : Row → Bool) (q : Row → Bool)
    (h : ∀ a ∈ l, ∀ b ∈ r, p (a ++ b) = q a) :
    (l.flatMap (fun a => r.map (fun b => a ++ b))).filter p
      = (l.filter q).flatMap (fun a => r.map (fun b => a ++ b)) := by
  induction l with
  | nil => rfl
  | cons a l ih =>
    have ih' := ih (fun a' ha' => h a' (List.mem_cons_of_mem _ ha'))
    have hrow : (r.map (fun b => a ++ b)).filter p = if q a then r.map (fun b => a ++ b) else [] := by
      rw [List.filter_map]
      have : r.filter (p ∘ fun b => a ++ b) = r.filter (fun _ => q a) := by
        apply List.filter_congr
        intro b hb; exact h a List.mem_cons_self b hb
      rw [this]
      have ht : r.filter (fun _ => true) = r := List.filter_eq_self.mpr (fun _ _ => rfl)
      by_cases hq : q a <;> simp [hq, ht]
    simp only [List.flatMap_cons, List.filter_append, hrow, ih', List.filter_cons]
    by_cases hq : q a <;> simp [hq]

/-- predicate pushdown to the right input -/
theorem C05_pushdown_right (l r : List Row) (p : Row → Bool) (q : Row → Bool)
    (h : ∀ a ∈ l, ∀ b ∈ r, p (a ++ b) = q b) :
    (l.flatMap (fun a => r.map (fun b => a ++ b))).filter p
      = l.flatMap (fun a => (r.filter q).map (fun b => a ++ b)) := by
  induction l with
  | nil => rfl
  | cons a l ih =>
    have ih' := ih (fun a' ha' => h a' (List.mem_cons_of_mem _ ha'))
    have hrow : (r.map (fun b => a ++ b)).filter p = (r.filter q).map (fun b => a ++ b) := by
      rw [List.filter_map]
      congr 1
      apply List.filter_congr
      intro b hb; exact h a List.mem_cons_self b hb
    simp only [List.flatMap_cons, List.filter_append, hrow, ih']

/-- a conjunction in WHERE is two successive filters (what lets the optimizer split, push and
reorder conjuncts) -/
theorem C05_conjunct_split (rows : List Row) (p q : Row → Bool) :
    rows.filter (fun r => p r && q r) = (rows.filter p).filter q := by
  rw [List.filter_filter]
  congr 1; funext r; exact Bool.and_comm _ _

/-! ### the SQL-level equi join is the nested loop (hence the hash join) -/

theorem filterM'_ok {α : Type} (f : α → Except Err Bool) (g : α → Bool) (l : List α)
    (h : ∀ x ∈ l, f x = .ok (g x)) : Sql.filterM' f l = .ok (l.filter g) := by
  induction l with
  | nil => rfl
  | cons x xs ih =>
    have hx := h x List.mem_cons_self
    have ih' := ih (fun y hy => h y (List.mem_cons_of_mem _ hy))
    simp only [Sql.filterM', hx, ih', bind, Except.bind, pure, Except.pure, List.filter_cons]

/-- keys are comparable: NULL, or both of the same type -/
def keysComparable (x y : Value) : Prop := x = .null ∨ y = .null ∨ (Value.cmp? x y).isSome

theorem cmp_eq_iff (x y : Value) (o : Ordering) (h : Value.cmp? x y = some o) :
    (o == .eq) = decide (x = y) := by
  cases x <;> cases y <;> simp [Value.cmp?] at h
  · subst h
    rename_i a b
    by_cases hab : a = b
    · subst hab; simp
    · have : compare a b ≠ .eq := by
        intro hc; exact hab (Std.compare_eq_iff_eq.mp hc)
      cases hc : compare a b <;> simp_all
  · subst h
    rename_i a b
    by_cases hab : a = b
    · subst hab; simp
    · have : compare a b ≠ .eq := by
        intro hc; exact hab (Std.compare_eq_iff_eq.mp hc)
      cases hc : compare a b <;> simp_all
  · subst h
    rename_i a b
    cases a <;> cases b <;> decide

/-- `l.i = r.j` evaluated on the concatenated row is TRUE exactly when `eqTrue` holds -/
theorem eq_on_concat (w i j : Nat) (a b : Row) (ha : a.length = w) (hi : i < w) (hj : j < b.length)
    (hc : keysComparable (a[i]?.getD .null) (b[j]?.getD .null)) :
    (do Sql.isTrue (← (Expr.bin .eq (.col i) (.col (w + j))).eval (a ++ b)))
      = .ok (eqTrue (a[i]?.getD .null) (b[j]?.getD .null)) := by
  have h1 : (a ++ b)[i]? = a[i]? := List.getElem?_append_left (by omega)
  have h2 : (a ++ b)[w + j]? = b[j]? := by
    rw [List.getElem?_append_right (by omega)]; congr 1; omega
  have hia : i < a.length := by omega
  obtain ⟨x, hx⟩ : ∃ x, a[i]? = some x := ⟨a[i], List.getElem?_eq_getElem hia⟩
  obtain ⟨y, hy⟩ : ∃ y, b[j]? = some y := ⟨b[j], List.getElem?_eq_getElem hj⟩
  simp only [Expr.eval, h1, h2, hx, hy, Option.getD_some, bind, Except.bind] at hc ⊢
  cases x with
  | null => simp [evalBin, Sql.isTrue, Value.truthy, eqTrue, bind, Except.bind, pure, Except.pure]
  | int xi =>
    cases y with
    | null => simp [evalBin, Sql.isTrue, Value.truthy, eqTrue, bind, Except.bind, pure, Except.pure]
    | int yi =>
      have := cmp_eq_iff (.int xi) (.int yi) _ rfl
      simp [evalBin, Value.cmp?, cmpOp, Sql.isTrue, Value.truthy, eqTrue, bind, Except.bind, pure, Except.pure, TV.ofBool] at this ⊢
      by_cases h : xi = yi <;> simp_all
    | str _ => rcases hc with h | h | h <;> simp [Value.cmp?] at h
    | bool _ => rcases hc with h | h | h <;> simp [Value.cmp?] at h
  | str xs =>
    cases y with
    | null => simp [evalBin, Sql.isTrue, Value.truthy, eqTrue, bind, Except.bind, pure, Except.pure]
    | str ys =>
      have := cmp_eq_iff (.str xs) (.str ys) _ rfl
      simp [evalBin, Value.cmp?, cmpOp, Sql.isTrue, Value.truthy, eqTrue, bind, Except.bind, pure, Except.pure, TV.ofBool] at this ⊢
      by_cases h : xs = ys <;> simp_all
    | int _ => rcases hc with h | h | h <;> simp [Value.cmp?] at h
    | bool _ => rcases hc with h | h | h <;> simp [Value.cmp?] at h
  | bool xb =>
    cases y with
    | null => simp [evalBin, Sql.isTrue, Value.truthy, eqTrue, bind, Except.bind, pure, Except.pure]
    | bool yb =>
      cases xb <;> cases yb <;> rfl
    | int _ => rcases hc with h | h | h <;> simp [Value.cmp?] at h
    | str _ => rcases hc with h | h | h <;> simp [Value.cmp?] at h

/-- the reference evaluation of `FROM l INNER JOIN r ON l.i = r.j` over well-formed inputs is
the nested-loop equi join on those key columns — so, with `C05_hash_inner_eq_nested`, the hash
join returns the SQL-defined multiset -/
theorem C05_sql_equi_join_is_nested (w i j : Nat) (ls rs : List Row)
    (hw : ∀ a ∈ ls, a.length = w) (hi : i < w) (hj : ∀ b ∈ rs, j < b.length)
    (hc : ∀ a ∈ ls, ∀ b ∈ rs, keysComparable (a[i]?.getD .null) (b[j]?.getD .null)) :
    Sql.filterM' (fun row => do Sql.isTrue (← (Expr.bin .eq (.col i) (.col (w + j))).eval row))
        (ls.flatMap (fun a => rs.map (fun b => a ++ b)))
      = .ok (nestedLoop (fun a => a[i]?.getD .null) (fun b => b[j]?.getD .null) ls rs) := by
  let g : Row → Bool := fun row => eqTrue (row[i]?.getD .null) (row[w + j]?.getD .null)
  have hg : ∀ a ∈ ls, ∀ b ∈ rs, g (a ++ b) = eqTrue (a[i]?.getD .null) (b[j]?.getD .null) := by
    intro a ha b hb
    have hl := hw a ha
    have h1 : (a ++ b)[i]? = a[i]? := List.getElem?_append_left (by omega)
    have h2 : (a ++ b)[w + j]? = b[j]? := by
      rw [List.getElem?_append_right (by omega)]; congr 1; omega
    simp only [g, h1, h2]
  rw [filterM'_ok _ g]
  · congr 1
    unfold nestedLoop
    rw [List.filter_flatMap]
    apply flatMap_congr'
    intro a ha
    rw [List.filter_map]
    congr 1
    apply List.filter_congr
    intro b hb
    exact hg a ha b hb
  · intro row hrow
    obtain ⟨a, ha, hrow⟩ := List.mem_flatMap.mp hrow
    obtain ⟨b, hb, rfl⟩ := List.mem_map.mp hrow
    rw [eq_on_concat w i j a b (hw a ha) hi (hj b hb) (hc a ha b hb), hg a ha b hb]



/-- end to end: the hash join returns the SQL-defined multiset of the inner equi join -/
theorem C05_hash_join_is_sql_join (w i j : Nat) (ls rs : List Row)
    (hw : ∀ a ∈ ls, a.length = w) (hi : i < w) (hj : ∀ b ∈ rs, j < b.length)
    (hc : ∀ a ∈ ls, ∀ b ∈ rs, keysComparable (a[i]?.getD .null) (b[j]?.getD .null)) :
    ∃ out, Sql.filterM' (fun row => do Sql.isTrue (← (Expr.bin .eq (.col i) (.col (w + j))).eval row))
        (ls.flatMap (fun a => rs.map (fun b => a ++ b))) = .ok out ∧
      (hashJoinInner (fun a => a[i]?.getD .null) (fun b => b[j]?.getD .null) ls rs).Perm out :=
  ⟨_, C05_sql_equi_join_is_nested w i j ls rs hw hi hj hc, C05_hash_inner_eq_nested _ _ ls rs⟩

/-- non-vacuity of the hypotheses: NULL keys, duplicates, two-column rows -/
example : (∀ a ∈ [[Value.int 1, .str "x"], [.null, .str "y"]], a.length = 2) ∧
    (∀ a ∈ [[Value.int 1, .str "x"], [.null, .str "y"]], ∀ b ∈ [[Value.int 1], [.null], [.int 1]],
      keysComparable (a[0]?.getD .null) (b[0]?.getD .null)) := by
  constructor
  · intro a ha; simp at ha; rcases ha with rfl | rfl <;> rfl
  · intro a ha b hb; simp at ha hb
    rcases ha with rfl | rfl <;> rcases hb with rfl | rfl | rfl <;> simp [keysComparable, Value.cmp?]


/-! ### outer joins -/

section OuterJoins
open VibeProof.Sql

/-- LEFT JOIN over row lists with a total ON predicate -/
def leftJoinK (p : Row → Bool) (wr : Nat) (ls rs : List Row) : List Row :=
  ls.flatMap (fun a =>
    let ms := (rs.map (fun b => a ++ b)).filter p
    if ms.isEmpty then [a ++ List.replicate wr Value.null] else ms)

/-- RIGHT JOIN: every right row once per match, or once NULL-extended on the left -/
def rightJoinK (p : Row → Bool) (wl : Nat) (ls rs : List Row) : List Row :=
  rs.flatMap (fun b =>
    let ms := (ls.map (fun a => a ++ b)).filter p
    if ms.isEmpty then [List.replicate wl Value.null ++ b] else ms)

theorem mapM'_ok {α β : Type} (f : α → Except Err β) (g : α → β) (l : List α)
    (h : ∀ x ∈ l, f x = .ok (g x)) : mapM' f l = .ok (l.map g) := by
  induction l with
  | nil => rfl
  | cons x xs ih =>
    simp only [mapM', h x List.mem_cons_self, ih (fun y hy => h y (List.mem_cons_of_mem _ hy)),
      bind, Except.bind, pure, Except.pure, List.map_cons]

/-- the reference evaluator's RIGHT JOIN is `rightJoinK` whenever the ON condition evaluates
without error on every pair -/
theorem C05_sql_right_join (db : Db) (l r : From) (on : Expr) (ls rs : List Row) (p : Row → Bool)
    (hl : l.eval db = .ok ls) (hr : r.eval db = .ok rs)
    (hp : ∀ a ∈ ls, ∀ b ∈ rs, (do isTrue (← on.eval (a ++ b))) = Except.ok (p (a ++ b))) :
    (From.right l r on).eval db = .ok (rightJoinK p (l.width db) ls rs) := by
  simp only [From.eval, hl, hr, bind, Except.bind, pure, Except.pure]
  have : mapM' (fun b => do
        let ms ← filterM' (fun row => do isTrue (← on.eval row)) (ls.map (fun a => a ++ b))
        pure (if ms.isEmpty then [List.replicate (l.width db) Value.null ++ b] else ms)) rs
      = .ok (rs.map (fun b =>
          let ms := (ls.map (fun a => a ++ b)).filter p
          if ms.isEmpty then [List.replicate (l.width db) Value.null ++ b] else ms)) := by
    apply mapM'_ok
    intro b hb
    have hf : filterM' (fun row => do isTrue (← on.eval row)) (ls.map (fun a => a ++ b))
        = .ok ((ls.map (fun a => a ++ b)).filter p) := by
      apply filterM'_ok
      intro row hrow
      obtain ⟨a, ha, rfl⟩ := List.mem_map.mp hrow
      exact hp a ha b hb
    simp only [bind, Except.bind, pure, Except.pure] at hf ⊢
    rw [hf]
  simp only [bind, Except.bind, pure, Except.pure] at this
  rw [this]
  simp [rightJoinK, List.flatMap_def]

/-- `l RIGHT JOIN r ON c` has the rows of `r LEFT JOIN l ON c` with the two column blocks
swapped back, in the same order -/
theorem C05_right_is_mirrored_left (p p' : Row → Bool) (swap : Row → Row) (wl : Nat) (ls rs : List Row)
    (h1 : ∀ a ∈ ls, ∀ b ∈ rs, p' (b ++ a) = p (a ++ b))
    (h2 : ∀ a ∈ ls, ∀ b ∈ rs, swap (b ++ a) = a ++ b)
    (h3 : ∀ b ∈ rs, swap (b ++ List.replicate wl Value.null) = List.replicate wl Value.null ++ b) :
    rightJoinK p wl ls rs = (leftJoinK p' wl rs ls).map swap := by
  unfold rightJoinK leftJoinK
  rw [List.map_flatMap]
  apply flatMap_congr'
  intro b hb
  have hms : ((ls.map (fun a => b ++ a)).filter p').map swap = (ls.map (fun a => a ++ b)).filter p := by
    clear h3
    induction ls with
    | nil => rfl
    | cons a ls ih =>
      have ih' := ih (fun a' ha' => h1 a' (List.mem_cons_of_mem _ ha')) (fun a' ha' => h2 a' (List.mem_cons_of_mem _ ha'))
      have e1 := h1 a List.mem_cons_self b hb
      have e2 := h2 a List.mem_cons_self b hb
      simp only [List.map_cons, List.filter_cons, e1]
      by_cases hpa : p (a ++ b) <;> simp [hpa, e2, ih']
  simp only []
  rw [← hms]
  by_cases he : ((ls.map (fun a => b ++ a)).filter p').isEmpty
  · simp [h3 b hb, List.isEmpty_iff.mp he]
  · have : ¬ (((ls.map (fun a => b ++ a)).filter p').map swap).isEmpty := by
      simpa [List.isEmpty_iff] using he
    simp [he, this]

/-- every LEFT JOIN row count: one row per match, one per unmatched left row -/
theorem C05_left_join_length (p : Row → Bool) (wr : Nat) (ls rs : List Row) :
    (leftJoinK p wr ls rs).length
      = ((ls.flatMap (fun a => (rs.map (fun b => a ++ b)).filter p)).length
         + (ls.filter (fun a => ((rs.map (fun b => a ++ b)).filter p).isEmpty)).length) := by
  unfold leftJoinK
  induction ls with
  | nil => rfl
  | cons a ls ih =>
    simp only [List.flatMap_cons, List.length_append, List.filter_cons, ih]
    by_cases he : ((rs.map (fun b => a ++ b)).filter p).isEmpty
    · simp [List.isEmpty_iff.mp he]; omega
    · simp [he]; omega

/-- non-vacuity: a matched row, an unmatched right row, a NULL key -/
example : rightJoinK (fun r => eqTrue (r.headD .null) ((r[1]?).getD .null)) 1
      [[.int 1], [.null]] [[.int 1], [.int 7]] = [[.int 1, .int 1], [.null, .int 7]] := by decide

end OuterJoins

/-! ### OR of equi-joins (`analyze_or_equi_join`): hash join on a common equality + post-filter -/

/-- if the whole ON condition `c` implies one equality `kl = kr` (it occurs in every OR branch),
the join may be executed as the equi join on that equality followed by `c` as a filter -/
theorem C05_common_equality_prefilter (kl kr : Row → Value) (c : Row → Bool) (l r : List Row)
    (h : ∀ a ∈ l, ∀ b ∈ r, c (a ++ b) = true → eqTrue (kl a) (kr b) = true) :
    (nestedLoop kl kr l r).filter c = (l.flatMap (fun a => r.map (fun b => a ++ b))).filter c := by
  unfold nestedLoop
  rw [List.filter_flatMap, List.filter_flatMap]
  apply flatMap_congr'
  intro a ha
  rw [List.filter_map, List.filter_map, List.filter_filter]
  congr 1
  apply List.filter_congr
  intro b hb
  by_cases hc : c (a ++ b) = true
  · simp [Function.comp, hc, h a ha b hb hc]
  · simp [Function.comp, hc]

/-- and with the hash join in place of the nested loop (as a multiset) -/
theorem C05_common_equality_hash (kl kr : Row → Value) (c : Row → Bool) (l r : List Row)
    (h : ∀ a ∈ l, ∀ b ∈ r, c (a ++ b) = true → eqTrue (kl a) (kr b) = true) :
    ((hashJoinInner kl kr l r).filter c).Perm ((l.flatMap (fun a => r.map (fun b => a ++ b))).filter c) := by
  rw [← C05_common_equality_prefilter kl kr c l r h]
  exact (C05_hash_inner_eq_nested kl kr l r).filter c

/-- the side condition is needed: if some branch does not contain the chosen equality, rows are
lost (two equalities that share only one side, `x = p OR x = q`, hashed on `x = p`) -/
theorem C05_common_equality_needed :
    ∃ (kl kr : Row → Value) (c : Row → Bool) (l r : List Row),
      (nestedLoop kl kr l r).filter c ≠ (l.flatMap (fun a => r.map (fun b => a ++ b))).filter c := by
  refine ⟨fun a => a.headD .null, fun b => b.headD .null,
    fun row => eqTrue ((row[0]?).getD .null) ((row[1]?).getD .null) || eqTrue ((row[0]?).getD .null) ((row[2]?).getD .null),
    [[.int 1]], [[.int 5, .int 1]], ?_⟩
  decide

/-! ### which subquery clauses block the IN / EXISTS → join conversion -/

/-- the conversion keeps FROM, the select item and WHERE of the subquery: every other clause that
changes which rows the subquery returns must block it -/
def requiredGuards : String → List String
  | "try_convert_in_to_join_parts" => ["group_by", "having", "limit", "offset", "set_operation"]
  | "plain_subquery_parts" => ["group_by", "having", "limit", "offset", "set_operation"]
  | "try_convert_exists_to_join" => ["group_by", "having", "set_operation"]
  | _ => ["NOT-FOUND"]

/-- optimizer/subquery_to_join.rs as it is in the tree now: each conversion function tests at least
the clauses it must (`subquery.<clause>.is_some()`); a dropped test (seeded C08-3 dropped OFFSET)
breaks this `decide` -/
theorem C05_join_conversion_guards :
    Generated.c05JoinConversionGuards.all (fun fg => (requiredGuards fg.1).all (fun g => fg.2.contains g)) = true ∧
    Generated.c05JoinConversionGuards.length = 3 := by
  decide

/-- why OFFSET (or LIMIT) must block it: the semi join over the whole table differs from IN over the
slice — kernel-level witness on the model -/
example :
    let left : List Row := [[.int 1], [.int 2], [.int 3]]
    let right : List Row := [[.int 1], [.int 2], [.int 3]]
    hashSemi (fun r => r.headD .null) (fun r => r.headD .null) left right ≠
    hashSemi (fun r => r.headD .null) (fun r => r.headD .null) left (right.drop 2) := by
  decide

/-! ### wrapping a table in a derived table -/

/-- `FROM (SELECT * FROM t) AS d` may be replaced by `FROM t`: any outer query evaluated over
the derived table equals the same query with the derived table's index redirected to `t`
(every row of `t` has the declared width) -/
theorem C05_derived_wrap_identity (db : Sql.Db) (i w : Nat) (rows : List Row) (outer : Sql.Core)
    (ht : db.tables[i]? = some (w, rows)) (hw : ∀ r ∈ rows, r.length = w) :
    View.evalDerived db (Sql.selectStar i w) outer
      = (outer.reindex (fun j => if j = db.tables.length then i else j)).eval db :=
  Sql.derived_wrap_identity db i w rows outer ht hw

/-- non-vacuity: a two-column table with a NULL, outer query projecting the second column -/
example :
    let db : Sql.Db := { tables := [(2, [[.int 1, .null], [.int 2, .str "b"]])] }
    let outer : Sql.Core := { from_ := .table 1, where_ := none, group := none, select := [.col 1], distinct := false, orderBy := [], limit := none, offset := 0 }
    View.evalDerived db (Sql.selectStar 0 2) outer = .ok [[.null], [.str "b"]] := by
  rfl

/-- non-vacuity: duplicates, a NULL key on each side -/
example : hashJoinInner (fun r => r.headD .null) (fun r => r.headD .null)
      [[.int 1], [.null], [.int 1]] [[.int 1], [.null]] = [[.int 1, .int 1], [.int 1, .int 1]] ∧
    hashSemi (fun r => r.headD .null) (fun r => r.headD .null) [[.int 1], [.null], [.int 2]] [[.int 1], [.null]] = [[.int 1]] ∧
    hashAnti (fun r => r.headD .null) (fun r => r.headD .null) [[.int 1], [.null], [.int 2]] [[.int 1], [.null]] = [[.null], [.int 2]] := by
  decide

end VibeProof.C05
