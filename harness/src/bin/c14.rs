//! C14 — ROLLBACK TO SAVEPOINT restores the state at the savepoint.
//!
//! Direct oracle (real engine only): a reference savepoint stack kept by the harness — on every
//! successful SAVEPOINT the table contents are remembered; ROLLBACK TO n must succeed exactly when
//! n is on the reference stack, make the contents equal (as a multiset) to what they were when
//! the most recent n was created, keep n and destroy later savepoints; RELEASE changes no data;
//! unknown names and statements outside a transaction are errors.
//! Correspondence: the whole history through the Lean table state machine (change log +
//! savepoint stack as coded).
#[path = "c15/common.rs"]
mod common;
use common::*;
use vharness::*;


struct Entry {
    name: String,
    rows: Vec<String>,
    /// a DML statement other than INSERT changed the table since this savepoint was created
    dirty: bool,
}

fn bag(db: &Db) -> Vec<String> {
    let mut v: Vec<String> = scan_vals(db, TABLE).iter().map(row_canon).collect();
    v.sort();
    v
}

fn run_sp_case(c: &Case, model: &mut model::Model, rep: &mut Report, label: &str) {
    let case_id = script(c, c.stmts.len());
    let mut db = Db::new();
    db.must(&c.schema.create_sql());
    let mut in_txn = false;
    let mut stack: Vec<Entry> = vec![];
    let mut effective_rollbacks = 0;
    let mut stop_at = c.stmts.len();
    for (k, st) in c.stmts.iter().enumerate() {
        let before = bag(&db);
        let pre_rows = scan_vals(&db, TABLE);
        let out = db.exec(&st.sql());
        if out.is_panic() {
            rep.fail(FailKind::Oracle, None, "engine panicked", &format!("{}-- {}", script(c, k + 1), out.brief()));
            stop_at = k + 1;
            break;
        }
        let after = bag(&db);
        let ok = out.is_ok();
        match st {
            Stmt::Begin => {
                if ok {
                    in_txn = true;
                    stack.clear();
                } else if !in_txn {
                    rep.fail(FailKind::Oracle, None, "BEGIN failed outside a transaction", &script(c, k + 1));
                }
            }
            Stmt::Commit | Stmt::Rollback => {
                if ok {
                    in_txn = false;
                    stack.clear();
                }
            }
            Stmt::Savepoint(n) => {
                rep.count("savepoint_ops");
                if ok != in_txn {
                    rep.fail(FailKind::Oracle, None, "SAVEPOINT must succeed exactly inside a transaction", &format!("{}-- in_txn={} result={}", script(c, k + 1), in_txn, out.brief()));
                }
                if ok {
                    stack.push(Entry { name: n.to_uppercase(), rows: after.clone(), dirty: false });
                }
                if before != after {
                    rep.fail(FailKind::Oracle, None, "SAVEPOINT changed table contents", &script(c, k + 1));
                }
            }
            Stmt::Release(n) => {
                rep.count("release_ops");
                let pos = stack.iter().rposition(|e| e.name == n.to_uppercase());
                let expect_ok = in_txn && pos.is_some();
                if ok != expect_ok {
                    rep.fail(FailKind::Oracle, None, "RELEASE SAVEPOINT succeeds exactly for a live savepoint", &format!("{}-- expected ok={} got {}", script(c, k + 1), expect_ok, out.brief()));
                    stop_at = k + 1;
                    break;
                }
                if before != after {
                    rep.fail(FailKind::Oracle, None, "RELEASE SAVEPOINT changed table contents", &script(c, k + 1));
                }
                if let (true, Some(p)) = (ok, pos) {
                    stack.remove(p);
                }
            }
            Stmt::RollbackTo(n) => {
                rep.count("rollback_to_ops");
                let pos = stack.iter().rposition(|e| e.name == n.to_uppercase());
                let expect_ok = in_txn && pos.is_some();
                match pos {
                    Some(p) if in_txn => {
                        let dirty = stack[p].dirty;
                        let good = ok && after == stack[p].rows;
                        if before != stack[p].rows {
                            effective_rollbacks += 1;
                        }
                        if !good {
                            // (UPDATE / DELETE / TRUNCATE / REPLACE / upsert used to be left out of the
                            // change log — repaired by d69656ff; no failure class is excused any more)
                            let _ = dirty;
                            let sig: Option<&str> = None;
                            rep.fail(
                                FailKind::Oracle,
                                sig,
                                "ROLLBACK TO SAVEPOINT did not restore the contents the table had when the savepoint was created",
                                &format!("{}-- result: {}\n-- expected rows (multiset): {:?}\n-- got: {:?}", script(c, k + 1), out.brief(), stack[p].rows, after),
                            );
                            stop_at = k + 1;
                            break;
                        }
                        stack.truncate(p + 1);
                    }
                    _ => {
                        if ok != expect_ok {
                            rep.fail(FailKind::Oracle, None, "ROLLBACK TO an unknown savepoint (or outside a transaction) must be an error", &format!("{}-- {}", script(c, k + 1), out.brief()));
                            stop_at = k + 1;
                            break;
                        }
                        if before != after {
                            rep.fail(FailKind::Oracle, None, "a failed ROLLBACK TO changed table contents", &script(c, k + 1));
                        }
                    }
                }
            }
            other => {
                // did a change that the log does not record happen?  UPDATE / DELETE / TRUNCATE /
                // upsert: the stored rows changed; REPLACE: a conflicting row existed (it is deleted
                // unrecorded, then the new row is inserted recorded — even when both are equal)
                let unrecorded_change = ok
                    && match other {
                        Stmt::Replace(new) => pre_rows.iter().any(|r| {
                            (c.schema.pk && r[0] == new[0]) || c.schema.uniques.iter().any(|u| new[*u] != Val::Null && r[*u] == new[*u])
                        }),
                        x if x.is_unrecorded_dml() => pre_rows != scan_vals(&db, TABLE),
                        _ => false,
                    };
                if unrecorded_change {
                    for e in stack.iter_mut() {
                        e.dirty = true;
                    }
                }
                // REPLACE deletes (unrecorded) and inserts (recorded) — any removed row marks dirty
                rep.count(&format!("dml_{}", other.kind()));
            }
        }
    }
    rep.case(&case_id, effective_rollbacks >= 1);
    rep.add("effective_rollbacks_to_savepoint", effective_rollbacks);
    // correspondence (prefix up to the point where the reference stopped)
    let prefix = Case { schema: c.schema.clone(), stmts: c.stmts[..stop_at].to_vec() };
    run_case_opts(&prefix, model, rep, label, false);
}

// ------------------------------------------------------------------------------------------
// parent / child tables: referential actions change the CHILD table inside the savepoint span
// ------------------------------------------------------------------------------------------

fn all_bags(db: &Db) -> std::collections::BTreeMap<String, Vec<String>> {
    let mut m = std::collections::BTreeMap::new();
    for t in db.db.list_tables() {
        let mut v: Vec<String> = db.scan(&t).unwrap_or_default().iter().map(|r| canon::row(r)).collect();
        v.sort();
        m.insert(t, v);
    }
    m
}

/// direct oracle only (the Lean model has one table): reference savepoint stack holding the
/// contents of EVERY table at creation; ROLLBACK TO must restore all of them
fn run_fk_sp_case(script: &[String], rep: &mut Report, label: &str) {
    let mut db = Db::new();
    let mut in_txn = false;
    let mut stack: Vec<(String, std::collections::BTreeMap<String, Vec<String>>)> = vec![];
    let mut child_changed_by_parent = 0u64;
    let mut effective = 0u64;
    for (k, sql) in script.iter().enumerate() {
        let before = all_bags(&db);
        let out = db.exec(sql);
        let replay = || format!("{};\n", script[..=k].join(";\n"));
        if out.is_panic() {
            rep.fail(FailKind::Oracle, None, "engine panicked (foreign-key savepoint history)", &format!("{}-- {}", replay(), out.brief()));
            break;
        }
        let after = all_bags(&db);
        let up = sql.to_uppercase();
        let ok = out.is_ok();
        if ok && (up.starts_with("DELETE FROM P") || up.starts_with("UPDATE P")) && before.get("CH") != after.get("CH") {
            child_changed_by_parent += 1;
        }
        if up == "BEGIN" {
            if ok {
                in_txn = true;
                stack.clear();
            }
        } else if up == "COMMIT" || up == "ROLLBACK" {
            if ok {
                in_txn = false;
                stack.clear();
            }
        } else if let Some(n) = up.strip_prefix("SAVEPOINT ") {
            if ok != in_txn {
                rep.fail(FailKind::Oracle, None, "SAVEPOINT must succeed exactly inside a transaction", &replay());
                break;
            }
            if ok {
                stack.push((n.to_string(), after.clone()));
            }
        } else if let Some(n) = up.strip_prefix("RELEASE SAVEPOINT ") {
            let pos = stack.iter().rposition(|(x, _)| x == n);
            if ok != (in_txn && pos.is_some()) || before != after {
                rep.fail(FailKind::Oracle, None, "RELEASE SAVEPOINT must succeed exactly for a live savepoint and change no data", &format!("{}-- {}", replay(), out.brief()));
                break;
            }
            if let (true, Some(p)) = (ok, pos) {
                stack.remove(p);
            }
        } else if let Some(n) = up.strip_prefix("ROLLBACK TO SAVEPOINT ") {
            rep.count("fk_rollback_to_ops");
            let pos = stack.iter().rposition(|(x, _)| x == n);
            match pos {
                Some(p) if in_txn => {
                    if before != stack[p].1 {
                        effective += 1;
                    }
                    if !ok || after != stack[p].1 {
                        let mut detail = String::new();
                        for (t, want) in &stack[p].1 {
                            if after.get(t) != Some(want) {
                                detail.push_str(&format!("-- table {}: expected {:?}\n--          got      {:?}\n", t, want, after.get(t)));
                            }
                        }
                        rep.fail(
                            FailKind::Oracle,
                            None,
                            &format!("ROLLBACK TO SAVEPOINT did not restore every table to its contents at the savepoint ({})", label),
                            &format!("{}-- result: {}\n{}", replay(), out.brief(), detail),
                        );
                        break;
                    }
                    stack.truncate(p + 1);
                }
                _ => {
                    if ok {
                        rep.fail(FailKind::Oracle, None, "ROLLBACK TO an unknown savepoint succeeded", &replay());
                        break;
                    }
                }
            }
        }
    }
    rep.case(&script.join(";"), effective >= 1 && child_changed_by_parent >= 1);
    rep.add("fk_child_changes_by_referential_action", child_changed_by_parent);
    rep.count("fk_savepoint_cases");
}

const FK_ACTIONS: [&str; 8] = [
    "ON DELETE CASCADE",
    "ON DELETE SET NULL",
    "ON DELETE SET DEFAULT",
    "ON UPDATE CASCADE",
    "ON UPDATE SET NULL",
    "ON UPDATE SET DEFAULT",
    "ON DELETE CASCADE ON UPDATE CASCADE",
    "ON DELETE SET NULL ON UPDATE SET NULL",
];

fn fk_setup(action: &str) -> Vec<String> {
    vec![
        "CREATE TABLE p (id INT PRIMARY KEY, v INT)".to_string(),
        format!("CREATE TABLE ch (id INT PRIMARY KEY, pid INT DEFAULT 1, w INT, FOREIGN KEY (pid) REFERENCES p(id) {})", action),
        "CREATE INDEX chp ON ch (pid)".into(),
        "INSERT INTO p VALUES (1, 0)".into(),
        "INSERT INTO p VALUES (2, 1)".into(),
        "INSERT INTO p VALUES (3, 2)".into(),
        "INSERT INTO ch VALUES (10, 2, 5)".into(),
        "INSERT INTO ch VALUES (11, 3, 5)".into(),
        "INSERT INTO ch VALUES (12, 2, 6)".into(),
    ]
}

fn gen_fk_sp_script(r: &mut Rng) -> Vec<String> {
    let mut s = fk_setup(*r.pick(&FK_ACTIONS));
    s.push("BEGIN".into());
    let mut next_c = 100;
    let names = ["a", "b", "c"];
    let n = r.range(6, 18);
    for i in 0..n {
        let w = r.below(100);
        let st = if i == 0 || w < 18 {
            format!("SAVEPOINT {}", r.pick(&names))
        } else if w < 30 {
            format!("ROLLBACK TO SAVEPOINT {}", r.pick(&names))
        } else if w < 45 {
            format!("DELETE FROM p WHERE id = {}", r.range(2, 5))
        } else if w < 60 {
            format!("UPDATE p SET id = id + 10 WHERE id = {}", r.range(2, 5))
        } else if w < 68 {
            format!("INSERT INTO p VALUES ({}, {})", r.range(2, 6), r.range(0, 3))
        } else if w < 82 {
            next_c += 1;
            let pid = if r.chance(1, 8) { "NULL".to_string() } else { r.range(1, 5).to_string() };
            format!("INSERT INTO ch VALUES ({}, {}, {})", next_c, pid, r.range(0, 3))
        } else if w < 88 {
            format!("UPDATE ch SET w = {} WHERE pid = {}", r.range(0, 3), r.range(1, 5))
        } else if w < 93 {
            format!("DELETE FROM ch WHERE w = {}", r.range(0, 6))
        } else if w < 96 {
            format!("DELETE FROM p WHERE v = {}", r.range(0, 3))
        } else {
            format!("RELEASE SAVEPOINT {}", r.pick(&names))
        };
        s.push(st);
    }
    s.push(format!("ROLLBACK TO SAVEPOINT {}", r.pick(&names)));
    s
}

fn fk_sp_probes() -> Vec<(String, Vec<String>)> {
    let mut v = vec![];
    for action in FK_ACTIONS {
        let mut s = fk_setup(action);
        s.extend(["BEGIN", "SAVEPOINT a", "UPDATE p SET id = 20 WHERE id = 2", "DELETE FROM p WHERE id = 3", "SAVEPOINT b", "INSERT INTO ch VALUES (13, 1, 7)", "ROLLBACK TO SAVEPOINT b", "ROLLBACK TO SAVEPOINT a", "COMMIT"].iter().map(|x| x.to_string()));
        v.push((format!("fk {}", action), s));
    }
    v
}

fn v(i: i64) -> Val {
    Val::Int(i)
}

fn probes() -> Vec<(&'static str, Case)> {
    let s2 = Schema { kinds: vec![], int_col: vec![true, true], pk: true, uniques: vec![] };
    let snp = Schema { kinds: vec![], int_col: vec![true, true], pk: false, uniques: vec![] };
    let sp = |n: &str| Stmt::Savepoint(n.into());
    let rb = |n: &str| Stmt::RollbackTo(n.into());
    let ins = |a: i64, b: i64| Stmt::Insert(vec![vec![v(a), v(b)]]);
    vec![
        ("insert-only", Case { schema: s2.clone(), stmts: vec![Stmt::CreateIndex("i".into(), vec![1], false), ins(1, 1), Stmt::Begin, sp("a"), ins(2, 2), sp("b"), Stmt::Insert(vec![vec![v(3), v(3)], vec![v(4), v(4)]]), rb("b"), ins(5, 5), rb("a"), rb("b"), rb("a"), Stmt::Commit] }),
        ("reused-name", Case { schema: s2.clone(), stmts: vec![Stmt::Begin, sp("a"), ins(1, 1), sp("a"), ins(2, 2), rb("a"), Stmt::Release("a".into()), rb("a"), Stmt::Release("a".into()), rb("a"), Stmt::Commit] }),
        ("duplicate-rows-first-match", Case { schema: snp.clone(), stmts: vec![ins(1, 1), ins(2, 2), Stmt::Begin, sp("a"), ins(1, 1), ins(2, 2), ins(1, 1), rb("a"), Stmt::Commit] }),
        ("outside-transaction", Case { schema: s2.clone(), stmts: vec![sp("a"), rb("a"), Stmt::Release("a".into()), Stmt::Begin, rb("zz"), Stmt::Release("zz".into()), Stmt::Rollback] }),
        // three / four live savepoints, RELEASE of each position, then rollbacks to the survivors in
        // both orders: the stack must stay ordered oldest → newest whatever is released
        ("release-bottom-of-three", Case { schema: s2.clone(), stmts: vec![Stmt::Begin, sp("a"), ins(1, 1), sp("b"), ins(2, 2), sp("c"), ins(3, 3), Stmt::Release("a".into()), rb("c"), ins(4, 4), rb("b"), rb("c"), Stmt::Commit] }),
        ("release-bottom-of-three-then-middle", Case { schema: s2.clone(), stmts: vec![Stmt::Begin, sp("a"), ins(1, 1), sp("b"), ins(2, 2), sp("c"), ins(3, 3), Stmt::Release("a".into()), rb("b"), ins(5, 5), ins(6, 6), rb("c"), rb("b"), Stmt::Commit] }),
        ("release-middle-of-three", Case { schema: s2.clone(), stmts: vec![Stmt::Begin, sp("a"), ins(1, 1), sp("b"), ins(2, 2), sp("c"), ins(3, 3), Stmt::Release("b".into()), rb("c"), ins(4, 4), rb("a"), rb("c"), rb("a"), Stmt::Commit] }),
        ("release-top-of-three", Case { schema: s2.clone(), stmts: vec![Stmt::Begin, sp("a"), ins(1, 1), sp("b"), ins(2, 2), sp("c"), ins(3, 3), Stmt::Release("c".into()), rb("b"), ins(4, 4), rb("a"), rb("b"), Stmt::Commit] }),
        ("release-second-of-four", Case { schema: s2.clone(), stmts: vec![Stmt::Begin, sp("a"), ins(1, 1), sp("b"), ins(2, 2), sp("c"), ins(3, 3), sp("d"), ins(4, 4), Stmt::Release("b".into()), rb("d"), ins(5, 5), rb("c"), ins(6, 6), rb("a"), rb("c"), Stmt::Commit] }),
        ("release-first-of-four", Case { schema: s2.clone(), stmts: vec![Stmt::Begin, sp("a"), ins(1, 1), sp("b"), ins(2, 2), sp("c"), ins(3, 3), sp("d"), ins(4, 4), Stmt::Release("a".into()), rb("c"), ins(5, 5), rb("b"), rb("d"), Stmt::Commit] }),
        // repaired defects 59f86921 / c6ce8972 (keys colliding only after normalization) inside savepoints
        ("unique-after-normalization", Case { schema: Schema { kinds: vec![Kind::Plain, Kind::Varchar3], int_col: vec![true, false], pk: true, uniques: vec![] }, stmts: vec![
            Stmt::CreateIndex("u1".into(), vec![1], true), Stmt::Begin, sp("a"),
            Stmt::Insert(vec![vec![v(4), Val::Str("abc".into())], vec![v(5), Val::Str("abcd".into())]]),
            Stmt::Insert(vec![vec![v(6), Val::Str("xyz".into())]]), Stmt::Insert(vec![vec![v(7), Val::Str("q".into())]]),
            Stmt::Upsert(vec![v(7), Val::Str("q".into())], 1, Val::Str("xyzw".into())), rb("a"), Stmt::Commit,
        ] }),
        // repaired defect e166b44f: a table created, filled, indexed and dropped after the savepoint
        ("rollback-to-after-create-and-drop-table", Case { schema: s2.clone(), stmts: vec![Stmt::Begin, ins(5, 7), sp("a"), Stmt::Raw("CREATE TABLE u (k INT PRIMARY KEY, w INT)".into()), Stmt::Raw("INSERT INTO u VALUES (2, 5)".into()), Stmt::Raw("CREATE INDEX uw ON u (w)".into()), Stmt::Raw("DROP TABLE u".into()), ins(7, 1), rb("a"), ins(8, 1), rb("a"), Stmt::Commit] }),
        // repaired defect d69656ff, kept as regression probes
        ("delete-after-savepoint (regression: d69656ff)", Case { schema: s2.clone(), stmts: vec![ins(1, 1), ins(2, 2), Stmt::Begin, sp("a"), Stmt::Delete(Pred::Cmp(0, "=", v(1))), rb("a")] }),
        ("update-after-savepoint (regression: d69656ff)", Case { schema: s2.clone(), stmts: vec![ins(1, 1), Stmt::Begin, sp("a"), Stmt::Update(vec![(1, SetE::Const(v(9)))], Pred::All), rb("a")] }),
        ("update-of-inserted-row (regression: d69656ff)", Case { schema: s2.clone(), stmts: vec![ins(1, 1), Stmt::Begin, sp("a"), ins(2, 2), Stmt::Update(vec![(1, SetE::Const(v(9)))], Pred::Cmp(0, "=", v(2))), rb("a")] }),
        ("truncate-after-savepoint (regression: d69656ff)", Case { schema: s2.clone(), stmts: vec![ins(1, 1), Stmt::Begin, sp("a"), Stmt::Truncate, rb("a")] }),
    ]
}

fn main() {
    engine::silence_panics();
    let args = Args::parse("C14");
    let mut rep = Report::new(
        &args,
        "case = one table + a history interleaving INSERT / UPDATE / DELETE / TRUNCATE / REPLACE / upsert with BEGIN, SAVEPOINT, \
         ROLLBACK TO SAVEPOINT, RELEASE SAVEPOINT, COMMIT, ROLLBACK (names a, b, c, reused); reference = savepoint stack with the \
         table contents at creation; non-trivial = at least one ROLLBACK TO a live savepoint after the contents had changed; \
         distinct by script",
    );
    rep.assumptions.push("one table; contents compared as multisets (undo of an insert removes the first equal row, so order may change)".into());
    let mut model = args.model();
    for (name, c) in probes() {
        run_sp_case(&c, &mut model, &mut rep, name);
        rep.count("probe_cases");
    }
    for (name, sc) in fk_sp_probes() {
        run_fk_sp_case(&sc, &mut rep, &name);
        rep.count("probe_cases");
    }
    let mut rng = Rng::new(args.seed);
    for _ in 0..args.n(250, 8000) {
        let mut r = rng.fork();
        let sc = gen_fk_sp_script(&mut r);
        run_fk_sp_case(&sc, &mut rep, "generated");
    }
    let n = args.n(450, 15000);
    for i in 0..n {
        let mut r = rng.fork();
        let insert_only = i % 2 == 0;
        let cfg = GenCfg { txn_weight: 5, savepoint_weight: 60, index_ddl_in_txn: false, len_lo: 8, len_hi: 26 };
        let mut c = gen_case(&mut r, &cfg);
        if insert_only {
            // half of the cases stay inside the region the change log covers
            let ncols = c.schema.ncols();
            let mut id = 1000;
            c.stmts = c
                .stmts
                .into_iter()
                .map(|st| {
                    if st.is_unrecorded_dml() {
                        id += 1;
                        let mut row = vec![Val::Int(id)];
                        for _ in 1..ncols {
                            row.push(Val::Null);
                        }
                        Stmt::Insert(vec![row])
                    } else {
                        st
                    }
                })
                .collect();
            rep.count("insert_only_cases");
        }
        if i < 3 {
            rep.sample(serde_json::json!({"script": script(&c, c.stmts.len())}));
        }
        run_sp_case(&c, &mut model, &mut rep, "generated");
    }
    std::process::exit(rep.finish());
}
