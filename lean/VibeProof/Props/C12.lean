import VibeProof.Lemmas.DmlFk
/-
C12 — referential integrity holds after every statement.

Model: Model/DmlFk.lean (one FOREIGN KEY child → parent PRIMARY KEY over the row lists of the
`Dml` tables).  `FKInv` = every child row whose key has no NULL has a parent row with that key.
Proved for every parent / child content and every row: the child-side checks (INSERT / UPDATE of
a child row), the parent-side actions of DELETE (NO ACTION / RESTRICT, CASCADE, SET NULL) and of
a parent-key UPDATE (NO ACTION), each with its exact effect on the child table.

Not proved, because the code as it is violates it: DELETE on a *self-referencing* table whose
cascade removes rows stored before the selected row (`C12_self_reference_counterexample`), and
the termination of the recursive cascade on cyclic references (the real code overflows its
stack; replayed in a subprocess by the harness).  Multi-level cascades are the composition of
the one-level lemma along the chain and are exercised by the harness only.
-/
namespace VibeProof.C12
open VibeProof VibeProof.Dml

/-- INSERT / UPDATE of a child row is accepted iff its key has a NULL or a parent with that key exists -/
theorem C12_child_accept_iff (fk : Fk) (parents children : List Row) (c : Row) :
    (fk.insertChild parents children c).isSome ↔
      (hasNull (keyOf fk.cols c) = true ∨ ∃ p ∈ parents, keyOf fk.pcols p = keyOf fk.cols c) := by
  simp [Fk.insertChild, Fk.rowOk]

/-- … and an accepted child row keeps the invariant (a row that would be an orphan is rejected) -/
theorem C12_insert_child_preserves (fk : Fk) (parents children ch' : List Row) (c : Row)
    (h : FKInv fk parents children) (ha : fk.insertChild parents children c = some ch') :
    FKInv fk parents ch' ∧ ch' = children ++ [c] := by
  unfold Fk.insertChild at ha
  split at ha
  · rename_i hok
    simp only [Option.some.injEq] at ha; subst ha
    refine ⟨?_, rfl⟩
    intro x hx hn
    rcases List.mem_append.mp hx with hx | hx
    · exact h x hx hn
    · simp only [List.mem_singleton] at hx; subst hx
      simp only [Fk.rowOk, hn, Bool.false_or, List.any_eq_true, beq_iff_eq] at hok
      exact hok
  · simp at ha

/-- inserting a parent row never breaks the invariant -/
theorem C12_insert_parent_preserves (fk : Fk) (parents children : List Row) (p : Row)
    (h : FKInv fk parents children) : FKInv fk (parents ++ [p]) children := by
  intro c hc hn
  obtain ⟨q, hq, hk⟩ := h c hc hn
  exact ⟨q, List.mem_append_left _ hq, hk⟩

/-- NO ACTION / RESTRICT: the DELETE is rejected iff a referrer exists -/
theorem C12_restrict_rejects_iff (fk : Fk) (children : List Row) (p : Row) :
    fk.onDeleteParent .noAction children p = none ↔ ∃ c ∈ children, fk.refers (keyOf fk.pcols p) c = true := by
  simp only [Fk.onDeleteParent]
  split <;> simp_all

/-- CASCADE removes exactly the referrers of the deleted key -/
theorem C12_cascade_removes_exactly_referrers (fk : Fk) (children : List Row) (p : Row) :
    fk.onDeleteParent .cascade children p = some (children.filter (fun c => !(fk.refers (keyOf fk.pcols p) c))) := by
  simp only [Fk.onDeleteParent]
  split
  · rfl
  · rename_i hno
    simp only [List.any_eq_true, not_exists, not_and, Bool.not_eq_true] at hno
    congr 1
    symm
    rw [List.filter_eq_self]
    intro c hc; simp [hno c hc]

/-- SET NULL nulls exactly the key columns of the referrers -/
theorem C12_set_null_changes_exactly_referrers (fk : Fk) (children : List Row) (p : Row) :
    fk.onDeleteParent .setNull children p =
      some (children.map (fun c => if fk.refers (keyOf fk.pcols p) c then fk.nullCols c else c)) := by
  simp only [Fk.onDeleteParent]
  split
  · rfl
  · rename_i hno
    simp only [List.any_eq_true, not_exists, not_and, Bool.not_eq_true] at hno
    congr 1
    symm
    conv => rhs; rw [← List.map_id children]
    apply List.map_congr_left
    intro c hc; simp [hno c hc]

/-- DELETE of a parent row: whatever the action, if the statement is accepted the invariant holds
for the new child table and every parent table that keeps all rows with a different key.
(`hnull`: nulling the key columns yields a key with a NULL — true for well-formed foreign keys,
see `nullCols_single`.) -/
theorem C12_delete_parent_preserves (fk : Fk) (a : Action) (parents parents' children ch' : List Row) (p : Row)
    (h : FKInv fk parents children)
    (hkeep : ∀ q ∈ parents, keyOf fk.pcols q ≠ keyOf fk.pcols p → q ∈ parents')
    (hnull : ∀ c ∈ children, hasNull (keyOf fk.cols (fk.nullCols c)) = true)
    (ha : fk.onDeleteParent a children p = some ch') : FKInv fk parents' ch' := by
  have hsurv : ∀ c ∈ children, fk.refers (keyOf fk.pcols p) c = false → hasNull (keyOf fk.cols c) = false →
      ∃ q ∈ parents', keyOf fk.pcols q = keyOf fk.cols c := by
    intro c hc hr hn
    obtain ⟨q, hq, hk⟩ := h c hc hn
    refine ⟨q, hkeep q hq ?_, hk⟩
    intro heq
    have : fk.refers (keyOf fk.pcols p) c = true := by
      have e : keyOf fk.cols c = keyOf fk.pcols p := by rw [← hk, heq]
      simp only [Fk.refers, hn, Bool.not_false, Bool.true_and, beq_iff_eq]; exact e
    rw [hr] at this; exact absurd this (by simp)
  unfold Fk.onDeleteParent at ha
  simp only [] at ha
  split at ha
  · cases a with
    | noAction => simp at ha
    | cascade =>
      simp only [Option.some.injEq] at ha; subst ha
      intro c hc hn
      simp only [List.mem_filter, Bool.not_eq_true'] at hc
      exact hsurv c hc.1 hc.2 hn
    | setNull =>
      simp only [Option.some.injEq] at ha; subst ha
      intro c' hc' hn
      obtain ⟨c, hc, rfl⟩ := List.mem_map.mp hc'
      by_cases hr : fk.refers (keyOf fk.pcols p) c = true
      · simp only [hr, if_true] at hn
        rw [hnull c hc] at hn; simp at hn
      · simp only [hr] at hn ⊢
        exact hsurv c hc (by simpa using hr) hn
  · rename_i hno
    simp only [List.any_eq_true, not_exists, not_and, Bool.not_eq_true] at hno
    simp only [Option.some.injEq] at ha; subst ha
    intro c hc hn
    exact hsurv c hc (hno c hc) hn

/-- the `hnull` hypothesis holds for a single-column foreign key on rows wide enough -/
theorem nullCols_single (i : Nat) (pc : List Nat) (c : Row) (hi : i < c.length) :
    hasNull (keyOf [i] (Fk.nullCols { cols := [i], pcols := pc } c)) = true := by
  simp [Fk.nullCols, Fk.setCols, keyOf, hasNull, List.getD, hi, Value.isNull]

/-- parent-key UPDATE under NO ACTION: rejected iff some child row carries the old key; accepted
updates leave the child table untouched -/
theorem C12_update_parent_no_action (fk : Fk) (children : List Row) (p p' : Row) :
    (fk.onUpdateParent .noAction children p p' = none ↔ ∃ c ∈ children, keyOf fk.cols c = keyOf fk.pcols p) ∧
    (∀ ch', fk.onUpdateParent .noAction children p p' = some ch' → ch' = children) := by
  simp only [Fk.onUpdateParent]
  split <;> simp_all

/-! non-vacuity -/

def fk1 : Fk := { cols := [1], pcols := [0] }
def parents1 : List Row := [[.int 1, .int 10], [.int 2, .int 20]]
def children1 : List Row := [[.int 1, .int 1], [.int 2, .int 1], [.int 3, .int 2], [.int 4, .null]]

example : FKInv fk1 parents1 children1 := by
  intro c hc hn
  simp only [children1, List.mem_cons, List.not_mem_nil, or_false] at hc
  rcases hc with rfl | rfl | rfl | rfl <;> simp_all [fk1, parents1, keyOf, hasNull, Value.isNull]

example : fk1.onDeleteParent .cascade children1 [.int 1, .int 10] = some [[.int 3, .int 2], [.int 4, .null]] := by decide
example : fk1.onDeleteParent .setNull children1 [.int 1, .int 10] =
    some [[.int 1, .null], [.int 2, .null], [.int 3, .int 2], [.int 4, .null]] := by decide
example : fk1.onDeleteParent .noAction children1 [.int 1, .int 10] = none := by decide


/-! ### the recursive cascade over several tables and foreign keys (Model/DmlFk.lean, second part) -/

/-- Termination: if the reference graph is ranked (`rank child < rank parent` for every foreign
key — acyclic, no self-reference), the whole DELETE, including every nested
`check_no_child_references` / `cascade_delete`, finishes within fuel `rank t + 1`; in particular
`fuel = number of tables` suffices for a rank below the number of tables. -/
theorem C12_cascade_terminates (fks : List FkDecl) (rank : Nat → Nat) (hr : Ranked fks rank)
    (fuel : Nat) (db : Db) (t : Nat) (sel : Row → Bool) (hf : rank t < fuel) :
    deleteWithFks fks fuel db t sel ≠ .error .fuel := by
  unfold deleteWithFks deleteVictims
  split
  · rename_i e he
    intro h; simp only [Except.error.injEq] at h; subst h
    exact runVictims_fuel _ (fun db v => checkRow_terminates fks rank hr fuel db t v hf) _ _ he
  · simp

/-- Preservation, for every database, every selection of parent rows, every depth of cascade
(CASCADE / NO ACTION schemas): an accepted DELETE keeps *every* foreign key of the schema, only
removes rows, and removes every selected row. -/
theorem C12_delete_cascade_preserves (fks : List FkDecl) (hco : CascadeOnly fks) (fuel : Nat) (db db' : Db)
    (t : Nat) (sel : Row → Bool) (h : DbInv fks db) (hr : deleteWithFks fks fuel db t sel = .ok db') :
    DbInv fks db' ∧ Sub db' db ∧ ∀ r ∈ db' t, sel r = false := by
  obtain ⟨a1, a2, a3⟩ := deleteVictims_post fks (fun t db v => checkRow fks fuel db t v)
    (checkRow_spec fks hco fuel) t _ db db' h hr
  refine ⟨a1, a2, ?_⟩
  intro r hr'
  cases hs : sel r with
  | false => rfl
  | true => exact absurd (List.mem_filter.mpr ⟨a2 _ r hr', hs⟩) (a3 r hr')

/-- the transitive referencing closure of the selected rows along ON DELETE CASCADE keys -/
inductive Reach (fks : List FkDecl) (db : Db) (t : Nat) (sel : Row → Bool) : Nat → Row → Prop where
  | root (r : Row) : r ∈ db t → sel r = true → Reach fks db t sel t r
  | step (p : Nat) (pr : Row) (d : FkDecl) (c : Row) : Reach fks db t sel p pr → d ∈ fks → d.parent = p →
      d.onDelete = .cascade → c ∈ db d.child → d.fk.refers (keyOf d.pcols pr) c = true →
      Reach fks db t sel d.child c

/-- parent keys are unique (PRIMARY KEY, C10) -/
def ParentKeysUnique (fks : List FkDecl) (db : Db) : Prop :=
  ∀ d ∈ fks, ∀ p ∈ db d.parent, ∀ q ∈ db d.parent, keyOf d.pcols p = keyOf d.pcols q → p = q

/-- every row of the closure is gone after an accepted DELETE -/
theorem C12_cascade_removes_closure (fks : List FkDecl) (hco : CascadeOnly fks) (fuel : Nat) (db db' : Db)
    (t : Nat) (sel : Row → Bool) (h : DbInv fks db) (hu : ParentKeysUnique fks db)
    (hr : deleteWithFks fks fuel db t sel = .ok db') :
    ∀ i r, Reach fks db t sel i r → r ∉ db' i := by
  obtain ⟨a1, a2, a3⟩ := C12_delete_cascade_preserves fks hco fuel db db' t sel h hr
  intro i r hreach
  induction hreach with
  | root r _ hs => intro hm; rw [a3 r hm] at hs; exact absurd hs (by simp)
  | step p pr d c _ hd hp _ hc href ih =>
    intro hm
    simp only [Fk.refers, Bool.and_eq_true, Bool.not_eq_true', beq_iff_eq] at href
    obtain ⟨q, hq, hk⟩ := a1 d hd c hm href.1
    have hq0 : q ∈ db d.parent := a2 _ q hq
    have hpr : pr ∈ db d.parent := by
      rw [hp]
      rename_i hreach' _
      cases hreach' with
      | root _ hm' _ => exact hm'
      | step _ _ _ _ _ _ hp' _ hc' _ => exact hc'
    have : q = pr := hu d hd q hq0 pr hpr (by
      have e : d.fk.pcols = d.pcols := rfl
      rw [e] at hk; rw [hk]; exact href.2)
    subst this
    exact ih (hp ▸ hq)

theorem reach_of_rf (fks : List FkDecl) (db : Db) (t : Nat) (sel : Row → Bool) (v : Row)
    (hv : v ∈ db t) (hs : sel v = true) {i : Nat} {r : Row} (h : RF fks db t v i r) : Reach fks db t sel i r := by
  induction h with
  | direct d c hd hp ha hc hr => exact .step t v d c (.root v hv hs) hd hp ha hc hr
  | trans q qr d c _ hd hp ha hc hr ih => exact .step q qr d c ih hd hp ha hc hr

/-- … and only rows of the closure are removed -/
theorem C12_cascade_removes_only_closure (fks : List FkDecl) (hco : CascadeOnly fks) (fuel : Nat) (db db' : Db)
    (t : Nat) (sel : Row → Bool) (hr : deleteWithFks fks fuel db t sel = .ok db') :
    ∀ i r, r ∈ db i → r ∉ db' i → Reach fks db t sel i r := by
  obtain ⟨_, a2⟩ := deleteVictims_only fks (fun t db v => checkRow fks fuel db t v)
    (checkRow_spec2 fks hco fuel) t _ db db' hr
  intro i r hin hout
  rcases a2 i r hin hout with ⟨hi, hv⟩ | ⟨v, hv, hrf⟩
  · subst hi
    obtain ⟨h1, h2⟩ := List.mem_filter.mp hv
    exact .root r h1 h2
  · obtain ⟨h1, h2⟩ := List.mem_filter.mp hv
    exact reach_of_rf fks db t sel v h1 h2 hrf

/-- CASCADE removes exactly the transitive referencing closure: a row is in the database after an
accepted DELETE iff it was there before and is not in the closure of the selected rows -/
theorem C12_cascade_removes_exactly_closure (fks : List FkDecl) (hco : CascadeOnly fks) (fuel : Nat) (db db' : Db)
    (t : Nat) (sel : Row → Bool) (h : DbInv fks db) (hu : ParentKeysUnique fks db)
    (hr : deleteWithFks fks fuel db t sel = .ok db') :
    ∀ i r, r ∈ db' i ↔ (r ∈ db i ∧ ¬ Reach fks db t sel i r) := by
  intro i r
  constructor
  · intro hm
    exact ⟨(C12_delete_cascade_preserves fks hco fuel db db' t sel h hr).2.1 i r hm,
      fun hreach => C12_cascade_removes_closure fks hco fuel db db' t sel h hu hr i r hreach hm⟩
  · intro ⟨hin, hnr⟩
    apply Classical.byContradiction
    intro hout
    exact hnr (C12_cascade_removes_only_closure fks hco fuel db db' t sel hr i r hin hout)

/-- ON UPDATE CASCADE: the referrers' key columns are rewritten to the new parent key and the
invariant holds for every parent table that contains the updated row and keeps all rows with a
different key.  (`hset`: writing a key into the key columns and reading it back gives that key —
true for well-formed foreign keys, `setCols_single` for one column.) -/
theorem C12_update_parent_cascade_preserves (fk : Fk) (parents parents' children ch' : List Row) (p p' : Row)
    (h : FKInv fk parents children)
    (hkeep : ∀ q ∈ parents, keyOf fk.pcols q ≠ keyOf fk.pcols p → q ∈ parents')
    (hnew : p' ∈ parents')
    (hset : ∀ c ∈ children, keyOf fk.cols (Fk.setCols fk.cols (keyOf fk.pcols p') c) = keyOf fk.pcols p')
    (ha : fk.onUpdateParent .cascade children p p' = some ch') : FKInv fk parents' ch' := by
  unfold Fk.onUpdateParent at ha
  simp only [] at ha
  have hsurv : ∀ c ∈ children, keyOf fk.cols c ≠ keyOf fk.pcols p → hasNull (keyOf fk.cols c) = false →
      ∃ q ∈ parents', keyOf fk.pcols q = keyOf fk.cols c := by
    intro c hc hne hn
    obtain ⟨q, hq, hk⟩ := h c hc hn
    exact ⟨q, hkeep q hq (by rw [hk]; exact hne), hk⟩
  split at ha
  · simp only [Option.some.injEq] at ha; subst ha
    intro c' hc' hn
    obtain ⟨c, hc, rfl⟩ := List.mem_map.mp hc'
    by_cases hk : keyOf fk.cols c = keyOf fk.pcols p
    · simp only [hk, beq_self_eq_true, if_true] at hn ⊢
      exact ⟨p', hnew, (hset c hc).symm⟩
    · have hk' : (keyOf fk.cols c == keyOf fk.pcols p) = false := by simpa using hk
      simp only [hk'] at hn ⊢
      exact hsurv c hc hk hn
  · rename_i hno
    simp only [List.any_eq_true, beq_iff_eq, not_exists, not_and] at hno
    simp only [Option.some.injEq] at ha; subst ha
    intro c hc hn
    exact hsurv c hc (hno c hc) hn

theorem setCols_single (i : Nat) (pc : List Nat) (k : Value) (c : Row) (hi : i < c.length) :
    keyOf [i] (Fk.setCols [i] [k] c) = [k] := by
  simp [Fk.setCols, keyOf, List.getD, hi]

/-! non-vacuity: three-level chain PAR(0) ← CH(1) ← GC(2), both CASCADE -/

def chainFks : List FkDecl :=
  [{ child := 1, parent := 0, cols := [1], pcols := [0], onDelete := .cascade },
   { child := 2, parent := 1, cols := [1], pcols := [0], onDelete := .cascade }]

def chainDb : Db := fun i => match i with
  | 0 => [[.int 1, .int 0], [.int 2, .int 0]]
  | 1 => [[.int 10, .int 1], [.int 11, .int 1], [.int 12, .int 2]]
  | 2 => [[.int 100, .int 10], [.int 101, .int 12], [.int 102, .null]]
  | _ => []

example : Ranked chainFks (fun i => 2 - i) := by
  intro d hd; simp [chainFks] at hd; rcases hd with rfl | rfl <;> decide
example : CascadeOnly chainFks := by
  intro d hd; simp [chainFks] at hd; rcases hd with rfl | rfl <;> simp
example : (match deleteWithFks chainFks 3 chainDb 0 (fun r => r.getD 0 .null == .int 1) with
    | .ok db => [db 0, db 1, db 2]
    | .error _ => []) =
    [[[.int 2, .int 0]], [[.int 12, .int 2]], [[.int 101, .int 12], [.int 102, .null]]] := by decide

/-- the cyclic case stays the recorded finding: on a CASCADE cycle (1 → 2 → 1 in one
self-referencing table) the recursion never bottoms out — whatever the fuel, the model runs out
of it (the real code overflows its stack; replayed in a subprocess by the harness) -/
def cycleFks : List FkDecl := [{ child := 0, parent := 0, cols := [1], pcols := [0], onDelete := .cascade }]
def cycleDb : Db := fun i => if i = 0 then [[.int 1, .int 2], [.int 2, .int 1]] else []

theorem C12_cyclic_cascade_exhausts_fuel (fuel : Nat) :
    ∀ (db : Db), db 0 = [[.int 1, .int 2], [.int 2, .int 1]] →
      checkRow cycleFks fuel db 0 [.int 1, .int 2] = .error .fuel ∧
      checkRow cycleFks fuel db 0 [.int 2, .int 1] = .error .fuel := by
  induction fuel with
  | zero => intro db _; simp [checkRow]
  | succ f ih =>
    intro db hdb
    obtain ⟨ih1, ih2⟩ := ih db hdb
    simp only [cycleFks] at ih1 ih2
    constructor <;>
      simp [checkRow, cycleFks, hdb, runActs, applyAct, deleteVictims, runVictims, FkDecl.fk, Fk.refers,
        keyOf, hasNull, Value.isNull, List.getD, ih1, ih2]

/-! ### the repaired recursion (visited set): termination on every reference graph -/

/-- all (table, row) pairs of the database over the listed tables -/
def allRows (tables : List Nat) (db : Db) : Seen := tables.flatMap (fun i => (db i).map (fun r => (i, r)))

theorem rowsIn_allRows (tables : List Nat) (db : Db) (hcov : ∀ i, i ∉ tables → db i = []) :
    RowsIn db (allRows tables db) := by
  intro i r hr
  by_cases hi : i ∈ tables
  · exact List.mem_flatMap.mpr ⟨i, hi, List.mem_map.mpr ⟨r, hr, rfl⟩⟩
  · rw [hcov i hi] at hr; simp at hr

/-- Termination for EVERY foreign-key graph — cycles and self-references included — since the
repair: `in_progress` strictly grows inside the finite set of (table, row) pairs of the database, so
fuel `number of rows + 1` is enough for the whole DELETE (CASCADE / NO ACTION schemas; SET NULL does
not recurse).  Before the repair no fuel was enough on a cycle (`C12_cyclic_cascade_exhausts_fuel`). -/
theorem C12_cascade_terminates_on_every_graph (fks : List FkDecl) (hco : CascadeOnly fks) (tables : List Nat)
    (db : Db) (hcov : ∀ i, i ∉ tables → db i = []) (t : Nat) (pk : List Nat) (sel : Row → Bool) (fuel : Nat)
    (hf : (allRows tables db).length < fuel) : deleteWithFksV fks fuel db t pk sel ≠ .error .fuel := by
  have hu := rowsIn_allRows tables db hcov
  generalize allRows tables db = u at hf hu
  have hun : unseen u [] = u.length := by
    unfold unseen; simp
  have key : ∀ (vs : List Row) (seen : Seen) (db1 : Db), RowsIn db1 u → (∀ v ∈ vs, (t, v) ∈ u) →
      runVictimsV (fun _ db v => checkRowV fks fuel [] db t v) vs seen db1 ≠ .error .fuel := by
    intro vs
    induction vs with
    | nil => intro seen db1 _ _; simp [runVictimsV]
    | cons v vs ih =>
      intro seen db1 h1 hv
      unfold runVictimsV
      split
      · rename_i e he
        intro heq; simp only [Except.error.injEq] at heq; subst heq
        exact checkRowV_fuel fks hco u fuel t [] db1 v h1 (hv v List.mem_cons_self) (by rw [hun]; exact hf) he
      · rename_i db2 seen2 h2
        have := (checkRowV_mono fks hco u fuel t [] db1 v db2 seen2 h1 h2).1
        exact ih seen2 db2 this (fun x hx => hv x (List.mem_cons_of_mem _ hx))
  unfold deleteWithFksV
  simp only []
  split
  · rename_i e he
    intro heq; simp only [Except.error.injEq] at heq; subst heq
    exact key _ [] db hu (fun v hv => hu t v (List.mem_filter.mp hv).1) he
  · simp

/-- Preservation for the repaired executor (visited set, selected rows found again by primary key):
on a ranked graph with CASCADE / NO ACTION keys, an accepted DELETE of any set of rows keeps every
foreign key, only removes rows, and removes every selected row.  (`hpk`: the keys that reference `t`
reference its primary key.) -/
theorem C12_delete_cascade_preserves_repaired (fks : List FkDecl) (hco : CascadeOnly fks) (rank : Nat → Nat)
    (hrk : Ranked fks rank) (fuel : Nat) (db db' : Db) (t : Nat) (pk : List Nat) (sel : Row → Bool)
    (hpk : ∀ d ∈ fks, d.parent = t → d.pcols = pk) (h : DbInv fks db)
    (hr : deleteWithFksV fks fuel db t pk sel = .ok db') :
    DbInv fks db' ∧ Sub db' db ∧ ∀ r ∈ db' t, sel r = false := by
  have key : ∀ (vs : List Row) (seen : Seen) (db0 db1 : Db) (seen1 : Seen), DbInv fks db0 →
      runVictimsV (fun _ db v => checkRowV fks fuel [] db t v) vs seen db0 = .ok (db1, seen1) →
      DbInv fks db1 ∧ Sub db1 db0 ∧ ∀ v ∈ vs, NoRef fks db1 t v := by
    intro vs
    induction vs with
    | nil =>
      intro seen db0 db1 seen1 h0 hr0
      simp only [runVictimsV, Except.ok.injEq, Prod.mk.injEq] at hr0
      obtain ⟨rfl, rfl⟩ := hr0
      exact ⟨h0, Sub.refl _, by simp⟩
    | cons v vs ih =>
      intro seen db0 db1 seen1 h0 hr0
      unfold runVictimsV at hr0
      split at hr0
      · simp at hr0
      · rename_i db2 seen2 h2
        obtain ⟨a1, a2, a3, _, _, _⟩ := checkRowV_spec fks hco rank hrk fuel t [] db0 v db2 seen2 h0
          (by intro p hp; simp at hp) h2
        obtain ⟨b1, b2, b3⟩ := ih seen2 db2 db1 seen1 a1 hr0
        refine ⟨b1, b2.trans a2, ?_⟩
        intro x hx
        rcases List.mem_cons.mp hx with rfl | hx
        · exact a3.mono b2
        · exact b3 x hx
  unfold deleteWithFksV at hr
  simp only [] at hr
  split at hr
  · simp at hr
  · rename_i db1 seen1 h1
    obtain ⟨a1, a2, a3⟩ := key _ [] db db1 seen1 h h1
    simp only [Except.ok.injEq] at hr; subst hr
    have hsub1 : Sub (db1.set t ((db1 t).filter (fun r =>
        !((((db t).filter sel).map (keyOf pk)).contains (keyOf pk r))))) db1 := by
      intro i r hr'
      simp only [Db.set] at hr'
      split at hr'
      · rename_i hi; subst hi; exact (List.mem_filter.mp hr').1
      · exact hr'
    refine ⟨?_, hsub1.trans a2, ?_⟩
    · intro d hd c hc hn
      have hc1 : c ∈ db1 d.child := hsub1 _ c hc
      obtain ⟨p, hp, hk⟩ := a1 d hd c hc1 hn
      refine ⟨p, ?_, hk⟩
      simp only [Db.set]
      split
      · rename_i hpt
        rw [List.mem_filter]
        refine ⟨by rw [← hpt]; exact hp, ?_⟩
        simp only [Bool.not_eq_true', List.contains_eq_mem, decide_eq_false_iff_not, List.mem_map, not_exists, not_and]
        intro v hv hkv
        have hnr := a3 v hv d hd hpt c hc1
        have hpc : d.pcols = pk := hpk d hd hpt
        have hk2 : keyOf d.fk.pcols v = keyOf d.fk.cols c := by
          have e : d.fk.pcols = d.pcols := rfl
          rw [e, hpc, hkv, ← hpc, ← e]; exact hk
        rw [refers_of_key hn hk2] at hnr
        exact absurd hnr (by simp)
      · exact hp
    · intro r hr'
      simp only [Db.set, if_true, List.mem_filter, Bool.not_eq_true', List.contains_eq_mem,
        decide_eq_false_iff_not, List.mem_map, not_exists, not_and] at hr'
      cases hs : sel r with
      | false => rfl
      | true =>
        exact absurd rfl (hr'.2 r ⟨a2 _ r hr'.1, hs⟩)

/-- the 1 → 2 → 1 cycle that exhausted every fuel now ends with both rows deleted -/
example : (match deleteWithFksV cycleFks 3 cycleDb 0 [0] (fun r => r.getD 0 .null == .int 1) with
    | .ok db => some (db 0)
    | .error _ => none) = some [] := by decide

/-- … and the self-referencing table of `C12_self_reference_counterexample` loses exactly the selected
row and its referrer: the stale-position defect is gone (rows are found again by value) -/
example : (match deleteWithFksV cycleFks 5
    (fun i => if i = 0 then [[.int 2, .int 1], [.int 1, .null], [.int 3, .null], [.int 4, .int 3]] else [])
    0 [0] (fun r => r.getD 0 .null == .int 1) with
    | .ok db => some (db 0)
    | .error _ => none) = some [[.int 3, .null], [.int 4, .int 3]] := by decide

/-! ### referential actions under ROLLBACK TO SAVEPOINT -/

/-- Undo after a referential action = identity on the child table (as a multiset): for every child
table and every list of rewritten positions (ON UPDATE CASCADE / SET NULL / SET DEFAULT, ON DELETE SET NULL
/ SET DEFAULT all go through `update_row_recorded`), undoing the recorded `(old, new)` pairs newest first
succeeds and gives back the rows that were there at the savepoint. -/
theorem C12_referential_action_undo_restores (rows : List Row) (us : List (Nat × Row)) :
    ∃ r, undoAll (applyRecorded rows us).1 (applyRecorded rows us).2 = some r ∧ r.Perm rows :=
  undo_applyRecorded us rows

/-- … which depends on `old` being read before the write: an entry `(new, new)` (old read after the
write) undoes nothing — child 5→1 cascaded to 5→10 stays at 10 -/
example : undoAll [[.int 5, .int 10]] [([.int 5, .int 10], [.int 5, .int 10])] = some [[.int 5, .int 10]] ∧
    (applyRecorded [[.int 5, .int 1]] [(0, [.int 5, .int 10])]).2 = [([.int 5, .int 1], [.int 5, .int 10])] := by decide

/-! ### TRUNCATE … CASCADE -/

/-- `get_fk_children` looks at *all* foreign keys of a table, not at the first one -/
theorem C12_truncate_children_all_fks (fks : List FkDecl) (tables : List Nat) (p c : Nat) :
    c ∈ fkChildren fks tables p ↔ c ∈ tables ∧ c ≠ p ∧ ∃ d ∈ fks, d.child = c ∧ d.parent = p :=
  mem_fkChildren fks tables p c

/-- … so the children do not depend on the order in which foreign keys were declared -/
theorem C12_truncate_children_perm (fks fks' : List FkDecl) (h : fks.Perm fks') (tables : List Nat) (p : Nat) :
    fkChildren fks' tables p = fkChildren fks tables p :=
  fkChildren_perm h tables p

/-- TRUNCATE p CASCADE leaves no orphan, for every foreign key of the schema (any number per table,
any declaration order): the tables it empties contain p and are closed under "references", so every
foreign key either has an emptied child table or an untouched parent table -/
theorem C12_truncate_cascade_no_orphans (fks : List FkDecl) (tables : List Nat) (fuel : Nat) (db db' : Db) (p : Nat)
    (htab : ∀ d ∈ fks, d.child ∈ tables) (h : DbInv fks db)
    (hr : truncateCascade fks tables fuel db p = .ok db') : DbInv fks db' ∧ db' p = [] := by
  unfold truncateCascade at hr
  split at hr
  · simp at hr
  · rename_i s hs
    simp only [Except.ok.injEq] at hr; subst hr
    obtain ⟨_, hp, hcl⟩ := visit_spec fks tables fuel [] [] p s (by intro x hx; simp at hx) hs
    refine ⟨?_, by simp [emptyTables, hp]⟩
    intro d hd c hc hn
    simp only [emptyTables] at hc ⊢
    split at hc
    · simp at hc
    · rename_i hcs
      have hps : d.parent ∉ s := by
        intro hps
        by_cases heq : d.child = d.parent
        · exact hcs (heq ▸ hps)
        · exact hcs (hcl d.parent hps (by simp) d.child
            ((mem_fkChildren fks tables d.parent d.child).mpr ⟨htab d hd, heq, d, hd, rfl, rfl⟩))
      simp only [hps, if_false]
      exact h d hd c hc hn

/-- junction table: LINK(2) references A(0) and B(1); truncating B cascades to LINK whichever key
was declared first -/
example : (match truncateCascade
    [{ child := 2, parent := 0, cols := [1], pcols := [0], onDelete := .noAction },
     { child := 2, parent := 1, cols := [2], pcols := [0], onDelete := .noAction }] [0, 1, 2] 4
    (fun i => if i = 2 then [[.int 1, .int 1, .int 1]] else [[.int 1]]) 1 with
    | .ok db => [db 0, db 1, db 2]
    | .error _ => []) = [[[.int 1]], [], []] := by decide

/-! the part the code as it is violates -/

/-- the full statement for a self-referencing table (parents = children = the table itself) -/
def C12_self_reference_full : Prop :=
  ∀ (fk : Fk) (rows : List Row) (i : Nat), FKInv fk rows rows → FKInv fk (fk.deleteSelfRefAsCoded rows i) (fk.deleteSelfRefAsCoded rows i)

/-- rows (2→1), (1), (3), (4→3): DELETE of key 1 (position 1) cascades to the row stored before
it, then position 1 of the shrunk table — key 3 — is deleted; (4→3) is left an orphan and the
selected row (1) survives -/
theorem C12_self_reference_counterexample : ¬ C12_self_reference_full := by
  intro h
  let fk : Fk := { cols := [1], pcols := [0] }
  let rows : List Row := [[.int 2, .int 1], [.int 1, .null], [.int 3, .null], [.int 4, .int 3]]
  have h0 : FKInv fk rows rows := by
    intro c hc hn
    simp only [rows, List.mem_cons, List.not_mem_nil, or_false] at hc
    rcases hc with rfl | rfl | rfl | rfl <;> simp_all [fk, rows, keyOf, hasNull, Value.isNull]
  have h1 := h fk rows 1 h0
  have hres : fk.deleteSelfRefAsCoded rows 1 = [[.int 1, .null], [.int 4, .int 3]] := by decide
  rw [hres] at h1
  have := h1 [.int 4, .int 3] (by simp) (by decide)
  simp [fk, keyOf] at this

end VibeProof.C12
