import VibeProof.Props.C31
#print axioms VibeProof.C31.C31_writer_rfc4180
#print axioms VibeProof.C31.C31_import_roundtrip
#print axioms VibeProof.C31.C31_crlf_records
#print axioms VibeProof.C31.C31_value_confined
#print axioms VibeProof.C31.C31_json_value_confined
#print axioms VibeProof.C31.C31_json_null_text
#print axioms VibeProof.C31.C31_unvalidated_key_injects
#print axioms VibeProof.C31.C31_validated_name_inert
#print axioms VibeProof.C31.C31_export_import_counterexample
#print axioms VibeProof.C31.C31_header_agreement
#print axioms VibeProof.C31.C31_quoted_header_spans_lines
