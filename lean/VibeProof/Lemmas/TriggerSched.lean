import VibeProof.Lemmas.Trigger
/-
The firing schedule of a whole statement for audit-only trigger bodies: what the row loops of
the three executors append to the audit log and that they leave the rows of `T` alone.
-/
namespace VibeProof.Trigger
open VibeProof

variable (cfg : Cfg) (nested : Nested)

theorem fireRow_rows (hn : AuditSpec nested) (ha : AuditOnly cfg.trigs) (tm : Timing) (ev : Event)
    (old new : Option Row) (st : St) :
    (fireRow cfg (some nested) tm ev old new st).1.rows = st.rows :=
  fireRowLoop_rows nested hn old new _ st (auditOnly_find cfg tblT tm ev ha)

theorem fireRow_ok (hn : AuditSpec nested) (ha : AuditOnly cfg.trigs) (tm : Timing) (ev : Event)
    (old new : Option Row) (st st' : St)
    (h : fireRow cfg (some nested) tm ev old new st = (st', .ok ())) :
    st'.log = st.log ++ rowEntries (findTriggers cfg tblT tm ev) old new :=
  fireRowLoop_ok nested hn old new _ st st' (auditOnly_find cfg tblT tm ev ha) h

theorem fireStmt_rows (hn : AuditSpec nested) (ha : AuditOnly cfg.trigs) (tm : Timing) (ev : Event)
    (st : St) : (fireStmt cfg (some nested) tm ev st).1.rows = st.rows :=
  fireStmtLoop_rows nested hn _ st (auditOnly_find cfg tblT tm ev ha)

theorem fireStmt_ok (hn : AuditSpec nested) (ha : AuditOnly cfg.trigs) (tm : Timing) (ev : Event)
    (st st' : St) (h : fireStmt cfg (some nested) tm ev st = (st', .ok ())) :
    st'.log = st.log ++ stmtEntries (findTriggers cfg tblT tm ev) :=
  fireStmtLoop_ok nested hn _ st st' (auditOnly_find cfg tblT tm ev ha) h

/-! ### UPDATE / DELETE row loops -/

theorem fireUpdLoop_rows (hn : AuditSpec nested) (ha : AuditOnly cfg.trigs) (tm : Timing) :
    ∀ (us : List (Nat × Row × Row)) (st : St),
      (fireUpdLoop cfg (some nested) tm us st).1.rows = st.rows := by
  intro us
  induction us with
  | nil => intro st; rfl
  | cons u us ih =>
    intro st
    obtain ⟨i, o, n⟩ := u
    unfold fireUpdLoop
    have hr := fireRow_rows cfg nested hn ha tm (.update none) (some o) (some n) st
    cases hx : fireRow cfg (some nested) tm (.update none) (some o) (some n) st with
    | mk s1 r1 =>
      rw [hx] at hr
      cases r1 with
      | error e => exact hr
      | ok u => cases u; simp only; rw [ih]; exact hr

theorem fireUpdLoop_ok (hn : AuditSpec nested) (ha : AuditOnly cfg.trigs) (tm : Timing) :
    ∀ (us : List (Nat × Row × Row)) (st st' : St),
      fireUpdLoop cfg (some nested) tm us st = (st', .ok ()) →
      st'.log = st.log ++ us.flatMap (fun u =>
        rowEntries (findTriggers cfg tblT tm (.update none)) (some u.2.1) (some u.2.2)) := by
  intro us
  induction us with
  | nil => intro st st' h; simp [fireUpdLoop] at h; subst h; simp
  | cons u us ih =>
    intro st st' h
    obtain ⟨i, o, n⟩ := u
    unfold fireUpdLoop at h
    cases hx : fireRow cfg (some nested) tm (.update none) (some o) (some n) st with
    | mk s1 r1 =>
      rw [hx] at h
      cases r1 with
      | error e => simp at h
      | ok u =>
        cases u
        simp only at h
        have h1 := fireRow_ok cfg nested hn ha tm (.update none) (some o) (some n) st s1 hx
        have h2 := ih _ _ h
        rw [h2, h1]; simp [List.append_assoc]

theorem fireDelLoop_rows (hn : AuditSpec nested) (ha : AuditOnly cfg.trigs) (tm : Timing) :
    ∀ (ds : List (Nat × Row)) (st : St),
      (fireDelLoop cfg (some nested) tm ds st).1.rows = st.rows := by
  intro ds
  induction ds with
  | nil => intro st; rfl
  | cons d ds ih =>
    intro st
    obtain ⟨i, o⟩ := d
    unfold fireDelLoop
    have hr := fireRow_rows cfg nested hn ha tm .delete (some o) none st
    cases hx : fireRow cfg (some nested) tm .delete (some o) none st with
    | mk s1 r1 =>
      rw [hx] at hr
      cases r1 with
      | error e => exact hr
      | ok u => cases u; simp only; rw [ih]; exact hr

theorem fireDelLoop_ok (hn : AuditSpec nested) (ha : AuditOnly cfg.trigs) (tm : Timing) :
    ∀ (ds : List (Nat × Row)) (st st' : St),
      fireDelLoop cfg (some nested) tm ds st = (st', .ok ()) →
      st'.log = st.log ++ ds.flatMap (fun d =>
        rowEntries (findTriggers cfg tblT tm .delete) (some d.2) none) := by
  intro ds
  induction ds with
  | nil => intro st st' h; simp [fireDelLoop] at h; subst h; simp
  | cons d ds ih =>
    intro st st' h
    obtain ⟨i, o⟩ := d
    unfold fireDelLoop at h
    cases hx : fireRow cfg (some nested) tm .delete (some o) none st with
    | mk s1 r1 =>
      rw [hx] at h
      cases r1 with
      | error e => simp at h
      | ok u =>
        cases u
        simp only at h
        have h1 := fireRow_ok cfg nested hn ha tm .delete (some o) none st s1 hx
        have h2 := ih _ _ h
        rw [h2, h1]; simp [List.append_assoc]

/-! ### INSERT row loop -/

/-- entries of one inserted row: its BEFORE triggers, then its AFTER triggers -/
def insRowEntries (r : Row) : List Entry :=
  rowEntries (findTriggers cfg tblT .before .insert) none (some r) ++
    rowEntries (findTriggers cfg tblT .after .insert) none (some r)

theorem insertLoop_ok (hn : AuditSpec nested) (ha : AuditOnly cfg.trigs) :
    ∀ (rs : List Row) (st st' : St) (k m : Nat),
      insertLoop cfg (some nested) rs st k = (st', .ok m) →
      m = k + rs.length ∧ st'.rows = st.rows ++ rs ∧
        st'.log = st.log ++ rs.flatMap (insRowEntries cfg) := by
  intro rs
  induction rs with
  | nil => intro st st' k m h; simp [insertLoop] at h; obtain ⟨h1, h2⟩ := h; subst h1 h2; simp
  | cons r rs ih =>
    intro st st' k m h
    unfold insertLoop at h
    have hr1 := fireRow_rows cfg nested hn ha .before .insert none (some r) st
    cases hx : fireRow cfg (some nested) .before .insert none (some r) st with
    | mk s1 r1 =>
      rw [hx] at h hr1
      cases r1 with
      | error e => simp at h
      | ok u =>
        cases u
        simp only at h
        have hl1 := fireRow_ok cfg nested hn ha .before .insert none (some r) st s1 hx
        have hr2 := fireRow_rows cfg nested hn ha .after .insert none (some r)
          { s1 with rows := s1.rows ++ [r] }
        cases hy : fireRow cfg (some nested) .after .insert none (some r)
            { s1 with rows := s1.rows ++ [r] } with
        | mk s3 r3 =>
          rw [hy] at h hr2
          cases r3 with
          | error e => simp at h
          | ok u =>
            cases u
            simp only at h
            have hl2 := fireRow_ok cfg nested hn ha .after .insert none (some r) _ s3 hy
            obtain ⟨hm, hrows, hlog⟩ := ih _ _ _ _ h
            simp only at hr1 hr2 hl2
            refine ⟨by simp [hm]; omega, ?_, ?_⟩
            · rw [hrows, hr2, hr1]; simp
            · rw [hlog, hl2, hl1]; simp [insRowEntries, List.append_assoc]

theorem eraseIdx_append_singleton (l : List Row) (r : Row) :
    (l ++ [r]).eraseIdx l.length = l := by
  induction l with
  | nil => rfl
  | cons a l ih => simp [List.eraseIdx, ih]

/-- whatever happens, the insert loop only ever appends to / removes from the end what it
inserted itself: on failure the rows are the old rows plus the rows of the completed iterations -/
theorem insertLoop_err_rows (hn : AuditSpec nested) (ha : AuditOnly cfg.trigs) :
    ∀ (rs : List Row) (st st' : St) (k : Nat) (e : TErr),
      insertLoop cfg (some nested) rs st k = (st', .err e) →
      ∃ done, done.length < rs.length ∧ st'.rows = st.rows ++ done := by
  intro rs
  induction rs with
  | nil => intro st st' k e h; simp [insertLoop] at h
  | cons r rs ih =>
    intro st st' k e h
    unfold insertLoop at h
    have hr1 := fireRow_rows cfg nested hn ha .before .insert none (some r) st
    cases hx : fireRow cfg (some nested) .before .insert none (some r) st with
    | mk s1 r1 =>
      rw [hx] at h hr1
      cases r1 with
      | error e1 =>
        simp at h; obtain ⟨h1, _⟩ := h; subst h1
        exact ⟨[], by simp, by simpa using hr1⟩
      | ok u =>
        cases u
        simp only at h
        have hr2 := fireRow_rows cfg nested hn ha .after .insert none (some r)
          { s1 with rows := s1.rows ++ [r] }
        cases hy : fireRow cfg (some nested) .after .insert none (some r)
            { s1 with rows := s1.rows ++ [r] } with
        | mk s3 r3 =>
          rw [hy] at h hr2
          simp only at hr1 hr2
          cases r3 with
          | error e3 =>
            simp at h; obtain ⟨h1, _⟩ := h; subst h1
            refine ⟨[], by simp, ?_⟩
            simp [hr2, hr1, eraseIdx_append_singleton]
          | ok u =>
            cases u
            simp only at h
            obtain ⟨done, hd, hrows⟩ := ih _ _ _ _ h
            refine ⟨r :: done, by simp; omega, ?_⟩
            rw [hrows, hr2, hr1]; simp

end VibeProof.Trigger
