import VibeProof.Props.C07
#print axioms VibeProof.C07.C07_count
#print axioms VibeProof.C07.C07_count_star
#print axioms VibeProof.C07.C07_sum
#print axioms VibeProof.C07.C07_avg
#print axioms VibeProof.C07.C07_nulls_ignored
#print axioms VibeProof.C07.C07_min
#print axioms VibeProof.C07.C07_max
#print axioms VibeProof.C07.C07_one_row
#print axioms VibeProof.C07.C07_count_never_null
#print axioms VibeProof.C07.C07_group_keys_nodup
#print axioms VibeProof.C07.C07_group_content
#print axioms VibeProof.C07.C07_group_key_iff
#print axioms VibeProof.C07.C07_group_sizes
#print axioms VibeProof.C07.C07_distinct
#print axioms VibeProof.C07.C07_combine
