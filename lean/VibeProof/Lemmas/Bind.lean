import VibeProof.Model.Text
import VibeProof.Lemmas.Text
/-
Lemmas about placeholder substitution and the coarse scanner (C30).
-/
namespace VibeProof.Text.Bind
open VibeProof.Text

/-! ### plumbing -/

theorem scanGo_cons (holes : Bool) (m : Mode) (c : Char) (cs : Str) :
    scanGo holes m (c :: cs) =
      (stepMode holes m c).bind (fun pm => (scanGo holes pm.2 cs).map (pm.1 ++ ·)) := by
  rw [scanGo]
  cases h : stepMode holes m c with
  | error e => rfl
  | ok pm =>
    obtain ⟨ps, m'⟩ := pm
    simp only [Except.bind]
    cases scanGo holes m' cs <;> rfl

theorem emap_nil {ε α : Type} (e : Except ε (List α)) : e.map (fun x => [] ++ x) = e := by
  cases e <;> rfl

theorem emap_id {ε α : Type} (e : Except ε α) : e.map (fun x => x) = e := by
  cases e <;> rfl

theorem emap_emap {ε α β γ : Type} (e : Except ε α) (f : α → β) (g : β → γ) :
    (e.map f).map g = e.map (fun x => g (f x)) := by
  cases e <;> rfl

def noHoles (ps : List Piece) : Prop := ∀ p ∈ ps, p ≠ Piece.hole

theorem fill_noHoles_append (ps rest : List Piece) (vs : List PVal) (h : noHoles ps) :
    fill (ps ++ rest) vs = ps ++ fill rest vs := by
  induction ps with
  | nil => rfl
  | cons p ps ih =>
    have hp : p ≠ Piece.hole := h p (by simp)
    have ih' := ih (fun q hq => h q (by simp [hq]))
    cases p with
    | hole => exact absurd rfl hp
    | ch c => cases vs <;> simp [fill, ih']
    | str s => cases vs <;> simp [fill, ih']
    | ident s => cases vs <;> simp [fill, ih']

theorem fill_noHoles (ps : List Piece) (vs : List PVal) (h : noHoles ps) : fill ps vs = ps := by
  have := fill_noHoles_append ps [] vs h
  simpa [fill] using this

theorem fill_nil_vals (ps : List Piece) : ∀ vs, fill [] vs = ([] : List Piece) := by
  intro vs; cases vs <;> rfl

theorem closeQuoted_noHoles (q : Char) (acc : Str) (p : List Piece) (h : closeQuoted q acc = .ok p) :
    noHoles p := by
  unfold closeQuoted at h
  split at h
  · injection h with h; subst h; intro x hx; simp at hx; subst hx; exact fun e => by cases e
  · split at h
    · cases h
    · injection h with h; subst h; intro x hx; simp at hx; subst hx; exact fun e => by cases e

theorem normStep_noQ (c : Char) (hc : c ≠ '?') : normStep true c = normStep false c := by
  simp [normStep, hc]

theorem normStep_false_noHoles (c : Char) : noHoles (normStep false c).1 := by
  intro p hp
  unfold normStep at hp
  split at hp
  · simp at hp
  · split at hp
    · simp at hp
    · split at hp
      · simp at hp
      · simp at hp; subst hp; exact fun e => by cases e

theorem stepMode_noQ (m : Mode) (c : Char) (hc : c ≠ '?') : stepMode true m c = stepMode false m c := by
  cases m <;> simp [stepMode, normStep_noQ c hc]

theorem stepMode_false_noHoles (m : Mode) (c : Char) (ps : List Piece) (m' : Mode)
    (h : stepMode false m c = .ok (ps, m')) : noHoles ps := by
  cases m with
  | norm =>
    simp only [stepMode, Except.ok.injEq] at h
    have := normStep_false_noHoles c
    rw [h] at this
    exact this
  | dash =>
    simp only [stepMode] at h
    split at h
    · injection h with h; injection h with h1 _; subst h1; intro p hp; simp at hp
    · injection h with h; injection h with h1 _; subst h1
      intro p hp
      simp only [List.mem_cons] at hp
      rcases hp with hp | hp
      · subst hp; exact fun e => by cases e
      · exact normStep_false_noHoles c p hp
  | comment => simp only [stepMode] at h; injection h with h; injection h with h1 _; subst h1; intro p hp; simp at hp
  | inq q acc =>
    simp only [stepMode] at h
    split at h <;> (injection h with h; injection h with h1 _; subst h1; intro p hp; simp at hp)
  | qq q acc =>
    simp only [stepMode] at h
    split at h
    · injection h with h; injection h with h1 _; subst h1; intro p hp; simp at hp
    · cases hcl : closeQuoted q acc with
      | error e => simp [hcl] at h
      | ok pc =>
        simp only [hcl] at h
        injection h with h; injection h with h1 _; subst h1
        intro p hp
        simp only [List.mem_append] at hp
        rcases hp with hp | hp
        · exact closeQuoted_noHoles q acc pc hcl p hp
        · exact normStep_false_noHoles c p hp

theorem finishMode_noHoles (m : Mode) (ps : List Piece) (h : finishMode m = .ok ps) : noHoles ps := by
  cases m with
  | norm => injection h with h; subst h; intro p hp; simp at hp
  | dash => injection h with h; subst h; intro p hp; simp at hp; subst hp; exact fun e => by cases e
  | comment => injection h with h; subst h; intro p hp; simp at hp
  | inq q acc => cases h
  | qq q acc => exact closeQuoted_noHoles q acc ps h

/-! ### leaving a pending mode -/

theorem flush_noHoles (m : Mode) (f : List Piece) (h : flush m = .ok f) : noHoles f := by
  cases m with
  | dash => injection h with h; subst h; intro p hp; simp at hp; subst hp; exact fun e => by cases e
  | qq q acc => exact closeQuoted_noHoles q acc f h
  | norm => injection h with h; subst h; intro p hp; simp at hp
  | comment => injection h with h; subst h; intro p hp; simp at hp
  | inq q acc => injection h with h; subst h; intro p hp; simp at hp

/-- leaving a code mode: flush, then continue as from `norm` -/
theorem scanGo_leave (holes : Bool) (m : Mode) (c : Char) (X : Str) (hm : codeMode m = true)
    (hl : leaves m c = true) :
    scanGo holes m (c :: X) = (flush m).bind (fun f => (scanGo holes .norm (c :: X)).map (f ++ ·)) := by
  rw [scanGo_cons, scanGo_cons]
  cases m with
  | norm =>
    simp only [stepMode, flush, Except.bind]
    cases scanGo holes (normStep holes c).2 X <;> simp [Except.map]
  | dash =>
    have hc : c ≠ '-' := by simpa [leaves] using hl
    simp only [stepMode, hc, if_false, flush, Except.bind]
    cases scanGo holes (normStep holes c).2 X <;> simp [Except.map]
  | qq q acc =>
    have hc : c ≠ q := by simpa [leaves] using hl
    simp only [stepMode, hc, if_false, flush]
    cases closeQuoted q acc with
    | error e => rfl
    | ok p =>
      simp only [Except.bind]
      cases scanGo holes (normStep holes c).2 X <;> simp [Except.map]
  | comment => simp [codeMode] at hm
  | inq q acc => simp [codeMode] at hm

/-! ### scanning the text of a bound value -/

theorem normStep_plain (holes : Bool) (c : Char) (h : plainCode c = true) (hq : c ≠ '?') :
    normStep holes c = ([.ch c], .norm) := by
  simp only [plainCode, Bool.and_eq_true, Bool.not_eq_true', decide_eq_true_eq] at h
  obtain ⟨⟨h1, h2⟩, h3⟩ := h
  simp [normStep, h1, h2, h3, hq]

theorem scanGo_plain (holes : Bool) (w : Str) (hw : plainRun w = true) (T : Str) :
    scanGo holes .norm (w ++ T) = (scanGo holes .norm T).map (w.map Piece.ch ++ ·) := by
  induction w with
  | nil => simp only [List.nil_append, List.map_nil]; exact (emap_nil _).symm
  | cons c cs ih =>
    simp only [plainRun, List.all_cons, Bool.and_eq_true, decide_eq_true_eq] at hw
    obtain ⟨⟨h1, h2⟩, h3⟩ := hw
    rw [List.cons_append, scanGo_cons]
    simp only [stepMode, normStep_plain holes c h1 h2, Except.bind]
    rw [ih (by simpa [plainRun] using h3)]
    cases scanGo holes .norm T <;> simp [Except.map]

/-- a negated run: `-` followed by a plain run -/
theorem scanGo_neg (holes : Bool) (w : Str) (hne : w ≠ []) (hw : plainRun w = true) (T : Str) :
    scanGo holes .norm ('-' :: w ++ T) =
      (scanGo holes .norm T).map (Piece.ch '-' :: w.map Piece.ch ++ ·) := by
  cases w with
  | nil => exact absurd rfl hne
  | cons c cs =>
    simp only [plainRun, List.all_cons, Bool.and_eq_true, decide_eq_true_eq] at hw
    obtain ⟨⟨h1, h2⟩, h3⟩ := hw
    have hd : c ≠ '-' := by
      simp only [plainCode, Bool.and_eq_true, Bool.not_eq_true', decide_eq_true_eq] at h1
      exact h1.1.2
    rw [List.cons_append, scanGo_cons]
    simp only [stepMode, normStep, show isQuote '-' = false by decide, Bool.false_eq_true, if_false,
      if_true, Except.bind, List.nil_append]
    rw [List.cons_append, scanGo_cons]
    simp only [stepMode, hd, if_false, normStep_plain holes c h1 h2, Except.bind]
    rw [scanGo_plain holes cs (by simpa [plainRun] using h3) T]
    cases scanGo holes .norm T <;> simp [Except.map]

/-- the doubled content of a string literal, then its closing quote -/
theorem scanGo_content (holes : Bool) (s : Str) : ∀ (acc T : Str),
    scanGo holes (.inq '\'' acc) (dbl '\'' s ++ '\'' :: T) = scanGo holes (.qq '\'' (s.reverse ++ acc)) T := by
  induction s with
  | nil =>
    intro acc T
    rw [dbl, List.nil_append, scanGo_cons]
    simp only [stepMode, if_true, Except.bind, List.reverse_nil, List.nil_append]
    exact emap_nil _
  | cons c cs ih =>
    intro acc T
    by_cases hq : c = '\''
    · subst hq
      simp only [dbl, if_true, List.cons_append]
      rw [scanGo_cons]
      simp only [stepMode, if_true, Except.bind]
      rw [emap_nil, scanGo_cons]
      simp only [stepMode, if_true, Except.bind]
      rw [emap_nil, ih]
      simp
    · simp only [dbl, hq, if_false, List.cons_append]
      rw [scanGo_cons]
      simp only [stepMode, hq, if_false, Except.bind]
      rw [emap_nil, ih]
      simp

/-- a rendered string literal followed by text that does not start with a quote -/
theorem scanGo_str (holes : Bool) (s T : Str) (hT : ∀ c T', T = c :: T' → c ≠ '\'') :
    scanGo holes .norm (renderStr s ++ T) = (scanGo holes .norm T).map (Piece.str s :: ·) := by
  simp only [renderStr, List.cons_append, List.append_assoc, List.nil_append]
  rw [scanGo_cons]
  simp only [stepMode, normStep, show isQuote '\'' = true by decide, if_true, Except.bind]
  rw [emap_nil, scanGo_content holes s [] T]
  cases T with
  | nil =>
    simp [scanGo, finishMode, closeQuoted, Except.map]
  | cons c T' =>
    have hc : c ≠ '\'' := hT c T' rfl
    rw [scanGo_leave holes (.qq '\'' (s.reverse ++ [])) c T' (by simp [codeMode]) (by simp [leaves, hc])]
    simp only [flush, closeQuoted, if_true, Except.bind, List.append_nil, List.reverse_reverse]
    cases scanGo holes .norm (c :: T') <;> simp [Except.map]

theorem plainRun_kw : plainRun "TRUE".toList = true ∧ plainRun "FALSE".toList = true ∧
    plainRun "NULL".toList = true := by decide

/-- in code position the text of a bound value scans as the value's pieces -/
theorem scanGo_val (holes : Bool) (v : PVal) (hv : v.wf = true) (T : Str)
    (hT : isStrVal v = true → ∀ c T', T = c :: T' → c ≠ '\'') :
    scanGo holes .norm (renderVal v ++ T) = (scanGo holes .norm T).map (valPieces v ++ ·) := by
  cases v with
  | num neg body =>
    simp only [PVal.wf, Bool.and_eq_true, Bool.not_eq_true'] at hv
    have hne : body ≠ [] := by intro h; simp [h] at hv
    cases neg
    · simpa [renderVal, valPieces] using scanGo_plain holes body hv.2 T
    · simpa [renderVal, valPieces] using scanGo_neg holes body hne hv.2 T
  | str s =>
    have := scanGo_str holes s T (hT rfl)
    simpa [renderVal, valPieces] using this
  | bool b =>
    cases b
    · simpa [renderVal, valPieces] using scanGo_plain holes "FALSE".toList plainRun_kw.2.1 T
    · simpa [renderVal, valPieces] using scanGo_plain holes "TRUE".toList plainRun_kw.1 T
  | null => simpa [renderVal, valPieces] using scanGo_plain holes "NULL".toList plainRun_kw.2.2 T

/-! ### the substitution scanner follows the lexer's modes -/

/-- quote characters recorded in a mode really are quote characters -/
def modeOk : Mode → Prop
  | .inq q _ => isQuote q = true
  | .qq q _ => isQuote q = true
  | _ => True

theorem modeOk_next (m : Mode) (c : Char) (h : modeOk m) : modeOk (nextMode m c) := by
  cases m <;> simp only [nextMode, codeNext] <;> (repeat' split) <;> simp_all [modeOk]

theorem stepMode_mode (holes : Bool) (m : Mode) (c : Char) (ps : List Piece) (m' : Mode)
    (h : stepMode holes m c = .ok (ps, m')) : m' = nextMode m c := by
  have hn : (normStep holes c).2 = codeNext c := by
    simp only [normStep, codeNext]
    (repeat' split) <;> rfl
  cases m with
  | norm =>
    simp only [stepMode, Except.ok.injEq] at h
    rw [h] at hn
    simp only [nextMode]
    exact hn
  | dash =>
    simp only [stepMode] at h
    split at h
    · rename_i hc; injection h with h; injection h with _ h2; simp [nextMode, hc, h2]
    · rename_i hc; injection h with h; injection h with _ h2; simp [nextMode, hc, ← h2, hn]
  | comment => simp only [stepMode] at h; injection h with h; injection h with _ h2; simp [nextMode, h2]
  | inq q acc =>
    simp only [stepMode] at h
    split at h <;> (rename_i hc; injection h with h; injection h with _ h2; simp [nextMode, hc, h2])
  | qq q acc =>
    simp only [stepMode] at h
    split at h
    · rename_i hc; injection h with h; injection h with _ h2; simp [nextMode, hc, h2]
    · rename_i hc
      cases hcl : closeQuoted q acc with
      | error e => simp [hcl] at h
      | ok pc =>
        simp only [hcl] at h
        injection h with h; injection h with _ h2
        simp [nextMode, hc, ← h2, hn]

/-- outside code position a `?` is an ordinary character for the scanner as well -/
theorem stepMode_q_inert (m : Mode) (hm : placeholderAllowed m = false) :
    stepMode true m '?' = stepMode false m '?' := by
  cases m <;> simp_all [placeholderAllowed, stepMode]

theorem allowed_codeMode (m : Mode) (hok : modeOk m) (h : placeholderAllowed m = true) :
    codeMode m = true := by
  cases m with
  | qq q acc =>
    simp only [modeOk] at hok
    simp only [codeMode, decide_eq_true_eq]
    intro hq; subst hq; simp [isQuote] at hok
  | norm => rfl
  | dash => rfl
  | comment => simp [placeholderAllowed] at h
  | inq q acc => simp [placeholderAllowed] at h

theorem leaves_space (m : Mode) (hok : modeOk m) : leaves m ' ' = true := by
  cases m with
  | qq q acc =>
    simp only [modeOk] at hok
    simp only [leaves, decide_eq_true_eq]
    intro hq; subst hq; simp [isQuote] at hok
  | dash => decide
  | norm => rfl
  | comment => rfl
  | inq q acc => rfl

/-- a blank in code position produces nothing -/
theorem scanGo_space (holes : Bool) (X : Str) : scanGo holes .norm (' ' :: X) = scanGo holes .norm X := by
  rw [scanGo_cons]
  simp only [stepMode, normStep, show isQuote ' ' = false by decide, show (' ' = '-') = False by decide,
    show isWs ' ' = true by decide, Bool.false_eq_true, if_false, if_true, Except.bind]
  exact emap_nil _

end VibeProof.Text.Bind
