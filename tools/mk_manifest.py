#!/usr/bin/env python3
"""Regenerates /verif/MANIFEST.json from tools/claims.json (one entry per claimed property)
and properties.jsonl (every property that is not claimed is listed under not_applicable with
its reason from claims.json['unclaimed'] or 'not yet built')."""
import json, os
V = os.path.dirname(os.path.dirname(os.path.abspath(__file__)))
claims = json.load(open(os.path.join(V, "tools", "claims.json")))
import glob
for f in sorted(glob.glob(os.path.join(V, "tools", "claims.d", "C*.json"))):
    pid = os.path.basename(f)[:-5]
    if pid not in claims.get("hold", []):
        claims["claimed"][pid] = json.load(open(f))
props = [json.loads(l) for l in open(os.path.join(V, "properties.jsonl")) if l.strip()]
checks = []
for p in props:
    c = claims["claimed"].get(p["id"])
    if not c:
        continue
    checks.append({
        "property_id": p["id"],
        "quick_cmd": "./check %s --tier quick" % p["id"],
        "thorough_cmd": "./check %s --tier thorough" % p["id"],
        "evidence_file": "/verif/evidence/%s.json" % p["id"],
        "replay_cmd_template": "./check %s --replay {path}" % p["id"],
        "engine": "lean4-proof+correspondence",
        "level_claimed": {"category": c.get("category", "proof"), "text": c["text"], "design_ref": c.get("design_ref", "DESIGN.md §7 " + p["id"])},
        "level_note": c["note"],
        "technique": c.get("technique", "Lean 4 theorems over a hand-written model + differential correspondence model<->code + direct oracle on the code"),
    })
na = [{"property_id": p["id"], "reason": claims.get("unclaimed", {}).get(p["id"], "not yet built: model/theorems/check for this property are not finished; no claim is made")}
      for p in props if p["id"] not in claims["claimed"]]
m = {
    "version": 1,
    "setup_cmd": "./setup.sh",
    "hooks": {
        "guard": "--cfg vibesql_verif",
        "enable": "harness/.cargo/config.toml sets rustflags = [\"--cfg\", \"vibesql_verif\"] for every harness build (path dependencies on /repo/crates)",
        "baseline_off_cmd": "cd /repo && RUSTC_WRAPPER= cargo test --workspace --no-fail-fast --offline",
        "source_commits": claims.get("hook_commits", []),
        "add_only": True,
    },
    "engines": [
        {"name": "lean4-proof+correspondence", "path": "/verif/check", "serves_properties": [c["property_id"] for c in checks],
         "kind_free_text": "Lean 4 model + theorems (lean/), Rust differential harness (harness/), python driver (check)"}
    ],
    "checks": checks,
    "notes": claims.get("notes", ""),
    "not_applicable": na,
}
json.dump(m, open(os.path.join(V, "MANIFEST.json"), "w"), indent=1)
print("MANIFEST.json: %d claimed, %d not claimed" % (len(checks), len(na)))
