/-
Byte buffers as the Rust `bytes` crate sees them (C27, C28, C29).

A buffer is a `List UInt8`.  The cursor operations of `bytes::Buf` / `BytesMut` panic when asked
for more than the buffer holds; here that is the outcome `Stop.panic`, never a default.
Integer conversions are the ones the Rust code performs: big-endian `i32::from_be_bytes`,
`i32 as usize` (two's complement reinterpretation into a 64-bit word), `usize + usize` checked.
-/
namespace VibeProof.Wire

abbrev Bytes := List UInt8

inductive PanicKind where
  | advanceOutOfBounds
  | splitOutOfBounds
  | getOutOfBounds
  | addOverflow
  | fuel
  deriving Repr, DecidableEq

/-- `ProtocolError` of protocol/messages.rs (the variants a decoder can return). -/
inductive ProtoErr where
  | invalidMessageType (b : UInt8)
  | messageTooShort
  | invalidString
  deriving Repr, DecidableEq

/-- why a step inside a decoder stops: a Rust panic, or an `Err(..)` propagated by `?` -/
inductive Stop where
  | panic (k : PanicKind)
  | err (e : ProtoErr)
  deriving Repr, DecidableEq

/-! integers -/

/-- `u32::from_be_bytes` -/
def u32OfBytes (a b c d : UInt8) : Nat :=
  a.toNat * 16777216 + b.toNat * 65536 + c.toNat * 256 + d.toNat

/-- reinterpret a 32-bit word as `i32` -/
def i32OfU32 (n : Nat) : Int :=
  if n < 2147483648 then (n : Int) else (n : Int) - 4294967296

/-- `i32::from_be_bytes` -/
def i32OfBytes (a b c d : UInt8) : Int := i32OfU32 (u32OfBytes a b c d)

/-- `x as usize` for `x : i32` on a 64-bit target -/
def usizeOfI32 (i : Int) : Nat :=
  if i < 0 then (18446744073709551616 + i).toNat else i.toNat

/-- `a + b` on `usize` with overflow checks (debug build): `none` is the panic -/
def checkedAddUsize (a b : Nat) : Option Nat :=
  if a + b < 18446744073709551616 then some (a + b) else none

/-- `put_u32` / the low 32 bits written big-endian -/
def be32 (n : Nat) : Bytes :=
  [UInt8.ofNat (n / 16777216 % 256), UInt8.ofNat (n / 65536 % 256),
   UInt8.ofNat (n / 256 % 256), UInt8.ofNat (n % 256)]

/-- `put_i32 (x)` for an `i32` value given as an `Int` (also what `usize as i32` then `put_i32`
    writes: the low 32 bits) -/
def be32i (i : Int) : Bytes := be32 (i % 4294967296).toNat

/-- `put_i16` of the low 16 bits -/
def be16 (n : Nat) : Bytes := [UInt8.ofNat (n / 256 % 256), UInt8.ofNat (n % 256)]

def be16i (i : Int) : Bytes := be16 (i % 65536).toNat

/-! cursor operations -/

/-- `Buf::advance(n)` -/
def advance (n : Nat) (b : Bytes) : Except Stop Bytes :=
  if n ≤ b.length then .ok (b.drop n) else .error (.panic .advanceOutOfBounds)

/-- `BytesMut::split_to(n)`: (front, remaining) -/
def splitTo (n : Nat) (b : Bytes) : Except Stop (Bytes × Bytes) :=
  if n ≤ b.length then .ok (b.take n, b.drop n) else .error (.panic .splitOutOfBounds)

/-- `Buf::get_i32()` -/
def getI32 : Bytes → Except Stop (Int × Bytes)
  | a :: b :: c :: d :: rest => .ok (i32OfBytes a b c d, rest)
  | _ => .error (.panic .getOutOfBounds)

/-- `iter().position(|&b| b == 0)` -/
def position0 : Bytes → Option Nat
  | [] => none
  | b :: bs => if b = 0 then some 0 else (position0 bs).map (· + 1)

/-! UTF-8 validation (`String::from_utf8`): the well-formed byte sequences of the Unicode
    standard, table 3-7, as a state machine over the bytes. -/

inductive Utf8State where
  | start
  /-- `more` continuation bytes still needed; the next one must lie in `[lo, hi]` -/
  | need (more : Nat) (lo hi : Nat)
  | bad
  deriving Repr, DecidableEq

def utf8Step : Utf8State → UInt8 → Utf8State
  | .bad, _ => .bad
  | .start, b =>
    let n := b.toNat
    if n < 0x80 then .start
    else if 0xC2 ≤ n ∧ n ≤ 0xDF then .need 1 0x80 0xBF
    else if n = 0xE0 then .need 2 0xA0 0xBF
    else if (0xE1 ≤ n ∧ n ≤ 0xEC) ∨ n = 0xEE ∨ n = 0xEF then .need 2 0x80 0xBF
    else if n = 0xED then .need 2 0x80 0x9F
    else if n = 0xF0 then .need 3 0x90 0xBF
    else if 0xF1 ≤ n ∧ n ≤ 0xF3 then .need 3 0x80 0xBF
    else if n = 0xF4 then .need 3 0x80 0x8F
    else .bad
  | .need more lo hi, b =>
    let n := b.toNat
    if lo ≤ n ∧ n ≤ hi then
      (if more ≤ 1 then .start else .need (more - 1) 0x80 0xBF)
    else .bad

def utf8Valid (b : Bytes) : Bool := b.foldl utf8Step .start == .start

/-- no NUL byte -/
def nulFree (b : Bytes) : Bool := b.all (· != 0)

end VibeProof.Wire
