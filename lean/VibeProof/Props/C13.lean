import VibeProof.Props.C15
/-
C13 — ROLLBACK restores exactly the state at BEGIN; COMMIT keeps the last state.

Model: `Model/TableSM.lean` (BEGIN snapshots rows and hash indexes; ROLLBACK restores them and —
since fix a2743cd5 — rebuilds the DATA of the registry's user-defined indexes from the restored
rows; the SET of registry indexes is not part of the snapshot).

Observation of a state: rows, hash indexes, the list of user-defined indexes (name, columns,
uniqueness) and the answer of every index-driven equality lookup.

* `C13_rollback_restores_partial`: for every committed pre-state and every in-transaction history
  without CREATE / DROP INDEX the observation after ROLLBACK equals the one before BEGIN.
* `C13_full` (no restriction on the history) is false of the code as it is:
  `C13_index_ddl_counterexample` — an index created inside the transaction survives ROLLBACK.
* `C13_commit_keeps_last_state`: COMMIT changes nothing but the transaction flag.
-/
namespace VibeProof.C13
open VibeProof VibeProof.Idx VibeProof.TSM VibeProof.C15

def shape (u : UIdx) : String × List Nat × Bool := (u.name, u.cols, u.unique)

/-- statements that may occur between BEGIN and ROLLBACK/COMMIT -/
def InTxnOp : Op → Prop
  | .begin => False
  | .commit => False
  | .rollback => False
  | _ => True

def NotIndexDdl : Op → Prop
  | .createIndex _ _ _ => False
  | .dropIndex _ => False
  | _ => True

/-- same observation: table contents, constraint indexes, schema objects (index list) and the
result of every index-driven lookup -/
def SameObs (a b : TState) : Prop :=
  a.rows = b.rows ∧ a.hidx = b.hidx ∧ a.uidx.map shape = b.uidx.map shape ∧
  ∀ (i : Nat) (ua ub : UIdx) (k : Key), a.uidx[i]? = some ua → b.uidx[i]? = some ub →
    (uLookup ua.data a.rows k).Perm (uLookup ub.data b.rows k)

def afterRollback (s : TState) (ops : List Op) : TState :=
  (step (run (step s .begin).1 ops) .rollback).1

def afterCommit (s : TState) (ops : List Op) : TState :=
  (step (run (step s .begin).1 ops) .commit).1

/-- the property at full strength -/
def C13_full : Prop :=
  ∀ (s : TState) (ops : List Op), s.txn = none → IndexInv s → (∀ op ∈ ops, InTxnOp op) →
    SameObs (afterRollback s ops) s ∧ (afterRollback s ops).txn = none

theorem insertMany_txn (rs : List Row) : ∀ (s : TState) (t : Txn), s.txn = some t →
    ∃ t', (insertMany s rs).txn = some t' ∧ t'.snapRows = t.snapRows ∧ t'.snapH = t.snapH := by
  induction rs with
  | nil => intro s t ht; exact ⟨t, ht, rfl, rfl⟩
  | cons r rs ih =>
    intro s t ht
    have h1 : (insert1 s r).txn = some { t with log := t.log ++ [r] } := by
      simp [insert1, logIns, ht]
    obtain ⟨t', h2, h3, h4⟩ := ih _ _ h1
    exact ⟨t', h2, h3, h4⟩

/-- no statement inside a transaction touches the snapshot taken at BEGIN -/
theorem step_keeps_snapshot (s : TState) (op : Op) (t : Txn) (hop : InTxnOp op)
    (ht : s.txn = some t) :
    ∃ t', (step s op).1.txn = some t' ∧ t'.snapRows = t.snapRows ∧ t'.snapH = t.snapH := by
  cases op with
  | insert rs => exact insertMany_txn rs s t ht
  | update ups =>
    simp only [step]
    split
    · exact ⟨t, ht, rfl, rfl⟩
    · exact ⟨t, ht, rfl, rfl⟩
  | upsert i new =>
    simp only [step]
    split
    · exact ⟨t, ht, rfl, rfl⟩
    · exact ⟨t, ht, rfl, rfl⟩
  | delete ps => exact ⟨t, ht, rfl, rfl⟩
  | truncate => exact ⟨t, ht, rfl, rfl⟩
  | replace r =>
    simp only [step, insert1, logIns, ht, Option.map_some]
    exact ⟨_, rfl, rfl, rfl⟩
  | createIndex name cols unique =>
    simp only [step]
    split
    · exact ⟨t, ht, rfl, rfl⟩
    · exact ⟨t, ht, rfl, rfl⟩
  | dropIndex name =>
    simp only [step]
    split
    · exact ⟨t, ht, rfl, rfl⟩
    · exact ⟨t, ht, rfl, rfl⟩
  | begin => exact absurd hop (by simp [InTxnOp])
  | commit => exact absurd hop (by simp [InTxnOp])
  | rollback => exact absurd hop (by simp [InTxnOp])
  | savepoint n =>
    simp only [step, ht]
    exact ⟨_, rfl, rfl, rfl⟩
  | rollbackTo n =>
    simp only [step, ht]
    split
    · exact ⟨t, ht, rfl, rfl⟩
    · split
      · exact ⟨t, ht, rfl, rfl⟩
      · exact ⟨_, rfl, rfl, rfl⟩
  | release n =>
    simp only [step, ht]
    split
    · exact ⟨t, ht, rfl, rfl⟩
    · exact ⟨_, rfl, rfl, rfl⟩

theorem insertMany_shape (rs : List Row) : ∀ (s : TState),
    (insertMany s rs).uidx.map shape = s.uidx.map shape := by
  induction rs with
  | nil => intro s; rfl
  | cons r rs ih =>
    intro s
    rw [insertMany, ih]
    simp [insert1, List.map_map, Function.comp_def, shape]

theorem updUser_shape (ups : List (Nat × Row × List Nat)) : ∀ (us : List UIdx) (rows0 : List Row),
    (updUser us rows0 ups).map shape = us.map shape := by
  induction ups with
  | nil => intro us rows0; rfl
  | cons e rest ih =>
    obtain ⟨i, new, ch⟩ := e
    intro us rows0
    simp only [updUser]
    split
    · exact ih _ _
    · rw [ih]; simp [List.map_map, Function.comp_def, shape]

theorem uRebuildAll_shape (us : List UIdx) (rows : List Row) :
    (uRebuildAll us rows).map shape = us.map shape := by
  simp [uRebuildAll, List.map_map, Function.comp_def, shape]

/-- statements other than CREATE / DROP INDEX leave the list of user-defined indexes alone -/
theorem step_keeps_index_list (s : TState) (op : Op) (hop : NotIndexDdl op) :
    (step s op).1.uidx.map shape = s.uidx.map shape := by
  cases op with
  | insert rs => exact insertMany_shape rs s
  | update ups =>
    simp only [step]
    split
    · rfl
    · exact updUser_shape _ _ _
  | upsert i new =>
    simp only [step]
    split
    · rfl
    · simp [List.map_map, Function.comp_def, shape]
  | delete ps => exact uRebuildAll_shape _ _
  | truncate => exact uRebuildAll_shape _ _
  | replace r =>
    simp only [step, insert1, List.map_map, Function.comp_def, shape]
    split
    · rfl
    · simp only [uRebuildAll, List.map_map, Function.comp_def]
      apply List.map_congr_left
      intro a _; rfl
  | createIndex name cols unique => exact absurd hop (by simp [NotIndexDdl])
  | dropIndex name => exact absurd hop (by simp [NotIndexDdl])
  | begin => simp only [step]; split <;> rfl
  | commit => simp only [step]; split <;> rfl
  | rollback =>
    simp only [step]
    split
    · rfl
    · exact uRebuildAll_shape _ _
  | savepoint n => simp only [step]; split <;> rfl
  | rollbackTo n =>
    simp only [step]
    split
    · rfl
    · split
      · rfl
      · split
        · rfl
        · simp only
          split
          · rfl
          · exact uRebuildAll_shape _ _
  | release n =>
    simp only [step]
    split
    · rfl
    · split <;> rfl

theorem run_keeps_snapshot (ops : List Op) : ∀ (s : TState) (t : Txn),
    (∀ op ∈ ops, InTxnOp op) → s.txn = some t →
    ∃ t', (run s ops).txn = some t' ∧ t'.snapRows = t.snapRows ∧ t'.snapH = t.snapH := by
  induction ops with
  | nil => intro s t _ ht; exact ⟨t, ht, rfl, rfl⟩
  | cons op ops ih =>
    intro s t hops ht
    obtain ⟨t1, h1, h2, h3⟩ := step_keeps_snapshot s op t (hops op (by simp)) ht
    obtain ⟨t', h4, h5, h6⟩ := ih _ t1 (fun o ho => hops o (by simp [ho])) h1
    exact ⟨t', h4, h5.trans h2, h6.trans h3⟩

theorem run_keeps_index_list (ops : List Op) : ∀ (s : TState), (∀ op ∈ ops, NotIndexDdl op) →
    (run s ops).uidx.map shape = s.uidx.map shape := by
  induction ops with
  | nil => intro s _; rfl
  | cons op ops ih =>
    intro s hops
    rw [run, ih _ (fun o ho => hops o (by simp [ho]))]
    exact step_keeps_index_list s op (hops op (by simp))

/-- ROLLBACK restores the observation at BEGIN for every pre-state and every in-transaction
history of DML (INSERT, UPDATE, DELETE, TRUNCATE, REPLACE, upsert) and savepoint operations —
index-driven query answers included.  Excluded: CREATE / DROP INDEX inside the transaction. -/
theorem C13_rollback_restores_partial (s : TState) (ops : List Op) (hs : s.txn = none)
    (hinv : IndexInv s) (hops : ∀ op ∈ ops, InTxnOp op) (hddl : ∀ op ∈ ops, NotIndexDdl op) :
    SameObs (afterRollback s ops) s ∧ (afterRollback s ops).txn = none := by
  have hb : (step s .begin).1 = { s with txn := some { snapRows := s.rows, snapH := s.hidx, saves := [], log := [] } } := by
    simp [step, hs]
  obtain ⟨t', ht', hr, hh⟩ := run_keeps_snapshot ops (step s .begin).1 _ hops (by rw [hb])
  have hshape : (run (step s .begin).1 ops).uidx.map shape = s.uidx.map shape := by
    rw [run_keeps_index_list ops _ hddl, hb]
  have hroll : afterRollback s ops = (step (run (step s .begin).1 ops) .rollback).1 := rfl
  generalize hs2 : run (step s .begin).1 ops = s2 at ht' hshape hroll
  have e1 : (step s2 .rollback).1.rows = t'.snapRows := by simp [step, ht']
  have e2 : (step s2 .rollback).1.hidx = t'.snapH := by simp [step, ht']
  have e3 : (step s2 .rollback).1.uidx = uRebuildAll s2.uidx t'.snapRows := by simp [step, ht']
  have e4 : (step s2 .rollback).1.txn = none := by simp [step, ht']
  rw [hroll]
  simp only at hr hh
  refine ⟨⟨e1.trans hr, e2.trans hh, ?_, ?_⟩, e4⟩
  · rw [e3, uRebuildAll_shape]; exact hshape
  · intro i ua ub k hua hub
    rw [e3] at hua
    rw [e1]
    have hsh : shape ua = shape ub := by
      have h1 : ((uRebuildAll s2.uidx t'.snapRows).map shape)[i]? = some (shape ua) := by
        rw [List.getElem?_map, hua]; rfl
      have h2 : (s.uidx.map shape)[i]? = some (shape ub) := by
        rw [List.getElem?_map, hub]; rfl
      rw [uRebuildAll_shape, hshape, h2] at h1
      exact (Option.some.inj h1).symm
    have hcols : ua.cols = ub.cols := by
      have := congrArg (fun x => x.2.1) hsh; exact this
    have hua_ok : UOk ua.data (proj ua.cols) t'.snapRows :=
      UInv_rebuild _ _ ua (List.mem_of_getElem? hua)
    have hub_ok : UOk ub.data (proj ub.cols) s.rows := hinv.2.1 ub (List.mem_of_getElem? hub)
    rw [hr]
    rw [hr, hcols] at hua_ok
    exact uLookup_perm _ _ _ _ hua_ok hub_ok k

/-- the unrestricted statement fails on the code as it is: CREATE INDEX inside a transaction
survives ROLLBACK (the registry of user-defined indexes is outside the snapshot) -/
theorem C13_index_ddl_counterexample : ¬ C13_full := by
  intro h
  have h1 := h (run (init [([0], false)]) [.insert [[.int 1]]]) [.createIndex "I" [0] false] rfl
    (C15_history_preserves _ _ (C15_init _) (by simp [HistOk, OpOk])) (by simp [InTxnOp])
  have h2 := h1.1.2.2.1
  revert h2
  decide

/-- COMMIT keeps the state reached by the last statement -/
theorem C13_commit_keeps_last_state (s : TState) (ops : List Op) (hs : s.txn = none)
    (hops : ∀ op ∈ ops, InTxnOp op) :
    let last := run (step s .begin).1 ops
    (afterCommit s ops).rows = last.rows ∧ (afterCommit s ops).hidx = last.hidx ∧
    (afterCommit s ops).uidx = last.uidx ∧ (afterCommit s ops).txn = none := by
  have hb : (step s .begin).1.txn = some { snapRows := s.rows, snapH := s.hidx, saves := [], log := [] } := by
    simp [step, hs]
  obtain ⟨t', ht', _, _⟩ := run_keeps_snapshot ops (step s .begin).1 _ hops hb
  have hc : afterCommit s ops = (step (run (step s .begin).1 ops) .commit).1 := rfl
  intro last
  have hl : last = run (step s .begin).1 ops := rfl
  rw [hc, hl]
  generalize run (step s .begin).1 ops = s2 at ht'
  simp [step, ht']

/-- non-vacuity: a committed state with a PRIMARY KEY and a user-defined index, and an
in-transaction history that changes every structure; the hypotheses hold and the rollback
really has something to restore -/
example :
    let s := run (init [([0], false)]) [.createIndex "I" [1] false, .insert [[.int 1, .int 10], [.int 2, .int 20]]]
    let ops : List Op := [.delete [0], .insert [[.int 3, .int 10]], .savepoint "A", .truncate]
    s.txn = none ∧ (run (step s .begin).1 ops).rows = [] ∧ (afterRollback s ops).rows = s.rows ∧
      (∀ op ∈ ops, InTxnOp op) ∧ (∀ op ∈ ops, NotIndexDdl op) := by
  refine ⟨by decide, by decide, by decide, ?_, ?_⟩ <;> simp [InTxnOp, NotIndexDdl]

end VibeProof.C13
