import VibeProof.Props.C02
#print axioms VibeProof.C02.C02_roundF64_id
#print axioms VibeProof.C02.C02_roundF64_collapses
#print axioms VibeProof.C02.C02_normValue_id
#print axioms VibeProof.C02.C02_bounds_eq_predicate
#print axioms VibeProof.C02.C02_range_walk_is_filter
#print axioms VibeProof.C02.C02_null_never_in_range
#print axioms VibeProof.C02.C02_open_lower_bound_skips_null
#print axioms VibeProof.C02.C02_index_order_asc_agrees
#print axioms VibeProof.C02.C02_index_order_desc_agrees
#print axioms VibeProof.C02.C02_index_order_asc_counterexample
#print axioms VibeProof.C02.C02_simple_range_exact
