import VibeProof.Model.Rel
/-
The counting algorithms of `select/set_operations.rs`, as coded: a `HashMap` of remaining
counts for the ALL variants (modelled by the remaining right-hand list, `erase` = decrement),
a `HashSet` of the right side plus a `seen` set for the distinct variants.
-/
namespace VibeProof

variable {α : Type} [DecidableEq α]

def unionAll (l r : List α) : List α := l ++ r

/-- first occurrence kept, same as `apply_distinct` -/
def dedup : List α → List α
  | [] => []
  | x :: xs => x :: (dedup xs).filter (fun y => y ≠ x)

def union (l r : List α) : List α := dedup (l ++ r)

def intersectAll : List α → List α → List α
  | [], _ => []
  | x :: l, r => if x ∈ r then x :: intersectAll l (r.erase x) else intersectAll l r

def exceptAll : List α → List α → List α
  | [], _ => []
  | x :: l, r => if x ∈ r then exceptAll l (r.erase x) else x :: exceptAll l r

/-- loop with the `seen` set, keeping rows for which `keep` holds -/
def seenLoop (keep : α → Bool) : List α → List α → List α
  | [], _ => []
  | x :: l, seen =>
    if keep x && !(seen.contains x) then x :: seenLoop keep l (x :: seen) else seenLoop keep l seen

def intersect (l r : List α) : List α := seenLoop (fun x => r.contains x) l []
def except (l r : List α) : List α := seenLoop (fun x => !(r.contains x)) l []

end VibeProof
