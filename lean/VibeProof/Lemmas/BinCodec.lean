import VibeProof.Model.BinCodec
/-
Helper lemmas for C18 / C20: the two compositional predicates on readers
  * `Reads rd w a`  — `rd` decodes the bytes `w` (followed by anything) to `a` and stops there;
  * `Safe rd`       — on every input, every ledger entry is at most the input length and a
                      successful read leaves a suffix of the input.
-/
namespace VibeProof.BinCodec

/-! ### the monad, unfolded -/

theorem bind_def (f : Reader α) (g : α → Reader β) : (f >>= g) = Reader.bind f g := rfl
theorem pure_def (a : α) : (Pure.pure a : Reader α) = Reader.pure a := rfl

theorem bind_res_ok {f : Reader α} {g : α → Reader β} {inp rest : Bytes} {a : α}
    (h : (f inp).res = .ok (a, rest)) : (Reader.bind f g inp).res = (g a rest).res := by
  unfold Reader.bind
  cases hf : f inp with
  | mk l r =>
    rw [hf] at h; simp at h; subst h; rfl

theorem bind_res_err {f : Reader α} {g : α → Reader β} {inp : Bytes} {e : Err}
    (h : (f inp).res = .error e) : (Reader.bind f g inp).res = .error e := by
  unfold Reader.bind
  cases hf : f inp with
  | mk l r =>
    rw [hf] at h; simp at h; subst h; rfl

theorem bind_ledger_ok {f : Reader α} {g : α → Reader β} {inp rest : Bytes} {a : α}
    (h : (f inp).res = .ok (a, rest)) :
    (Reader.bind f g inp).ledger = (f inp).ledger ++ (g a rest).ledger := by
  unfold Reader.bind
  cases hf : f inp with
  | mk l r =>
    rw [hf] at h; simp at h; subst h; rfl

theorem bind_ledger_err {f : Reader α} {g : α → Reader β} {inp : Bytes} {e : Err}
    (h : (f inp).res = .error e) : (Reader.bind f g inp).ledger = (f inp).ledger := by
  unfold Reader.bind
  cases hf : f inp with
  | mk l r =>
    rw [hf] at h; simp at h; subst h; rfl

/-! ### `Reads` -/

def Reads (rd : Reader α) (w : Bytes) (a : α) : Prop :=
  ∀ rest, (rd (w ++ rest)).res = .ok (a, rest)

theorem Reads.pure (a : α) : Reads (Pure.pure a : Reader α) [] a := by
  intro rest; rfl

theorem Reads.bind {f : Reader α} {g : α → Reader β} {w1 w2 : Bytes} {a : α} {b : β}
    (hf : Reads f w1 a) (hg : Reads (g a) w2 b) : Reads (f >>= g) (w1 ++ w2) b := by
  intro rest
  rw [bind_def, List.append_assoc, bind_res_ok (hf (w2 ++ rest))]
  exact hg rest

/-- `do let a ← f; pure (h a)` -/
theorem Reads.map {f : Reader α} {w : Bytes} {a : α} (hf : Reads f w a) (h : α → β) :
    Reads (f >>= fun x => Pure.pure (h x)) w (h a) := by
  have := Reads.bind (g := fun x => (Pure.pure (h x) : Reader β)) hf (Reads.pure (h a))
  simpa using this

theorem Reads.u8 (b : UInt8) : Reads u8 [b] b := by
  intro rest; rfl

theorem Reads.takeN (w : Bytes) : Reads (takeN w.length) w w := by
  intro rest
  unfold BinCodec.takeN
  simp [List.take_left', List.drop_left']

theorem length_leBytes (k n : Nat) : (leBytes k n).length = k := by
  induction k generalizing n with
  | zero => rfl
  | succ k ih => simp [leBytes, ih]

theorem leNat_leBytes (k n : Nat) : leNat (leBytes k n) = n % 256 ^ k := by
  induction k generalizing n with
  | zero => simp [leBytes, leNat, Nat.mod_one]
  | succ k ih =>
    simp only [leBytes, leNat, ih]
    have h1 : (UInt8.ofNat (n % 256)).toNat = n % 256 := by
      rw [UInt8.toNat_ofNat']; omega
    rw [h1, Nat.pow_succ, Nat.mul_comm (256 ^ k) 256, Nat.mod_mul]

theorem Reads.uN {k n : Nat} (h : n < 256 ^ k) : Reads (uN k) (leBytes k n) n := by
  unfold BinCodec.uN
  have h1 : Reads (BinCodec.takeN k) (leBytes k n) (leBytes k n) := by
    have := Reads.takeN (leBytes k n)
    rwa [length_leBytes] at this
  have := Reads.map h1 leNat
  rwa [leNat_leBytes, Nat.mod_eq_of_lt h] at this

theorem toSigned_ofSigned16 {i : Int} (h1 : -(2 ^ 15 : Int) ≤ i) (h2 : i < 2 ^ 15) :
    toSigned 16 (ofSigned 16 i) = i := by
  unfold toSigned ofSigned
  simp only [Nat.reducePow, Nat.reduceSub]
  split <;> omega

theorem toSigned_ofSigned64 {i : Int} (h1 : -(2 ^ 63 : Int) ≤ i) (h2 : i < 2 ^ 63) :
    toSigned 64 (ofSigned 64 i) = i := by
  unfold toSigned ofSigned
  simp only [Nat.reducePow, Nat.reduceSub]
  split <;> omega

theorem ofSigned16_lt (i : Int) : ofSigned 16 i < 256 ^ 2 := by
  unfold ofSigned; simp only [Nat.reducePow]; omega

theorem ofSigned64_lt (i : Int) : ofSigned 64 i < 256 ^ 8 := by
  unfold ofSigned; simp only [Nat.reducePow]; omega

theorem Reads.i16 {i : Int} (h1 : -(2 ^ 15 : Int) ≤ i) (h2 : i < 2 ^ 15) :
    Reads (iN 2) (leBytes 2 (ofSigned 16 i)) i := by
  unfold iN
  have := Reads.map (Reads.uN (ofSigned16_lt i)) (toSigned (8 * 2))
  rwa [show 8 * 2 = 16 from rfl, toSigned_ofSigned16 h1 h2] at this

theorem Reads.i64 {i : Int} (h1 : -(2 ^ 63 : Int) ≤ i) (h2 : i < 2 ^ 63) :
    Reads (iN 8) (leBytes 8 (ofSigned 64 i)) i := by
  unfold iN
  have := Reads.map (Reads.uN (ofSigned64_lt i)) (toSigned (8 * 8))
  rwa [show 8 * 8 = 64 from rfl, toSigned_ofSigned64 h1 h2] at this

theorem Reads.bool (b : Bool) : Reads rbool (wbool b) b := by
  unfold rbool wbool
  have := Reads.map (Reads.u8 (if b then 1 else 0)) (fun x => x != 0)
  cases b <;> simpa using this

theorem Reads.string {s : Bytes} (hv : validUtf8 s = true) (hl : s.length < 2 ^ 32) :
    Reads readString (writeString s) s := by
  unfold readString writeString
  refine Reads.bind (Reads.uN (by simpa using hl)) ?_
  have h2 : Reads (allocAvail s.length) [] () := by intro rest; rfl
  have h3 : Reads (BinCodec.takeN s.length >>= fun bs =>
      if validUtf8 bs = true then Pure.pure bs else fail .badUtf8) s s := by
    have := Reads.bind (Reads.takeN s) (g := fun bs =>
      if validUtf8 bs = true then (Pure.pure bs : Reader Bytes) else fail .badUtf8)
      (w2 := []) (b := s) (by simp [hv]; exact Reads.pure s)
    simpa using this
  have := Reads.bind (g := fun _ => BinCodec.takeN s.length >>= fun bs =>
      if validUtf8 bs = true then (Pure.pure bs : Reader Bytes) else fail .badUtf8) h2 h3
  simpa using this

theorem Reads.many {rd : Reader α} {wr : α → Bytes} (xs : List α)
    (h : ∀ x ∈ xs, Reads rd (wr x) x) : Reads (readMany rd xs.length) (writeMany wr xs) xs := by
  induction xs with
  | nil => exact Reads.pure []
  | cons x xs ih =>
    have hx := h x (by simp)
    have hxs := ih (fun y hy => h y (by simp [hy]))
    unfold writeMany at *
    simp only [List.length_cons, readMany, List.map_cons, List.flatten_cons]
    refine Reads.bind hx ?_
    have := Reads.map hxs (fun as => x :: as)
    exact this

/-! ### `Safe` -/

def Safe (rd : Reader α) : Prop :=
  ∀ inp, (∀ n ∈ (rd inp).ledger, n ≤ inp.length) ∧
    (∀ a rest, (rd inp).res = .ok (a, rest) → rest <:+ inp)

theorem Safe.pure (a : α) : Safe (Pure.pure a : Reader α) := by
  intro inp
  refine ⟨(by intro n hn; cases hn), ?_⟩
  intro a' rest h
  have : rest = inp := by
    have h' : (Except.ok (a, inp) : Except Err (α × Bytes)) = .ok (a', rest) := h
    injection h' with h'; injection h' with _ h2; exact h2.symm
  subst this; exact List.suffix_refl _

theorem Safe.fail (e : Err) : Safe (fail e : Reader α) := by
  intro inp
  refine ⟨(by intro n hn; cases hn), ?_⟩
  intro a rest h; cases h

theorem Safe.bind {f : Reader α} {g : α → Reader β} (hf : Safe f) (hg : ∀ a, Safe (g a)) :
    Safe (f >>= g) := by
  intro inp
  rw [bind_def]
  cases hr : (f inp).res with
  | error e =>
    rw [bind_ledger_err hr, bind_res_err hr]
    exact ⟨(hf inp).1, by intro a rest h; cases h⟩
  | ok p =>
    obtain ⟨a, rest⟩ := p
    rw [bind_ledger_ok hr, bind_res_ok hr]
    have hsuf := (hf inp).2 a rest hr
    have hlen : rest.length ≤ inp.length := hsuf.length_le
    refine ⟨?_, ?_⟩
    · intro n hn
      rcases List.mem_append.mp hn with h | h
      · exact (hf inp).1 n h
      · exact Nat.le_trans ((hg a rest).1 n h) hlen
    · intro b rest' h
      exact List.IsSuffix.trans ((hg a rest).2 b rest' h) hsuf

theorem Safe.u8 : Safe u8 := by
  intro inp
  cases inp with
  | nil => exact ⟨(by intro n hn; cases hn), (by intro a rest h; cases h)⟩
  | cons b r =>
    refine ⟨(by intro n hn; cases hn), ?_⟩
    intro a rest h
    have h' : (Except.ok (b, r) : Except Err (UInt8 × Bytes)) = .ok (a, rest) := h
    injection h' with h'; injection h' with _ h2; subst h2
    exact List.suffix_cons _ _

theorem Safe.takeN (n : Nat) : Safe (takeN n) := by
  intro inp
  unfold BinCodec.takeN
  split
  · refine ⟨(by intro n hn; cases hn), ?_⟩
    intro a rest h
    injection h with h'; injection h' with _ h2; subst h2
    exact List.drop_suffix _ _
  · exact ⟨(by intro n hn; cases hn), (by intro a rest h; cases h)⟩

theorem Safe.allocAvail (n : Nat) : Safe (allocAvail n) := by
  intro inp
  refine ⟨?_, ?_⟩
  · intro m hm
    have : m = min n inp.length := by simpa [BinCodec.allocAvail] using hm
    omega
  · intro a rest h
    have h' : (Except.ok ((), inp) : Except Err (Unit × Bytes)) = .ok (a, rest) := h
    injection h' with h'; injection h' with _ h2; subst h2
    exact List.suffix_refl _

theorem Safe.ite {c : Prop} [Decidable c] {f g : Reader α} (hf : Safe f) (hg : Safe g) :
    Safe (if c then f else g) := by
  split <;> assumption

theorem Safe.uN (k : Nat) : Safe (uN k) :=
  Safe.bind (Safe.takeN k) (fun _ => Safe.pure _)

theorem Safe.iN (k : Nat) : Safe (iN k) :=
  Safe.bind (Safe.uN k) (fun _ => Safe.pure _)

theorem Safe.rbool : Safe rbool :=
  Safe.bind Safe.u8 (fun _ => Safe.pure _)

theorem Safe.readString : Safe readString := by
  unfold BinCodec.readString
  refine Safe.bind (Safe.uN 4) (fun len => ?_)
  refine Safe.bind (Safe.allocAvail len) (fun _ => ?_)
  refine Safe.bind (Safe.takeN len) (fun bs => ?_)
  exact Safe.ite (Safe.pure _) (Safe.fail _)

theorem Safe.many {rd : Reader α} (h : Safe rd) (n : Nat) : Safe (readMany rd n) := by
  induction n with
  | zero => exact Safe.pure []
  | succ n ih =>
    unfold readMany
    exact Safe.bind h (fun a => Safe.bind ih (fun _ => Safe.pure _))

theorem Reads.optional_none (rd : Reader α) : Reads (optional rd) [0] none := by
  unfold BinCodec.optional
  have := Reads.bind (g := fun h : Bool => if h = true then (rd >>= fun a => Pure.pure (some a)) else Pure.pure none)
    (Reads.bool false) (w2 := []) (b := (none : Option α)) (by simp; exact Reads.pure _)
  simpa [wbool] using this

theorem Safe.optional {rd : Reader α} (h : Safe rd) : Safe (optional rd) := by
  unfold BinCodec.optional
  exact Safe.bind Safe.rbool (fun b => Safe.ite (Safe.bind h (fun _ => Safe.pure _)) (Safe.pure _))

theorem Safe.readEnum (allowed : List Nat) : Safe (readEnum allowed) := by
  unfold BinCodec.readEnum
  exact Safe.bind Safe.u8 (fun _ => Safe.ite (Safe.pure _) (Safe.fail _))

/-! ### `Post P rd`: every successful result of `rd` satisfies `P` -/

def Post (P : α → Prop) (rd : Reader α) : Prop :=
  ∀ inp a rest, (rd inp).res = .ok (a, rest) → P a

theorem Post.pure {P : α → Prop} {a : α} (h : P a) : Post P (Pure.pure a : Reader α) := by
  intro inp a' rest hr
  have h' : (Except.ok (a, inp) : Except Err (α × Bytes)) = .ok (a', rest) := hr
  injection h' with h'; injection h' with h1 _; subst h1; exact h

theorem Post.fail {P : α → Prop} (e : Err) : Post P (fail e : Reader α) := by
  intro inp a rest h; cases h

theorem Post.trivial (rd : Reader α) : Post (fun _ => True) rd := fun _ _ _ _ => True.intro

theorem Post.bind {Q : α → Prop} {P : β → Prop} {f : Reader α} {g : α → Reader β}
    (hf : Post Q f) (hg : ∀ a, Q a → Post P (g a)) : Post P (f >>= g) := by
  intro inp b rest h
  rw [bind_def] at h
  cases hr : (f inp).res with
  | error e => rw [bind_res_err hr] at h; cases h
  | ok p =>
    obtain ⟨a, mid⟩ := p
    rw [bind_res_ok hr] at h
    exact hg a (hf inp a mid hr) mid b rest h

theorem Post.ite {P : α → Prop} {c : Prop} [Decidable c] {f g : Reader α} (hf : Post P f)
    (hg : Post P g) : Post P (if c then f else g) := by
  split <;> assumption

theorem Post.many {P : α → Prop} {rd : Reader α} (h : Post P rd) (n : Nat) :
    Post (fun l => ∀ x ∈ l, P x) (readMany rd n) := by
  induction n with
  | zero => exact Post.pure (by intro x hx; cases hx)
  | succ n ih =>
    unfold readMany
    refine Post.bind h (fun a ha => Post.bind ih (fun as has => Post.pure ?_))
    intro x hx
    rcases List.mem_cons.mp hx with e | e
    · subst e; exact ha
    · exact has x e

theorem Post.optional {P : α → Prop} {rd : Reader α} (h : Post P rd) :
    Post (fun o => ∀ x, o = some x → P x) (optional rd) := by
  unfold BinCodec.optional
  refine Post.bind (Post.trivial _) (fun b _ => Post.ite ?_ (Post.pure (by intro x hx; cases hx)))
  exact Post.bind h (fun a ha => Post.pure (by intro x hx; injection hx with hx; subst hx; exact ha))

theorem bind_ok_inv {f : Reader α} {g : α → Reader β} {inp rest : Bytes} {b : β}
    (h : ((f >>= g) inp).res = .ok (b, rest)) :
    ∃ a mid, (f inp).res = .ok (a, mid) ∧ (g a mid).res = .ok (b, rest) := by
  rw [bind_def] at h
  cases hr : (f inp).res with
  | error e => rw [bind_res_err hr] at h; cases h
  | ok p =>
    obtain ⟨a, mid⟩ := p
    rw [bind_res_ok hr] at h
    exact ⟨a, mid, rfl, h⟩

theorem pure_ok_inv {a a' : α} {inp rest : Bytes}
    (h : ((Pure.pure a : Reader α) inp).res = .ok (a', rest)) : a' = a ∧ rest = inp := by
  have h' : (Except.ok (a, inp) : Except Err (α × Bytes)) = .ok (a', rest) := h
  injection h' with h'; injection h' with h1 h2; exact ⟨h1.symm, h2.symm⟩

/-! ### `Eats m rd`: a successful read consumes at least `m` bytes -/

def Eats (m : Nat) (rd : Reader α) : Prop :=
  ∀ inp a rest, (rd inp).res = .ok (a, rest) → rest.length + m ≤ inp.length

theorem Eats.of_safe {rd : Reader α} (h : Safe rd) : Eats 0 rd := by
  intro inp a rest hr
  have := ((h inp).2 a rest hr).length_le
  omega

theorem Eats.bind {m k : Nat} {f : Reader α} {g : α → Reader β} (hf : Eats m f)
    (hg : ∀ a, Eats k (g a)) : Eats (m + k) (f >>= g) := by
  intro inp b rest h
  obtain ⟨a, mid, h1, h2⟩ := bind_ok_inv h
  have := hf inp a mid h1
  have := hg a mid b rest h2
  omega

theorem Eats.u8 : Eats 1 u8 := by
  intro inp a rest h
  cases inp with
  | nil => cases h
  | cons b r =>
    have h' : (Except.ok (b, r) : Except Err (UInt8 × Bytes)) = .ok (a, rest) := h
    injection h' with h'; injection h' with _ h2; subst h2; simp

theorem Eats.many {m : Nat} {rd : Reader α} (h : Eats m rd) (n : Nat) :
    Eats (n * m) (readMany rd n) := by
  induction n with
  | zero =>
    intro inp a rest hr
    have := pure_ok_inv hr
    simp [this.2]
  | succ n ih =>
    unfold readMany
    have := Eats.bind h (fun a => Eats.bind ih (fun as => Eats.of_safe (Safe.pure (a :: as))))
    intro inp a rest hr
    have := this inp a rest hr
    rw [Nat.succ_mul]; omega

theorem many_length {rd : Reader α} (n : Nat) :
    Post (fun l : List α => l.length = n) (readMany rd n) := by
  induction n with
  | zero => exact Post.pure rfl
  | succ n ih =>
    unfold readMany
    exact Post.bind (Post.trivial _) (fun a _ => Post.bind ih (fun as has =>
      Post.pure (by simp [has])))

/-! ### `NoPanic rd`: on no input does `rd` end in the `panic` outcome -/

def NoPanic (rd : Reader α) : Prop := ∀ inp, (rd inp).res ≠ .error .panic

theorem NoPanic.pure (a : α) : NoPanic (Pure.pure a : Reader α) := by
  intro inp h; cases h

theorem NoPanic.fail {e : Err} (h : e ≠ .panic) : NoPanic (fail e : Reader α) := by
  intro inp h'
  have : (Except.error e : Except Err (α × Bytes)) = .error .panic := h'
  injection this with this; exact h this

theorem NoPanic.bind {f : Reader α} {g : α → Reader β} (hf : NoPanic f) (hg : ∀ a, NoPanic (g a)) :
    NoPanic (f >>= g) := by
  intro inp h
  rw [bind_def] at h
  cases hr : (f inp).res with
  | error e =>
    rw [bind_res_err hr] at h
    injection h with h; subst h; exact hf inp hr
  | ok p =>
    obtain ⟨a, mid⟩ := p
    rw [bind_res_ok hr] at h
    exact hg a mid h

theorem NoPanic.ite {c : Prop} [Decidable c] {f g : Reader α} (hf : NoPanic f) (hg : NoPanic g) :
    NoPanic (if c then f else g) := by
  split <;> assumption

theorem NoPanic.u8 : NoPanic u8 := by
  intro inp h; cases inp <;> cases h

theorem NoPanic.takeN (n : Nat) : NoPanic (takeN n) := by
  intro inp h
  unfold BinCodec.takeN at h
  split at h <;> cases h

theorem NoPanic.allocAvail (n : Nat) : NoPanic (allocAvail n) := by
  intro inp h; cases h

theorem NoPanic.uN (k : Nat) : NoPanic (uN k) :=
  NoPanic.bind (NoPanic.takeN k) (fun _ => NoPanic.pure _)

theorem NoPanic.iN (k : Nat) : NoPanic (iN k) :=
  NoPanic.bind (NoPanic.uN k) (fun _ => NoPanic.pure _)

theorem NoPanic.rbool : NoPanic rbool :=
  NoPanic.bind NoPanic.u8 (fun _ => NoPanic.pure _)

theorem NoPanic.readString : NoPanic readString := by
  unfold BinCodec.readString
  refine NoPanic.bind (NoPanic.uN 4) (fun len => NoPanic.bind (NoPanic.allocAvail len) (fun _ =>
    NoPanic.bind (NoPanic.takeN len) (fun bs => NoPanic.ite (NoPanic.pure _) (NoPanic.fail (by decide)))))

theorem NoPanic.many {rd : Reader α} (h : NoPanic rd) (n : Nat) : NoPanic (readMany rd n) := by
  induction n with
  | zero => exact NoPanic.pure []
  | succ n ih =>
    unfold readMany
    exact NoPanic.bind h (fun a => NoPanic.bind ih (fun _ => NoPanic.pure _))

theorem NoPanic.optional {rd : Reader α} (h : NoPanic rd) : NoPanic (optional rd) := by
  unfold BinCodec.optional
  exact NoPanic.bind NoPanic.rbool (fun b =>
    NoPanic.ite (NoPanic.bind h (fun _ => NoPanic.pure _)) (NoPanic.pure _))

theorem NoPanic.readEnum (allowed : List Nat) : NoPanic (readEnum allowed) := by
  unfold BinCodec.readEnum
  exact NoPanic.bind NoPanic.u8 (fun _ => NoPanic.ite (NoPanic.pure _) (NoPanic.fail (by simp)))

end VibeProof.BinCodec
