import VibeProof.Model.Temporal
import VibeProof.Lemmas.TemporalNum
import VibeProof.Lemmas.TemporalTs
/-
C22 — temporal values round-trip through text and parsing is total.
Model: Model/Temporal.lean (the repaired parsers: de528fa2, 0606ba2f, d3639607).
-/
namespace VibeProof.C22
open VibeProof.Temporal

/-! ## totality: no byte string makes a parser panic -/

def NoPanic {α : Type} (r : R α) : Prop := r ≠ .error .panic

theorem noPanic_ok {α : Type} (x : α) : NoPanic (Except.ok x : R α) := by simp [NoPanic]
theorem noPanic_pure {α : Type} (x : α) : NoPanic (pure x : R α) := by simp [NoPanic, pure, Except.pure]
theorem noPanic_err {α : Type} : NoPanic (Except.error .err : R α) := by simp [NoPanic]

theorem noPanic_bind {α β : Type} {r : R α} {f : α → R β}
    (h1 : NoPanic r) (h2 : ∀ x, r = .ok x → NoPanic (f x)) : NoPanic (r >>= f) := by
  cases r with
  | ok x => exact h2 x rfl
  | error e =>
    cases e with
    | err => simp [NoPanic, bind, Except.bind]
    | panic => exact absurd rfl h1

theorem noPanic_orErr {α : Type} (o : Option α) : NoPanic (orErr o) := by
  cases o <;> simp [orErr, NoPanic]

theorem idx_lt {α : Type} {l : List α} {i : Nat} (h : i < l.length) : idx l i = .ok l[i] := by
  simp [idx, h]

theorem noPanic_idx {α : Type} {l : List α} {i : Nat} (h : i < l.length) : NoPanic (idx l i) := by
  rw [idx_lt h]; exact noPanic_ok _

theorem Date.new_noPanic (y : Int) (m d : Nat) : NoPanic (Date.new y m d) := by
  unfold Date.new; split
  · exact noPanic_err
  · split
    · exact noPanic_err
    · exact noPanic_ok _

theorem Time.new_noPanic (h mi s n : Nat) : NoPanic (Time.new h mi s n) := by
  unfold Time.new
  repeat (first | exact noPanic_err | exact noPanic_ok _ | split)

/-- `Date::from_str` never panics -/
theorem C22_date_total (s : Bytes) : NoPanic (Date.fromStr s) := by
  unfold Date.fromStr
  simp only []
  split
  · exact noPanic_err
  · rename_i h
    have h3 : (rsplit3 45 s).length = 3 := by simpa using h
    refine noPanic_bind (noPanic_idx (by omega)) (fun _ _ => ?_)
    refine noPanic_bind (noPanic_orErr _) (fun y _ => ?_)
    refine noPanic_bind (noPanic_idx (by omega)) (fun _ _ => ?_)
    refine noPanic_bind (noPanic_orErr _) (fun m _ => ?_)
    refine noPanic_bind (noPanic_idx (by omega)) (fun _ _ => ?_)
    refine noPanic_bind (noPanic_orErr _) (fun d _ => ?_)
    exact Date.new_noPanic y m d

theorem parseNanos_noPanic (f : Bytes) : NoPanic (parseNanos f) := by
  unfold parseNanos; split
  · exact noPanic_err
  · exact noPanic_orErr _

theorem time_core_noPanic (timePart : Bytes) (frac : Option Bytes) :
    NoPanic (if ((splitOn 58 timePart).length != 3) = true then (Except.error Fail.err : R Time)
      else do
        let h ← orErr (parseU8 (← idx (splitOn 58 timePart) 0))
        let mi ← orErr (parseU8 (← idx (splitOn 58 timePart) 1))
        let sec ← orErr (parseU8 (← idx (splitOn 58 timePart) 2))
        let n ← match frac with
          | some f => parseNanos f
          | none => pure 0
        Time.new h mi sec n) := by
  split
  · exact noPanic_err
  · rename_i h
    have h3 : (splitOn 58 timePart).length = 3 := by simpa using h
    refine noPanic_bind (noPanic_idx (by omega)) (fun _ _ => ?_)
    refine noPanic_bind (noPanic_orErr _) (fun hh _ => ?_)
    refine noPanic_bind (noPanic_idx (by omega)) (fun _ _ => ?_)
    refine noPanic_bind (noPanic_orErr _) (fun mi _ => ?_)
    refine noPanic_bind (noPanic_idx (by omega)) (fun _ _ => ?_)
    refine noPanic_bind (noPanic_orErr _) (fun sec _ => ?_)
    cases frac with
    | some f => exact noPanic_bind (parseNanos_noPanic f) (fun n _ => Time.new_noPanic hh mi sec n)
    | none => exact noPanic_bind (noPanic_pure _) (fun n _ => Time.new_noPanic hh mi sec n)

/-- `Time::from_str` never panics -/
theorem C22_time_total (s : Bytes) : NoPanic (Time.fromStr s) := by
  unfold Time.fromStr
  cases splitFirst 46 s with
  | none => exact time_core_noPanic s none
  | some p => exact time_core_noPanic p.1 (some p.2)

theorem noPanic_first {s : Bytes} (h : s ≠ []) : NoPanic (first s) := by
  cases s with
  | nil => exact absurd rfl h
  | cons b r => exact noPanic_ok _

theorem isTimezoneOffset_noPanic (s : Bytes) : NoPanic (isTimezoneOffset s) := by
  unfold isTimezoneOffset
  split
  · exact noPanic_ok _
  · rename_i hl
    have hne : s ≠ [] := by intro h; simp [h] at hl
    split
    · rename_i e he
      cases s with
      | nil => exact absurd rfl hne
      | cons b r => simp [first] at he
    · repeat (first | exact noPanic_ok _ | split)

theorem stripTimezoneSuffix_noPanic (s : Bytes) : NoPanic (stripTimezoneSuffix s) := by
  unfold stripTimezoneSuffix
  split
  · exact noPanic_ok _
  · split
    · split
      · split
        · exact noPanic_ok _
        · exact noPanic_ok _
        · rename_i e he
          have := isTimezoneOffset_noPanic (‹UInt8› :: ‹Bytes›)
          cases e with
          | err => exact noPanic_err
          | panic => exact absurd he this
      · exact noPanic_ok _
    · exact noPanic_ok _

theorem tsFromParts_noPanic (parts : List Bytes) : NoPanic (tsFromParts parts) := by
  unfold tsFromParts
  split
  · rename_i h
    have h2 : parts.length = 2 := by simpa using h
    refine noPanic_bind (noPanic_idx (by omega)) (fun _ _ => ?_)
    refine noPanic_bind (C22_date_total _) (fun d _ => ?_)
    refine noPanic_bind (noPanic_idx (by omega)) (fun _ _ => ?_)
    refine noPanic_bind (C22_time_total _) (fun t _ => ?_)
    exact noPanic_pure _
  · split
    · rename_i h
      have h1 : parts.length = 1 := by simpa using h
      refine noPanic_bind (noPanic_idx (by omega)) (fun p _ => ?_)
      have := C22_date_total p
      split
      · exact noPanic_pure _
      · rename_i hp; exact absurd hp this
      · exact noPanic_err
    · exact noPanic_err

/-- `Timestamp::from_str` never panics -/
theorem C22_timestamp_total (s : Bytes) : NoPanic (Timestamp.fromStr s) := by
  unfold Timestamp.fromStr
  refine noPanic_bind (stripTimezoneSuffix_noPanic _) (fun part _ => ?_)
  split
  · refine noPanic_bind (C22_date_total _) (fun d _ => ?_)
    refine noPanic_bind (C22_time_total _) (fun t _ => ?_)
    exact noPanic_pure _
  · exact tsFromParts_noPanic _

theorem parseCompound_noPanic (parts : List Bytes) (toPos : Nat) :
    NoPanic (parseCompound parts toPos) := by
  unfold parseCompound
  split
  · rename_i h
    have hh : 2 ≤ toPos ∧ toPos + 1 < parts.length := by simpa using h
    refine noPanic_bind (noPanic_idx (by omega)) (fun v _ => ?_)
    refine noPanic_bind (noPanic_idx (by omega)) (fun f _ => ?_)
    refine noPanic_bind (noPanic_idx (by omega)) (fun t _ => ?_)
    repeat (first | exact noPanic_pure _ | split)
  · exact noPanic_pure _

theorem parseSimple_noPanic (parts : List Bytes) : NoPanic (parseSimple parts) := by
  unfold parseSimple
  split
  · rename_i h
    have hh : 2 ≤ parts.length := by simpa using h
    refine noPanic_bind (noPanic_idx (by omega)) (fun v _ => ?_)
    refine noPanic_bind (noPanic_idx (by omega)) (fun u _ => ?_)
    simp only []
    repeat (first | exact noPanic_pure _ | split)
  · exact noPanic_pure _

theorem parseInterval_noPanic (s : Bytes) : NoPanic (parseInterval s) := by
  unfold parseInterval
  simp only []
  split
  · exact noPanic_ok _
  · split
    · exact parseCompound_noPanic _ _
    · exact parseSimple_noPanic _

/-- `Interval::new` (and `Interval::from_str`) never panics -/
theorem C22_interval_total (s : Bytes) : NoPanic (Interval.new s) := by
  unfold Interval.new
  refine noPanic_bind (parseInterval_noPanic s) (fun p _ => ?_)
  exact noPanic_pure _

/-- the full statement of totality, all four parsers -/
theorem C22_total (s : Bytes) :
    NoPanic (Date.fromStr s) ∧ NoPanic (Time.fromStr s) ∧ NoPanic (Timestamp.fromStr s) ∧
    NoPanic (Interval.new s) :=
  ⟨C22_date_total s, C22_time_total s, C22_timestamp_total s, C22_interval_total s⟩

/-! ## round trips -/

/-- INTERVAL: `Display` prints the stored text, so re-parsing gives the same interval -/
theorem C22_interval_roundtrip (s : Bytes) (i : Interval) (h : Interval.new s = .ok i) :
    Interval.new i.display = .ok i := by
  have ht : i.text = s := by
    unfold Interval.new at h
    cases hp : parseInterval s with
    | error e => simp [hp, bind, Except.bind] at h
    | ok p =>
      obtain ⟨a, b, c⟩ := p
      simp [hp, bind, Except.bind, pure, Except.pure] at h
      rw [← h]
  simp [Interval.display, ht, h]

example : Interval.new [49, 45, 54, 32, 89, 69, 65, 82, 32, 84, 79, 32, 77, 79, 78, 84, 72] =
    .ok ⟨[49, 45, 54, 32, 89, 69, 65, 82, 32, 84, 79, 32, 77, 79, 78, 84, 72], 18, 0, 0⟩ := by rfl

/-- DATE: every value accepted by `Date::new` (any `i32` year, negative ones included)
    prints to a text that parses back to the same value -/
theorem C22_date_roundtrip (y : Int) (m dd : Nat) (d : Date) (hy : i32Min ≤ y ∧ y ≤ i32Max)
    (h : Date.new y m dd = .ok d) : Date.fromStr d.display = .ok d := by
  have hv : (1 ≤ m ∧ m ≤ 12) ∧ (1 ≤ dd ∧ dd ≤ 31) ∧ d = ⟨y, m, dd⟩ := by
    unfold Date.new at h
    split at h
    · simp at h
    · split at h
      · simp at h
      · rename_i h1 h2
        simp at h1 h2 h
        exact ⟨⟨by omega, h1.2⟩, ⟨by omega, h2.2⟩, h.symm⟩
  obtain ⟨hm, hd, rfl⟩ := hv
  unfold Date.fromStr Date.display
  simp only []
  rw [rsplit3_date _ _ _ (fmtNat_all 2 m) (fmtNat_all 2 dd)]
  simp only [List.length_cons, List.length_nil, idx, bne_self_eq_false, Bool.false_eq_true, if_false,
    List.getElem?_cons_zero, List.getElem?_cons_succ, bind, Except.bind]
  rw [show parseI32 (fmtInt 4 y) = some y from parseSigned_fmtInt _ _ 4 y hy.1 hy.2,
      show parseU8 (fmtNat 2 m) = some m from parseUnsigned_fmtNat 255 2 m (by omega),
      show parseU8 (fmtNat 2 dd) = some dd from parseUnsigned_fmtNat 255 2 dd (by omega)]
  simp only [orErr]
  unfold Date.new
  simp [hm, hd]

example : Date.new (-5) 1 1 = .ok ⟨-5, 1, 1⟩ ∧ i32Min ≤ (-5 : Int) ∧ (-5 : Int) ≤ i32Max :=
  ⟨rfl, by decide, by decide⟩

theorem pad9_trim (l : Bytes) (hlen : l.length = 9) (hall : ∀ b ∈ l, isDigit b = true) :
    padRight0Chars 9 (trimEnd0 l) = l := by
  unfold padRight0Chars
  rw [charCount_digits _ (trimEnd0_all _ hall), ← hlen]
  exact trimEnd0_pad l

theorem getTo9 (l : Bytes) (hlen : l.length = 9) : getTo 9 l = some l := by
  unfold getTo isBoundary
  simp [hlen]
  rw [← hlen]; exact List.take_length

theorem parseNanos_frac (n : Nat) (hn : n ≤ 999999999) :
    parseNanos (trimEnd0 (fmtNat 9 n)) = .ok n := by
  have hlen : (fmtNat 9 n).length = 9 := fmtNat_length 8 n (by omega)
  unfold parseNanos
  rw [pad9_trim _ hlen (fmtNat_all 9 n), getTo9 _ hlen]
  simp only []
  rw [show parseU32 (fmtNat 9 n) = some n from parseUnsigned_fmtNat _ 9 n (by omega)]
  rfl

/-- TIME: every value accepted by `Time::new` prints to a text that parses back to it -/
theorem C22_time_roundtrip (h mi s n : Nat) (t : Time) (hnew : Time.new h mi s n = .ok t) :
    Time.fromStr t.display = .ok t := by
  have hv : h ≤ 23 ∧ mi ≤ 59 ∧ s ≤ 59 ∧ n ≤ 999999999 ∧ t = ⟨h, mi, s, n⟩ := by
    unfold Time.new at hnew
    repeat (split at hnew; · simp at hnew)
    simp at hnew
    refine ⟨by omega, by omega, by omega, by omega, hnew.symm⟩
  obtain ⟨hh, hmi, hs, hn, rfl⟩ := hv
  have h46 : isDigit 46 = false := by decide
  have h58 : (58 : UInt8) ≠ 46 := by decide
  have hmsAll : ∀ b ∈ fmtNat 2 h ++ [58] ++ fmtNat 2 mi ++ [58] ++ fmtNat 2 s, b ≠ 46 := by
    intro b hb
    simp only [List.mem_append, List.mem_singleton] at hb
    rcases hb with (((hb | hb) | hb) | hb) | hb
    · exact digits_ne 46 h46 _ (fmtNat_all 2 h) b hb
    · rw [hb]; exact h58
    · exact digits_ne 46 h46 _ (fmtNat_all 2 mi) b hb
    · rw [hb]; exact h58
    · exact digits_ne 46 h46 _ (fmtNat_all 2 s) b hb
  have hparts := splitOn_hms _ _ _ (fmtNat_all 2 h) (fmtNat_all 2 mi) (fmtNat_all 2 s)
  have pH : parseU8 (fmtNat 2 h) = some h := parseUnsigned_fmtNat 255 2 h (by omega)
  have pM : parseU8 (fmtNat 2 mi) = some mi := parseUnsigned_fmtNat 255 2 mi (by omega)
  have pS : parseU8 (fmtNat 2 s) = some s := parseUnsigned_fmtNat 255 2 s (by omega)
  have hnewok : Time.new h mi s n = .ok ⟨h, mi, s, n⟩ := hnew
  unfold Time.fromStr Time.display
  by_cases hz : n = 0
  · subst hz
    simp only [if_true]
    rw [splitFirst_none 46 _ hmsAll]
    simp only [hparts, List.length_cons, List.length_nil, idx, bne_self_eq_false, Bool.false_eq_true,
      if_false, List.getElem?_cons_zero, List.getElem?_cons_succ, bind, Except.bind, pH, pM, pS, orErr,
      pure, Except.pure]
    exact hnewok
  · simp only [hz, if_false]
    have e : fmtNat 2 h ++ [58] ++ fmtNat 2 mi ++ [58] ++ fmtNat 2 s ++ [46] ++ trimEnd0 (fmtNat 9 n)
        = (fmtNat 2 h ++ [58] ++ fmtNat 2 mi ++ [58] ++ fmtNat 2 s) ++ 46 :: trimEnd0 (fmtNat 9 n) := by
      simp
    rw [e, splitFirst_app 46 _ _ hmsAll]
    simp only [hparts, List.length_cons, List.length_nil, idx, bne_self_eq_false, Bool.false_eq_true,
      if_false, List.getElem?_cons_zero, List.getElem?_cons_succ, bind, Except.bind, pH, pM, pS, orErr,
      parseNanos_frac n hn]
    exact hnewok

example : Time.new 23 59 59 120000000 = .ok ⟨23, 59, 59, 120000000⟩ := rfl

/-- TIMESTAMP: a timestamp built from a valid date (any `i32` year) and a valid time prints to
    a text that parses back to the same value -/
theorem C22_timestamp_roundtrip (y : Int) (m dd h mi s n : Nat) (d : Date) (t : Time)
    (hy : i32Min ≤ y ∧ y ≤ i32Max) (hd : Date.new y m dd = .ok d) (ht : Time.new h mi s n = .ok t) :
    Timestamp.fromStr (Timestamp.display ⟨d, t⟩) = .ok ⟨d, t⟩ := by
  have hdate := C22_date_roundtrip y m dd d hy hd
  have htime := C22_time_roundtrip h mi s n t ht
  have hDp := date_display_plain d
  have hTt := time_display_tplain t
  have hTp : ∀ b ∈ t.display, plain b = true := fun b hb => tplain_plain (hTt b hb)
  have hTlen := time_display_length t
  have hTne : t.display ≠ [] := by intro e; rw [e] at hTlen; simp at hTlen
  have hDne : d.display ≠ [] := by simp [Date.display]
  -- first byte of the text, last byte of the text
  obtain ⟨b, r, hbr⟩ : ∃ b r, d.display = b :: r := by
    cases hh : d.display with
    | nil => exact absurd hh hDne
    | cons b r => exact ⟨b, r, rfl⟩
  obtain ⟨c, r', hcr⟩ : ∃ c r', t.display.reverse = c :: r' := by
    cases hh : t.display.reverse with
    | nil => simp at hh; exact absurd hh hTne
    | cons c r' => exact ⟨c, r', rfl⟩
  have hb : plain b = true := hDp b (by rw [hbr]; simp)
  have hcT : tplain c = true := hTt c (by rw [← List.mem_reverse, hcr]; simp)
  have hs : d.display ++ [32] ++ t.display = b :: (r ++ [32] ++ t.display) := by rw [hbr]; simp
  have hrev : (d.display ++ [32] ++ t.display).reverse = c :: (r' ++ 32 :: d.display.reverse) := by
    simp [hcr]
  unfold Timestamp.fromStr Timestamp.display
  rw [trim_plain _ _ _ b c hs hrev hb (tplain_plain hcT)]
  have hstrip : stripTimezoneSuffix (d.display ++ [32] ++ t.display) = .ok (d.display ++ [32] ++ t.display) := by
    have := strip_display (fmtInt 4 d.year) (fmtNat 2 d.month) (fmtNat 2 d.day) t.display
      (r' ++ 32 :: d.display.reverse) c (fmtNat_all 2 _) hTt (fmtNat_length_ge 2 _) hTlen
      (by simpa [Date.display] using hrev) hcT
    simpa [Date.display] using this
  rw [hstrip]
  simp only [bind, Except.bind]
  have h84 : ∀ x ∈ d.display ++ [32] ++ t.display, x ≠ 84 := by
    apply plain_ne84
    intro x hx
    simp only [List.mem_append, List.mem_singleton] at hx
    rcases hx with (hx | hx) | hx
    · exact Or.inl (hDp x hx)
    · exact Or.inr hx
    · exact Or.inl (hTp x hx)
  rw [splitFirst_none 84 _ h84]
  simp only []
  rw [splitWhitespace_two _ _ hDp hTp hDne hTne]
  simp [tsFromParts, idx, bind, Except.bind, hdate, htime, pure, Except.pure]

example : Date.new 2147483647 12 31 = .ok ⟨2147483647, 12, 31⟩ ∧
    Time.new 23 59 59 999999999 = .ok ⟨23, 59, 59, 999999999⟩ := ⟨rfl, rfl⟩
