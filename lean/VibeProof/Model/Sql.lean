import VibeProof.Model.Expr
import VibeProof.Model.Rel
import VibeProof.Model.SetOps
/-
SQL front end of the model: it only *composes* kernel operators in the pipeline order
vibesql uses (FROM/joins → WHERE → GROUP BY/aggregates → HAVING → projection → DISTINCT →
ORDER BY → LIMIT/OFFSET → set operations).  This `spec` evaluator is the reference engine of
property C01: it knows nothing about indexes, columnar execution, hash joins or rewrites.
-/
namespace VibeProof.Sql
open VibeProof

/-- a database: tables by position, each with its column count and rows -/
structure Db where
  tables : List (Nat × List Row)
  deriving Repr

inductive AggFn where
  | countStar | count | sum | min | max
  deriving DecidableEq, Repr

structure AggCall where
  fn : AggFn
  arg : Expr
  distinct : Bool
  deriving Repr

inductive SubOut where
  | col (e : Expr)
  | agg (a : AggCall)
  deriving Repr

/-- single-table subquery; `filter` and the output are evaluated on `outerRow ++ innerRow`,
so a correlated reference is just a column index below the outer width -/
structure SubQ where
  tbl : Nat
  filter : Option Expr
  out : SubOut
  deriving Repr

inductive Pred where
  | ex (e : Expr)
  | inSub (a : Expr) (s : SubQ) (neg : Bool)
  | exists_ (s : SubQ) (neg : Bool)
  | cmpSub (op : BinOp) (a : Expr) (s : SubQ)
  | and (a b : Pred)
  | or (a b : Pred)
  | not (a : Pred)
  deriving Repr

inductive From where
  | table (i : Nat)
  | cross (l r : From)
  | inner (l r : From) (on : Expr)
  | left (l r : From) (on : Expr)
  | right (l r : From) (on : Expr)
  | full (l r : From) (on : Expr)
  deriving Repr

structure Group where
  keys : List Expr
  aggs : List AggCall
  having : Option Expr
  deriving Repr

structure Core where
  from_ : From
  where_ : Option Pred
  group : Option Group
  select : List Expr
  distinct : Bool
  orderBy : List (Nat × Bool)
  limit : Option Nat
  offset : Nat
  deriving Repr

inductive SetOp where
  | union | intersect | except
  deriving DecidableEq, Repr

inductive Query where
  | core (c : Core)
  | setop (op : SetOp) (all : Bool) (l r : Query)
  deriving Repr

/-! ### helpers -/

def mapM' {α β : Type} (f : α → Except Err β) : List α → Except Err (List β)
  | [] => .ok []
  | x :: xs => do
    let y ← f x
    let ys ← mapM' f xs
    pure (y :: ys)

def filterM' {α : Type} (f : α → Except Err Bool) : List α → Except Err (List α)
  | [] => .ok []
  | x :: xs => do
    let b ← f x
    let ys ← filterM' f xs
    pure (if b then x :: ys else ys)

def tableRows (db : Db) (i : Nat) : Except Err (List Row) :=
  match db.tables[i]? with
  | some (_, rows) => .ok rows
  | none => .error .unsupported

def tableWidth (db : Db) (i : Nat) : Nat :=
  match db.tables[i]? with
  | some (w, _) => w
  | none => 0

def From.width (db : Db) : From → Nat
  | .table i => tableWidth db i
  | .cross l r => l.width db + r.width db
  | .inner l r _ => l.width db + r.width db
  | .left l r _ => l.width db + r.width db
  | .right l r _ => l.width db + r.width db
  | .full l r _ => l.width db + r.width db

/-- is the predicate value TRUE (the filter keeps exactly these rows) -/
def isTrue (v : Value) : Except Err Bool := do
  let t ← v.truthy
  pure (t == TV.t)

/-! ### aggregates (definitional) -/

/-- least / greatest of a non-empty list of same-typed non-NULL values -/
def extremum (pickLeft : Ordering → Bool) : List Value → Except Err Value
  | [] => .ok .null
  | v :: vs =>
    let rec go (cur : Value) : List Value → Except Err Value
      | [] => .ok cur
      | x :: xs =>
        match Value.cmp? x cur with
        | some o => if pickLeft o then go x xs else go cur xs
        | none => .error .typeMismatch
    go v vs

def sumInts : List Value → Except Err Int
  | [] => .ok 0
  | .int i :: vs => do pure (i + (← sumInts vs))
  | _ :: _ => .error .typeMismatch

def evalAgg (a : AggCall) (rows : List Row) : Except Err Value :=
  match a.fn with
  | .countStar => .ok (.int rows.length)
  | fn => do
    let vals ← mapM' (fun r => a.arg.eval r) rows
    let nn := vals.filter (fun v => !v.isNull)
    let xs := if a.distinct then dedup nn else nn
    match fn with
    | .count => pure (.int xs.length)
    | .sum => if xs.isEmpty then pure .null else do
        let s ← sumInts xs
        if Value.inRange64 s then pure (.int s) else .error .overflow
    | .min => extremum (fun o => o == .lt) xs
    | .max => extremum (fun o => o == .gt) xs
    | .countStar => pure (.int rows.length)

/-! ### subqueries and predicates -/

def SubQ.rows (db : Db) (outer : Row) (s : SubQ) : Except Err (List Row) := do
  let rows ← tableRows db s.tbl
  let joined := rows.map (fun r => outer ++ r)
  match s.filter with
  | none => pure joined
  | some f => filterM' (fun r => do isTrue (← f.eval r)) joined

/-- the list of values a subquery produces for the current outer row -/
def SubQ.values (db : Db) (outer : Row) (s : SubQ) : Except Err (List Value) := do
  let rows ← s.rows db outer
  match s.out with
  | .col e => mapM' (fun r => e.eval r) rows
  | .agg a => do pure [← evalAgg a rows]

def Pred.eval (db : Db) (row : Row) : Pred → Except Err Value
  | .ex e => e.eval row
  | .inSub a s neg => do
      let x ← a.eval row
      let vs ← s.values db row
      -- SQL: x IN (S): TRUE if some equal, else NULL if x is NULL (and S non-empty) or S has NULL, else FALSE
      inListV x vs neg
  | .exists_ s neg => do
      let rows ← s.rows db row
      pure (.bool ((!rows.isEmpty) != neg))
  | .cmpSub op a s => do
      let x ← a.eval row
      let vs ← s.values db row
      match vs with
      | [] => evalBin op x .null
      | [v] => evalBin op x v
      | _ => .error .multiRow
  | .and a b => do
      let x ← a.eval db row
      let y ← b.eval db row
      evalBin .and x y
  | .or a b => do
      let x ← a.eval db row
      let y ← b.eval db row
      evalBin .or x y
  | .not a => do notV (← a.eval db row)

/-! ### FROM -/

def From.eval (db : Db) : From → Except Err (List Row)
  | .table i => tableRows db i
  | .cross l r => do
      let ls ← l.eval db
      let rs ← r.eval db
      pure (ls.flatMap (fun a => rs.map (fun b => a ++ b)))
  | .inner l r on => do
      let ls ← l.eval db
      let rs ← r.eval db
      filterM' (fun row => do isTrue (← on.eval row)) (ls.flatMap (fun a => rs.map (fun b => a ++ b)))
  | .left l r on => do
      let ls ← l.eval db
      let rs ← r.eval db
      let w := r.width db
      let perLeft ← mapM' (fun a => do
          let ms ← filterM' (fun row => do isTrue (← on.eval row)) (rs.map (fun b => a ++ b))
          pure (if ms.isEmpty then [a ++ List.replicate w Value.null] else ms)) ls
      pure perLeft.flatten
  | .right l r on => do
      -- every right row once per match, or once NULL-extended on the left (`nested_loop_right_outer_join`)
      let ls ← l.eval db
      let rs ← r.eval db
      let w := l.width db
      let perRight ← mapM' (fun b => do
          let ms ← filterM' (fun row => do isTrue (← on.eval row)) (ls.map (fun a => a ++ b))
          pure (if ms.isEmpty then [List.replicate w Value.null ++ b] else ms)) rs
      pure perRight.flatten
  | .full l r on => do
      -- the LEFT JOIN rows, then the right rows without a match, NULL-extended on the left
      let ls ← l.eval db
      let rs ← r.eval db
      let wl := l.width db
      let wr := r.width db
      let perLeft ← mapM' (fun a => do
          let ms ← filterM' (fun row => do isTrue (← on.eval row)) (rs.map (fun b => a ++ b))
          pure (if ms.isEmpty then [a ++ List.replicate wr Value.null] else ms)) ls
      let lonely ← filterM' (fun b => do
          let ms ← filterM' (fun row => do isTrue (← on.eval row)) (ls.map (fun a => a ++ b))
          pure ms.isEmpty) rs
      pure (perLeft.flatten ++ lonely.map (fun b => List.replicate wl Value.null ++ b))

/-! ### grouping -/

/-- groups in first-seen key order; each group keeps its rows in input order -/
def groupRows (keys : List (List Value × Row)) : List (List Value × List Row) :=
  let ks := dedup (keys.map (·.1))
  ks.map (fun k => (k, (keys.filter (fun p => p.1 == k)).map (·.2)))

def evalGroup (g : Group) (rows : List Row) : Except Err (List Row) := do
  let keyed ← mapM' (fun r => do pure ((← mapM' (fun k => k.eval r) g.keys), r)) rows
  let groups := if g.keys.isEmpty then [([], rows)] else groupRows keyed
  let outs ← mapM' (fun (p : List Value × List Row) => do
      let as ← mapM' (fun a => evalAgg a p.2) g.aggs
      pure (p.1 ++ as)) groups
  match g.having with
  | none => pure outs
  | some h => filterM' (fun r => do isTrue (← h.eval r)) outs

/-! ### ORDER BY: NULLs last in both directions (`apply_order_by`) -/

def keyLe (desc : Bool) (a b : Value) : Bool :=
  match a, b with
  | .null, .null => true
  | .null, _ => false
  | _, .null => true
  | x, y =>
    match Value.cmp? x y with
    | some o => if desc then o != .lt else o != .gt
    | none => true

def keyEq (a b : Value) : Bool :=
  match a, b with
  | .null, .null => true
  | .null, _ => false
  | _, .null => false
  | x, y => Value.cmp? x y == some .eq

def rowLe : List (Nat × Bool) → Row → Row → Bool
  | [], _, _ => true
  | (i, desc) :: ks, a, b =>
    let x := (a[i]?).getD .null
    let y := (b[i]?).getD .null
    if keyEq x y then rowLe ks a b else keyLe desc x y

def orderRows (keys : List (Nat × Bool)) (rows : List Row) : List Row :=
  if keys.isEmpty then rows else rows.mergeSort (fun a b => rowLe keys a b)

/-- no two rows tie on all ORDER BY keys (then the sequence is determined) -/
def orderDetermined (keys : List (Nat × Bool)) (sorted : List Row) : Bool :=
  let rec go : List Row → Bool
    | a :: b :: rest => !(keys.all (fun k => keyEq ((a[k.1]?).getD .null) ((b[k.1]?).getD .null))) && go (b :: rest)
    | _ => true
  !keys.isEmpty && go sorted

/-! ### queries -/

def Core.eval (db : Db) (c : Core) : Except Err (List Row) := do
  let src ← c.from_.eval db
  let filtered ← match c.where_ with
    | none => pure src
    | some p => filterM' (fun r => do isTrue (← p.eval db r)) src
  let base ← match c.group with
    | none => pure filtered
    | some g => evalGroup g filtered
  let projected ← mapM' (fun r => mapM' (fun e => e.eval r) c.select) base
  let d := if c.distinct then dedup projected else projected
  let o := orderRows c.orderBy d
  pure (limitOffset c.limit c.offset o)

def Query.eval (db : Db) : Query → Except Err (List Row)
  | .core c => c.eval db
  | .setop op all l r => do
      let a ← l.eval db
      let b ← r.eval db
      pure (match op, all with
        | .union, true => unionAll a b
        | .union, false => union a b
        | .intersect, true => intersectAll a b
        | .intersect, false => intersect a b
        | .except, true => exceptAll a b
        | .except, false => except a b)

end VibeProof.Sql
