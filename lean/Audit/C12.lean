import VibeProof.Props.C12
#print axioms VibeProof.C12.C12_child_accept_iff
#print axioms VibeProof.C12.C12_insert_child_preserves
#print axioms VibeProof.C12.C12_insert_parent_preserves
#print axioms VibeProof.C12.C12_restrict_rejects_iff
#print axioms VibeProof.C12.C12_cascade_removes_exactly_referrers
#print axioms VibeProof.C12.C12_set_null_changes_exactly_referrers
#print axioms VibeProof.C12.C12_delete_parent_preserves
#print axioms VibeProof.C12.C12_update_parent_no_action
#print axioms VibeProof.C12.C12_self_reference_counterexample
#print axioms VibeProof.C12.C12_cascade_terminates
#print axioms VibeProof.C12.C12_delete_cascade_preserves
#print axioms VibeProof.C12.C12_cascade_removes_closure
#print axioms VibeProof.C12.C12_cascade_removes_only_closure
#print axioms VibeProof.C12.C12_cascade_removes_exactly_closure
#print axioms VibeProof.C12.C12_update_parent_cascade_preserves
#print axioms VibeProof.C12.C12_cyclic_cascade_exhausts_fuel
