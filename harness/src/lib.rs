//! Shared parts of the vibesql verification harness (DESIGN.md §2).
pub mod canon;
pub mod engine;
pub mod model;
pub mod qast;
pub mod sqlast;
pub mod report;
pub mod rng;
pub mod sx;

pub use engine::{Db, Out};
pub use report::{Args, FailKind, Report, Tier};
pub use rng::Rng;
pub use sx::Sx;
