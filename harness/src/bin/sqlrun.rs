//! tiny SQL runner for triage: reads statements (one per line, ';' optional) from stdin
use std::io::BufRead;
use vharness::*;
fn main() {
    engine::silence_panics();
    let mut db = Db::new();
    for line in std::io::stdin().lock().lines() {
        let l = line.unwrap();
        let s = l.trim().trim_end_matches(';');
        if s.is_empty() || s.starts_with("--") {
            continue;
        }
        println!("{}\n  => {}", s, db.exec(s).brief());
    }
}
