import VibeProof.Model.QCache
import VibeProof.Lemmas.QCache
/-
C25 — the query result cache never serves a stale or foreign result.

Model: `Model/QCache.lean`.  The engine (`exec`), the signature (`sig`) and the table extractor
(`tabs`) are parameters of the protocol theorems; the concrete normaliser and extractor of the
code are the subject of the second half.
-/
namespace VibeProof.C25
open VibeProof.QCache

/-! ## coherence of the protocol, for every history and every eviction choice -/

/-- (A) equal signatures ⇒ equal results on every database -/
def SigSound {DB Q R C : Type} (w : World DB Q R C) : Prop :=
  ∀ q₁ q₂, w.sig q₁ = w.sig q₂ → ∀ db, w.exec db q₁ = w.exec db q₂

/-- (B) a query's result depends only on the tables the extractor reports (names compared
    ignoring ASCII case, as `invalidate_table` does) -/
def DepsCovered {DB Q R C : Type} (w : World DB Q R C) : Prop :=
  ∀ q db db', (∀ n ∈ w.tabs q, ∀ m, eqIC m n = true → w.tbl db m = w.tbl db' m) → w.exec db q = w.exec db' q

/-- (W) a write announced for table `t` changes no other table -/
def WriteLocal {DB Q R C : Type} (w : World DB Q R C) : Op DB Q → Prop
  | .select _ _ => True
  | .write t f => ∀ db m, eqIC m t = false → w.tbl (f db) m = w.tbl db m

/-- the invariant: every cached entry is the current answer of a query with that key -/
def Inv {DB Q R C : Type} (w : World DB Q R C) (st : St DB R) : Prop :=
  ∀ e ∈ st.cache, ∃ q, e.sig = w.sig q ∧ e.tables = w.tabs q ∧ e.rows = w.exec st.db q

theorem get_some {R : Type} (c : List (Entry R)) (s : List Char) (r : R) (h : QCache.get c s = some r) :
    ∃ e ∈ c, e.sig = s ∧ e.rows = r := by
  unfold QCache.get at h
  split at h
  · rename_i e he
    injection h with h
    refine ⟨e, List.mem_of_find?_eq_some he, ?_, h⟩
    have := List.find?_some he
    simpa using this
  · cases h

theorem mem_insert {R : Type} (max v : Nat) (c : List (Entry R)) (e x : Entry R)
    (h : x ∈ QCache.insert max v c e) : x = e ∨ x ∈ c := by
  unfold QCache.insert at h
  rcases List.mem_cons.mp h with h | h
  · exact Or.inl h
  · right
    have := (List.mem_filter.mp h).1
    split at this
    · exact List.mem_of_mem_eraseIdx this
    · exact this

theorem mem_invalidate {R : Type} (c : List (Entry R)) (t : String) (x : Entry R)
    (h : x ∈ invalidateTable c t) : x ∈ c ∧ ∀ n ∈ x.tables, eqIC n t = false := by
  unfold invalidateTable at h
  have := List.mem_filter.mp h
  refine ⟨this.1, ?_⟩
  intro n hn
  have h2 := this.2
  simp only [Bool.not_eq_true', List.any_eq_false] at h2
  have := h2 n hn
  simpa using this

theorem eqIC_trans_false (m n t : String) (h1 : eqIC m n = true) (h2 : eqIC n t = false) : eqIC m t = false := by
  simp only [eqIC, beq_iff_eq] at h1
  simp only [eqIC, beq_eq_false_iff_ne, ne_eq] at h2 ⊢
  rw [h1]; exact h2

/-- one step: the invariant is kept, the database evolves as without the cache, and the answer
    is the answer of plain execution -/
theorem step_ok {DB Q R C : Type} (w : World DB Q R C) (max : Nat) (st : St DB R) (op : Op DB Q)
    (hA : SigSound w) (hB : DepsCovered w) (hW : WriteLocal w op) (hI : Inv w st) :
    Inv w (stepA w max st op).1 ∧ (stepA w max st op).1.db = (stepD w st.db op).1 ∧
      (stepA w max st op).2 = (stepD w st.db op).2 := by
  cases op with
  | select q v =>
    simp only [stepA, stepD]
    cases hg : QCache.get st.cache (w.sig q) with
    | some r =>
      simp only
      refine ⟨hI, trivial, ?_⟩
      obtain ⟨e, he, hs, hr⟩ := get_some _ _ _ hg
      obtain ⟨q', hq1, _, hq3⟩ := hI e he
      rw [← hr, hq3, hA q' q (hq1.symm.trans hs)]
    | none =>
      simp only
      split
      · refine ⟨?_, rfl, rfl⟩
        intro e he
        rcases mem_insert _ _ _ _ _ he with h | h
        · subst h; exact ⟨q, rfl, rfl, rfl⟩
        · exact hI e h
      · exact ⟨hI, rfl, rfl⟩
  | write t f =>
    simp only [stepA, stepD]
    refine ⟨?_, trivial, trivial⟩
    intro e he
    obtain ⟨hmem, hno⟩ := mem_invalidate _ _ _ he
    obtain ⟨q, hq1, hq2, hq3⟩ := hI e hmem
    refine ⟨q, hq1, hq2, ?_⟩
    rw [hq3]
    apply (hB q st.db (f st.db) ?_)
    intro n hn m hm
    have hn' : n ∈ e.tables := by rw [hq2]; exact hn
    exact (hW st.db m (eqIC_trans_false m n t hm (hno n hn'))).symm

theorem run_ok {DB Q R C : Type} (w : World DB Q R C) (max : Nat) (ops : List (Op DB Q)) :
    ∀ (st : St DB R), SigSound w → DepsCovered w → (∀ op ∈ ops, WriteLocal w op) → Inv w st →
    (runA w max st ops).2 = (runD w st.db ops).2 ∧ (runA w max st ops).1.db = (runD w st.db ops).1
      ∧ Inv w (runA w max st ops).1 := by
  induction ops with
  | nil => intro st _ _ _ hI; exact ⟨rfl, rfl, hI⟩
  | cons op rest ih =>
    intro st hA hB hW hI
    obtain ⟨h1, h2, h3⟩ := step_ok w max st op hA hB (hW op List.mem_cons_self) hI
    obtain ⟨i1, i2, i3⟩ := ih (stepA w max st op).1 hA hB (fun o ho => hW o (List.mem_cons_of_mem _ ho)) h1
    simp only [runA, runD]
    rw [h2] at i1 i2
    exact ⟨by rw [i1, h3], i2, i3⟩

/-- **Coherence.** Under (A), (B), (W): for every history of reads and writes, every cache
    capacity and every choice of eviction victims, starting from an empty cache, cache-backed
    execution returns at every read exactly what plain execution returns, and leaves the same
    database. -/
theorem C25_coherence {DB Q R C : Type} (w : World DB Q R C) (max : Nat) (db : DB) (ops : List (Op DB Q))
    (hA : SigSound w) (hB : DepsCovered w) (hW : ∀ op ∈ ops, WriteLocal w op) :
    (runA w max ⟨db, []⟩ ops).2 = (runD w db ops).2 ∧ (runA w max ⟨db, []⟩ ops).1.db = (runD w db ops).1 :=
  let h := run_ok w max ops ⟨db, []⟩ hA hB hW (by intro e he; cases he)
  ⟨h.1, h.2.1⟩

/-- **Every hit is fresh.** After any such history, whatever the cache returns for a query is
    the result of executing that query on the current database. -/
theorem C25_hit_is_current {DB Q R C : Type} (w : World DB Q R C) (max : Nat) (db : DB) (ops : List (Op DB Q))
    (hA : SigSound w) (hB : DepsCovered w) (hW : ∀ op ∈ ops, WriteLocal w op) (q : Q) (r : R)
    (h : QCache.get (runA w max ⟨db, []⟩ ops).1.cache (w.sig q) = some r) :
    r = w.exec (runA w max ⟨db, []⟩ ops).1.db q := by
  have hI := (run_ok w max ops ⟨db, []⟩ hA hB hW (by intro e he; cases he)).2.2
  obtain ⟨e, he, hs, hr⟩ := get_some _ _ _ h
  obtain ⟨q', hq1, _, hq3⟩ := hI e he
  rw [← hr, hq3, hA q' q (hq1.symm.trans hs)]

/-- **No foreign entry.** Two queries that differ in result on some database have different
    keys, hence can never be served from the same entry. -/
theorem C25_no_shared_entry {DB Q R C : Type} (w : World DB Q R C) (hA : SigSound w) (q₁ q₂ : Q)
    (h : ∃ db, w.exec db q₁ ≠ w.exec db q₂) : w.sig q₁ ≠ w.sig q₂ := by
  intro hs
  obtain ⟨db, hne⟩ := h
  exact hne (hA q₁ q₂ hs db)

/-! non-vacuity: a two-table world, keyed by table name, satisfying (A), (B), (W), with a
    history that hits, invalidates and evicts -/

def demoWorld : World (Nat × Nat) Bool Nat Nat where
  exec := fun db q => if q then db.1 else db.2
  cacheable := fun _ => true
  sig := fun q => if q then ['t'] else ['u']
  tabs := fun q => if q then ["T"] else ["u"]
  tbl := fun db m => if eqIC m "t" then db.1 else if eqIC m "u" then db.2 else 0

def demoOps : List (Op (Nat × Nat) Bool) :=
  [.select true 0, .select true 0, .write "t" (fun db => (db.1 + 1, db.2)), .select true 0,
   .select false 0, .write "U" (fun db => (db.1, db.2 + 5)), .select false 0, .select true 0]

example : SigSound demoWorld := by
  intro q₁ q₂ h db
  cases q₁ <;> cases q₂ <;> simp [demoWorld] at h ⊢

example : DepsCovered demoWorld := by
  intro q db db' h
  cases q
  · have := h "u" (by simp [demoWorld]) "u" (by decide)
    have e1 : eqIC "u" "t" = false := by decide
    have e2 : eqIC "u" "u" = true := by decide
    simpa [demoWorld, e1, e2] using this
  · have := h "T" (by simp [demoWorld]) "t" (by decide)
    have e1 : eqIC "t" "t" = true := by decide
    simpa [demoWorld, e1] using this

example : (runA demoWorld 1 ⟨(0, 0), []⟩ demoOps).2 = [some 0, some 0, none, some 1, some 0, none, some 5, some 1]
    ∧ (runD demoWorld (0, 0) demoOps).2 = [some 0, some 0, none, some 1, some 0, none, some 5, some 1] := by
  decide

/-! ## (B) and (W) are needed, and fail for views and indirect writes -/

/-- a view `v` over table `t`: the extractor reports the name in the FROM clause, `V`, while
    the result depends on `t` -/
def viewWorld : World Nat Unit Nat Nat where
  exec := fun db _ => db
  cacheable := fun _ => true
  sig := fun _ => ['s', 'e', 'l', 'e', 'c', 't', ' ', '*', ' ', 'f', 'r', 'o', 'm', ' ', 'v']
  tabs := fun _ => ["V"]
  tbl := fun db m => if eqIC m "t" then db else 0

def viewOps : List (Op Nat Unit) := [.select () 0, .write "T" (fun db => db + 1), .select () 0]

/-- (B) fails through a view, although (A) and (W) hold, and the cache then serves a stale row
    set: `SELECT * FROM v; INSERT INTO t …; SELECT * FROM v` -/
theorem C25_view_counterexample :
    SigSound viewWorld ∧ (∀ op ∈ viewOps, WriteLocal viewWorld op) ∧ ¬ DepsCovered viewWorld ∧
    (runA viewWorld 10 ⟨0, []⟩ viewOps).2 = [some 0, none, some 0] ∧
    (runD viewWorld 0 viewOps).2 = [some 0, none, some 1] := by
  refine ⟨fun _ _ _ _ => rfl, ?_, ?_, by decide, by decide⟩
  · intro op hop
    simp only [viewOps, List.mem_cons, List.mem_nil_iff, or_false] at hop
    rcases hop with h | h | h <;> subst h <;> simp only [WriteLocal]
    intro db m hm
    have : eqIC m "t" = false := by
      simp only [eqIC, beq_eq_false_iff_ne, ne_eq] at hm ⊢
      have : icKey "T" = icKey "t" := by decide
      rw [← this]; exact hm
    simp [viewWorld, this]
  · intro h
    have := h () 0 1 (by
      intro n hn m hm
      simp only [viewWorld, List.mem_singleton] at hn
      subst hn
      have : eqIC m "t" = false := by
        simp only [eqIC, beq_iff_eq] at hm
        simp only [eqIC, beq_eq_false_iff_ne, ne_eq]
        rw [hm]; decide
      simp [viewWorld, this])
    simp [viewWorld] at this

/-- parent / child with ON DELETE CASCADE: the write is announced for `parent` only -/
def cascadeWorld : World (Nat × Nat) Unit Nat Nat where
  exec := fun db _ => db.2
  cacheable := fun _ => true
  sig := fun _ => ['c']
  tabs := fun _ => ["CHILD"]
  tbl := fun db m => if eqIC m "parent" then db.1 else if eqIC m "child" then db.2 else 0

def cascadeOps : List (Op (Nat × Nat) Unit) :=
  [.select () 0, .write "PARENT" (fun db => (db.1 - 1, db.2 - 1)), .select () 0]

/-- (W) fails for a write that reaches another table (cascade, trigger, rollback), although
    (A) and (B) hold, and the cache then serves a stale row set -/
theorem C25_indirect_write_counterexample :
    SigSound cascadeWorld ∧ DepsCovered cascadeWorld ∧ ¬ (∀ op ∈ cascadeOps, WriteLocal cascadeWorld op) ∧
    (runA cascadeWorld 10 ⟨(3, 3), []⟩ cascadeOps).2 = [some 3, none, some 3] ∧
    (runD cascadeWorld (3, 3) cascadeOps).2 = [some 3, none, some 2] := by
  refine ⟨fun _ _ _ _ => rfl, ?_, ?_, by decide, by decide⟩
  · intro q db db' h
    have := h "CHILD" (by simp [cascadeWorld]) "child" (by decide)
    have e1 : eqIC "child" "parent" = false := by decide
    have e2 : eqIC "child" "child" = true := by decide
    simpa [cascadeWorld, e1, e2] using this
  · intro h
    have := h (.write "PARENT" (fun db => (db.1 - 1, db.2 - 1))) (by simp [cascadeOps]) (3, 3) "child" (by decide)
    have e1 : eqIC "child" "parent" = false := by decide
    have e2 : eqIC "child" "child" = true := by decide
    simp [cascadeWorld, e1, e2] at this

/-! ## the signature of the code: what equal keys guarantee -/

/-- **Equal signatures ⇒ same text up to what the lexer ignores.** If two texts have the same
    normal form, the scanner sees the same pieces in both: the same characters outside quotes
    up to ASCII case, separators at the same places, and the same quoted text, character for
    character. -/
theorem C25_sig_structure (a b : List Char) (h : normalizeQ a = normalizeQ b) : pieces a = pieces b := by
  have ha := rescan a .out false false false (fun _ _ => rfl)
  have hb := rescan b .out false false false (fun _ _ => rfl)
  simp only [reMode] at ha hb
  unfold normalizeQ pieces at h
  unfold pieces
  rw [← ha, ← hb, h]

/-- **String literals and delimited identifiers are part of the key, verbatim** — two queries
    that differ in a literal (case, inner blanks, anything) never share an entry. -/
theorem C25_sig_keeps_quoted_text (a b : List Char) (h : normalizeQ a = normalizeQ b) :
    quoted (pieces a) = quoted (pieces b) := by
  rw [C25_sig_structure a b h]

/-- normalising a normal form changes nothing -/
theorem C25_normalize_idempotent (a : List Char) : normalizeQ (normalizeQ a) = normalizeQ a := by
  have ha := rescan a .out false false false (fun _ _ => rfl)
  simp only [reMode] at ha
  unfold normalizeQ pieces
  rw [ha]

/-- the pairs that used to collide are told apart, the line break ending a comment is
    significant, and harmless variation (case of keywords/identifiers, runs of blanks of any
    kind, comments) still hits -/
theorem C25_sig_examples :
    normalizeQ "SELECT 'A'".toList ≠ normalizeQ "SELECT 'a'".toList ∧
    normalizeQ "SELECT 'a  b'".toList ≠ normalizeQ "SELECT 'a b'".toList ∧
    normalizeQ "SELECT \"Ab\" FROM t".toList ≠ normalizeQ "SELECT \"ab\" FROM t".toList ∧
    normalizeQ "SELECT 1 -- c\n+1".toList ≠ normalizeQ "SELECT 1 -- c +1".toList ∧
    normalizeQ "SELECT 'it''s' FROM T".toList = normalizeQ "  select\t'it''s'\n from -- x\n t ".toList ∧
    normalizeQ "SELECT 'it''s' FROM T".toList = "select 'it''s' from t".toList ∧
    quoted (pieces "SELECT 'a  B', \"Col\" FROM t".toList) = "'a  B'\"Col\"".toList := by
  decide

/-! ## quoted regions are part of the key, for every delimiter kind and any content -/

theorem regionsP_none_acc (acc acc' : List Char) (ps : List Piece) :
    regionsP none acc ps = regionsP none acc' ps := by
  cases ps with
  | nil => simp [regionsP]
  | cons x xs => cases x <;> simp [regionsP]

/-- the scanner state as invariant: in every mode the regions of the remaining text are the
    regions read off the pieces the scanner emits for it (the scanner's quote mode carries the
    opening delimiter, so other delimiter characters inside a region stay content) -/
theorem regions_scan (s : List Char) :
    (∀ d acc p e, regionsGo (.inq d) acc s = regionsP (some d) acc (scan (.quote d) p e s)) ∧
    (∀ acc p e, regionsGo .comment acc s = regionsP none [] (scan .comment p e s)) ∧
    (∀ acc p e, regionsGo .out acc s = regionsP none [] (scan .out p e s)) := by
  induction s with
  | nil => simp [regionsGo, regionsP, scan]
  | cons c cs ih =>
    obtain ⟨ihq, ihc, iho⟩ := ih
    refine ⟨?_, ?_, ?_⟩
    · intro d acc p e
      simp only [regionsGo, scan, regionsP]
      by_cases h : c = d
      · simp only [h, if_true]
        rw [iho [] false true]
      · simp only [h, if_false]
        exact ihq d (acc ++ [c]) false true
    · intro acc p e
      simp only [regionsGo, scan]
      split
      · exact iho [] true e
      · exact ihc [] true e
    · intro acc p e
      simp only [regionsGo, scan]
      split
      · exact iho [] true e
      · split
        · exact ihc [] true e
        · by_cases hq : isQuote c = true
          · simp only [hq, if_true]
            rw [ihq c [] false true]
            split <;> simp [regionsP]
          · have hqf : isQuote c = false := by simpa using hq
            simp only [hqf, Bool.false_eq_true, if_false]
            rw [iho [] false true]
            split <;> simp [regionsP]

/-- **Quoted regions, specified on the text itself, are exactly what the scanner keeps.** -/
theorem C25_regions_are_scanned (s : List Char) : regions s = regionsP none [] (pieces s) :=
  (regions_scan s).2.2 [] false false

/-- **The normal form preserves every quoted region**: every character between a delimiter
    (`'`, `"` or `` ` ``) and its matching close — whatever other delimiter characters, blanks,
    letter case or `--` it contains — for every text. -/
theorem C25_normal_form_preserves_regions (s : List Char) : regions (normalizeQ s) = regions s := by
  rw [C25_regions_are_scanned, C25_regions_are_scanned]
  have h := rescan s .out false false false (fun _ _ => rfl)
  simp only [reMode] at h
  unfold pieces normalizeQ pieces
  rw [h]

/-- **Equal keys ⇒ equal quoted regions**: two texts that differ anywhere inside a string
    literal or delimited identifier never share a cache entry. -/
theorem C25_equal_keys_equal_regions (a b : List Char) (h : normalizeQ a = normalizeQ b) :
    regions a = regions b := by
  rw [C25_regions_are_scanned, C25_regions_are_scanned, C25_sig_structure a b h]

/-- other delimiters inside a region are content: the pairs a delimiter-forgetting scanner
    would conflate are told apart, for all three delimiter kinds -/
theorem C25_foreign_quote_examples :
    regions "SELECT 'say \"Hi\"  x', \"a'B\", `q\"R`".toList
      = [('\'', "say \"Hi\"  x".toList), ('"', "a'B".toList), ('`', "q\"R".toList)] ∧
    normalizeQ "SELECT 'say \"Hi\"'".toList ≠ normalizeQ "SELECT 'say \"hi\"'".toList ∧
    normalizeQ "SELECT 'it`s  A'".toList ≠ normalizeQ "SELECT 'it`s A'".toList ∧
    normalizeQ "SELECT \"a'B\" FROM t".toList ≠ normalizeQ "SELECT \"a'b\" FROM t".toList ∧
    normalizeQ "SELECT `a'B` FROM t".toList ≠ normalizeQ "SELECT `a'b` FROM t".toList ∧
    normalizeQ "SELECT 'x''\"Q  r'".toList ≠ normalizeQ "SELECT 'x''\"Q r'".toList ∧
    normalizeQ "SELECT 1 -- \"c\n, 'A'".toList ≠ normalizeQ "SELECT 1 -- \"c\n, 'a'".toList ∧
    normalizeQ "SELECT 'say \"Hi\"' FROM T".toList = normalizeQ "select  'say \"Hi\"'\nfrom t".toList := by
  decide

/-- the normaliser before the repair (whole text lower-cased and collapsed) gave one key to
    queries with different results: (A) was false of the code as it was -/
theorem C25_old_normalizer_conflates :
    normalizeOld "SELECT 'A'".toList = normalizeOld "SELECT 'a'".toList ∧
    normalizeOld "SELECT 'a  b'".toList = normalizeOld "SELECT 'a b'".toList ∧
    normalizeOld "SELECT 1 -- c\n+1".toList = normalizeOld "SELECT 1 -- c +1".toList := by
  decide

/-! ## the extractor -/

/-- qualified names are cut at the last dot; a subquery at any depth (derived table, join
    condition, select list, WHERE, GROUP BY, HAVING, ORDER BY, CTE, set operation) is entered -/
theorem C25_extract_examples :
    cutQualifier "s.T" = "T" ∧ cutQualifier "a.b.T" = "T" ∧ cutQualifier "T" = "T" ∧
    extractTables (.mk (.join (.table "A") (.sub (.mk (.table "s.B") .leaf .leaf .leaf .leaf .leaf .nil .nil)) (.sub (.mk (.table "C") .leaf .leaf .leaf .leaf .leaf .nil .nil)))
      (.sub (.mk (.table "D") .leaf .leaf .leaf .leaf .leaf .nil .nil))
      (.node .leaf (.sub (.mk (.table "E") .leaf .leaf .leaf .leaf .leaf .nil .nil)))
      (.sub (.mk (.table "F") .leaf .leaf .leaf .leaf .leaf .nil .nil))
      (.sub (.mk (.table "G") .leaf .leaf .leaf .leaf .leaf .nil .nil))
      (.sub (.mk (.table "H") .leaf .leaf .leaf .leaf .leaf .nil .nil))
      (.cons (.mk (.table "I") .leaf .leaf .leaf .leaf .leaf .nil .nil) .nil)
      (.cons (.mk (.table "J") .leaf .leaf .leaf .leaf .leaf .nil .nil) .nil))
      = ["A", "B", "C", "D", "E", "F", "G", "H", "I", "J"] := by
  decide

end VibeProof.C25
