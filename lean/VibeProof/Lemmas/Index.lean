import VibeProof.Model.Index
/-
Lemmas about the index algebra of `Model/Index.lean`: map equations, the two specifications
(`HOk`, `UOk`) and "incremental maintenance = rebuild".
-/
namespace VibeProof.Idx
open VibeProof

/-- induction from the end of a list (rows are appended at the end) -/
theorem snoc_induction {α : Type} {P : List α → Prop} (nil : P [])
    (snoc : ∀ l a, P l → P (l ++ [a])) (l : List α) : P l := by
  have h : ∀ l : List α, P l.reverse := by
    intro l
    induction l with
    | nil => exact nil
    | cons a l ih => rw [List.reverse_cons]; exact snoc _ _ ih
  have h2 := h l.reverse
  rwa [List.reverse_reverse] at h2

/-! ### map equations -/

theorem hGet_erase (d : HData) (k k' : Key) :
    hGet (hErase d k) k' = if k' = k then none else hGet d k' := by
  induction d with
  | nil => simp [hErase, hGet]
  | cons e d ih =>
    obtain ⟨ke, p⟩ := e
    unfold hErase at ih ⊢
    by_cases h : ke = k
    · subst h
      simp only [List.filter_cons, ne_eq, not_true_eq_false, decide_false, Bool.false_eq_true,
        ↓reduceIte, ih, hGet]
      by_cases h2 : k' = ke
      · simp [h2]
      · have : ¬ ke = k' := fun h3 => h2 h3.symm
        simp [h2, this]
    · simp only [List.filter_cons, ne_eq, h, not_false_eq_true, decide_true, ↓reduceIte, hGet, ih]
      by_cases h2 : ke = k'
      · subst h2; simp [h]
      · simp [h2]

theorem hGet_insert (d : HData) (k k' : Key) (p : Nat) :
    hGet (hInsert d k p) k' = if k' = k then some p else hGet d k' := by
  unfold hInsert
  simp only [hGet, hGet_erase]
  by_cases h : k = k'
  · subst h; simp
  · have : ¬ k' = k := fun h3 => h h3.symm
    simp [h, this]

theorem uGet_filter (d : UData) (k k' : Key) :
    uGet (d.filter (fun e => decide (e.1 ≠ k))) k' = if k' = k then [] else uGet d k' := by
  induction d with
  | nil => simp [uGet]
  | cons e d ih =>
    obtain ⟨ke, v⟩ := e
    by_cases h : ke = k
    · subst h
      simp only [List.filter_cons, ne_eq, not_true_eq_false, decide_false, Bool.false_eq_true,
        ↓reduceIte, ih, uGet]
      by_cases h2 : k' = ke
      · simp [h2]
      · have : ¬ ke = k' := fun h3 => h2 h3.symm
        simp [h2, this]
    · simp only [List.filter_cons, ne_eq, h, not_false_eq_true, decide_true, ↓reduceIte, uGet, ih]
      by_cases h2 : ke = k'
      · subst h2; simp [h]
      · simp [h2]

theorem uGet_set (d : UData) (k k' : Key) (v : List Nat) :
    uGet (uSet d k v) k' = if k' = k then v else uGet d k' := by
  unfold uSet
  by_cases hv : v.isEmpty = true
  · simp only [hv, ↓reduceIte, uGet_filter]
    have : v = [] := List.isEmpty_iff.mp hv
    subst this
    by_cases h : k' = k <;> simp [h]
  · simp only [hv, Bool.false_eq_true, ↓reduceIte, uGet, uGet_filter]
    by_cases h : k = k'
    · subst h; simp
    · have : ¬ k' = k := fun h3 => h h3.symm
      simp [h, this]

theorem uGet_add (d : UData) (k k' : Key) (p : Nat) :
    uGet (uAdd d k p) k' = if k' = k then uGet d k ++ [p] else uGet d k' := by
  simp [uAdd, uGet_set]

theorem uGet_del (d : UData) (k k' : Key) (p : Nat) :
    uGet (uDel d k p) k' = if k' = k then (uGet d k).filter (fun q => q != p) else uGet d k' := by
  simp [uDel, uGet_set]

/-! ### specifications -/

/-- the row at position `p` is entered under key `k` -/
def HoldsAt (f : Row → Option Key) (rows : List Row) (k : Key) (p : Nat) : Prop :=
  ∃ r, rows[p]? = some r ∧ f r = some k

/-- `p` is the last position holding `k` (what a rebuild leaves in a key → position map) -/
def IsLast (f : Row → Option Key) (rows : List Row) (k : Key) (p : Nat) : Prop :=
  HoldsAt f rows k p ∧ ∀ q, p < q → ¬ HoldsAt f rows k q

/-- a hash index mirrors the rows: every key is mapped to the last position holding it and
nothing else is mapped -/
def HOk (d : HData) (f : Row → Option Key) (rows : List Row) : Prop :=
  ∀ k p, hGet d k = some p ↔ IsLast f rows k p

/-- a user-defined index mirrors the rows: each key's list has no repetition and holds exactly
the positions of the rows with that key -/
def UOk (d : UData) (f : Row → Key) (rows : List Row) : Prop :=
  (∀ k, (uGet d k).Nodup) ∧ ∀ k p, p ∈ uGet d k ↔ ∃ r, rows[p]? = some r ∧ f r = k

theorem getElem?_snoc (rows : List Row) (r : Row) (p : Nat) (x : Row) :
    (rows ++ [r])[p]? = some x ↔ rows[p]? = some x ∨ (p = rows.length ∧ x = r) := by
  rw [List.getElem?_append]
  by_cases h : p < rows.length
  · simp only [h, ↓reduceIte]
    constructor
    · intro h1; exact Or.inl h1
    · intro h1
      rcases h1 with h1 | ⟨h1, _⟩
      · exact h1
      · omega
  · simp only [h, ↓reduceIte]
    have hn : rows[p]? = none := List.getElem?_eq_none (by omega)
    by_cases h2 : p = rows.length
    · subst h2; simp [eq_comm]
    · have : p - rows.length ≠ 0 := by omega
      have h3 : ([r] : List Row)[p - rows.length]? = none := by
        apply List.getElem?_eq_none; simp; omega
      simp [hn, h3, h2]

/-! ### user-defined index: push, rebuild, patch -/

theorem UOk_nil (f : Row → Key) : UOk [] f [] := by
  constructor
  · intro k; simp [uGet]
  · intro k p; simp [uGet]

theorem UOk_push (d : UData) (f : Row → Key) (rows : List Row) (r : Row) (h : UOk d f rows) :
    UOk (uAdd d (f r) rows.length) f (rows ++ [r]) := by
  obtain ⟨hn, hm⟩ := h
  have hnot : rows.length ∉ uGet d (f r) := by
    intro hin
    obtain ⟨x, hx, _⟩ := (hm _ _).mp hin
    have : rows[rows.length]? = none := List.getElem?_eq_none (Nat.le_refl _)
    rw [this] at hx; cases hx
  constructor
  · intro k
    rw [uGet_add]
    by_cases hk : k = f r
    · simp only [hk, ↓reduceIte]
      rw [List.nodup_append]
      refine ⟨hn _, by simp, ?_⟩
      intro a ha b hb
      simp at hb; subst hb
      intro hab; subst hab; exact hnot ha
    · simp only [hk, ↓reduceIte]; exact hn k
  · intro k p
    rw [uGet_add]
    by_cases hk : k = f r
    · subst hk
      simp only [↓reduceIte, List.mem_append, List.mem_singleton, hm, getElem?_snoc]
      constructor
      · rintro (⟨x, hx, hfx⟩ | hp)
        · exact ⟨x, Or.inl hx, hfx⟩
        · exact ⟨r, Or.inr ⟨hp, rfl⟩, rfl⟩
      · rintro ⟨x, hx | ⟨hp, hxr⟩, hfx⟩
        · exact Or.inl ⟨x, hx, hfx⟩
        · exact Or.inr hp
    · simp only [hk, ↓reduceIte, hm, getElem?_snoc]
      constructor
      · rintro ⟨x, hx, hfx⟩; exact ⟨x, Or.inl hx, hfx⟩
      · rintro ⟨x, hx | ⟨_, hxr⟩, hfx⟩
        · exact ⟨x, hx, hfx⟩
        · subst hxr; exact absurd hfx.symm hk

theorem uBuild_snoc (cols : List Nat) (rows : List Row) (r : Row) :
    uBuild cols (rows ++ [r]) = uAdd (uBuild cols rows) (proj cols r) rows.length := by
  simp [uBuild, List.zipIdx_append, List.foldl_append]

/-- a rebuild mirrors the rows, whatever they are -/
theorem UOk_build (cols : List Nat) (rows : List Row) : UOk (uBuild cols rows) (proj cols) rows := by
  induction rows using snoc_induction with
  | nil => exact UOk_nil _
  | snoc rows r ih =>
    rw [uBuild_snoc]; exact UOk_push _ _ _ _ ih

theorem getElem?_set' (rows : List Row) (i p : Nat) (new x : Row) (hi : i < rows.length) :
    (rows.set i new)[p]? = some x ↔ (p = i ∧ x = new) ∨ (p ≠ i ∧ rows[p]? = some x) := by
  rw [List.getElem?_set]
  by_cases h : i = p
  · subst h; simp [hi, eq_comm]
  · have : ¬ p = i := fun h3 => h h3.symm
    simp [h, this]

/-- the incremental patch of UPDATE equals (up to the order inside a key's list) the rebuild -/
theorem UOk_patch (d : UData) (f : Row → Key) (rows : List Row) (i : Nat) (old new : Row)
    (h : UOk d f rows) (hold : rows[i]? = some old) :
    UOk (uPatch d (f old) (f new) i) f (rows.set i new) := by
  obtain ⟨hn, hm⟩ := h
  have hi : i < rows.length := by
    rcases Nat.lt_or_ge i rows.length with h1 | h1
    · exact h1
    · rw [List.getElem?_eq_none h1] at hold; cases hold
  unfold uPatch
  by_cases hk : f old = f new
  · simp only [hk, ↓reduceIte]
    refine ⟨hn, ?_⟩
    intro k p
    rw [hm]
    constructor
    · rintro ⟨x, hx, hfx⟩
      by_cases hp : p = i
      · subst hp
        rw [hold] at hx; cases hx
        exact ⟨new, (getElem?_set' _ _ _ _ _ hi).mpr (Or.inl ⟨rfl, rfl⟩), hk ▸ hfx⟩
      · exact ⟨x, (getElem?_set' _ _ _ _ _ hi).mpr (Or.inr ⟨hp, hx⟩), hfx⟩
    · rintro ⟨x, hx, hfx⟩
      rcases (getElem?_set' _ _ _ _ _ hi).mp hx with ⟨hp, hxn⟩ | ⟨hp, hx'⟩
      · subst hp; subst hxn; exact ⟨old, hold, hk.trans hfx⟩
      · exact ⟨x, hx', hfx⟩
  · simp only [hk, ↓reduceIte]
    have hk' : ¬ f new = f old := fun h3 => hk h3.symm
    constructor
    · intro k
      rw [uGet_add]
      by_cases h1 : k = f new
      · simp only [h1, ↓reduceIte, uGet_del, hk']
        rw [List.nodup_append]
        refine ⟨hn _, by simp, ?_⟩
        intro a ha b hb
        simp at hb; subst hb
        intro hab; subst hab
        obtain ⟨x, hx, hfx⟩ := (hm _ _).mp ha
        rw [hold] at hx; cases hx
        exact hk hfx
      · simp only [h1, ↓reduceIte, uGet_del]
        by_cases h2 : k = f old
        · simp only [h2, ↓reduceIte]; exact (hn _).filter _
        · simp only [h2, ↓reduceIte]; exact hn k
    · intro k p
      rw [uGet_add]
      by_cases h1 : k = f new
      · subst h1
        simp only [↓reduceIte, uGet_del, hk', List.mem_append, List.mem_singleton, hm]
        constructor
        · rintro (⟨x, hx, hfx⟩ | hp)
          · have hp : p ≠ i := by
              intro hp; subst hp; rw [hold] at hx; cases hx; exact hk hfx
            exact ⟨x, (getElem?_set' _ _ _ _ _ hi).mpr (Or.inr ⟨hp, hx⟩), hfx⟩
          · subst hp
            exact ⟨new, (getElem?_set' _ _ _ _ _ hi).mpr (Or.inl ⟨rfl, rfl⟩), rfl⟩
        · rintro ⟨x, hx, hfx⟩
          rcases (getElem?_set' _ _ _ _ _ hi).mp hx with ⟨hp, _⟩ | ⟨_, hx'⟩
          · exact Or.inr hp
          · exact Or.inl ⟨x, hx', hfx⟩
      · simp only [h1, ↓reduceIte, uGet_del]
        by_cases h2 : k = f old
        · subst h2
          simp only [↓reduceIte, List.mem_filter, hm, bne_iff_ne, ne_eq]
          constructor
          · rintro ⟨⟨x, hx, hfx⟩, hp⟩
            exact ⟨x, (getElem?_set' _ _ _ _ _ hi).mpr (Or.inr ⟨hp, hx⟩), hfx⟩
          · rintro ⟨x, hx, hfx⟩
            rcases (getElem?_set' _ _ _ _ _ hi).mp hx with ⟨_, hxn⟩ | ⟨hp, hx'⟩
            · subst hxn; exact absurd hfx hk'
            · exact ⟨⟨x, hx', hfx⟩, hp⟩
        · simp only [h2, ↓reduceIte, hm]
          constructor
          · rintro ⟨x, hx, hfx⟩
            have hp : p ≠ i := by
              intro hp; subst hp; rw [hold] at hx; cases hx; exact h2 hfx.symm
            exact ⟨x, (getElem?_set' _ _ _ _ _ hi).mpr (Or.inr ⟨hp, hx⟩), hfx⟩
          · rintro ⟨x, hx, hfx⟩
            rcases (getElem?_set' _ _ _ _ _ hi).mp hx with ⟨_, hxn⟩ | ⟨_, hx'⟩
            · subst hxn; exact absurd hfx.symm h1
            · exact ⟨x, hx', hfx⟩

/-- two structures that mirror the same rows agree key by key up to order -/
theorem UOk_perm (d d' : UData) (f : Row → Key) (rows : List Row) (h : UOk d f rows)
    (h' : UOk d' f rows) (k : Key) : (uGet d k).Perm (uGet d' k) := by
  rw [List.perm_ext_iff_of_nodup (h.1 k) (h'.1 k)]
  intro p; rw [h.2, h'.2]

/-- consequently index-driven lookups fetch the same rows as with a freshly built index -/
theorem uLookup_perm (d d' : UData) (f : Row → Key) (rows : List Row) (h : UOk d f rows)
    (h' : UOk d' f rows) (k : Key) : (uLookup d rows k).Perm (uLookup d' rows k) :=
  (UOk_perm d d' f rows h h' k).filterMap _

/-! ### hash index: push, rebuild, in-place update -/

theorem HoldsAt_lt {f : Row → Option Key} {rows : List Row} {k : Key} {p : Nat}
    (h : HoldsAt f rows k p) : p < rows.length := by
  obtain ⟨r, hr, _⟩ := h
  rcases Nat.lt_or_ge p rows.length with h1 | h1
  · exact h1
  · rw [List.getElem?_eq_none h1] at hr; cases hr

theorem HoldsAt_snoc (f : Row → Option Key) (rows : List Row) (r : Row) (k : Key) (p : Nat) :
    HoldsAt f (rows ++ [r]) k p ↔ HoldsAt f rows k p ∨ (p = rows.length ∧ f r = some k) := by
  unfold HoldsAt
  constructor
  · rintro ⟨x, hx, hfx⟩
    rcases (getElem?_snoc _ _ _ _).mp hx with hx | ⟨hp, hxr⟩
    · exact Or.inl ⟨x, hx, hfx⟩
    · subst hxr; exact Or.inr ⟨hp, hfx⟩
  · rintro (⟨x, hx, hfx⟩ | ⟨hp, hfr⟩)
    · exact ⟨x, (getElem?_snoc _ _ _ _).mpr (Or.inl hx), hfx⟩
    · exact ⟨r, (getElem?_snoc _ _ _ _).mpr (Or.inr ⟨hp, rfl⟩), hfr⟩

theorem IsLast_snoc_other (f : Row → Option Key) (rows : List Row) (r : Row) (k : Key) (p : Nat)
    (h : f r ≠ some k) : IsLast f (rows ++ [r]) k p ↔ IsLast f rows k p := by
  unfold IsLast
  simp only [HoldsAt_snoc, h, and_false, or_false]

theorem IsLast_snoc_same (f : Row → Option Key) (rows : List Row) (r : Row) (k : Key) (p : Nat)
    (h : f r = some k) : IsLast f (rows ++ [r]) k p ↔ p = rows.length := by
  unfold IsLast
  simp only [HoldsAt_snoc, h, and_true]
  constructor
  · rintro ⟨h1, h2⟩
    rcases h1 with h1 | h1
    · have hlt := HoldsAt_lt h1
      exact absurd (Or.inr rfl) (h2 rows.length hlt)
    · exact h1
  · intro hp
    subst hp
    refine ⟨Or.inr rfl, ?_⟩
    intro q hq hh
    rcases hh with hh | hh
    · have := HoldsAt_lt hh; omega
    · omega

theorem HOk_nil (f : Row → Option Key) : HOk [] f [] := by
  intro k p
  simp only [hGet, IsLast, HoldsAt]
  constructor
  · intro h; cases h
  · rintro ⟨⟨r, hr, _⟩, _⟩; simp at hr

/-- appending a row and entering it (`update_for_insert`) keeps the index a mirror — with no
condition on the row -/
theorem HOk_push (cols : List Nat) (sn : Bool) (d : HData) (rows : List Row) (r : Row)
    (h : HOk d (hKey cols sn) rows) :
    HOk (hIns cols sn d r rows.length) (hKey cols sn) (rows ++ [r]) := by
  intro k p
  unfold hIns
  cases hf : hKey cols sn r with
  | none =>
    simp only
    rw [IsLast_snoc_other _ _ _ _ _ (by rw [hf]; simp)]
    exact h k p
  | some kr =>
    simp only
    rw [hGet_insert]
    by_cases hk : k = kr
    · subst hk
      simp only [↓reduceIte]
      rw [IsLast_snoc_same _ _ _ _ _ hf]
      constructor
      · intro h1; cases h1; rfl
      · intro h1; rw [h1]
    · simp only [hk, ↓reduceIte]
      rw [IsLast_snoc_other _ _ _ _ _ (by rw [hf]; intro h3; cases h3; exact hk rfl)]
      exact h k p

theorem hBuild_snoc (cols : List Nat) (sn : Bool) (rows : List Row) (r : Row) :
    hBuild cols sn (rows ++ [r]) = hIns cols sn (hBuild cols sn rows) r rows.length := by
  simp [hBuild, List.zipIdx_append, List.foldl_append]

/-- a rebuild mirrors the rows, whatever they are -/
theorem HOk_build (cols : List Nat) (sn : Bool) (rows : List Row) :
    HOk (hBuild cols sn rows) (hKey cols sn) rows := by
  induction rows using snoc_induction with
  | nil => exact HOk_nil _
  | snoc rows r ih => rw [hBuild_snoc]; exact HOk_push _ _ _ _ _ ih

theorem HoldsAt_set (f : Row → Option Key) (rows : List Row) (i : Nat) (new : Row) (k : Key)
    (q : Nat) (hi : i < rows.length) :
    HoldsAt f (rows.set i new) k q ↔ (q = i ∧ f new = some k) ∨ (q ≠ i ∧ HoldsAt f rows k q) := by
  unfold HoldsAt
  constructor
  · rintro ⟨x, hx, hfx⟩
    rcases (getElem?_set' _ _ _ _ _ hi).mp hx with ⟨hq, hxn⟩ | ⟨hq, hx'⟩
    · subst hxn; exact Or.inl ⟨hq, hfx⟩
    · exact Or.inr ⟨hq, x, hx', hfx⟩
  · rintro (⟨hq, hfn⟩ | ⟨hq, x, hx, hfx⟩)
    · exact ⟨new, (getElem?_set' _ _ _ _ _ hi).mpr (Or.inl ⟨hq, rfl⟩), hfn⟩
    · exact ⟨x, (getElem?_set' _ _ _ _ _ hi).mpr (Or.inr ⟨hq, hx⟩), hfx⟩

/-- no row other than the one at `i` is entered under `k` -/
def NoOther (f : Row → Option Key) (rows : List Row) (i : Nat) (k : Key) : Prop :=
  ∀ q, q ≠ i → ¬ HoldsAt f rows k q

theorem IsLast_only (f : Row → Option Key) (rows : List Row) (i : Nat) (old : Row) (k : Key)
    (p : Nat) (hold : rows[i]? = some old) (hf : f old = some k) (hno : NoOther f rows i k) :
    IsLast f rows k p ↔ p = i := by
  constructor
  · rintro ⟨h1, _⟩
    by_cases hp : p = i
    · exact hp
    · exact absurd h1 (hno p hp)
  · intro hp
    subst hp
    refine ⟨⟨old, hold, hf⟩, ?_⟩
    intro q hq; exact hno q (by omega)

theorem IsLast_set (f : Row → Option Key) (rows : List Row) (i : Nat) (old new : Row) (k : Key)
    (p : Nat) (hold : rows[i]? = some old)
    (hno : ∀ k, f old = some k → NoOther f rows i k)
    (hnn : ∀ k, f new = some k → NoOther f rows i k) :
    IsLast f (rows.set i new) k p ↔
      (f new = some k ∧ p = i) ∨ (f new ≠ some k ∧ f old ≠ some k ∧ IsLast f rows k p) := by
  have hi : i < rows.length := by
    rcases Nat.lt_or_ge i rows.length with h1 | h1
    · exact h1
    · rw [List.getElem?_eq_none h1] at hold; cases hold
  unfold IsLast
  simp only [HoldsAt_set _ _ _ _ _ _ hi]
  by_cases hfn : f new = some k
  · have hn := hnn k hfn
    simp only [hfn, and_true, ne_eq, not_true_eq_false, false_and, or_false, true_and]
    constructor
    · rintro ⟨h1 | ⟨hp, h1⟩, _⟩
      · exact h1
      · exact absurd h1 (hn p hp)
    · intro hp
      subst hp
      refine ⟨Or.inl rfl, ?_⟩
      intro q hq hh
      rcases hh with hh | ⟨hq2, hh⟩
      · omega
      · exact hn q hq2 hh
  · simp only [hfn, and_false, false_or, ne_eq, not_false_eq_true, true_and, false_and]
    by_cases hfo : f old = some k
    · have ho := hno k hfo
      simp only [hfo, not_true_eq_false, false_and, iff_false, not_and]
      intro h1; exact absurd h1.2 (ho p h1.1)
    · simp only [hfo, not_false_eq_true, true_and]
      have hnot : ¬ HoldsAt f rows k i := by
        rintro ⟨x, hx, hfx⟩; rw [hold] at hx; cases hx; exact hfo hfx
      constructor
      · rintro ⟨⟨_, h1⟩, h2⟩
        refine ⟨h1, ?_⟩
        intro q hq hh
        by_cases hqi : q = i
        · subst hqi; exact hnot hh
        · exact h2 q hq ⟨hqi, hh⟩
      · rintro ⟨h1, h2⟩
        have hpi : p ≠ i := by intro hp; subst hp; exact hnot h1
        refine ⟨⟨hpi, h1⟩, ?_⟩
        intro q hq hh; exact h2 q hq hh.2

/-- the in-place maintenance of UPDATE (`update_for_update` / `update_selective`) equals the
rebuild provided no OTHER row is entered under the old or under the new key -/
theorem HOk_upd (cols : List Nat) (sn : Bool) (d : HData) (rows : List Row) (i : Nat)
    (old new : Row) (h : HOk d (hKey cols sn) rows) (hold : rows[i]? = some old)
    (hno : ∀ k, hKey cols sn old = some k → NoOther (hKey cols sn) rows i k)
    (hnn : ∀ k, hKey cols sn new = some k → NoOther (hKey cols sn) rows i k) :
    HOk (hUpd cols sn d old new i) (hKey cols sn) (rows.set i new) := by
  intro k p
  rw [IsLast_set _ _ _ _ _ _ _ hold hno hnn]
  have honly : ∀ ko, hKey cols sn old = some ko → (hGet d ko = some p ↔ p = i) := by
    intro ko hko
    rw [h ko p]; exact IsLast_only _ _ _ _ _ _ hold hko (hno ko hko)
  unfold hUpd
  cases sn with
  | false =>
    have hfo : hKey cols false old = some (proj cols old) := by simp [hKey]
    have hfn : hKey cols false new = some (proj cols new) := by simp [hKey]
    simp only [Bool.false_eq_true, ↓reduceIte, hfo, hfn, Option.some.injEq, ne_eq]
    by_cases hkk : proj cols old = proj cols new
    · simp only [hkk, not_true_eq_false, ↓reduceIte]
      by_cases hk : proj cols new = k
      · subst hk
        have := honly _ (hkk ▸ hfo)
        simp only [true_and, not_true_eq_false, false_and, or_false]
        exact this
      · simp only [hk, false_and, not_false_eq_true, true_and, false_or]
        exact h k p
    · simp only [hkk, not_false_eq_true, ↓reduceIte, hGet_insert, hGet_erase]
      by_cases hk : proj cols new = k
      · subst hk
        simp only [↓reduceIte, Option.some.injEq, true_and, not_true_eq_false, false_and, or_false]
        exact eq_comm
      · have hk' : ¬ k = proj cols new := fun h3 => hk h3.symm
        simp only [hk', ↓reduceIte, hk, false_and, not_false_eq_true, true_and, false_or]
        by_cases hk2 : proj cols old = k
        · subst hk2; simp
        · have hk2' : ¬ k = proj cols old := fun h3 => hk2 h3.symm
          simp only [hk2', ↓reduceIte, hk2, not_false_eq_true, true_and]
          exact h k p
  | true =>
    simp only [↓reduceIte, ne_eq]
    by_cases hno_ : hasNull (proj cols old) = true <;> by_cases hnn_ : hasNull (proj cols new) = true
    · -- both keys contain NULL: neither row is entered, nothing changes
      have hfo : hKey cols true old = none := by simp [hKey, hno_]
      have hfn : hKey cols true new = none := by simp [hKey, hnn_]
      simp only [hno_, hnn_, Bool.true_eq_false, and_false, ↓reduceIte, hfo, hfn, reduceCtorEq,
        false_and, not_false_eq_true, true_and, false_or]
      exact h k p
    · have hfo : hKey cols true old = none := by simp [hKey, hno_]
      have hfn : hKey cols true new = some (proj cols new) := by simp [hKey, hnn_]
      simp only [hno_, Bool.true_eq_false, and_false, ↓reduceIte, hnn_, Bool.false_eq_true, hfo,
        hfn, Option.some.injEq, reduceCtorEq, not_false_eq_true, true_and, hGet_insert]
      by_cases hk : proj cols new = k
      · subst hk
        simp only [↓reduceIte, Option.some.injEq, true_and, not_true_eq_false, false_and, or_false]
        exact eq_comm
      · have hk' : ¬ k = proj cols new := fun h3 => hk h3.symm
        simp only [hk', ↓reduceIte, hk, false_and, not_false_eq_true, true_and, false_or]
        exact h k p
    · have hfo : hKey cols true old = some (proj cols old) := by simp [hKey, hno_]
      have hfn : hKey cols true new = none := by simp [hKey, hnn_]
      have hne : proj cols old ≠ proj cols new := by
        intro heq; rw [heq] at hno_; exact hno_ hnn_
      simp only [Bool.not_eq_true] at hno_
      simp only [hne, not_false_eq_true, hno_, and_self, ↓reduceIte, hnn_, hfo, hfn, reduceCtorEq,
        false_and, Option.some.injEq, true_and, false_or, hGet_erase]
      by_cases hk2 : proj cols old = k
      · subst hk2; simp
      · have hk2' : ¬ k = proj cols old := fun h3 => hk2 h3.symm
        simp only [hk2', ↓reduceIte, hk2, not_false_eq_true, true_and]
        exact h k p
    · have hfo : hKey cols true old = some (proj cols old) := by simp [hKey, hno_]
      have hfn : hKey cols true new = some (proj cols new) := by simp [hKey, hnn_]
      simp only [Bool.not_eq_true] at hno_ hnn_
      simp only [hno_, and_true, hnn_, Bool.false_eq_true, ↓reduceIte, hfo, hfn, Option.some.injEq]
      by_cases hkk : proj cols old = proj cols new
      · simp only [hkk, not_true_eq_false, ↓reduceIte, hGet_insert]
        by_cases hk : proj cols new = k
        · subst hk
          simp only [↓reduceIte, Option.some.injEq, true_and, not_true_eq_false, false_and, or_false]
          exact eq_comm
        · have hk' : ¬ k = proj cols new := fun h3 => hk h3.symm
          simp only [hk', ↓reduceIte, hk, false_and, not_false_eq_true, true_and, false_or]
          exact h k p
      · simp only [hkk, not_false_eq_true, ↓reduceIte, hGet_insert, hGet_erase]
        by_cases hk : proj cols new = k
        · subst hk
          simp only [↓reduceIte, Option.some.injEq, true_and, not_true_eq_false, false_and, or_false]
          exact eq_comm
        · have hk' : ¬ k = proj cols new := fun h3 => hk h3.symm
          simp only [hk', ↓reduceIte, hk, false_and, not_false_eq_true, true_and, false_or]
          by_cases hk2 : proj cols old = k
          · subst hk2; simp
          · have hk2' : ¬ k = proj cols old := fun h3 => hk2 h3.symm
            simp only [hk2', ↓reduceIte, hk2, not_false_eq_true, true_and]
            exact h k p

/-- two hash indexes that mirror the same rows answer every lookup alike -/
theorem HOk_ext (d d' : HData) (f : Row → Option Key) (rows : List Row) (h : HOk d f rows)
    (h' : HOk d' f rows) (k : Key) : hGet d k = hGet d' k := by
  cases h1 : hGet d k with
  | none =>
    cases h2 : hGet d' k with
    | none => rfl
    | some p => have := (h k p).mpr ((h' k p).mp h2); rw [h1] at this; cases this
  | some p => exact ((h' k p).mpr ((h k p).mp h1)).symm

/-- if some row is entered under `k` then there is a last such row -/
theorem exists_last (f : Row → Option Key) (rows : List Row) (k : Key)
    (h : ∃ p, HoldsAt f rows k p) : ∃ p, IsLast f rows k p := by
  induction rows using snoc_induction with
  | nil => obtain ⟨p, r, hr, _⟩ := h; simp at hr
  | snoc rows r ih =>
    by_cases hfr : f r = some k
    · exact ⟨rows.length, (IsLast_snoc_same _ _ _ _ _ hfr).mpr rfl⟩
    · obtain ⟨p, hp⟩ := h
      rw [HoldsAt_snoc] at hp
      rcases hp with hp | ⟨_, hp⟩
      · obtain ⟨q, hq⟩ := ih ⟨p, hp⟩
        exact ⟨q, (IsLast_snoc_other _ _ _ _ _ hfr).mpr hq⟩
      · exact absurd hp hfr

/-- (T3) a uniqueness check that asks `contains_key` sees exactly the keys of the current rows -/
theorem HOk_contains (d : HData) (f : Row → Option Key) (rows : List Row) (h : HOk d f rows)
    (k : Key) : (hGet d k).isSome = true ↔ ∃ p, HoldsAt f rows k p := by
  constructor
  · intro h1
    cases h2 : hGet d k with
    | none => rw [h2] at h1; cases h1
    | some p => exact ⟨p, ((h k p).mp h2).1⟩
  · intro h1
    obtain ⟨p, hp⟩ := exists_last f rows k h1
    rw [(h k p).mpr hp]; rfl

/-- replacing a row by one entered under the same key (or equally not entered) changes nothing
for this index: the skipped maintenance of `update_selective` is sound -/
theorem HOk_set_same (d : HData) (f : Row → Option Key) (rows : List Row) (i : Nat) (old new : Row)
    (h : HOk d f rows) (hold : rows[i]? = some old) (hf : f old = f new) :
    HOk d f (rows.set i new) := by
  have hi : i < rows.length := by
    rcases Nat.lt_or_ge i rows.length with h1 | h1
    · exact h1
    · rw [List.getElem?_eq_none h1] at hold; cases hold
  have hh : ∀ k q, HoldsAt f (rows.set i new) k q ↔ HoldsAt f rows k q := by
    intro k q
    rw [HoldsAt_set _ _ _ _ _ _ hi]
    by_cases hq : q = i
    · subst hq
      simp only [true_and, ne_eq, not_true_eq_false, false_and, or_false]
      constructor
      · intro h1; exact ⟨old, hold, hf ▸ h1⟩
      · rintro ⟨x, hx, hfx⟩; rw [hold] at hx; cases hx; exact hf ▸ hfx
    · simp [hq]
  intro k p
  rw [h k p]
  unfold IsLast
  simp only [hh]

end VibeProof.Idx
