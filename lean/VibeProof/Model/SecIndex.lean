import VibeProof.Model.Value
import VibeProof.Model.Expr
/-
User-defined (secondary) indexes as coded in
  crates/vibesql-storage/src/database/indexes/value_normalization.rs  (normalize_for_comparison)
  crates/vibesql-storage/src/database/indexes/index_maintenance.rs    (create_index / add_to_indexes)
  crates/vibesql-storage/src/database/indexes/range_scan.rs           (range_scan, InMemory; after
      543a6998, f6c9f17a, d41df521)
  crates/vibesql-storage/src/database/indexes/point_lookup.rs         (multi_lookup)
  crates/vibesql-executor/src/select/scan/index_scan/predicate.rs     (extract_range_predicate)
  crates/vibesql-executor/src/select/scan/index_scan/execution.rs     (where_clause_fully_satisfied_by_index)

An index is the sorted association list that `BTreeMap<Vec<SqlValue>, Vec<usize>>` denotes.
`BTreeMap::range(bounds)` returns exactly the entries whose key lies within the bounds, in key
order: it is modelled as a filter over the sorted entries.
-/
namespace VibeProof.SecIndex
open VibeProof

/-- `i64 as f64` on integers: round to nearest, ties to even, at 53 significant bits -/
def roundF64 (x : Int) : Int :=
  let a := x.natAbs
  if a < 2 ^ 53 then x
  else
    let e := Nat.log2 a - 52
    let q := a / 2 ^ e
    let r := a % 2 ^ e
    let half := 2 ^ (e - 1)
    let q' := if r > half ∨ (r = half ∧ q % 2 = 1) then q + 1 else q
    if x < 0 then -((q' * 2 ^ e : Nat) : Int) else ((q' * 2 ^ e : Nat) : Int)

/-- `normalize_for_comparison`: every numeric becomes a Double; other values unchanged -/
def normValue : Value → Value
  | .int i => .int (roundF64 i)
  | v => v

abbrev Key := List Value

/-- `apply_prefix_truncation`: the first `n` characters of a string key component (prefix-length
index column); other values unchanged -/
def truncValue (n : Nat) : Value → Value
  | .str s => .str (String.ofList (s.toList.take n))
  | v => v

/-- type tag used by `Ord for SqlValue` for values of different types (normalised numerics are
Double = 8, Varchar = 10, Boolean = 11; NULL is handled before) -/
def tag : Value → Nat
  | .null => 0
  | .int _ => 8
  | .str _ => 10
  | .bool _ => 11

/-- `Ord for SqlValue`: NULL is the smallest value; same-typed values by value; else by type tag -/
def vcmp : Value → Value → Ordering
  | .null, .null => .eq
  | .null, _ => .lt
  | _, .null => .gt
  | a, b =>
    match Value.cmp? a b with
    | some o => o
    | none => compare (tag a) (tag b)

/-- `Ord for Vec<SqlValue>` / slices: lexicographic, a proper prefix is smaller -/
def kcmp : Key → Key → Ordering
  | [], [] => .eq
  | [], _ :: _ => .lt
  | _ :: _, [] => .gt
  | a :: as, b :: bs =>
    match vcmp a b with
    | .eq => kcmp as bs
    | o => o

abbrev Index := List (Key × List Nat)

/-- `data.entry(key).or_default().push(row_idx)` on the sorted map -/
def Index.insert : Index → Key → Nat → Index
  | [], k, p => [(k, [p])]
  | (k', ps) :: rest, k, p =>
    match kcmp k k' with
    | .lt => (k, [p]) :: (k', ps) :: rest
    | .eq => (k', ps ++ [p]) :: rest
    | .gt => (k', ps) :: Index.insert rest k p

def buildFrom : Index → Nat → List Key → Index
  | idx, _, [] => idx
  | idx, p, k :: ks => buildFrom (idx.insert (k.map normValue) p) (p + 1) ks

/-- `create_index` over the rows' key columns (already projected, not yet normalised) -/
def build (keys : List Key) : Index := buildFrom [] 0 keys

/-- remove a position from the entry of a key (`update_indexes_for_update`, old key) -/
def Index.remove : Index → Key → Nat → Index
  | [], _, _ => []
  | (k', ps) :: rest, k, p =>
    match kcmp k k' with
    | .eq =>
      let ps' := ps.filter (fun q => q != p)
      if ps'.isEmpty then rest else (k', ps') :: rest
    | _ => (k', ps) :: Index.remove rest k p

/-- `update_indexes_for_update`: nothing when the key is unchanged, else remove + insert -/
def Index.update (idx : Index) (old new : Key) (p : Nat) : Index :=
  let o := old.map normValue
  let n := new.map normValue
  if o == n then idx else (idx.remove o p).insert n p

inductive Bound where
  | incl (k : Key)
  | excl (k : Key)
  | unb
  deriving Repr, Inhabited

def Bound.lowerOK : Bound → Key → Bool
  | .incl b, k => kcmp k b != .lt
  | .excl b, k => kcmp k b == .gt
  | .unb, _ => true

def Bound.upperOK : Bound → Key → Bool
  | .incl b, k => kcmp k b != .gt
  | .excl b, k => kcmp k b == .lt
  | .unb, _ => true

/-- `is_invalid_btree_range`: start > end, or start = end with both bounds excluded -/
def invalidRange : Bound → Bound → Bool
  | .unb, _ => false
  | _, .unb => false
  | s, e =>
    let sk := match s with | .incl k => k | .excl k => k | .unb => []
    let ek := match e with | .incl k => k | .excl k => k | .unb => []
    match kcmp sk ek with
    | .gt => true
    | .eq => (match s, e with | .excl _, .excl _ => true | _, _ => false)
    | .lt => false

/-- `BTreeMap::range((start, end))` followed by collecting the row indices -/
def rangeEntries (idx : Index) (s e : Bound) : Index :=
  idx.filter (fun kp => s.lowerOK kp.1 && e.upperOK kp.1)

def positions (es : Index) : List Nat := es.flatMap (·.2)

/-- `start_val > end_val` on SqlValue is the *partial* comparison: false for NULL / mixed types -/
def sqlGt (a b : Value) : Bool :=
  match a, b with
  | .null, _ => false
  | _, .null => false
  | x, y => Value.cmp? x y == some .gt

def firstIs (v : Value) (k : Key) : Bool :=
  match k with
  | [] => false
  | x :: _ => x == v

/-- equal inclusive bounds: walk from `[v]` while the first column equals `v` -/
def prefixMatch (idx : Index) (v : Value) : List Nat :=
  positions (((idx.dropWhile (fun kp => kcmp kp.1 [v] == .lt))).takeWhile (fun kp => firstIs v kp.1))

/-- the loop of the multi-column branch (after d41df521): the first key column is compared with the
requested bounds; an open lower bound skips NULL.  The `BTreeMap::range` bounds computed with
`smart_increment_value` / `try_increment_sqlvalue` only narrow the walk and never exclude a key
that passes these checks (argued in notes/C02.md; exercised by the correspondence run). -/
def multiCheck (first : Value) (lo hi : Option Value) (incLo incHi : Bool) : Bool :=
  (match lo with
    | none => !(first == .null)
    | some l => if incLo then vcmp first l != .lt else vcmp first l == .gt) &&
  (match hi with
    | none => true
    | some h => if incHi then vcmp first h != .gt else vcmp first h == .lt)

def multiWalk (idx : Index) (lo hi : Option Value) (incLo incHi : Bool) : List Nat :=
  positions (idx.filter (fun kp =>
    match kp.1 with
    | [] => false
    | first :: _ => multiCheck first lo hi incLo incHi))

/-- start bound of the single-column path; an open lower bound with an upper bound starts after
the NULL key (543a6998) -/
def startBound (lo hi : Option Value) (incLo : Bool) : Bound :=
  match lo with
  | some l => if incLo then .incl [l] else .excl [l]
  | none => if hi.isSome then .excl [.null] else .unb

def endBound (hi : Option Value) (incHi : Bool) : Bound :=
  match hi with
  | some h => if incHi then .incl [h] else .excl [h]
  | none => .unb

/-- `IndexData::range_scan` (InMemory) -/
def rangeScan (idx : Index) (lo hi : Option Value) (incLo incHi : Bool) : List Nat :=
  let lo := lo.map normValue
  let hi := hi.map normValue
  let general : List Nat :=
    let isMulti := match idx with
      | (k, _) :: _ => k.length > 1
      | [] => false
    if (lo.isSome || hi.isSome) && isMulti then
      multiWalk idx lo hi incLo incHi
    else
      let s := startBound lo hi incLo
      let e := endBound hi incHi
      if invalidRange s e then [] else positions (rangeEntries idx s e)
  match lo, hi with
  | some l, some h =>
    if l == h && incLo && incHi then prefixMatch idx l
    else if l == h then []
    else if sqlGt l h then []
    else general
  | _, _ => general

/-- the IN values are normalised, sorted in the total order of the keys and deduplicated
(after the multi_lookup fix): insertion sort by `vcmp`, then removal of adjacent duplicates -/
def insertVal (v : Value) : List Value → List Value
  | [] => [v]
  | x :: xs => if vcmp v x == .gt then x :: insertVal v xs else v :: x :: xs

def dedupAdj : List Value → List Value
  | [] => []
  | [x] => [x]
  | x :: y :: rest => if x == y then dedupAdj (y :: rest) else x :: dedupAdj (y :: rest)

def lookupKey (idx : Index) (k : Key) : List Nat :=
  match idx.find? (fun kp => kcmp kp.1 k == .eq) with
  | some kp => kp.2
  | none => []

/-- `IndexData::multi_lookup` (InMemory) -/
def multiLookup (idx : Index) (vals : List Value) : List Nat :=
  let uniq := dedupAdj ((vals.map normValue).foldr insertVal [])
  uniq.flatMap (fun v => lookupKey idx [v])

/-! extraction of the range predicate from WHERE -/

structure Range where
  lo : Option Value
  hi : Option Value
  incLo : Bool
  incHi : Bool
  deriving Repr, Inhabited, DecidableEq

def isCol (c : Nat) : Expr → Bool
  | .col i => i == c
  | _ => false

def litOf : Expr → Option Value
  | .lit v => some v
  | _ => none

/-- the AND-merge of `extract_range_predicate`: a bound the left conjunct lacks is taken from the
right conjunct together with *its* inclusive flag (`l.start = r.start; l.inclusive_start =
r.inclusive_start`, same for the end); a bound both have is the left one -/
def mergeRange (a b : Range) : Range :=
  ⟨if a.lo.isNone then b.lo else a.lo, if a.hi.isNone then b.hi else a.hi,
   if a.lo.isNone then b.incLo else a.incLo, if a.hi.isNone then b.incHi else a.incHi⟩

/-- `extract_range_predicate` -/
def extractRange (c : Nat) : Expr → Option Range
  | .bin op l r =>
    match op with
    | .eq =>
      if isCol c l && (litOf r).isSome then
        match litOf r with
        | some .null => none
        | some v => some ⟨some v, some v, true, true⟩
        | none => none
      else if isCol c r then
        match litOf l with
        | some .null => none
        | some v => some ⟨some v, some v, true, true⟩
        | none => none
      else none
    | .gt | .ge | .lt | .le =>
      if isCol c l then
        match litOf r with
        | some .null => none
        | some v =>
          some (match op with
            | .gt => ⟨some v, none, false, false⟩
            | .ge => ⟨some v, none, true, false⟩
            | .lt => ⟨none, some v, false, false⟩
            | _ => ⟨none, some v, false, true⟩)
        | none => none
      else if isCol c r then
        match litOf l with
        | some .null => none
        | some v =>
          some (match op with
            | .gt => ⟨none, some v, false, false⟩
            | .ge => ⟨none, some v, false, true⟩
            | .lt => ⟨some v, none, false, false⟩
            | _ => ⟨some v, none, true, false⟩)
        | none => none
      else none
    | .and =>
      match extractRange c l, extractRange c r with
      | some a, some b => some (mergeRange a b)
      | some a, none => some a
      | none, some b => some b
      | none, none => none
    | _ => none
  | .between a lo hi false =>
    if isCol c a then
      match litOf lo, litOf hi with
      | some .null, _ => none
      | _, some .null => none
      | some l, some h => some ⟨some l, some h, true, true⟩
      | _, _ => none
    else none
  | _ => none

def isRangeOp : BinOp → Bool
  | .gt | .ge | .lt | .le => true
  | _ => false

/-- `where_clause_fully_satisfied_by_index` for a Range predicate (the IN case is `inList`) -/
def fullySatisfied (c : Nat) (e : Expr) (r : Range) : Bool :=
  match e with
  | .bin .eq l rr =>
    ((isCol c l && (litOf rr).isSome) || (isCol c rr && (litOf l).isSome)) &&
      r.lo.isSome && r.hi.isSome && r.lo == r.hi && r.incLo && r.incHi
  | .between a _ _ false => isCol c a && r.lo.isSome && r.hi.isSome && r.incLo && r.incHi
  | .bin .and (.bin lop ll lr) (.bin rop rl rr) =>
    (isCol c ll || isCol c lr) && (isCol c rl || isCol c rr) && isRangeOp lop && isRangeOp rop &&
      r.lo.isSome && r.hi.isSome
  | .bin op l rr =>
    isRangeOp op && ((isCol c l && (litOf rr).isSome) || (isCol c rr && (litOf l).isSome))
  | _ => false

/-- SQL truth of "key within the range" (three-valued: NULL key → not TRUE) -/
def inRangeSql (x : Value) (r : Range) : Bool :=
  !x.isNull &&
  (match r.lo with
    | none => true
    | some l => match Value.cmp? x l with
      | some .gt => true
      | some .eq => r.incLo
      | _ => false) &&
  (match r.hi with
    | none => true
    | some h => match Value.cmp? x h with
      | some .lt => true
      | some .eq => r.incHi
      | _ => false)

/-- index-driven WHERE on a single-column index over column 0 (`execute_index_scan` for a Range
predicate): extract the range, scan, re-check the WHERE clause on the fetched rows unless
`fullySatisfied`; without an extractable range every position is fetched and re-checked.
Positions in table order; an evaluation error aborts the query. -/
def whereScan (keys : List Key) (e : Expr) : Except Err (List Nat) :=
  let recheck (ps : List Nat) : Except Err (List Nat) :=
    ps.filterM (fun p =>
      match keys[p]? with
      | some k => do
        let t ← e.tv k
        pure (t == TV.t)
      | none => .ok false)
  match extractRange 0 e with
  | some r =>
    let ps := rangeScan (build keys) r.lo r.hi r.incLo r.incHi
    let sorted := (List.range keys.length).filter (fun p => ps.contains p)
    if fullySatisfied 0 e r then .ok sorted else recheck sorted
  | none => recheck (List.range keys.length)

end VibeProof.SecIndex
