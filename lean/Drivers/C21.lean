import VibeProof.Model.Proto
import VibeProof.Model.SqlOrd
open VibeProof.Proto VibeProof.SqlOrd

/-
Requests
  (matrix V1 … Vn) → (matrix (hashes H1 … Hn) (rows R1 … Rn))
      Hi = hex of the bytes `hashWords Vi` puts into the hasher (little endian);
      Ri = one character per Vj: l/e/g = `cmp Vi Vj`, upper case when `eqv Vi Vj`.
Values
  (integer i) (smallint i) (bigint i) (unsigned n)
  (numeric F) (float F) (real F) (double F)   F = nan | (inf 0|1) | (fin 0|1 m e)  value m·2^e
  (character HEX) (varchar HEX) (boolean 0|1)
  (date y m d) (time h mi s ns) (timestamp y m d h mi s ns)
  (interval HEXTEXT months days micros) null
-/

def decBool : Sx → Option Bool
  | .atom "0" => some false
  | .atom "1" => some true
  | _ => none

/-- `emin`: exponent of the smallest subnormal -/
def decF (emin : Int) : Sx → Option F
  | .atom "nan" => some .nan
  | .list [.atom "inf", n] => (decBool n).map F.inf
  | .list [.atom "fin", n, m, e] => do
      let n ← decBool n
      let m ← m.nat?
      let e ← e.int?
      if m = 0 then pure (F.fin n 0)
      else if e < emin then none
      else pure (F.fin n (m * 2 ^ (e - emin).toNat))
  | _ => none

def decBytes : Sx → Option Bytes
  | .atom "-" => some []
  | .atom h => hexToBytes h
  | _ => none

def decSV : Sx → Option SV
  | .atom "null" => some .null
  | .list [.atom "integer", i] => i.int?.map SV.integer
  | .list [.atom "smallint", i] => i.int?.map SV.smallint
  | .list [.atom "bigint", i] => i.int?.map SV.bigint
  | .list [.atom "unsigned", i] => i.int?.map SV.unsigned
  | .list [.atom "numeric", f] => (decF (-1074) f).map SV.numeric
  | .list [.atom "double", f] => (decF (-1074) f).map SV.double
  | .list [.atom "float", f] => (decF (-149) f).map SV.float
  | .list [.atom "real", f] => (decF (-149) f).map SV.real
  | .list [.atom "character", s] => (decBytes s).map SV.character
  | .list [.atom "varchar", s] => (decBytes s).map SV.varchar
  | .list [.atom "boolean", b] => (decBool b).map SV.boolean
  | .list [.atom "date", y, m, d] => do pure (.date ⟨← y.int?, ← m.int?, ← d.int?⟩)
  | .list [.atom "time", h, mi, s, n] => do pure (.time ⟨← h.int?, ← mi.int?, ← s.int?, ← n.int?⟩)
  | .list [.atom "timestamp", y, m, d, h, mi, s, n] => do
      pure (.timestamp ⟨← y.int?, ← m.int?, ← d.int?⟩ ⟨← h.int?, ← mi.int?, ← s.int?, ← n.int?⟩)
  | .list [.atom "interval", t, mo, d, us] => do
      pure (.interval ⟨← decBytes t, ← mo.int?, ← d.int?, ← us.int?⟩)
  | _ => none

def leBytes (w : Nat) (v : Int) : List UInt8 :=
  let n := (v % ((2 : Int) ^ (8 * w))).toNat
  (List.range w).map (fun i => UInt8.ofNat ((n / 2 ^ (8 * i)) % 256))

def hashBytes (v : SV) : List UInt8 := (v.hashWords.map (fun w => leBytes w.1 w.2)).flatten

def pairChar (a b : SV) : Char :=
  match SV.cmp a b, SV.eqv a b with
  | .lt, false => 'l' | .eq, false => 'e' | .gt, false => 'g'
  | .lt, true => 'L' | .eq, true => 'E' | .gt, true => 'G'

def handle : List Sx → Sx
  | .atom "matrix" :: vs =>
    match vs.mapM decSV with
    | some svs =>
      .list [.atom "matrix",
        .list (.atom "hashes" :: svs.map (fun v => .atom (bytesToHex (hashBytes v)))),
        .list (.atom "rows" :: svs.map (fun a => .atom (String.ofList (svs.map (pairChar a)))))]
    | none => .atom "bad-request"
  | _ => .atom "bad-request"

def main : IO Unit := runDriver handle
