import VibeProof.Model.Sql
import VibeProof.Lemmas.SetOps
import VibeProof.Generated.Consts
/-
C01 — SELECT agrees with the reference SQL semantics on the common subset.

`Sql.Query.eval` (Model/Sql.lean) *is* the reference engine the correspondence run compares
vibesql with.  The theorems below show that the reference itself has the textbook meaning: its
building blocks — the engine's counting algorithms for set operations, Kleene logic with the
"NULL op x = NULL except AND/OR" rule, filtering, grouping, DISTINCT, LIMIT/OFFSET — satisfy
the bag / three-valued-logic laws for *every* input, with no bound on sizes.
-/
namespace VibeProof.C01
open VibeProof VibeProof.Sql TV

/-! ### three-valued logic -/

/-- rank of a truth value in Kleene's order F < U < T -/
def rank : TV → Nat
  | f => 0 | u => 1 | t => 2

/-- AND is the minimum, OR the maximum, NOT the reflection of Kleene's order: whole domain -/
theorem C01_kleene_tables :
    (∀ a b, rank (and3 a b) = min (rank a) (rank b)) ∧
    (∀ a b, rank (or3 a b) = max (rank a) (rank b)) ∧
    (∀ a, rank (not3 a) = 2 - rank a) := by
  refine ⟨?_, ?_, ?_⟩
  · intro a b; cases a <;> cases b <;> decide
  · intro a b; cases a <;> cases b <;> decide
  · intro a; cases a <;> decide

/-- the evaluator's AND / OR on boolean-typed values is Kleene's AND / OR -/
theorem C01_and_or_kleene (a b : TV) :
    evalBin .and (Value.ofTV a) (Value.ofTV b) = .ok (Value.ofTV (and3 a b)) ∧
    evalBin .or (Value.ofTV a) (Value.ofTV b) = .ok (Value.ofTV (or3 a b)) := by
  cases a <;> cases b <;> exact ⟨rfl, rfl⟩

/-- NULL op x = NULL and x op NULL = NULL for every comparison and arithmetic operator -/
theorem C01_null_propagates (op : BinOp) (x : Value) (h : op ≠ .and ∧ op ≠ .or) :
    evalBin op .null x = .ok .null ∧ evalBin op x .null = .ok .null := by
  obtain ⟨h1, h2⟩ := h
  cases op <;> cases x <;> simp_all [evalBin]

/-- a comparison of two non-NULL integers is never NULL and is the integer comparison -/
theorem C01_cmp_total (a b : Int) :
    evalBin .lt (.int a) (.int b) = .ok (.bool (decide (a < b))) ∧
    evalBin .eq (.int a) (.int b) = .ok (.bool (decide (a = b))) := by
  simp only [evalBin, Value.cmp?, cmpOp]
  rcases Int.lt_trichotomy a b with h | h | h
  · have hne : a ≠ b := by omega
    simp [Int.compare_eq_lt.mpr h, h, hne]
  · subst h; simp
  · have h1 : ¬ a < b := by omega
    have hne : a ≠ b := by omega
    simp [Int.compare_eq_gt.mpr h, h1, hne]

/-! ### WHERE -/

/-- the filter keeps exactly the rows on which the predicate is TRUE, in input order -/
theorem C01_filter (p : Row → TV) (rows : List Row) :
    (∀ r, r ∈ filter3 p rows ↔ r ∈ rows ∧ p r = t) ∧ (filter3 p rows).Sublist rows := by
  refine ⟨fun r => by simp [filter3], ?_⟩
  exact List.filter_sublist

/-! ### set operations: the engine's counting algorithms obey the bag laws -/

variable {α : Type} [DecidableEq α]

theorem C01_union_all (a : α) (l r : List α) :
    (unionAll l r).count a = l.count a + r.count a := by
  simp [unionAll, List.count_append]

theorem C01_intersect_all (a : α) (l r : List α) :
    (intersectAll l r).count a = min (l.count a) (r.count a) := count_intersectAll a l r

theorem C01_except_all (a : α) (l r : List α) :
    (exceptAll l r).count a = l.count a - r.count a := count_exceptAll a l r

theorem C01_union (l r : List α) :
    (union l r).Nodup ∧ ∀ a, a ∈ union l r ↔ a ∈ l ∨ a ∈ r := by
  refine ⟨nodup_dedup _, fun a => ?_⟩
  simp [union, mem_dedup]

theorem C01_intersect (l r : List α) :
    (intersect l r).Nodup ∧ ∀ a, a ∈ intersect l r ↔ a ∈ l ∧ a ∈ r := by
  refine ⟨nodup_seenLoop _ _ _, fun a => ?_⟩
  simp [intersect, mem_seenLoop]

theorem C01_except (l r : List α) :
    (VibeProof.except l r).Nodup ∧ ∀ a, a ∈ VibeProof.except l r ↔ a ∈ l ∧ a ∉ r := by
  refine ⟨nodup_seenLoop _ _ _, fun a => ?_⟩
  simp [VibeProof.except, mem_seenLoop]

/-- number of occurrences of a row in a result (row equality: NULL = NULL, as for grouping) -/
abbrev occ (row : Row) (l : List Row) : Nat := @List.count Row instBEqOfDecidableEq row l

/-- at the SQL layer: a set-operation query is the bag operation of its operands' results -/
theorem C01_setop_query (db : Db) (l r : Query) (a b : List Row)
    (hl : l.eval db = .ok a) (hr : r.eval db = .ok b) (row : Row) :
    (∃ x, (Query.setop .intersect true l r).eval db = .ok x ∧ occ row x = min (occ row a) (occ row b)) ∧
    (∃ x, (Query.setop .except true l r).eval db = .ok x ∧ occ row x = occ row a - occ row b) ∧
    (∃ x, (Query.setop .union true l r).eval db = .ok x ∧ occ row x = occ row a + occ row b) := by
  refine ⟨⟨intersectAll a b, ?_, count_intersectAll _ _ _⟩, ⟨exceptAll a b, ?_, count_exceptAll _ _ _⟩,
    ⟨unionAll a b, ?_, C01_union_all _ _ _⟩⟩ <;>
  simp [Query.eval, hl, hr, bind, Except.bind, pure, Except.pure]

/-! ### DISTINCT, LIMIT/OFFSET -/

theorem C01_distinct (l : List α) :
    (dedup l).Nodup ∧ (∀ a, a ∈ dedup l ↔ a ∈ l) ∧ (dedup l).Sublist l :=
  ⟨nodup_dedup l, fun a => mem_dedup a l, dedup_sublist l⟩

theorem C01_limit_offset (n m : Nat) (l : List α) :
    limitOffset (some n) m l = (l.drop m).take n ∧
    (limitOffset (some n) m l).length = min n (l.length - m) ∧
    limitOffset none m l = l.drop m := by
  simp [limitOffset, List.length_take, List.length_drop]

/-! ### GROUP BY: groups partition the input, one group per distinct key (NULL keys one group) -/

theorem C01_group_partition (keyed : List (List Value × Row)) :
    let gs := groupRows keyed
    (gs.map (·.1)).Nodup ∧
    (∀ p ∈ keyed, ∃ g ∈ gs, g.1 = p.1 ∧ p.2 ∈ g.2) ∧
    (∀ g ∈ gs, ∀ r ∈ g.2, ∃ p ∈ keyed, p.1 = g.1 ∧ p.2 = r) ∧
    (gs.map (fun g => g.2.length)).sum = keyed.length := by
  refine ⟨?_, ?_, ?_, ?_⟩
  · simp only [groupRows, List.map_map]
    have : ((fun x : List Value × List Row => x.1) ∘ fun k => (k, List.map (fun x => x.2) (List.filter (fun p => p.1 == k) keyed)))
        = id := by funext k; rfl
    rw [this, List.map_id]
    exact nodup_dedup _
  · intro p hp
    refine ⟨(p.1, (keyed.filter (fun q => q.1 == p.1)).map (·.2)), ?_, rfl, ?_⟩
    · simp only [groupRows, List.mem_map]
      exact ⟨p.1, (mem_dedup _ _).mpr (List.mem_map.mpr ⟨p, hp, rfl⟩), rfl⟩
    · simp only [List.mem_map, List.mem_filter]
      exact ⟨p, ⟨hp, by simp⟩, rfl⟩
  · intro g hg r hr
    simp only [groupRows, List.mem_map] at hg
    obtain ⟨k, _, rfl⟩ := hg
    simp only [List.mem_map, List.mem_filter] at hr
    obtain ⟨p, ⟨hp, hk⟩, rfl⟩ := hr
    exact ⟨p, hp, by simpa using hk, rfl⟩
  · simp only [groupRows, List.map_map]
    have : ((fun g : List Value × List Row => g.2.length) ∘ fun k => (k, List.map (fun x => x.2) (List.filter (fun p => p.1 == k) keyed)))
        = fun k => (keyed.filter (fun p => p.1 == k)).length := by
      funext k; simp
    rw [this]
    exact sum_filter_lengths (fun p : List Value × Row => p.1) _ keyed (nodup_dedup _)
      (fun p hp => (mem_dedup _ _).mpr (List.mem_map.mpr ⟨p, hp, rfl⟩))

theorem mapM'_length {β γ : Type} (f : β → Except Err γ) (l : List β) (out : List γ)
    (h : mapM' f l = .ok out) : out.length = l.length := by
  induction l generalizing out with
  | nil => simp [mapM'] at h; subst h; rfl
  | cons x xs ih =>
    simp only [mapM', bind, Except.bind] at h
    cases hx : f x with
    | error e => simp [hx] at h
    | ok y =>
      simp only [hx] at h
      cases hxs : mapM' f xs with
      | error e => simp [hxs] at h
      | ok ys =>
        simp only [hxs, pure, Except.pure] at h
        injection h with h; subst h
        simp [ih ys hxs]

/-- an aggregate query without GROUP BY yields exactly one row before HAVING, for every input
including the empty one -/
theorem C01_no_group_by_one_row (aggs : List AggCall) (rows : List Row) (out : List Row)
    (h : evalGroup { keys := [], aggs := aggs, having := none } rows = .ok out) : out.length = 1 := by
  simp only [evalGroup, List.isEmpty_nil, if_true, bind, Except.bind] at h
  split at h
  · simp at h
  · rename_i keyed hk
    split at h
    · simp at h
    · rename_i outs ho
      simp only [pure, Except.pure] at h
      injection h with h; subst h
      simpa using mapM'_length _ _ _ ho

/-- non-vacuity: INTERSECT ALL / EXCEPT ALL on concrete bags with duplicates and NULL rows -/
example : intersectAll [[Value.null], [.int 1], [.int 1], [.null]] [[.int 1], [.null], [.null], [.null]]
    = [[Value.null], [.int 1], [.null]] ∧
    exceptAll [[Value.null], [.int 1], [.int 1], [.null]] [[.int 1], [.null]] = [[.int 1], [.null]] := by
  decide

/-! ### aggregates do not depend on the order in which the rows arrive -/

theorem mapM'_perm {α β : Type} (f : α → Except Err β) {l₁ l₂ : List α} (h : l₁.Perm l₂) :
    ∀ vs₁, mapM' f l₁ = .ok vs₁ → ∃ vs₂, mapM' f l₂ = .ok vs₂ ∧ vs₁.Perm vs₂ := by
  induction h with
  | nil => intro vs h; exact ⟨vs, h, List.Perm.refl _⟩
  | cons x _ ih =>
    intro vs h
    simp only [mapM', bind, Except.bind, pure, Except.pure] at h ⊢
    cases hx : f x with
    | error e => simp [hx] at h
    | ok y =>
      simp only [hx] at h ⊢
      rename_i l₁ l₂ _
      cases hl : mapM' f l₁ with
      | error e => simp [hl] at h
      | ok ys =>
        simp only [hl, Except.ok.injEq] at h
        obtain ⟨ys₂, h2, hp⟩ := ih ys hl
        exact ⟨y :: ys₂, by simp [h2], h ▸ List.Perm.cons y hp⟩
  | swap x y l =>
    intro vs h
    simp only [mapM', bind, Except.bind, pure, Except.pure] at h ⊢
    cases hx : f x with
    | error e => cases hy : f y <;> simp [hx, hy] at h
    | ok a =>
      cases hy : f y with
      | error e => simp [hx, hy] at h
      | ok b =>
        cases hl : mapM' f l with
        | error e => simp [hx, hy, hl] at h
        | ok ys =>
          simp only [hx, hy, hl, Except.ok.injEq] at h ⊢
          exact ⟨a :: b :: ys, rfl, h ▸ List.Perm.swap a b ys⟩
  | trans _ _ ih1 ih2 =>
    intro vs h
    obtain ⟨v2, h2, p2⟩ := ih1 vs h
    obtain ⟨v3, h3, p3⟩ := ih2 v2 h2
    exact ⟨v3, h3, p2.trans p3⟩

theorem sumInts_perm {l₁ l₂ : List Value} (h : l₁.Perm l₂) :
    ∀ s, sumInts l₁ = .ok s → sumInts l₂ = .ok s := by
  induction h with
  | nil => intro s h; exact h
  | cons x _ ih =>
    intro s h
    cases x <;> simp only [sumInts, bind, Except.bind, pure, Except.pure] at h ⊢ <;> try (simp at h)
    rename_i l₁ l₂ _ i
    cases hl : sumInts l₁ with
    | error e => simp [hl] at h
    | ok t => simp only [hl, Except.ok.injEq] at h; simp [ih t hl, h]
  | swap x y l =>
    intro s h
    cases x <;> cases y <;> simp only [sumInts, bind, Except.bind, pure, Except.pure] at h ⊢ <;> try (simp at h)
    cases hl : sumInts l with
    | error e => simp [hl] at h
    | ok t => simp only [hl, Except.ok.injEq] at h ⊢; omega
  | trans _ _ ih1 ih2 => intro s h; exact ih2 s (ih1 s h)

theorem dedup_perm {α : Type} [DecidableEq α] {l₁ l₂ : List α} (h : l₁.Perm l₂) : (dedup l₁).Perm (dedup l₂) := by
  rw [List.perm_ext_iff_of_nodup (nodup_dedup _) (nodup_dedup _)]
  intro a
  rw [mem_dedup, mem_dedup]
  exact h.mem_iff

/-- COUNT(*), COUNT(e), SUM(e) and their DISTINCT forms are functions of the *multiset* of
input rows: any reordering of the rows (scan order, index order, join order) gives the same
value -/
theorem C01_aggregate_order_independent (a : AggCall) (hfn : a.fn = .countStar ∨ a.fn = .count ∨ a.fn = .sum)
    {rows₁ rows₂ : List Row} (h : rows₁.Perm rows₂) (v : Value) (h1 : evalAgg a rows₁ = .ok v) :
    evalAgg a rows₂ = .ok v := by
  unfold evalAgg at h1 ⊢
  rcases hfn with hf | hf | hf
  · simp only [hf] at h1 ⊢; rw [← h.length_eq]; exact h1
  all_goals
    simp only [hf, bind, Except.bind, pure, Except.pure] at h1 ⊢
    cases hm : mapM' (fun r => a.arg.eval r) rows₁ with
    | error e => simp [hm] at h1
    | ok vs₁ =>
      obtain ⟨vs₂, hm2, hp⟩ := mapM'_perm _ h vs₁ hm
      simp only [hm, hm2] at h1 ⊢
      have hnn := hp.filter (fun v => !v.isNull)
      have hxs : (if a.distinct then dedup (vs₁.filter (fun v => !v.isNull)) else vs₁.filter (fun v => !v.isNull)).Perm
          (if a.distinct then dedup (vs₂.filter (fun v => !v.isNull)) else vs₂.filter (fun v => !v.isNull)) := by
        by_cases hd : a.distinct
        · simp only [hd, if_true]; exact dedup_perm hnn
        · simp only [hd]; exact hnn
      first
      | (rw [← hxs.length_eq]; exact h1)
      | (have he := hxs.isEmpty_eq
         generalize (if a.distinct = true then dedup (vs₁.filter (fun v => !v.isNull)) else vs₁.filter (fun v => !v.isNull)) = xs₁ at h1 hxs he
         generalize (if a.distinct = true then dedup (vs₂.filter (fun v => !v.isNull)) else vs₂.filter (fun v => !v.isNull)) = xs₂ at hxs he
         rw [← he]
         by_cases hem : xs₁.isEmpty = true
         · simpa [hem] using h1
         · simp only [hem] at h1 ⊢
           cases hs : sumInts xs₁ with
           | error e => simp [hs] at h1
           | ok t => rw [sumInts_perm hxs t hs]; simpa [hs] using h1)

/-- ORDER BY neither loses nor duplicates rows -/
theorem C01_order_by_perm (keys : List (Nat × Bool)) (rows : List Row) :
    (orderRows keys rows).Perm rows := by
  unfold orderRows
  split
  · exact List.Perm.refl _
  · exact List.mergeSort_perm _ _

/-- so a query's multiset is unchanged by adding or changing ORDER BY (without LIMIT) -/
theorem C01_order_by_same_multiset (k₁ k₂ : List (Nat × Bool)) (rows : List Row) :
    (orderRows k₁ rows).Perm (orderRows k₂ rows) :=
  (C01_order_by_perm k₁ rows).trans (C01_order_by_perm k₂ rows).symm

/-- non-vacuity: NULLs, duplicates, both orders -/
example : evalAgg ⟨.sum, .col 0, true⟩ [[.int 2], [.null], [.int 2], [.int 5]] = .ok (.int 7) ∧
    evalAgg ⟨.sum, .col 0, true⟩ [[.int 5], [.int 2], [.int 2], [.null]] = .ok (.int 7) ∧
    evalAgg ⟨.count, .col 0, false⟩ [[.int 5], [.int 2], [.int 2], [.null]] = .ok (.int 3) := by
  refine ⟨rfl, rfl, rfl⟩

/-! ### `x IN (v₁, …, vₙ)` is the Kleene disjunction of the equalities -/

/-- truth value of `a = v` -/
def eqTV (a v : Value) : TV :=
  if a.isNull || v.isNull then u else if a = v then t else f

/-- SQL's definition: `x IN (v₁ … vₙ)` ≡ `x = v₁ OR … OR x = vₙ` -/
def inSpec (a : Value) : List Value → TV
  | [] => f
  | v :: vs => or3 (eqTV a v) (inSpec a vs)

/-- every list element is NULL or comparable with the probe -/
def listComparable (a : Value) (vs : List Value) : Prop :=
  ∀ v ∈ vs, v.isNull = true ∨ (Value.cmp? a v).isSome

theorem evalBin_eq_comparable (a v : Value) (ha : a.isNull = false) (hv : v.isNull = false)
    (hc : (Value.cmp? a v).isSome) : evalBin .eq a v = .ok (.bool (decide (a = v))) := by
  cases a <;> cases v <;> simp [Value.isNull, Value.cmp?] at ha hv hc
  · rename_i x y
    simp only [evalBin, Value.cmp?, cmpOp]
    by_cases h : x = y
    · subst h; simp
    · have : compare x y ≠ .eq := fun hc => h (Std.compare_eq_iff_eq.mp hc)
      cases hcmp : compare x y <;> simp_all
  · rename_i x y
    simp only [evalBin, Value.cmp?, cmpOp]
    by_cases h : x = y
    · subst h; simp
    · have : compare x y ≠ .eq := fun hc => h (Std.compare_eq_iff_eq.mp hc)
      cases hcmp : compare x y <;> simp_all
  · rename_i x y
    cases x <;> cases y <;> rfl

theorem inListV_go (a : Value) (ha : a.isNull = false) (neg : Bool) (vs : List Value)
    (hc : listComparable a vs) (foundNull : Bool) :
    inListV.go a neg vs foundNull
      = .ok (Value.ofTV (let r := or3 (inSpec a vs) (if foundNull then u else f)
                          if neg then not3 r else r)) := by
  induction vs generalizing foundNull with
  | nil => cases foundNull <;> cases neg <;> rfl
  | cons v vs ih =>
    have hc' : listComparable a vs := fun w hw => hc w (List.mem_cons_of_mem _ hw)
    by_cases hv : v.isNull = true
    · simp only [inListV.go, hv, if_true, ih hc', inSpec, eqTV, Bool.or_true]
      cases inSpec a vs <;> cases foundNull <;> cases neg <;> rfl
    · have hv' : v.isNull = false := by simpa using hv
      have hcv := (hc v List.mem_cons_self).resolve_left hv
      simp only [inListV.go, hv', Bool.false_eq_true, if_false, evalBin_eq_comparable a v ha hv' hcv, inSpec, eqTV, ha, Bool.or_self]
      by_cases he : a = v
      · simp only [he, decide_true, if_true]
        cases inSpec v vs <;> cases foundNull <;> cases neg <;> rfl
      · simp only [he, decide_false, if_false, ih hc']
        cases inSpec a vs <;> cases foundNull <;> cases neg <;> rfl

/-- the evaluator's IN list (as coded: early exit, `found_null` flag, empty-list shortcut) computes
SQL's three-valued `x IN (…)` / `x NOT IN (…)` for every list length -/
theorem C01_in_list_is_kleene_or (a : Value) (vs : List Value) (neg : Bool) (hc : listComparable a vs) :
    inListV a vs neg = .ok (Value.ofTV (if neg then not3 (inSpec a vs) else inSpec a vs)) := by
  unfold inListV
  by_cases he : vs = []
  · subst he; cases neg <;> rfl
  · have : vs.isEmpty = false := by cases vs <;> simp_all
    simp only [this, Bool.false_eq_true, if_false]
    by_cases ha : a.isNull = true
    · simp only [ha, if_true]
      -- a NULL probe against a non-empty list: every equality is UNKNOWN
      have hs : ∀ l : List Value, l ≠ [] → inSpec a l = u := by
        intro l hl
        induction l with
        | nil => exact absurd rfl hl
        | cons w ws ih =>
          simp only [inSpec, eqTV, ha, Bool.true_or, if_true]
          cases ws with
          | nil => rfl
          | cons x xs => rw [ih (by simp)]; rfl
      rw [hs vs he]; cases neg <;> rfl
    · have ha' : a.isNull = false := by simpa using ha
      simp only [ha', Bool.false_eq_true, if_false]
      rw [inListV_go a ha' neg vs hc false]
      simp only [Bool.false_eq_true, if_false]
      cases inSpec a vs <;> cases neg <;> rfl

/-- non-vacuity: a list longer than the engine's small-list threshold with a NULL element -/
example : inListV (.int 40) [.int 10, .int 20, .null, .int 30] true = .ok .null ∧
    inSpec (.int 40) [.int 10, .int 20, .null, .int 30] = u ∧
    listComparable (.int 40) [.int 10, .int 20, .null, .int 30] := by
  refine ⟨rfl, rfl, ?_⟩
  intro v hv; simp at hv
  rcases hv with rfl | rfl | rfl | rfl <;> simp [Value.isNull, Value.cmp?]

/-! ### BETWEEN (as coded, with the reversed-bounds shortcut) is the conjunction of two comparisons -/

def isIntOrNull : Value → Prop
  | .null => True
  | .int _ => True
  | _ => False

theorem cmp_int (a b : Int) : compare a b = if a < b then .lt else if a = b then .eq else .gt := by
  simp [compare, compareOfLessAndEq]

theorem cmp_int_gt (a b : Int) : (compare a b == .gt) = decide (a > b) := by
  rw [cmp_int]
  by_cases h1 : a < b
  · have : ¬ a > b := by omega
    simp [h1, this]
  · by_cases h2 : a = b
    · subst h2; simp
    · have : a > b := by omega
      simp [h1, h2, this]

theorem cmp_int_ge (a b : Int) : (compare a b != .lt) = decide (a ≥ b) := by
  rw [cmp_int]
  by_cases h1 : a < b
  · have : ¬ a ≥ b := by omega
    simp [h1, this]
  · by_cases h2 : a = b
    · subst h2; simp
    · have : a ≥ b := by omega
      simp [h1, h2, this]

theorem cmp_int_le (a b : Int) : (compare a b != .gt) = decide (a ≤ b) := by
  rw [cmp_int]
  by_cases h1 : a < b
  · have : a ≤ b := by omega
    simp [h1, this]
  · by_cases h2 : a = b
    · subst h2; simp
    · have : ¬ a ≤ b := by omega
      simp [h1, h2, this]

theorem cmp_int_lt (a b : Int) : (compare a b == .lt) = decide (a < b) := by
  rw [cmp_int]
  by_cases h1 : a < b
  · have : a < b := by omega
    simp [h1, this]
  · by_cases h2 : a = b
    · subst h2; simp
    · have : ¬ a < b := by omega
      simp [h1, h2, this]

theorem between_ints (a b c : Int) :
    betweenV (.int a) (.int b) (.int c) false
        = (do let p ← evalBin .ge (.int a) (.int b); let q ← evalBin .le (.int a) (.int c); evalBin .and p q) ∧
    betweenV (.int a) (.int b) (.int c) true
        = (do let p ← evalBin .lt (.int a) (.int b); let q ← evalBin .gt (.int a) (.int c); evalBin .or p q) := by
  simp only [betweenV, evalBin, Value.cmp?, cmpOp, bind, Except.bind, pure, Except.pure,
    Value.isNull, cmp_int_gt, cmp_int_ge, cmp_int_le, cmp_int_lt]
  by_cases h1 : b > c <;> by_cases h2 : a ≥ b <;> by_cases h3 : a ≤ c <;> by_cases h4 : a < b <;> by_cases h5 : a > c <;>
    first
    | (exfalso; omega)
    | simp [h1, h2, h3, h4, h5, Value.toTV, Value.ofTV, and3, or3]

/-- `x BETWEEN lo AND hi` ≡ `x >= lo AND x <= hi` and `x NOT BETWEEN lo AND hi` ≡ `x < lo OR x > hi`
under three-valued logic, for all INTEGER / NULL operands — including reversed bounds, where the
code takes a shortcut -/
theorem C01_between_is_conjunction (x lo hi : Value) (hx : isIntOrNull x) (hl : isIntOrNull lo) (hh : isIntOrNull hi) :
    betweenV x lo hi false = (do let a ← evalBin .ge x lo; let b ← evalBin .le x hi; evalBin .and a b) ∧
    betweenV x lo hi true = (do let a ← evalBin .lt x lo; let b ← evalBin .gt x hi; evalBin .or a b) := by
  cases x <;> cases lo <;> cases hi <;> simp only [isIntOrNull] at hx hl hh
  case int.int.int a b c => exact between_ints a b c
  all_goals
    simp only [betweenV, evalBin, Value.cmp?, cmpOp, bind, Except.bind, pure, Except.pure,
      Value.isNull, Value.toTV, Value.ofTV, cmp_int_gt, cmp_int_ge, cmp_int_le, cmp_int_lt]
  all_goals first
    | (constructor <;> rfl)
    | (rename_i a b
       by_cases h1 : a > b <;> by_cases h2 : a ≥ b <;> by_cases h3 : a ≤ b <;> by_cases h4 : a < b <;>
        first
        | (exfalso; omega)
        | simp [h1, h2, h3, h4, Value.toTV, Value.ofTV, and3, or3])

/-- non-vacuity: reversed bounds and a NULL operand -/
example : betweenV (.int 5) (.int 9) (.int 1) false = .ok (.bool false) ∧
    betweenV .null (.int 9) (.int 1) true = .ok .null ∧ betweenV (.int 5) .null (.int 9) false = .ok .null := by
  refine ⟨rfl, rfl, rfl⟩

/-! ### the engine's AND / OR truth tables, rebuilt from the source, are Kleene's -/

def tvOfName : String → Option TV
  | "T" => some t | "F" => some f | "N" => some u | _ => none

def truthTableOk (op : TV → TV → TV) (tbl : List (String × String × String)) : Bool :=
  tbl.length == 9 &&
  tbl.all (fun r => match tvOfName r.1, tvOfName r.2.1, tvOfName r.2.2 with
    | some a, some b, some c => c == op a b
    | _, _, _ => false) &&
  -- all nine operand pairs are present
  [t, f, u].all (fun a => [t, f, u].all (fun b =>
    tbl.any (fun r => tvOfName r.1 == some a && tvOfName r.2.1 == some b)))

/-- `LogicalOps::and` / `LogicalOps::or` (evaluator/operators/logical.rs), read arm by arm from the
tree as it is now, compute Kleene's conjunction / disjunction on all nine operand pairs — the
tables the model's `and3` / `or3` are (and `C01_kleene_tables` characterises). An arm edited in the
source breaks this `decide`. -/
theorem C01_engine_truth_tables :
    truthTableOk and3 Generated.c01AndTable = true ∧ truthTableOk or3 Generated.c01OrTable = true := by
  decide

example : truthTableOk and3 [("T","T","T"),("T","F","F"),("T","N","N"),("F","T","F"),("F","F","F"),("F","N","N"),("N","T","N"),("N","F","F"),("N","N","N")] = false := by
  decide

end VibeProof.C01
