# Constant tables of crates/vibesql-server/src/protocol/messages.rs for C27 / C28:
# frontend type bytes accepted by `decode`, minimum length fields, the SSL request code,
# and the type byte every `BackendMessage` variant is written with.
import re


def extract(read):
    src = read("crates/vibesql-server/src/protocol/messages.rs")
    out = []

    def pairs(name, ps, doc):
        if not ps:
            out.append("-- %s: NOT FOUND in source (dependent theorems will not build)\n" % name)
        else:
            body = ", ".join('("%s", %d)' % p for p in ps)
            out.append("/-- %s -/\ndef %s : List (String × Nat) := [%s]\n" % (doc, name, body))

    def nat(name, v, doc):
        if v is None:
            out.append("-- %s: NOT FOUND in source (dependent theorems will not build)\n" % name)
        else:
            out.append("/-- %s -/\ndef %s : Nat := %d\n" % (doc, name, v))

    m = re.search(r"pub fn decode\(buf.*?\n    \}\n", src, re.S)
    dec = m.group(0) if m else ""
    fe = [(n, ord(c)) for c, n in re.findall(r"b'(.)'\s*=>\s*\{\s*//\s*(\w+) message", dec)]
    pairs("wireFrontendTypeBytes", fe, "protocol/messages.rs: match arms of `FrontendMessage::decode`")
    mins = re.findall(r"if len < (\d+) \{", dec)
    nat("wireFrontendMinLen", int(mins[0]) if mins else None, "protocol/messages.rs: smallest accepted length field in `decode`")
    m = re.search(r"pub fn decode_startup\(buf.*?\n    \}\n", src, re.S)
    st = m.group(0) if m else ""
    mins = re.findall(r"if len < (\d+) \{", st)
    nat("wireStartupMinLen", int(mins[0]) if mins else None, "protocol/messages.rs: smallest accepted length field in `decode_startup`")
    ssl = re.findall(r"protocol_version == (\d+)", st)
    nat("wireSslRequestCode", int(ssl[0]) if ssl else None, "protocol/messages.rs: SSL request code")
    m = re.search(r"pub fn encode\(&self.*?\n    \}\n", src, re.S)
    enc = m.group(0) if m else ""
    be = [(n, ord(c)) for n, c in re.findall(r"BackendMessage::(\w+)[^=>]*=>\s*\{\s*buf\.put_u8\(b'(.)'\)", enc)]
    pairs("wireBackendTypeBytes", be, "protocol/messages.rs: type byte written by each arm of `BackendMessage::encode`")
    return "\n".join(out)
