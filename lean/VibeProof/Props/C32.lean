import VibeProof.Model.View
import VibeProof.Lemmas.Reindex
import VibeProof.Lemmas.ViewChain
/-
C32 — views and CTEs behave as their defining query.
-/
namespace VibeProof.C32
open VibeProof VibeProof.Sql VibeProof.View

/-- a reference to a view equals the defining SELECT inlined as a derived table, on every database -/
theorem C32_view_eq_derived (env : Env) (db : Db) (name : Name) (body outer : Core)
    (hc : lookupCI name env.ctes = none) (hv : lookupCI name env.views = some body) :
    evalNamed env db name outer = evalDerived db body outer := by
  simp [evalNamed, resolve, hc, hv]

/-- a reference to a CTE equals the inlined definition; the CTE shadows a view or table of the
same name -/
theorem C32_cte_eq_derived (env : Env) (db : Db) (name : Name) (body outer : Core)
    (hc : lookupCI name env.ctes = some body) :
    evalNamed env db name outer = evalDerived db body outer := by
  simp [evalNamed, resolve, hc]

/-- hence view, CTE and derived-table spellings agree with each other -/
theorem C32_view_eq_cte (envV envC : Env) (db : Db) (name : Name) (body outer : Core)
    (hv0 : lookupCI name envV.ctes = none) (hv : lookupCI name envV.views = some body)
    (hc : lookupCI name envC.ctes = some body) :
    evalNamed envV db name outer = evalNamed envC db name outer := by
  rw [C32_view_eq_derived envV db name body outer hv0 hv, C32_cte_eq_derived envC db name body outer hc]

/-- freshness: a view holds no rows — after any change of the base tables a reference returns
the defining query evaluated on the *new* database -/
theorem C32_view_fresh (env : Env) (db : Db) (change : Db → Db) (name : Name) (body outer : Core)
    (hc : lookupCI name env.ctes = none) (hv : lookupCI name env.views = some body) :
    evalNamed env (change db) name outer = evalDerived (change db) body outer :=
  C32_view_eq_derived env (change db) name body outer hc hv

/-- name resolution is case-insensitive -/
theorem C32_lookup_case_insensitive {β : Type} (a b : Name) (l : List (Name × β))
    (h : lower a = lower b) : lookupCI a l = lookupCI b l := by
  induction l with
  | nil => rfl
  | cons p rest ih => obtain ⟨n, v⟩ := p; simp [lookupCI, h, ih]

/-- pushing an outer predicate below the definition's projection is sound:
filtering the projected rows = projecting the rows filtered by the composed predicate -/
theorem C32_pushdown_through_projection {α β : Type} (f : α → β) (p : β → TV) (rows : List α) :
    filter3 p (rows.map f) = (filter3 (fun r => p (f r)) rows).map f := by
  simp [filter3, List.filter_map, Function.comp_def]

/-- an outer predicate over a filtered definition composes with the definition's predicate -/
theorem C32_filter_compose {α : Type} (p q : α → TV) (rows : List α) :
    filter3 p (filter3 q rows) = filter3 (fun r => TV.and3 (q r) (p r)) rows := by
  simp only [filter3, List.filter_filter]
  apply List.filter_congr
  intro r _
  cases hq : q r <;> cases hp : p r <;> simp [TV.and3]

/-- a view (or CTE) defined as `SELECT * FROM t` is interchangeable with `t` itself in every
outer query, on every database whose rows have the declared width -/
theorem C32_star_view_is_table (env : Env) (db : Db) (name : Name) (i w : Nat) (rows : List Row) (outer : Core)
    (hc : lookupCI name env.ctes = none) (hv : lookupCI name env.views = some (selectStar i w))
    (ht : db.tables[i]? = some (w, rows)) (hw : ∀ r ∈ rows, r.length = w) :
    evalNamed env db name outer
      = (outer.reindex (fun j => if j = db.tables.length then i else j)).eval db := by
  rw [C32_view_eq_derived env db name _ outer hc hv]
  exact derived_wrap_identity db i w rows outer ht hw

/-- a query over a view only depends on the database through the tables it (and the view) read:
re-indexing lemma instantiated — the same query over two databases that agree table by table
gives the same result -/
theorem C32_depends_only_on_tables (d1 d2 : Db) (body outer : Core) (h : d1.tables = d2.tables) :
    evalDerived d1 body outer = evalDerived d2 body outer := by
  cases d1; cases d2; simp only at h; subst h; rfl


/-! ### chains of definitions: `WITH a AS (…), b AS (… FROM a) …`, views over views -/

/-- a chain of one definition is the derived-table form -/
theorem C32_chain_single (db : Db) (b outer : Core) :
    evalChain db [b] outer = evalDerived db b outer := rfl

/-- a chain is evaluated definition by definition: the first body on the database, the rest of
the chain on the database extended with its result (so a view over a view, `WITH a, b`, and the
nested derived tables are one and the same evaluation) -/
theorem C32_chain_unfold (db : Db) (b : Core) (rest : List Core) (outer : Core) :
    evalChain db (b :: rest) outer
      = (b.eval db).bind (fun rows => evalChain { tables := db.tables ++ [(b.select.length, rows)] } rest outer) := rfl

/-- the renaming that moves table slot `n` out of the way: a query fixed by it does not refer to slot `n` -/
def bump (n : Nat) : Nat → Nat := fun j => if j = n then n + 1 else j

theorem eval_ignores_new_slot (db : Db) (x : Nat × List Row) (q : Core)
    (hfix : q.reindex (bump db.tables.length) = q) :
    q.eval { tables := db.tables ++ [x] } = q.eval db := by
  have h := Core.eval_reindex (d1 := db) (d2 := { tables := db.tables ++ [x] }) (σ := bump db.tables.length) ?_ q
  · rw [h, hfix]
  · intro j
    unfold bump
    by_cases hj : j = db.tables.length
    · subst hj; simp
    · simp only [hj, if_false]
      by_cases hlt : j < db.tables.length
      · simp [List.getElem?_append_left hlt]
      · have : db.tables.length < j := by omega
        rw [List.getElem?_eq_none (by omega), List.getElem?_eq_none (by simp; omega)]

/-- a definition nobody refers to changes nothing: `WITH u AS (body) outer` = `outer` whenever
the body evaluates and `outer` does not mention `u` -/
theorem C32_unused_definition (db : Db) (b outer : Core) (rows : List Row)
    (hb : b.eval db = .ok rows) (hfix : outer.reindex (bump db.tables.length) = outer) :
    evalChain db [b] outer = outer.eval db := by
  simp only [evalChain, hb, bind, Except.bind]
  exact eval_ignores_new_slot db _ outer hfix

/-- two definitions that do not refer to each other may be written in either order (the outer
query's references to them swapped accordingly) -/
theorem C32_independent_definitions_commute (db : Db) (a b outer : Core) (ra rb : List Row)
    (ha : a.eval db = .ok ra) (hb : b.eval db = .ok rb)
    (hfa : a.reindex (bump db.tables.length) = a) (hfb : b.reindex (bump db.tables.length) = b) :
    evalChain db [a, b] outer
      = evalChain db [b, a] (outer.reindex (fun j =>
          if j = db.tables.length then db.tables.length + 1
          else if j = db.tables.length + 1 then db.tables.length else j)) := by
  simp only [evalChain, ha, hb, bind, Except.bind, eval_ignores_new_slot db _ b hfb,
    eval_ignores_new_slot db _ a hfa]
  apply Core.eval_reindex
  intro j
  simp only [List.append_assoc, List.cons_append, List.nil_append]
  by_cases h0 : j = db.tables.length
  · subst h0; simp
  · by_cases h1 : j = db.tables.length + 1
    · subst h1; simp
    · simp only [h0, h1, if_false]
      by_cases hlt : j < db.tables.length
      · simp [List.getElem?_append_left hlt]
      · rw [List.getElem?_eq_none (by simp; omega), List.getElem?_eq_none (by simp; omega)]

/-- a second definition that is `SELECT * FROM first` adds nothing: the chain collapses to the
first definition (a view over a view, a CTE over a CTE, a CTE over a view) -/
theorem C32_star_over_definition (db : Db) (b outer : Core) :
    evalChain db [b, selectStar db.tables.length b.select.length] outer
      = evalChain db [b] (outer.reindex (fun j => if j = db.tables.length + 1 then db.tables.length else j)) := by
  simp only [evalChain, bind, Except.bind]
  cases hb : b.eval db with
  | error e => rfl
  | ok rows =>
    simp only []
    have hw := Core.eval_width db b rows hb
    have ht : ({ tables := db.tables ++ [(b.select.length, rows)] } : Db).tables[db.tables.length]? = some (b.select.length, rows) := by
      simp
    have := derived_wrap_identity { tables := db.tables ++ [(b.select.length, rows)] } db.tables.length b.select.length rows outer ht hw
    simp only [evalDerived, selectStar_eval _ _ _ _ ht hw, bind, Except.bind, List.length_append, List.length_cons, List.length_nil] at this
    have hl : (selectStar db.tables.length b.select.length).select.length = b.select.length := by
      simp [selectStar]
    rw [selectStar_eval _ _ _ _ ht hw]
    simpa using this

/-- non-vacuity of the "does not refer to the new slot" hypothesis and of the chain theorems:
on a one-table database a query over table 0 is fixed by `bump 1`, and a two-step chain
(`b` over table 0, `SELECT *` over `b`) evaluates to the rows of the first definition -/
example :
    let c : Core := { from_ := .table 0, where_ := none, group := none, select := [.col 0], distinct := false, orderBy := [], limit := none, offset := 0 }
    c.reindex (bump 1) = c := by
  rfl

example :
    let db : Db := { tables := [(1, [[.int 1], [.int 2]])] }
    let b : Core := { from_ := .table 0, where_ := none, group := none, select := [.col 0], distinct := false, orderBy := [], limit := none, offset := 0 }
    let o : Core := { from_ := .table 2, where_ := none, group := none, select := [.col 0], distinct := false, orderBy := [], limit := none, offset := 0 }
    (match evalChain db [b, selectStar 1 1] o with | .ok rows => rows.length == 2 | .error _ => false) = true := by
  decide

/-- non-vacuity: a CTE named like a view (up to case) shadows it -/
example :
    let c : Core := { from_ := .table 0, where_ := none, group := none, select := [.col 0], distinct := false, orderBy := [], limit := none, offset := 0 }
    let c2 : Core := { c with select := [.lit (.int 7)] }
    (match resolve { ctes := [(['V'], c2)], views := [(['v'], c)], tables := [(['t'], 0)] } ['v'] with
      | some (.cte b) => b.select.length == 1 | _ => false) = true := by
  decide

end VibeProof.C32
