import VibeProof.Model.Text
/-
Lemmas about the text model shared by C19, C31 and C30.
-/
namespace VibeProof.Text

/-- core of T1: lexing the doubled form of `s` followed by the closing quote and a rest that does
not start with a quote gives back `s` and that rest -/
theorem lexStrBody_dbl (q : Char) (s r : Str) (hr : ∀ c r', r = c :: r' → c ≠ q) :
    lexStrBody q (dbl q s ++ q :: r) = .ok (s, r) := by
  induction s with
  | nil =>
    cases r with
    | nil => simp [dbl, lexStrBody]
    | cons c r' =>
      have : c ≠ q := hr c r' rfl
      simp [dbl, lexStrBody, this]
  | cons a s ih =>
    by_cases h : a = q
    · subst h
      simp only [dbl, if_true, List.cons_append]
      rw [lexStrBody]
      simp [ih]
    · simp only [dbl, h, if_false, List.cons_append]
      rw [lexStrBody]
      simp [h, ih]

theorem lexString_renderStr (s r : Str) (hr : ∀ c r', r = c :: r' → c ≠ '\'') :
    lexString (renderStr s ++ r) = .ok (s, r) := by
  have := lexStrBody_dbl '\'' s r hr
  simp only [renderStr, List.cons_append, List.append_assoc, List.singleton_append, lexString]
  exact this

end VibeProof.Text
