import VibeProof.Model.Bytes
/-
Backend (server → client) messages of crates/vibesql-server/src/protocol/messages.rs (C28).

`encode` mirrors `BackendMessage::encode` / `encode_notice_or_error` as coded: the type byte,
the length computed *by hand per variant* (`lenAsCoded`, truncated by `as i32`), then the
payload written field by field (`payload`).  That the hand-computed length equals the number of
bytes written is the theorem, not the definition.

`parseBackend` is an independent frame parser written from the PostgreSQL protocol
description (message formats), not from the encoder: type byte, big-endian `Int32` length that
counts itself, then the per-type body grammar, which has to use up the body exactly.

Strings are UTF-8 byte lists; `HashMap<u8, String>` is the list of its entries in iteration
order (the encoder iterates the unchanged map twice, so both passes see the same order).
-/
namespace VibeProof.Wire

structure FieldDesc where
  name : Bytes
  tableOid : Int
  columnAttr : Int
  typeOid : Int
  typeSize : Int
  typeModifier : Int
  formatCode : Int
  deriving Repr, DecidableEq

inductive TxStatus where
  | idle | inTransaction | failed
  deriving Repr, DecidableEq

def TxStatus.asByte : TxStatus → UInt8
  | .idle => 0x49          -- 'I'
  | .inTransaction => 0x54 -- 'T'
  | .failed => 0x45        -- 'E'

inductive BackendMsg where
  | authenticationOk
  | authenticationCleartextPassword
  | authenticationMD5Password (salt : Bytes)
  | parameterStatus (name value : Bytes)
  | backendKeyData (processId secretKey : Int)
  | readyForQuery (status : TxStatus)
  | rowDescription (fields : List FieldDesc)
  | dataRow (values : List (Option Bytes))
  | commandComplete (tag : Bytes)
  | errorResponse (fields : List (UInt8 × Bytes))
  | noticeResponse (fields : List (UInt8 × Bytes))
  | emptyQueryResponse
  deriving Repr, DecidableEq

/-! ### the encoder, as coded -/

/-- `put_cstring` -/
def putCString (s : Bytes) : Bytes := s ++ [0]

def tyByte : BackendMsg → UInt8
  | .authenticationOk | .authenticationCleartextPassword | .authenticationMD5Password _ => 0x52 -- 'R'
  | .parameterStatus _ _ => 0x53   -- 'S'
  | .backendKeyData _ _ => 0x4b    -- 'K'
  | .readyForQuery _ => 0x5a       -- 'Z'
  | .rowDescription _ => 0x54      -- 'T'
  | .dataRow _ => 0x44             -- 'D'
  | .commandComplete _ => 0x43     -- 'C'
  | .errorResponse _ => 0x45       -- 'E'
  | .noticeResponse _ => 0x4e      -- 'N'
  | .emptyQueryResponse => 0x49    -- 'I'

/-- `let mut len = 4 + 1; for (_, value) in fields { len += 1 + value.len() + 1 }` -/
def noticeLen (fields : List (UInt8 × Bytes)) : Nat :=
  fields.foldl (fun acc f => acc + (1 + f.2.length + 1)) (4 + 1)

/-- `len += 4; if let Some(v) = value { len += v.len() }` -/
def valueLenStep (acc : Nat) : Option Bytes → Nat
  | some b => acc + 4 + b.length
  | none => acc + 4

/-- the length each arm of `encode` computes (a `usize`), before `as i32` -/
def lenAsCoded : BackendMsg → Nat
  | .authenticationOk => 8
  | .authenticationCleartextPassword => 8
  | .authenticationMD5Password _ => 12
  | .parameterStatus name value => 4 + name.length + 1 + value.length + 1
  | .backendKeyData _ _ => 12
  | .readyForQuery _ => 5
  | .rowDescription fields => fields.foldl (fun acc f => acc + (f.name.length + 1 + 18)) (4 + 2)
  | .dataRow values => values.foldl valueLenStep (4 + 2)
  | .commandComplete tag => 4 + tag.length + 1
  | .errorResponse fields => noticeLen fields
  | .noticeResponse fields => noticeLen fields
  | .emptyQueryResponse => 4

def putField (f : FieldDesc) : Bytes :=
  putCString f.name ++ (be32i f.tableOid ++ (be16i f.columnAttr ++ (be32i f.typeOid ++
    (be16i f.typeSize ++ (be32i f.typeModifier ++ be16i f.formatCode)))))

def putFields : List FieldDesc → Bytes
  | [] => []
  | f :: fs => putField f ++ putFields fs

/-- `Some(v) => put_i32(v.len() as i32); put_slice(v)`, `None => put_i32(-1)` -/
def putValue : Option Bytes → Bytes
  | some v => be32 v.length ++ v
  | none => be32i (-1)

def putValues : List (Option Bytes) → Bytes
  | [] => []
  | v :: vs => putValue v ++ putValues vs

def putNoticeFields : List (UInt8 × Bytes) → Bytes
  | [] => []
  | (k, v) :: fs => k :: (putCString v ++ putNoticeFields fs)

/-- what each arm writes after the length field -/
def payload : BackendMsg → Bytes
  | .authenticationOk => be32i 0
  | .authenticationCleartextPassword => be32i 3
  | .authenticationMD5Password salt => be32i 5 ++ salt
  | .parameterStatus name value => putCString name ++ putCString value
  | .backendKeyData pid key => be32i pid ++ be32i key
  | .readyForQuery st => [st.asByte]
  | .rowDescription fields => be16 fields.length ++ putFields fields
  | .dataRow values => be16 values.length ++ putValues values
  | .commandComplete tag => putCString tag
  | .errorResponse fields => putNoticeFields fields ++ [0]
  | .noticeResponse fields => putNoticeFields fields ++ [0]
  | .emptyQueryResponse => []

/-- `BackendMessage::encode` (appending to an empty buffer) -/
def encodeBackend (m : BackendMsg) : Bytes :=
  tyByte m :: (be32 (lenAsCoded m) ++ payload m)

/-! ### well-formed messages -/

def isI32 (i : Int) : Prop := -2147483648 ≤ i ∧ i < 2147483648
def isI16 (i : Int) : Prop := -32768 ≤ i ∧ i < 32768

instance (i : Int) : Decidable (isI32 i) := by unfold isI32; exact inferInstance
instance (i : Int) : Decidable (isI16 i) := by unfold isI16; exact inferInstance

def wfField (f : FieldDesc) : Prop :=
  nulFree f.name = true ∧ isI32 f.tableOid ∧ isI16 f.columnAttr ∧ isI32 f.typeOid ∧
    isI16 f.typeSize ∧ isI32 f.typeModifier ∧ isI16 f.formatCode

def wfValue : Option Bytes → Prop
  | some v => v.length < 2147483648
  | none => True

def wfNoticeField (f : UInt8 × Bytes) : Prop := f.1 ≠ 0 ∧ nulFree f.2 = true

/-- content conditions per variant (what the Rust types do not already guarantee, plus the
    ranges the Rust types do guarantee for the model's unbounded `Int`s / lists) -/
def wfContent : BackendMsg → Prop
  | .authenticationMD5Password salt => salt.length = 4
  | .parameterStatus name value => nulFree name = true ∧ nulFree value = true
  | .backendKeyData pid key => isI32 pid ∧ isI32 key
  | .rowDescription fields => fields.length < 32768 ∧ ∀ f ∈ fields, wfField f
  | .dataRow values => values.length < 32768 ∧ ∀ v ∈ values, wfValue v
  | .commandComplete tag => nulFree tag = true
  | .errorResponse fields => ∀ f ∈ fields, wfNoticeField f
  | .noticeResponse fields => ∀ f ∈ fields, wfNoticeField f
  | _ => True

/-- well-formed: content conditions and the whole frame fits the `Int32` length field -/
def wfBackend (m : BackendMsg) : Prop :=
  wfContent m ∧ 4 + (payload m).length < 2147483648

/-! ### the independent parser -/

def i16OfBytes (a b : UInt8) : Int :=
  let n := a.toNat * 256 + b.toNat
  if n < 32768 then (n : Int) else (n : Int) - 65536

def pI32 : Bytes → Option (Int × Bytes)
  | a :: b :: c :: d :: r => some (i32OfBytes a b c d, r)
  | _ => none

def pI16 : Bytes → Option (Int × Bytes)
  | a :: b :: r => some (i16OfBytes a b, r)
  | _ => none

/-- a `String` field of the protocol: bytes up to the first NUL -/
def pCStr (b : Bytes) : Option (Bytes × Bytes) :=
  match position0 b with
  | none => none
  | some p => some (b.take p, b.drop (p + 1))

def pBytes (n : Nat) (b : Bytes) : Option (Bytes × Bytes) :=
  if n ≤ b.length then some (b.take n, b.drop n) else none

def pField (b : Bytes) : Option (FieldDesc × Bytes) := do
  let (name, b) ← pCStr b
  let (tableOid, b) ← pI32 b
  let (columnAttr, b) ← pI16 b
  let (typeOid, b) ← pI32 b
  let (typeSize, b) ← pI16 b
  let (typeModifier, b) ← pI32 b
  let (formatCode, b) ← pI16 b
  pure ({ name, tableOid, columnAttr, typeOid, typeSize, typeModifier, formatCode }, b)

def pFields : Nat → Bytes → Option (List FieldDesc × Bytes)
  | 0, b => some ([], b)
  | n + 1, b => do
    let (f, b) ← pField b
    let (fs, b) ← pFields n b
    pure (f :: fs, b)

def pValue (b : Bytes) : Option (Option Bytes × Bytes) := do
  let (len, b) ← pI32 b
  if len = -1 then pure (none, b)
  else if len < 0 then none
  else
    let (v, b) ← pBytes len.toNat b
    pure (some v, b)

def pValues : Nat → Bytes → Option (List (Option Bytes) × Bytes)
  | 0, b => some ([], b)
  | n + 1, b => do
    let (v, b) ← pValue b
    let (vs, b) ← pValues n b
    pure (v :: vs, b)

/-- ErrorResponse / NoticeResponse body: (code byte ≠ 0, String)* then a 0 byte -/
def pNoticeFields : Nat → Bytes → Option (List (UInt8 × Bytes) × Bytes)
  | 0, _ => none
  | _ + 1, [] => none
  | fuel + 1, k :: b =>
    if k = 0 then some ([], b)
    else do
      let (v, b) ← pCStr b
      let (fs, b) ← pNoticeFields fuel b
      pure ((k, v) :: fs, b)

/-- the body must be used up exactly -/
def done {α : Type} (r : Option (α × Bytes)) : Option α :=
  match r with
  | some (a, []) => some a
  | _ => none

def parseBody (ty : UInt8) (body : Bytes) : Option BackendMsg :=
  if ty = 0x52 then
    match pI32 body with
    | some (code, b) =>
      if code = 0 then (if b = [] then some .authenticationOk else none)
      else if code = 3 then (if b = [] then some .authenticationCleartextPassword else none)
      else if code = 5 then (if b.length = 4 then some (.authenticationMD5Password b) else none)
      else none
    | none => none
  else if ty = 0x53 then
    done (do
      let (name, b) ← pCStr body
      let (value, b) ← pCStr b
      pure (.parameterStatus name value, b))
  else if ty = 0x4b then
    done (do
      let (pid, b) ← pI32 body
      let (key, b) ← pI32 b
      pure (.backendKeyData pid key, b))
  else if ty = 0x5a then
    match body with
    | [s] =>
      if s = 0x49 then some (.readyForQuery .idle)
      else if s = 0x54 then some (.readyForQuery .inTransaction)
      else if s = 0x45 then some (.readyForQuery .failed)
      else none
    | _ => none
  else if ty = 0x54 then
    done (do
      let (n, b) ← pI16 body
      if n < 0 then none
      else
        let (fs, b) ← pFields n.toNat b
        pure (.rowDescription fs, b))
  else if ty = 0x44 then
    done (do
      let (n, b) ← pI16 body
      if n < 0 then none
      else
        let (vs, b) ← pValues n.toNat b
        pure (.dataRow vs, b))
  else if ty = 0x43 then
    done (do
      let (tag, b) ← pCStr body
      pure (.commandComplete tag, b))
  else if ty = 0x45 then
    done (do
      let (fs, b) ← pNoticeFields (body.length + 1) body
      pure (.errorResponse fs, b))
  else if ty = 0x4e then
    done (do
      let (fs, b) ← pNoticeFields (body.length + 1) body
      pure (.noticeResponse fs, b))
  else if ty = 0x49 then
    (if body = [] then some .emptyQueryResponse else none)
  else none

/-- one frame off the front of a byte stream: (message, remaining bytes) -/
def parseBackend : Bytes → Option (BackendMsg × Bytes)
  | ty :: b1 :: b2 :: b3 :: b4 :: tl =>
    let len := i32OfBytes b1 b2 b3 b4
    if len < 4 then none
    else
      match pBytes (len.toNat - 4) tl with
      | none => none
      | some (body, rest) =>
        match parseBody ty body with
        | some m => some (m, rest)
        | none => none
  | _ => none

end VibeProof.Wire
