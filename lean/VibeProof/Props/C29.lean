import VibeProof.Model.Auth
/-
C29 — Password authentication accepts exactly the right credentials.

Model: `VibeProof.Auth.verifyCleartext`, `verifyMd5`, `computeMd5Password` (Model/Auth.lean),
transliterations of `PasswordStore::verify_cleartext / verify_md5` and `compute_md5_password` of
crates/vibesql-server/src/auth/password.rs.  Argon2 is the parameter `Crypto` (every theorem
quantifies over it; `toyCrypto` shows the laws are satisfiable); MD5 is implemented in the model.

All statements are for every store, user name, password, salt and response (any byte strings).
-/
namespace VibeProof.C29
open VibeProof.Wire VibeProof.Auth

/-! ### prefix tests -/

theorem startsWith_iff (p b : Bytes) : startsWith p b = true ↔ ∃ r, b = p ++ r := by
  unfold startsWith
  rw [List.isPrefixOf_iff_prefix]
  constructor
  · rintro ⟨t, rfl⟩; exact ⟨t, rfl⟩
  · rintro ⟨r, rfl⟩; exact ⟨r, rfl⟩

theorem stripPrefix_some (p b r : Bytes) : stripPrefix p b = some r ↔ b = p ++ r := by
  unfold stripPrefix
  constructor
  · intro h
    split at h
    · rename_i hs
      obtain ⟨t, rfl⟩ := (startsWith_iff p b).mp hs
      simp only [Option.some.injEq] at h
      rw [← h, List.drop_left' rfl]
    · exact absurd h (by simp)
  · rintro rfl
    have : startsWith p (p ++ r) = true := (startsWith_iff _ _).mpr ⟨r, rfl⟩
    rw [if_pos this, List.drop_left' rfl]

theorem stripPrefix_none (p b : Bytes) : stripPrefix p b = none ↔ startsWith p b = false := by
  unfold stripPrefix
  cases h : startsWith p b <;> simp

/-! ### cleartext (Argon2) verification -/

/-- as coded, over any implementation of the two Argon2 calls: accepted iff the user has a stored
    string tagged `$argon2` that parses and verifies the presented password -/
theorem C29_cleartext_iff (C : CryptoOps) (st : Store) (u pw : Bytes) :
    verifyCleartext C st u pw = true ↔
      ∃ stored h, getPassword st u = some stored ∧ startsWith argon2Tag stored = true ∧
        C.parse stored = some h ∧ C.verify h pw = true := by
  unfold verifyCleartext
  cases hg : getPassword st u with
  | none => simp
  | some stored =>
    by_cases ht : startsWith argon2Tag stored = true
    · simp only [ht, if_true]
      cases hp : C.parse stored with
      | none => simp [hp]
      | some h =>
        constructor
        · intro hv; exact ⟨stored, h, rfl, ht, hp, hv⟩
        · rintro ⟨s', h', hs, _, hp', hv⟩
          simp only [Option.some.injEq] at hs
          subst hs
          rw [hp] at hp'
          simp only [Option.some.injEq] at hp'
          subst hp'
          exact hv
    · have ht' : startsWith argon2Tag stored = false := by
        cases h : startsWith argon2Tag stored
        · rfl
        · exact absurd h ht
      simp only [ht', Bool.false_eq_true, if_false]
      constructor
      · intro h; split at h <;> exact absurd h (by simp)
      · rintro ⟨s', _, hs, ht2, _, _⟩
        simp only [Option.some.injEq] at hs
        subst hs
        rw [ht'] at ht2
        exact absurd ht2 (by simp)

/-- a user created from password `p` (any salt) is accepted with exactly `p` -/
theorem C29_cleartext_created (C : Crypto) (st : Store) (u p s pw : Bytes)
    (hst : getPassword st u = some (C.hash p s)) :
    verifyCleartext C.toCryptoOps st u pw = true ↔ pw = p := by
  rw [C29_cleartext_iff]
  obtain ⟨h, hp, hv⟩ := C.hash_parses p s
  constructor
  · rintro ⟨stored, h', hs, _, hp', hv'⟩
    rw [hst] at hs
    simp only [Option.some.injEq] at hs
    subst hs
    rw [hp] at hp'
    simp only [Option.some.injEq] at hp'
    subst hp'
    exact (hv pw).mp hv'
  · rintro rfl
    exact ⟨C.hash pw s, h, hst, C.hash_tag pw s, hp, (hv pw).mpr rfl⟩

/-- unknown users are rejected -/
theorem C29_cleartext_unknown_user (C : CryptoOps) (st : Store) (u pw : Bytes)
    (h : getPassword st u = none) : verifyCleartext C st u pw = false := by
  simp [verifyCleartext, h]

/-- a stored string without the `$argon2` tag (a `{MD5}` entry, cleartext, anything else) is
    rejected whatever the password -/
theorem C29_cleartext_other_format (C : CryptoOps) (st : Store) (u pw stored : Bytes)
    (h : getPassword st u = some stored) (ht : startsWith argon2Tag stored = false) :
    verifyCleartext C st u pw = false := by
  simp only [verifyCleartext, h, ht, Bool.false_eq_true, if_false]
  split <;> rfl

/-- `{MD5}…` entries never carry the `$argon2` tag -/
theorem md5_entry_not_argon2 (x : Bytes) : startsWith argon2Tag (md5Tag ++ x) = false := by
  simp [startsWith, argon2Tag, md5Tag, List.isPrefixOf]

theorem C29_cleartext_md5_entry (C : CryptoOps) (st : Store) (u pw x : Bytes)
    (h : getPassword st u = some (md5Tag ++ x)) : verifyCleartext C st u pw = false :=
  C29_cleartext_other_format C st u pw _ h (md5_entry_not_argon2 x)

/-- a tagged string that does not parse (truncated / corrupted hash) is rejected -/
theorem C29_cleartext_unparsable (C : CryptoOps) (st : Store) (u pw stored : Bytes)
    (h : getPassword st u = some stored) (hp : C.parse stored = none) :
    verifyCleartext C st u pw = false := by
  simp only [verifyCleartext, h, hp]
  split
  · rfl
  · split <;> rfl

/-- the property for cleartext verification: when the entry of `u`, if tagged `$argon2`, is
    either a hash created from some password or unparsable, verification succeeds iff the user
    exists with an Argon2 secret and the presented password is the one it was created from -/
theorem C29_cleartext_exact (C : Crypto) (st : Store) (u pw : Bytes)
    (hst : ∀ stored, getPassword st u = some stored → startsWith argon2Tag stored = true →
      (∃ p s, stored = C.hash p s) ∨ C.parse stored = none) :
    verifyCleartext C.toCryptoOps st u pw = true ↔
      ∃ s, getPassword st u = some (C.hash pw s) := by
  constructor
  · intro hv
    obtain ⟨stored, h, hs, ht, hp, hvf⟩ := (C29_cleartext_iff _ _ _ _).mp hv
    rcases hst stored hs ht with ⟨p, s, rfl⟩ | hnone
    · have := (C29_cleartext_created C st u p s pw hs).mp hv
      subst this
      exact ⟨s, hs⟩
    · rw [hnone] at hp; exact absurd hp (by simp)
  · rintro ⟨s, hs⟩
    exact (C29_cleartext_created C st u pw s pw hs).mpr rfl

/-! ### MD5 challenge verification -/

/-- the digest the server expects for stored password `p` -/
abbrev digest (p u salt : Bytes) : Bytes := computeMd5Password p u salt

/-- as coded: accepted iff the user has a `{MD5}p` entry and the response is `md5` ++ digest, or
    a response without the `md5` prefix that equals the digest itself -/
theorem C29_md5_iff (st : Store) (u resp salt : Bytes) :
    verifyMd5 st u resp salt = true ↔
      ∃ p, getPassword st u = some (md5Tag ++ p) ∧
        (resp = md5RespPrefix ++ digest p u salt ∨
          (startsWith md5RespPrefix resp = false ∧ resp = digest p u salt)) := by
  cases hg : getPassword st u with
  | none => simp [verifyMd5, hg]
  | some stored =>
    cases hs : stripPrefix md5Tag stored with
    | none =>
      simp only [verifyMd5, hg, hs, Bool.false_eq_true, false_iff]
      rintro ⟨p, hp, _⟩
      simp only [Option.some.injEq] at hp
      have := (stripPrefix_some md5Tag stored p).mpr hp
      rw [hs] at this
      exact absurd this (by simp)
    | some p =>
      have hst := (stripPrefix_some _ _ _).mp hs
      subst hst
      cases hr : stripPrefix md5RespPrefix resp with
      | some rest =>
        have hre := (stripPrefix_some _ _ _).mp hr
        subst hre
        have hsw : startsWith md5RespPrefix (md5RespPrefix ++ rest) = true :=
          (startsWith_iff _ _).mpr ⟨rest, rfl⟩
        simp only [verifyMd5, hg, hs, hr, beq_iff_eq]
        constructor
        · intro h
          exact ⟨p, rfl, Or.inl (by rw [← h])⟩
        · rintro ⟨p', hp', h⟩
          simp only [Option.some.injEq] at hp'
          have := List.append_cancel_left hp'
          subst this
          rcases h with h | ⟨h1, _⟩
          · exact (List.append_cancel_left h).symm
          · rw [hsw] at h1; exact absurd h1 (by simp)
      | none =>
        have hsw := (stripPrefix_none _ _).mp hr
        simp only [verifyMd5, hg, hs, hr, beq_iff_eq]
        constructor
        · intro h
          exact ⟨p, rfl, Or.inr ⟨hsw, h.symm⟩⟩
        · rintro ⟨p', hp', h⟩
          simp only [Option.some.injEq] at hp'
          have := List.append_cancel_left hp'
          subst this
          rcases h with h | ⟨_, h⟩
          · have : startsWith md5RespPrefix resp = true := (startsWith_iff _ _).mpr ⟨_, h⟩
            rw [hsw] at this; exact absurd this (by simp)
          · exact h.symm

theorem hexDigit_ne_m : ∀ n, n < 16 → hexDigit n ≠ 0x6d := by decide

/-- a digest is 32 hex characters: it never starts with `md5` -/
theorem digest_not_prefixed (p u salt : Bytes) :
    startsWith md5RespPrefix (digest p u salt) = false := by
  unfold digest computeMd5Password
  generalize hexLower (md5 (p ++ u)) ++ salt = x
  have : ∃ b rest, md5 x = b :: rest := by
    unfold md5 md5Digest le32
    exact ⟨_, _, rfl⟩
  obtain ⟨b, rest, hb⟩ := this
  rw [hb]
  have hne := hexDigit_ne_m (b.toNat / 16) (by have := UInt8.toNat_lt b; omega)
  simp only [hexLower, startsWith, md5RespPrefix, List.isPrefixOf]
  have : ((0x6d : UInt8) == hexDigit (b.toNat / 16)) = false := by
    cases h : ((0x6d : UInt8) == hexDigit (b.toNat / 16))
    · rfl
    · exact absurd (beq_iff_eq.mp h).symm hne
  rw [this]
  rfl

/-- as coded, simplified: the response is `md5` ++ digest **or the bare digest** -/
theorem C29_md5_iff_simple (st : Store) (u resp salt : Bytes) :
    verifyMd5 st u resp salt = true ↔
      ∃ p, getPassword st u = some (md5Tag ++ p) ∧
        (resp = md5RespPrefix ++ digest p u salt ∨ resp = digest p u salt) := by
  rw [C29_md5_iff]
  constructor
  · rintro ⟨p, hp, h | ⟨_, h⟩⟩
    · exact ⟨p, hp, Or.inl h⟩
    · exact ⟨p, hp, Or.inr h⟩
  · rintro ⟨p, hp, h | h⟩
    · exact ⟨p, hp, Or.inl h⟩
    · exact ⟨p, hp, Or.inr ⟨by rw [h]; exact digest_not_prefixed p u salt, h⟩⟩

/-- the property as stated: MD5 verification succeeds iff the response equals the PostgreSQL MD5
    digest (`md5` followed by the 32 hex characters) of that user's stored password and salt -/
def C29_md5_full : Prop :=
  ∀ (st : Store) (u resp salt : Bytes),
    verifyMd5 st u resp salt = true ↔
      ∃ p, getPassword st u = some (md5Tag ++ p) ∧ resp = md5RespPrefix ++ digest p u salt

/-- what holds of the code: the full statement for every response that carries the `md5` prefix
    (the excluded region is exactly: responses not starting with `md5`) -/
theorem C29_md5_partial (st : Store) (u resp salt : Bytes)
    (hpre : startsWith md5RespPrefix resp = true) :
    verifyMd5 st u resp salt = true ↔
      ∃ p, getPassword st u = some (md5Tag ++ p) ∧ resp = md5RespPrefix ++ digest p u salt := by
  rw [C29_md5_iff]
  constructor
  · rintro ⟨p, hp, h | ⟨h, _⟩⟩
    · exact ⟨p, hp, h⟩
    · rw [hpre] at h; exact absurd h (by simp)
  · rintro ⟨p, hp, h⟩
    exact ⟨p, hp, Or.inl h⟩

/-- in the excluded region the code accepts exactly the bare digest -/
theorem C29_md5_bare_digest_accepted (st : Store) (u p salt : Bytes)
    (h : getPassword st u = some (md5Tag ++ p)) :
    verifyMd5 st u (digest p u salt) salt = true :=
  (C29_md5_iff_simple st u _ salt).mpr ⟨p, h, Or.inr rfl⟩

/-- the full statement is false of the code: the bare digest (no `md5` prefix) is accepted.
    Witness: user `u` with stored `{MD5}p`, salt 01 02 03 04 (replayed on the real code by the
    harness on every run; `test_verify_md5_with_md5_storage` asserts this acceptance) -/
theorem C29_md5_counterexample : ¬ C29_md5_full := by
  intro hfull
  let st : Store := [([0x75], md5Tag ++ [0x70])]
  have hg : getPassword st [0x75] = some (md5Tag ++ [0x70]) := by decide
  have hacc := C29_md5_bare_digest_accepted st [0x75] [0x70] [1, 2, 3, 4] hg
  obtain ⟨p, _, hp⟩ := (hfull st [0x75] _ [1, 2, 3, 4]).mp hacc
  have hl := congrArg List.length hp
  have hnp := digest_not_prefixed [0x70] [0x75] [1, 2, 3, 4]
  have : startsWith md5RespPrefix (digest [0x70] [0x75] [1, 2, 3, 4]) = true :=
    (startsWith_iff _ _).mpr ⟨_, hp⟩
  rw [hnp] at this
  exact absurd this (by simp)

/-- unknown users are rejected -/
theorem C29_md5_unknown_user (st : Store) (u resp salt : Bytes) (h : getPassword st u = none) :
    verifyMd5 st u resp salt = false := by
  simp [verifyMd5, h]

/-- entries that are not `{MD5}…` (Argon2 hashes, anything else) are rejected for every response -/
theorem C29_md5_other_format (st : Store) (u resp salt stored : Bytes)
    (h : getPassword st u = some stored) (hs : startsWith md5Tag stored = false) :
    verifyMd5 st u resp salt = false := by
  have : stripPrefix md5Tag stored = none := (stripPrefix_none _ _).mpr hs
  simp [verifyMd5, h, this]

/-- format guard (no pass-the-hash): whenever `verify_md5` accepts, the user's stored secret has the
    `{MD5}` prefix and the response is one of the two expected digests of the password behind it -/
theorem C29_md5_accept_implies_md5_entry (st : Store) (u resp salt : Bytes)
    (h : verifyMd5 st u resp salt = true) :
    ∃ stored p, getPassword st u = some stored ∧ stored = md5Tag ++ p ∧
      startsWith md5Tag stored = true ∧
      (resp = md5RespPrefix ++ digest p u salt ∨ resp = digest p u salt) := by
  obtain ⟨p, hp, hr⟩ := (C29_md5_iff_simple st u resp salt).mp h
  exact ⟨md5Tag ++ p, p, hp, rfl, (startsWith_iff _ _).mpr ⟨p, rfl⟩, hr⟩

/-- for a stored secret that is not in `{MD5}` format (an Argon2 string, a bare digest, anything
    else) `verify_md5` is false for **every** response and salt — in particular for every response
    an attacker can compute from the stored string itself -/
theorem C29_md5_non_md5_secret_rejects_all (st : Store) (u stored : Bytes)
    (hg : getPassword st u = some stored) (hs : startsWith md5Tag stored = false) :
    ∀ resp salt, verifyMd5 st u resp salt = false :=
  fun resp salt => C29_md5_other_format st u resp salt stored hg hs

/-- a hash created by `add_user` is never usable for the MD5 protocol -/
theorem C29_md5_argon2_entry (C : Crypto) (st : Store) (u resp salt p s : Bytes)
    (h : getPassword st u = some (C.hash p s)) : verifyMd5 st u resp salt = false := by
  apply C29_md5_other_format st u resp salt _ h
  obtain ⟨r, hr⟩ := (startsWith_iff _ _).mp (C.hash_tag p s)
  rw [hr]
  simp [startsWith, argon2Tag, md5Tag, List.isPrefixOf]

/-! ### the login step -/

/-- the decision of a login depends on the user name, never on the requested database -/
theorem C29_login_ignores_database (C : CryptoOps) (method : AuthMethod) (st : Store)
    (user db1 db2 secret salt : Bytes) :
    login C method st user db1 secret salt = login C method st user db2 secret salt := by
  cases method <;> rfl

/-- a password login succeeds only with the password the *user's* entry was created from; the
    entry of the account named like the database is irrelevant -/
theorem C29_login_password (C : Crypto) (st : Store) (user db secret salt p s : Bytes)
    (h : getPassword st user = some (C.hash p s)) :
    login C.toCryptoOps .password st user db secret salt = true ↔ secret = p :=
  C29_cleartext_created C st user p s secret h

/-- an MD5 login succeeds only for a user stored as `{MD5}p`, with a digest of that user's `p` -/
theorem C29_login_md5 (C : CryptoOps) (st : Store) (user db resp salt : Bytes)
    (h : login C .md5 st user db resp salt = true) :
    ∃ p, getPassword st user = some (md5Tag ++ p) ∧
      (resp = md5RespPrefix ++ digest p user salt ∨ resp = digest p user salt) :=
  (C29_md5_iff_simple st user resp salt).mp h

/-! ### non-vacuity: a `Crypto` exists, and stores satisfying the hypotheses exist -/

/-- a toy instance (stores the password after the tag): the laws of `Crypto` are satisfiable -/
def toyCrypto : Crypto where
  Hash := Bytes
  parse := fun stored => stripPrefix (argon2Tag ++ [0x24]) stored
  verify := fun h q => h == q
  hash := fun p _ => (argon2Tag ++ [0x24]) ++ p
  hash_tag := by
    intro p s
    exact (startsWith_iff _ _).mpr ⟨0x24 :: p, by simp⟩
  hash_parses := by
    intro p s
    refine ⟨p, (stripPrefix_some _ _ _).mpr rfl, ?_⟩
    intro q
    simp only [beq_iff_eq]
    exact eq_comm

/-- `alice` created from the password `pw` (toy Argon2), `bob` with `{MD5}s3` -/
def exampleStore : Store :=
  [([0x61, 0x6c, 0x69, 0x63, 0x65], toyCrypto.hash [0x70, 0x77] []),
   ([0x62, 0x6f, 0x62], md5Tag ++ [0x73, 0x33])]

example : getPassword exampleStore [0x61, 0x6c, 0x69, 0x63, 0x65] = some (toyCrypto.hash [0x70, 0x77] []) := by
  decide

example : verifyCleartext toyCrypto.toCryptoOps exampleStore [0x61, 0x6c, 0x69, 0x63, 0x65] [0x70, 0x77] = true :=
  (C29_cleartext_created toyCrypto exampleStore _ [0x70, 0x77] [] _ (by decide)).mpr rfl

example : getPassword exampleStore [0x62, 0x6f, 0x62] = some (md5Tag ++ [0x73, 0x33]) := by decide

/-- a response carrying the prefix exists (hypothesis of `C29_md5_partial`) -/
example : startsWith md5RespPrefix (md5RespPrefix ++ digest [0x73, 0x33] [0x62, 0x6f, 0x62] [1, 2, 3, 4]) = true :=
  (startsWith_iff _ _).mpr ⟨_, rfl⟩

end VibeProof.C29
