import VibeProof.Model.TableDml
/-
C09 — UPDATE and DELETE act on exactly the rows their WHERE clause selects.
-/
namespace VibeProof.C09
open VibeProof VibeProof.TableDml TV

/-- DELETE removes exactly the rows `SELECT … WHERE p` returns, keeps all others in order, and
reports their number -/
theorem C09_delete (p : Row → TV) (rows : List Row) :
    let d := deleteWhere p rows
    d.deleted = filter3 p rows ∧
    d.count = (filter3 p rows).length ∧
    (d.deleted ++ d.remaining).Perm rows ∧
    (∀ r, r ∈ d.remaining ↔ r ∈ rows ∧ p r ≠ t) ∧
    d.remaining.Sublist rows := by
  refine ⟨rfl, rfl, ?_, ?_, ?_⟩
  · exact List.filter_append_perm (sel p) rows
  · intro r; simp [deleteWhere, sel]
  · exact List.filter_sublist

/-- UPDATE keeps the number and order of rows, rewrites exactly the selected ones — each to the
SET expressions evaluated on its own pre-update values — and reports their number -/
theorem C09_update (p : Row → TV) (as : List (Nat × (Row → Value))) (rows : List Row) :
    let u := updateWhere p as rows
    u.rows.length = rows.length ∧
    u.count = (filter3 p rows).length ∧
    (∀ i (h : i < rows.length), u.rows[i]? =
        some (if p rows[i] = t then applyAssignments as rows[i] else rows[i])) := by
  refine ⟨by simp [updateWhere], rfl, ?_⟩
  intro i h
  simp only [updateWhere, List.getElem?_map, List.getElem?_eq_getElem h, Option.map_some, sel]
  by_cases hp : p rows[i] = t <;> simp [hp]

/-- rows the predicate does not select are unchanged, whatever the SET list -/
theorem C09_update_unselected_unchanged (p : Row → TV) (as : List (Nat × (Row → Value)))
    (rows : List Row) (i : Nat) (h : i < rows.length) (hp : p rows[i] ≠ t) :
    (updateWhere p as rows).rows[i]? = some rows[i] := by
  have := (C09_update p as rows).2.2 i h
  simpa [hp] using this

/-- a single assignment writes the value computed from the old row into its column and leaves
the other columns alone -/
theorem C09_single_assignment (c : Nat) (f : Row → Value) (old : Row) (hc : c < old.length) :
    (applyAssignments [(c, f)] old)[c]? = some (f old) ∧
    ∀ j, j ≠ c → (applyAssignments [(c, f)] old)[j]? = old[j]? := by
  constructor
  · simp [applyAssignments, hc]
  · intro j hj
    simp [applyAssignments, List.getElem?_set, Ne.symm hj]

/-- `SET a = b, b = a` swaps: right-hand sides see the pre-update row -/
theorem C09_set_uses_old_values (i j : Nat) (old : Row) (hij : i ≠ j) (hi : i < old.length) (hj : j < old.length) :
    let new := applyAssignments [(i, fun r => (r[j]?).getD .null), (j, fun r => (r[i]?).getD .null)] old
    new[i]? = old[j]? ∧ new[j]? = old[i]? := by
  simp only [applyAssignments, List.foldl_cons, List.foldl_nil]
  constructor
  · simp [List.getElem?_set, hij, Ne.symm hij, hi, hj, List.getElem?_eq_getElem]
  · simp [List.getElem?_set, hij, hi, hj, List.getElem?_eq_getElem]

/-- the table's primary keys are non-NULL and pairwise distinct (C10's invariant) -/
def PkUnique (pk : Row → Value) (rows : List Row) : Prop :=
  (∀ r ∈ rows, pk r ≠ .null) ∧ (rows.map pk).Nodup

theorem inj_of_nodup_map {α β : Type} (f : α → β) (l : List α) (h : (l.map f).Nodup)
    {a b : α} (ha : a ∈ l) (hb : b ∈ l) (hab : f a = f b) : a = b := by
  induction l with
  | nil => simp at ha
  | cons x xs ih =>
    simp only [List.map_cons, List.nodup_cons, List.mem_map, not_exists, not_and] at h
    rcases List.mem_cons.mp ha with rfl | ha' <;> rcases List.mem_cons.mp hb with rfl | hb'
    · rfl
    · exact absurd hab.symm (h.1 b hb')
    · exact absurd hab (h.1 a ha')
    · exact ih h.2 ha' hb'

theorem filter_eq_of_findIdx {α : Type} (q : α → Bool) (l : List α) (i : Nat)
    (hf : l.findIdx? q = some i) (huniq : ∀ a ∈ l, ∀ b ∈ l, q a = true → q b = true → a = b)
    (hnd : l.Nodup) :
    l.filter q = (l[i]?).toList ∧ l.filter (fun x => !q x) = l.eraseIdx i := by
  induction l generalizing i with
  | nil => simp at hf
  | cons x xs ih =>
    by_cases hx : q x = true
    · have hi : i = 0 := by simpa [List.findIdx?_cons, hx] using hf.symm
      subst hi
      have hrest : ∀ y ∈ xs, q y = false := by
        intro y hy
        cases hq : q y with
        | false => rfl
        | true =>
          have := huniq x List.mem_cons_self y (List.mem_cons_of_mem _ hy) hx hq
          exact absurd (this ▸ hy) (List.nodup_cons.mp hnd).1
      have h1 : xs.filter q = [] := List.filter_eq_nil_iff.mpr (fun y hy => by simp [hrest y hy])
      have h2 : xs.filter (fun x => !q x) = xs := List.filter_eq_self.mpr (fun y hy => by simp [hrest y hy])
      simp [List.filter_cons, hx, h1, h2]
    · have hx' : q x = false := by simpa using hx
      obtain ⟨k, hk, rfl⟩ : ∃ k, xs.findIdx? q = some k ∧ i = k + 1 := by
        simp only [List.findIdx?_cons, hx', Bool.false_eq_true, if_false] at hf
        cases hk : xs.findIdx? q with
        | none => simp [hk] at hf
        | some k => exact ⟨k, rfl, by simpa [hk] using hf.symm⟩
      have := ih k hk (fun a ha b hb => huniq a (List.mem_cons_of_mem _ ha) b (List.mem_cons_of_mem _ hb))
        (List.nodup_cons.mp hnd).2
      simp [List.filter_cons, hx', this.1, this.2]

/-- The primary-key fast path deletes exactly what the scan for `pk = lit` deletes: for a
literal of the key's own type by the hash hit, for any other literal by the fall-back scan. -/
theorem C09_pk_fastpath (pk : Row → Value) (rows : List Row) (lit : KeyLit)
    (hu : PkUnique pk rows) (hnd : rows.Nodup) :
    let a := deleteByPk pk rows lit
    let b := deleteWhere (pkEq pk lit) rows
    a.deleted = b.deleted ∧ a.remaining = b.remaining ∧ a.count = b.count := by
  unfold deleteByPk
  cases hl : pkLookup pk rows lit with
  | none => simp
  | some i =>
    simp only
    unfold pkLookup at hl
    by_cases hs : lit.sameType = true
    · simp only [hs, if_true] at hl
      -- the scan predicate coincides with the index predicate on this table
      have hsel : ∀ r ∈ rows, sel (pkEq pk lit) r = decide (pk r = lit.v) := by
        intro r hr
        have hnn := hu.1 r hr
        by_cases he : pk r = lit.v
        · have : lit.v ≠ .null := he ▸ hnn
          simp [sel, pkEq, hnn, this, he]
        · by_cases hn : lit.v = .null <;> simp [sel, pkEq, hnn, hn, he]
      have huniq : ∀ a ∈ rows, ∀ b ∈ rows, decide (pk a = lit.v) = true → decide (pk b = lit.v) = true → a = b := by
        intro a ha b hb h1 h2
        have h1' : pk a = lit.v := by simpa using h1
        have h2' : pk b = lit.v := by simpa using h2
        exact inj_of_nodup_map pk rows hu.2 ha hb (h1'.trans h2'.symm)
      have key := filter_eq_of_findIdx (fun r => decide (pk r = lit.v)) rows i hl huniq hnd
      have hf1 : rows.filter (sel (pkEq pk lit)) = rows.filter (fun r => decide (pk r = lit.v)) :=
        List.filter_congr (fun r hr => hsel r hr)
      have hf2 : rows.filter (fun r => !sel (pkEq pk lit) r) = rows.filter (fun r => !decide (pk r = lit.v)) :=
        List.filter_congr (fun r hr => by rw [hsel r hr])
      simp only [deleteWhere, hf1, hf2, key.1, key.2]
      exact ⟨trivial, trivial, trivial⟩
    · simp [hs] at hl

/-- INSERT adds exactly the given rows (after coercion) at the end and reports their number -/
theorem C09_insert (coerce : Row → Row) (new rows : List Row) :
    (insertRows coerce new rows).1 = rows ++ new.map coerce ∧
    (insertRows coerce new rows).2 = new.length ∧
    ((insertRows coerce new rows).1.take rows.length = rows) := by
  simp [insertRows]

/-- non-vacuity: a keyed table, a same-type hit and an other-type literal -/
example :
    let rows : List Row := [[.int 1, .int 10], [.int 2, .int 0], [.int 3, .int 30]]
    let pk : Row → Value := fun r => r.headD .null
    (deleteByPk pk rows ⟨.int 2, true⟩).remaining = [[.int 1, .int 10], [.int 3, .int 30]] ∧
    (deleteByPk pk rows ⟨.int 2, false⟩).remaining = [[.int 1, .int 10], [.int 3, .int 30]] ∧
    (deleteByPk pk rows ⟨.int 9, true⟩).count = 0 := by decide

/-! ### further laws of DELETE / UPDATE -/

/-- after `DELETE … WHERE p` no remaining row satisfies `p`: the same DELETE again removes
nothing, and `SELECT … WHERE p` is empty -/
theorem C09_delete_idempotent (p : Row → TV) (rows : List Row) :
    let d := deleteWhere p rows
    filter3 p d.remaining = [] ∧
    (deleteWhere p d.remaining).count = 0 ∧
    (deleteWhere p d.remaining).remaining = d.remaining := by
  have h : ∀ r ∈ rows.filter (fun r => !sel p r), sel p r = false := by
    intro r hr; simpa using (List.mem_filter.mp hr).2
  have hempty : (rows.filter (fun r => !sel p r)).filter (sel p) = [] := by
    rw [List.filter_eq_nil_iff]; intro r hr; simp [h r hr]
  refine ⟨?_, ?_, ?_⟩
  · simp only [deleteWhere, filter3]; exact hempty
  · simp [deleteWhere, hempty]
  · simp only [deleteWhere]
    rw [List.filter_eq_self]
    intro r hr; simp [h r hr]

/-- the reported count and the table sizes add up -/
theorem C09_delete_sizes (p : Row → TV) (rows : List Row) :
    (deleteWhere p rows).count + (deleteWhere p rows).remaining.length = rows.length := by
  have := (C09_delete p rows).2.2.1.length_eq
  simpa [deleteWhere, List.length_append] using this

/-- any list of assignments to distinct columns: each assigned column gets its right-hand side
evaluated on the OLD row, every other column keeps its old value -/
theorem C09_assignments_general (as : List (Nat × (Row → Value))) (old : Row)
    (hnd : (as.map (·.1)).Nodup) (hin : ∀ a ∈ as, a.1 < old.length) :
    (∀ a ∈ as, (applyAssignments as old)[a.1]? = some (a.2 old)) ∧
    (∀ j, j ∉ as.map (·.1) → (applyAssignments as old)[j]? = old[j]?) ∧
    (applyAssignments as old).length = old.length := by
  unfold applyAssignments
  -- generalise the accumulator: it has old's length, already-written columns are listed in `done`
  have gen : ∀ (as : List (Nat × (Row → Value))) (acc : Row), acc.length = old.length →
      (as.map (·.1)).Nodup → (∀ a ∈ as, a.1 < old.length) →
      let res := as.foldl (fun acc a => acc.set a.1 (a.2 old)) acc
      res.length = old.length ∧
      (∀ a ∈ as, res[a.1]? = some (a.2 old)) ∧
      (∀ j, j ∉ as.map (·.1) → res[j]? = acc[j]?) := by
    intro as
    induction as with
    | nil => intro acc hl _ _; exact ⟨hl, by simp, by simp⟩
    | cons a rest ih =>
      intro acc hl hnd hin
      have hnd' : (rest.map (·.1)).Nodup := (List.nodup_cons.mp hnd).2
      have hnotin : a.1 ∉ rest.map (·.1) := (List.nodup_cons.mp hnd).1
      have ha : a.1 < old.length := hin a List.mem_cons_self
      have hl' : (acc.set a.1 (a.2 old)).length = old.length := by simp [hl]
      obtain ⟨h1, h2, h3⟩ := ih (acc.set a.1 (a.2 old)) hl' hnd' (fun b hb => hin b (List.mem_cons_of_mem _ hb))
      refine ⟨h1, ?_, ?_⟩
      · intro b hb
        rcases List.mem_cons.mp hb with rfl | hb
        · simp only [List.foldl_cons]
          rw [h3 b.1 hnotin]
          simp [List.getElem?_set, hl, ha]
        · exact h2 b hb
      · intro j hj
        simp only [List.map_cons, List.mem_cons, not_or] at hj
        simp only [List.foldl_cons]
        rw [h3 j hj.2]
        simp [List.getElem?_set, Ne.symm hj.1]
  obtain ⟨h1, h2, h3⟩ := gen as old rfl hnd hin
  exact ⟨h2, h3, h1⟩

/-- UPDATE never changes the number of rows, and the reported count never exceeds it -/
theorem C09_update_sizes (p : Row → TV) (as : List (Nat × (Row → Value))) (rows : List Row) :
    (updateWhere p as rows).rows.length = rows.length ∧ (updateWhere p as rows).count ≤ rows.length := by
  refine ⟨by simp [updateWhere], ?_⟩
  simp only [updateWhere]
  exact List.length_filter_le _ _

/-- non-vacuity: three assignments, one reading a column another one writes -/
example : applyAssignments [(0, fun r => (r[2]?).getD .null), (2, fun _ => .int 9), (1, fun r => (r[0]?).getD .null)]
    [.int 1, .int 2, .int 3] = [.int 3, .int 1, .int 9] := by decide

end VibeProof.C09
