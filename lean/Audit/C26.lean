import VibeProof.Props.C26
#print axioms VibeProof.C26.C26_history
#print axioms VibeProof.C26.C26_history_from_empty
#print axioms VibeProof.C26.C26_exact_names
#print axioms VibeProof.C26.C26_allow_iff
#print axioms VibeProof.C26.C26_deny_sound
#print axioms VibeProof.C26.C26_read_without_select_denied
#print axioms VibeProof.C26.C26_write_without_privilege_denied
#print axioms VibeProof.C26.C26_monotone
#print axioms VibeProof.C26.C26_deny_inert
#print axioms VibeProof.C26.C26_deny_fails_partial
#print axioms VibeProof.C26.C26_delete_counterexample
#print axioms VibeProof.C26.C26_grant_effective
#print axioms VibeProof.C26.C26_revoke_effective
#print axioms VibeProof.C26.C26_code_tables
#print axioms VibeProof.C26.C26_truncate_needs_delete_on_every_table
