//! throw-away probe
use vharness::*;
use vibesql_types::SqlValue as V;
fn main() {
    engine::silence_panics();
    let mut db = Db::new();
    db.must("CREATE TABLE f (k INTEGER, d DOUBLE PRECISION, b BIGINT)");
    let vals: Vec<(f64, i64)> = vec![(-1.5, i64::MIN), (-0.0, i64::MAX), (0.0, -1), (f64::MIN_POSITIVE, 0), (-1e300, 5), (5e-324, 7), (-5e-324, -7), (1e300, 1)];
    let mut name = "";
    for n in ["f", "F"] {
        if db.db.insert_row(n, vibesql_storage::Row::new(vec![V::Integer(0), V::Null, V::Null])).is_ok() { name = n; break; }
    }
    println!("table name accepted: {:?}", name);
    for (i, (d, b)) in vals.iter().enumerate() {
        db.db.insert_row(name, vibesql_storage::Row::new(vec![V::Integer(i as i64), V::Double(*d), V::Bigint(*b)])).unwrap();
    }
    for sql in [
        "SELECT MIN(d), MAX(d), COUNT(d), COUNT(*) FROM f",
        "SELECT MAX(d), MIN(d) FROM f WHERE d < 0",
        "SELECT MAX(d), MIN(d) FROM f WHERE d < 0.0",
        "SELECT MAX(d), MIN(d), COUNT(*) FROM f WHERE d <= 0.0",
        "SELECT MAX(d), MIN(d), COUNT(*) FROM f WHERE d > 0.0",
        "SELECT SUM(d), AVG(d) FROM f WHERE d <= 0.0",
        "SELECT MIN(b), MAX(b), COUNT(b), AVG(b) FROM f WHERE b > 0",
        "SELECT MIN(b), MAX(b) FROM f",
        "SELECT MIN(b), MAX(b) FROM f WHERE b < 0",
        "SELECT AVG(b) FROM f WHERE b >= 9223372036854775807",
    ] {
        for off in [false, true] {
            if off { std::env::set_var("VIBESQL_VERIF_NO_COLUMNAR", "1") } else { std::env::remove_var("VIBESQL_VERIF_NO_COLUMNAR") }
            let o = db.exec(sql);
            let raw = match &o { Out::Rows(r) => format!("{:?}", r), _ => o.brief() };
            println!("{} {}\n      {}", if off {"off"} else {"on "}, sql, &raw[..raw.len().min(200)]);
        }
    }
}
