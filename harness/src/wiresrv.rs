//! Shared by the wire-level families of C28 and C29: build the server binary of
//! the tree under test, start it on a free loopback port with a generated configuration.
//! Included with `#[path = "../wiresrv.rs"] mod wiresrv;` (not part of the vharness lib).
#![allow(dead_code)]
use std::path::{Path, PathBuf};

pub struct ServerProc {
    pub child: std::process::Child,
    pub port: u16,
}
impl Drop for ServerProc {
    fn drop(&mut self) {
        let _ = self.child.kill();
        let _ = self.child.wait();
    }
}

/// `cargo build -p vibesql-server` of the tree under test into a shared target directory (kept
/// warm between runs), under a file lock; the binary is copied into the run's scratch directory
pub fn build_server(scratch: &Path) -> Result<PathBuf, String> {
    use std::os::unix::io::AsRawFd;
    // next to the harness' own target directory (git-ignored; warmed by setup.sh; a shadow copy of
    // /verif gets its own, pre-warmed by the rsync)
    let target_s = format!("{}/harness/target-server", std::env::current_dir().map(|d| d.display().to_string()).unwrap_or_else(|_| ".".into()));
    let target = target_s.as_str();
    let _ = std::fs::create_dir_all(target);
    let _ = std::fs::create_dir_all(scratch);
    let lock = std::fs::File::create(format!("{}.lock", target)).map_err(|e| e.to_string())?;
    unsafe {
        libc::flock(lock.as_raw_fd(), libc::LOCK_EX);
    }
    let out = std::process::Command::new("cargo")
        .args(["build", "--manifest-path", "/repo/Cargo.toml", "-p", "vibesql-server", "--offline", "--quiet"])
        .env("RUSTC_WRAPPER", "")
        .env("CARGO_TARGET_DIR", target)
        .env("CARGO_NET_OFFLINE", "true")
        .output()
        .map_err(|e| e.to_string());
    let res = match out {
        Ok(out) if out.status.success() => {
            let dst = scratch.join("vibesql-server");
            std::fs::copy(format!("{}/debug/vibesql-server", target), &dst).map(|_| dst).map_err(|e| e.to_string())
        }
        Ok(out) => Err(String::from_utf8_lossy(&out.stderr).lines().filter(|l| l.starts_with("error")).take(5).collect::<Vec<_>>().join("\n")),
        Err(e) => Err(e),
    };
    unsafe {
        libc::flock(lock.as_raw_fd(), libc::LOCK_UN);
    }
    res
}

pub fn start_server(bin: &Path, dir: &Path, method: &str, pwfile: Option<&Path>) -> Result<ServerProc, String> {
    for _attempt in 0..3 {
        let port = {
            let l = std::net::TcpListener::bind("127.0.0.1:0").map_err(|e| e.to_string())?;
            l.local_addr().map_err(|e| e.to_string())?.port()
        };
        let _ = std::fs::create_dir_all(dir);
        let cfg = format!(
            "[server]\nhost = \"127.0.0.1\"\nport = {}\nmax_connections = 100\nssl_enabled = false\n\n[auth]\nmethod = \"{}\"\n{}\n[logging]\nlevel = \"error\"\n",
            port,
            method,
            pwfile.map(|p| format!("password_file = \"{}\"\n", p.display())).unwrap_or_default()
        );
        std::fs::write(dir.join("vibesql-server.toml"), cfg).map_err(|e| e.to_string())?;
        let log = std::fs::File::create(dir.join("server.log")).map_err(|e| e.to_string())?;
        let child = std::process::Command::new(bin)
            .current_dir(dir)
            .env("RUST_LOG", "error")
            .env("HOME", dir)
            .env_remove("XDG_CONFIG_HOME")
            .stdin(std::process::Stdio::null())
            .stdout(std::process::Stdio::null())
            .stderr(log)
            .spawn()
            .map_err(|e| e.to_string())?;
        let mut sp = ServerProc { child, port };
        for _ in 0..150 {
            if std::net::TcpStream::connect(("127.0.0.1", port)).is_ok() {
                return Ok(sp);
            }
            if let Ok(Some(_)) = sp.child.try_wait() {
                break;
            }
            std::thread::sleep(std::time::Duration::from_millis(100));
        }
    }
    Err(format!("server did not start listening; log: {}", std::fs::read_to_string(dir.join("server.log")).unwrap_or_default().chars().take(600).collect::<String>()))
}

/// startup packet (protocol 3.0) with the given parameters
pub fn startup_packet(params: &[(&str, &str)]) -> Vec<u8> {
    let mut body = 196608i32.to_be_bytes().to_vec();
    for (k, v) in params {
        body.extend_from_slice(k.as_bytes());
        body.push(0);
        body.extend_from_slice(v.as_bytes());
        body.push(0);
    }
    body.push(0);
    let mut pkt = ((4 + body.len()) as u32).to_be_bytes().to_vec();
    pkt.extend_from_slice(&body);
    pkt
}

/// set SO_RCVBUF of a connected socket (slow-reader experiments)
pub fn set_rcvbuf(s: &std::net::TcpStream, bytes: i32) {
    use std::os::unix::io::AsRawFd;
    unsafe {
        libc::setsockopt(s.as_raw_fd(), libc::SOL_SOCKET, libc::SO_RCVBUF, &bytes as *const i32 as *const libc::c_void, std::mem::size_of::<i32>() as libc::socklen_t);
    }
}
