#!/bin/bash
# Runs the repository's pinned test suite (guard OFF) the way BASELINE.json was produced
# (nextest cannot list the sqllogictest binary here, so the recorded fallback `cargo test` is
# what produced the ids) and compares with its stable_pass list.
# usage: tools/baseline.sh [repo_dir] [out_dir]
REPO=${1:-/repo}
OUT=${2:-/tmp/verif-baseline}
mkdir -p "$OUT"
cd "$REPO" || exit 2
export RUSTC_WRAPPER= CARGO_NET_OFFLINE=true
cargo test --workspace --no-fail-fast --offline > "$OUT/cargo.log" 2>&1
python3 /w/lib/parse_tests.py --kind cargo --log "$OUT/cargo.log" --out "$OUT/cargo.json"
python3 - "$OUT" <<'PY'
import json, sys
out = sys.argv[1]
base = json.load(open('/root/.vp/BASELINE.json'))
stable = set(base['stable_pass'])
d = json.load(open(out + '/cargo.json'))
passed, failed = set(d['passed']), set(d['failed'])
bad = sorted(t for t in stable if t in failed)
missing = sorted(t for t in stable if t not in passed and t not in failed)
print('stable=%d passed=%d failed=%d' % (len(stable), len(passed), len(failed)))
print('STABLE TESTS NOW FAILING: %d' % len(bad))
for t in bad: print('  FAIL', t)
print('stable tests not seen: %d' % len(missing))
for t in missing[:40]: print('  MISSING', t)
newfail = sorted(t for t in failed if t not in set(base.get('always_fail', [])) and t not in set(base.get('flaky', [])) and t not in stable)
print('other failing tests not in always_fail/flaky: %d' % len(newfail))
for t in newfail[:40]: print('  OTHER-FAIL', t)
PY
