//! C33 — schema changes keep catalog, storage and indexes consistent.
//!
//! Direct oracle (real engine only), after every statement of a DDL/DML history over a small
//! pool of table names in several spellings (t, T, "t", u): same table set in the catalog
//! listing and in storage; no index names a missing table; every listed table answers
//! `SELECT *` with the declared number of columns and accepts an INSERT of that width; catalog
//! and stored schema agree on the columns; equality queries (index-driven when an index exists)
//! return what a filter of the scan returns; a dropped table leaves no index; a re-created table
//! is empty and index-free; ALTER keeps the data of retained columns.
//! Correspondence: the three registries after every statement vs the Lean model (`Model/Ddl.lean`).
use std::collections::{BTreeMap, BTreeSet};
use vharness::*;


#[derive(Clone, Debug)]
enum St {
    CreateTable(usize, Vec<&'static str>),
    DropTable(usize),
    CreateIndex(String, usize, Vec<&'static str>),
    DropIndex(String),
    Insert(usize, Vec<i64>),
    Clear(usize),
    AddColumn(usize, &'static str),
    DropColumn(usize, &'static str),
}

/// spellings: (as written in SQL, normalised name, INSERT/DELETE/ALTER parse with this spelling)
const SPELL: [(&str, &str, bool); 4] = [("t", "T", true), ("T", "T", true), ("\"t\"", "t", false), ("u", "U", true)];

impl St {
    fn sql(&self) -> String {
        match self {
            St::CreateTable(s, cols) => format!("CREATE TABLE {} ({})", SPELL[*s].0, cols.iter().map(|c| format!("{} INT", c)).collect::<Vec<_>>().join(", ")),
            St::DropTable(s) => format!("DROP TABLE {}", SPELL[*s].0),
            St::CreateIndex(i, s, cols) => format!("CREATE INDEX {} ON {} ({})", i, SPELL[*s].0, cols.join(", ")),
            St::DropIndex(i) => format!("DROP INDEX {}", i),
            St::Insert(s, vals) => format!("INSERT INTO {} VALUES ({})", SPELL[*s].0, vals.iter().map(|v| v.to_string()).collect::<Vec<_>>().join(", ")),
            St::Clear(s) => format!("DELETE FROM {}", SPELL[*s].0),
            St::AddColumn(s, c) => format!("ALTER TABLE {} ADD COLUMN {} INT", SPELL[*s].0, c),
            St::DropColumn(s, c) => format!("ALTER TABLE {} DROP COLUMN {}", SPELL[*s].0, c),
        }
    }
    fn model(&self) -> String {
        let up = |cols: &Vec<&'static str>| cols.iter().map(|c| c.to_uppercase()).collect::<Vec<_>>().join(" ");
        match self {
            St::CreateTable(s, cols) => format!("(ct {} ({}))", SPELL[*s].1, up(cols)),
            St::DropTable(s) => format!("(dt {})", SPELL[*s].1),
            St::CreateIndex(i, s, cols) => format!("(ci {} {} ({}))", i.to_uppercase(), SPELL[*s].1, up(cols)),
            St::DropIndex(i) => format!("(di {})", i.to_uppercase()),
            St::Insert(s, vals) => format!("(ins {} ({}))", SPELL[*s].1, vals.iter().map(|v| format!("I{}", v)).collect::<Vec<_>>().join(" ")),
            St::Clear(s) => format!("(clr {})", SPELL[*s].1),
            St::AddColumn(s, c) => format!("(ac {} {})", SPELL[*s].1, c.to_uppercase()),
            St::DropColumn(s, c) => format!("(dc {} {})", SPELL[*s].1, c.to_uppercase()),
        }
    }
    fn kind(&self) -> &'static str {
        match self {
            St::CreateTable(..) => "create_table",
            St::DropTable(_) => "drop_table",
            St::CreateIndex(..) => "create_index",
            St::DropIndex(_) => "drop_index",
            St::Insert(..) => "insert",
            St::Clear(_) => "delete_all",
            St::AddColumn(..) => "add_column",
            St::DropColumn(..) => "drop_column",
        }
    }
    fn table(&self) -> Option<&'static str> {
        match self {
            St::CreateTable(s, _) | St::DropTable(s) | St::CreateIndex(_, s, _) | St::Insert(s, _) | St::Clear(s) | St::AddColumn(s, _) | St::DropColumn(s, _) => Some(SPELL[*s].1),
            St::DropIndex(_) => None,
        }
    }
}

#[derive(Clone, Debug, PartialEq, Eq, Default)]
struct Regs {
    catalog: BTreeMap<String, Vec<String>>,
    stored: BTreeMap<String, (Vec<String>, Vec<String>)>,
    reg: BTreeMap<String, (String, Vec<String>)>,
}

fn observe(db: &Db) -> Regs {
    let mut r = Regs::default();
    for t in db.db.list_tables() {
        let cols = db.db.catalog.get_table(&t).map(|s| s.columns.iter().map(|c| c.name.clone()).collect()).unwrap_or_default();
        r.catalog.insert(t, cols);
    }
    for (k, t) in db.db.tables.iter() {
        let name = k.strip_prefix("public.").unwrap_or(k).to_string();
        r.stored.insert(name, (t.schema.columns.iter().map(|c| c.name.clone()).collect(), t.scan().iter().map(|x| canon::row(&x.values)).collect()));
    }
    for i in db.db.list_indexes() {
        if let Some(m) = db.db.get_index(&i) {
            r.reg.insert(i.to_uppercase(), (m.table_name.clone(), m.columns.iter().map(|c| c.column_name.clone()).collect()));
        }
    }
    r
}

fn parse_model(reply: &str) -> Option<Vec<(String, Regs)>> {
    let sx = Sx::parse(reply)?;
    let l = sx.as_list()?;
    if l.first()?.as_atom()? != "trace" {
        return None;
    }
    let names = |x: &Sx| -> Vec<String> { x.as_list().map(|v| v.iter().filter_map(|a| a.as_atom().map(|s| s.to_string())).collect()).unwrap_or_default() };
    let mut out = vec![];
    for st in &l[1..] {
        let p = st.as_list()?;
        let err = p.first()?.as_atom()?.to_string();
        let mut r = Regs::default();
        for part in &p[1..] {
            let pl = part.as_list()?;
            match pl.first()?.as_atom()? {
                "catalog" => {
                    for e in &pl[1..] {
                        let e = e.as_list()?;
                        r.catalog.insert(e[0].as_atom()?.to_string(), names(&e[1]));
                    }
                }
                "stored" => {
                    for e in &pl[1..] {
                        let e = e.as_list()?;
                        r.stored.insert(e[0].as_atom()?.to_string(), (names(&e[1]), e[2].as_list()?.iter().map(|x| x.to_string()).collect()));
                    }
                }
                "reg" => {
                    for e in &pl[1..] {
                        let e = e.as_list()?;
                        r.reg.insert(e[0].as_atom()?.to_string(), (e[1].as_atom()?.to_string(), names(&e[2])));
                    }
                }
                _ => {}
            }
        }
        out.push((err, r));
    }
    Some(out)
}

fn script(stmts: &[St], upto: usize) -> String {
    stmts.iter().take(upto).map(|s| format!("{};\n", s.sql())).collect()
}

/// SQL spelling under which a normalised table name can be queried
fn spelling(name: &str) -> String {
    if name.chars().any(|c| c.is_lowercase()) {
        format!("\"{}\"", name)
    } else {
        name.to_string()
    }
}

fn run_case(stmts: &[St], model: &mut model::Model, rep: &mut Report, label: &str) {
    let mut db = Db::new();
    db.keep_log = false;
    let case_id = script(stmts, stmts.len());
    let mut altered: BTreeSet<String> = BTreeSet::new();
    let mut expected: Vec<(usize, bool, Regs)> = vec![];
    let mut ddl_effects = 0;
    let mut stop = false;
    for (k, st) in stmts.iter().enumerate() {
        let before = observe(&db);
        let out = db.exec(&st.sql());
        rep.count(&format!("stmt_{}", st.kind()));
        if !out.is_ok() {
            rep.count(&format!("stmt_error_{}", out.err_class().unwrap_or("panic")));
        }
        let after = observe(&db);
        let tname = st.table().unwrap_or("");
        let fail = |rep: &mut Report, what: &str, detail: String, table: &str, altered: &BTreeSet<String>| {
            // (ALTER TABLE ADD/DROP COLUMN used to leave the catalog behind — repaired by
            // ecda3d9a; no failure class is excused any more)
            let _ = (table, altered);
            rep.fail(FailKind::Oracle, None, what, &format!("{}-- {}\n", script(stmts, k + 1), detail));
        };
        if out.is_panic() {
            fail(rep, "engine panicked", out.brief(), tname, &altered);
            stop = true;
        }
        if out.is_ok() {
            match st {
                St::AddColumn(..) | St::DropColumn(..) => {
                    altered.insert(tname.to_string());
                }
                St::DropTable(_) => {
                    altered.remove(tname);
                }
                _ => {}
            }
            if !matches!(st, St::Insert(..) | St::Clear(_)) {
                ddl_effects += 1;
            }
        }
        // (O1) same table set in catalog listing and storage
        let cat: BTreeSet<&String> = after.catalog.keys().collect();
        let sto: BTreeSet<&String> = after.stored.keys().collect();
        if cat != sto {
            fail(rep, "catalog listing and stored tables differ", format!("catalog {:?} stored {:?}", cat, sto), "", &altered);
            stop = true;
        }
        // (O2) no index names a missing table
        for (i, (t, _)) in &after.reg {
            if !after.catalog.contains_key(t) {
                fail(rep, "an index names a table that does not exist", format!("index {} on {}", i, t), "", &altered);
                stop = true;
            }
        }
        // (O4) DROP TABLE leaves nothing; re-created table is empty and index-free
        if out.is_ok() {
            if let St::DropTable(_) = st {
                if after.stored.contains_key(tname) || after.reg.values().any(|(t, _)| t == tname) {
                    fail(rep, "DROP TABLE left storage or indexes behind", format!("{:?}", after), "", &altered);
                    stop = true;
                }
            }
            if let St::CreateTable(..) = st {
                let fresh = after.stored.get(tname).map(|(_, rows)| rows.is_empty()).unwrap_or(false) && !after.reg.values().any(|(t, _)| t == tname);
                if !fresh {
                    fail(rep, "a newly created table is not empty and index-free", format!("{:?}", after), "", &altered);
                    stop = true;
                }
            }
            // (O5) ALTER keeps the data of retained columns
            if let (St::AddColumn(..), Some((_, old)), Some((_, new))) = (st, before.stored.get(tname), after.stored.get(tname)) {
                let ok = old.len() == new.len() && old.iter().zip(new.iter()).all(|(o, n)| n.starts_with(o.trim_end_matches(')')));
                if !ok {
                    fail(rep, "ADD COLUMN changed existing data", format!("before {:?} after {:?}", old, new), "", &altered);
                    stop = true;
                }
            }
            if let (St::DropColumn(_, c), Some((ocols, old)), Some((_, new))) = (st, before.stored.get(tname), after.stored.get(tname)) {
                let k = ocols.iter().position(|x| x.eq_ignore_ascii_case(c));
                let strip = |r: &String| -> Vec<String> { r.trim_matches(|ch| ch == '(' || ch == ')').split(' ').map(|s| s.to_string()).collect() };
                let ok = k.is_some()
                    && old.len() == new.len()
                    && old.iter().zip(new.iter()).all(|(o, n)| {
                        let mut ov = strip(o);
                        ov.remove(k.unwrap());
                        ov == strip(n)
                    });
                if !ok {
                    fail(rep, "DROP COLUMN changed the data of retained columns", format!("before {:?} after {:?}", old, new), "", &altered);
                    stop = true;
                }
            }
        }
        // per listed table: (O6) catalog columns = stored columns; (O3) SELECT * has the declared
        // width and equality queries agree with a filter of the scan; (O7) an INSERT of the
        // declared width is accepted (probed on a clone of the database)
        if !stop {
            for (t, ccols) in &after.catalog {
                let Some((scols, rows)) = after.stored.get(t) else { continue };
                if ccols != scols {
                    fail(rep, "catalog and stored table disagree on the declared columns", format!("table {} catalog {:?} stored {:?}", t, ccols, scols), t, &altered);
                    stop = true;
                    break;
                }
                let sp = spelling(t);
                let q = db.exec(&format!("SELECT * FROM {}", sp));
                let okq = match q.rows() {
                    Some(r) => r.len() == rows.len() && r.iter().all(|x| x.len() == ccols.len()),
                    None => false,
                };
                if !okq {
                    fail(rep, "a listed table is not queryable with its declared columns", format!("SELECT * FROM {} => {}", sp, q.brief()), t, &altered);
                    stop = true;
                    break;
                }
                for (ci, c) in ccols.iter().enumerate() {
                    for v in [1, 2, 3] {
                        let q = db.exec(&format!("SELECT * FROM {} WHERE {} = {}", sp, c, v));
                        let want: Vec<&String> = rows.iter().filter(|r| r.trim_matches(|ch| ch == '(' || ch == ')').split(' ').nth(ci) == Some(&format!("I{}", v))).collect();
                        let got = q.rows().map(|r| r.len());
                        if got != Some(want.len()) {
                            fail(rep, "an equality query on a listed table disagrees with the stored rows", format!("SELECT * FROM {} WHERE {} = {} => {} ; stored rows {:?}", sp, c, v, q.brief(), rows), t, &altered);
                            stop = true;
                        }
                    }
                }
                if stop {
                    break;
                }
                if !t.chars().any(|c| c.is_lowercase()) {
                    let mut probe = Db::from(db.db.clone());
                    probe.keep_log = false;
                    let ins = probe.exec(&format!("INSERT INTO {} VALUES ({})", sp, vec!["9"; ccols.len()].join(", ")));
                    if !ins.is_ok() {
                        fail(rep, "a listed table rejects a row of its declared width", format!("table {} columns {:?}: {}", t, ccols, ins.brief()), t, &altered);
                        stop = true;
                        break;
                    }
                }
            }
        }
        expected.push((k, out.is_ok(), after));
        if stop {
            break;
        }
    }
    rep.case(&case_id, ddl_effects >= 3);
    // ---- correspondence ----
    let upto = expected.len();
    let req = format!("trace ({})", stmts[..upto].iter().map(|s| s.model()).collect::<Vec<_>>().join(" "));
    let reply = model.ask(&req);
    let Some(steps) = parse_model(&reply) else {
        rep.fail(FailKind::ModelDiff, None, "model rejected the request", &format!("{}-- {}\n-- {}", case_id, req, reply));
        return;
    };
    for (j, (k, eng_ok, regs)) in expected.iter().enumerate() {
        let Some((err, m)) = steps.get(j) else { break };
        if (err == "ok") != *eng_ok || m != regs {
            rep.fail(
                FailKind::ModelDiff,
                None,
                &format!("model and engine registries differ after {} ({})", stmts[*k].kind(), label),
                &format!("{}-- request: {}\n-- engine ok={} model status={}\n-- engine: {:?}\n-- model:  {:?}", script(stmts, k + 1), req, eng_ok, err, regs, m),
            );
            return;
        }
    }
    rep.traces_validated += 1;
    rep.add("model_steps_compared", expected.len() as u64);
}

fn gen(r: &mut Rng) -> Vec<St> {
    let n = r.range(6, 22);
    let mut v = vec![];
    let mut idx = 0;
    let mut idx_names: Vec<String> = vec![];
    let cols_pool: [&'static str; 4] = ["a", "b", "c", "d"];
    // model of declared widths to make most inserts fit
    let mut width: BTreeMap<&'static str, usize> = BTreeMap::new();
    for _ in 0..n {
        let s = r.below(4) as usize;
        let w = r.below(100);
        let st = if w < 18 {
            let k = r.range(2, 3) as usize;
            width.entry(SPELL[s].1).or_insert(k);
            St::CreateTable(s, cols_pool[..k].to_vec())
        } else if w < 28 {
            width.remove(SPELL[s].1);
            St::DropTable(s)
        } else if w < 42 {
            idx += 1;
            let name = format!("ix{}", idx);
            idx_names.push(name.clone());
            let mut cols = vec![*r.pick(&cols_pool[..3])];
            if r.chance(1, 4) {
                let c2 = *r.pick(&cols_pool[..3]);
                if c2 != cols[0] {
                    cols.push(c2);
                }
            }
            St::CreateIndex(name, s, cols)
        } else if w < 48 {
            if idx_names.is_empty() {
                St::DropIndex("nope".into())
            } else {
                let i = r.below(idx_names.len() as u64) as usize;
                if r.chance(3, 4) { St::DropIndex(idx_names.remove(i)) } else { St::DropIndex(idx_names[i].clone()) }
            }
        } else if w < 78 {
            let s = if SPELL[s].2 { s } else { 0 };
            let k = if r.chance(1, 8) { r.range(1, 4) as usize } else { *width.get(SPELL[s].1).unwrap_or(&2) };
            St::Insert(s, (0..k).map(|_| r.range(1, 3)).collect())
        } else if w < 84 {
            let s = if SPELL[s].2 { s } else { 0 };
            St::Clear(s)
        } else if w < 93 {
            let s = if SPELL[s].2 { s } else { 1 };
            St::AddColumn(s, *r.pick(&["d", "c", "e"]))
        } else {
            let s = if SPELL[s].2 { s } else { 1 };
            St::DropColumn(s, *r.pick(&["b", "c", "d"]))
        };
        v.push(st);
    }
    v
}

fn probes() -> Vec<(&'static str, Vec<St>)> {
    let ab: Vec<&'static str> = vec!["a", "b"];
    let abc: Vec<&'static str> = vec!["a", "b", "c"];
    vec![
        ("drop-recreate", vec![St::CreateTable(0, ab.clone()), St::CreateIndex("qi".into(), 0, vec!["b"]), St::Insert(0, vec![1, 1]), St::DropTable(1), St::CreateTable(1, abc.clone()), St::Insert(0, vec![1, 2, 3]), St::CreateIndex("qi".into(), 0, vec!["c"]), St::DropIndex("qi".into()), St::DropIndex("qi".into())]),
        ("case-variants", vec![St::CreateTable(2, ab.clone()), St::CreateTable(1, ab.clone()), St::CreateTable(0, ab.clone()), St::Insert(0, vec![2, 2]), St::CreateIndex("i1".into(), 2, vec!["b"]), St::CreateIndex("i2".into(), 0, vec!["b"]), St::DropTable(2), St::Insert(1, vec![3, 2]), St::DropTable(0), St::CreateTable(2, abc.clone())]),
        ("index-on-missing", vec![St::CreateIndex("i1".into(), 3, vec!["a"]), St::CreateTable(3, ab.clone()), St::CreateIndex("i1".into(), 3, vec!["z"]), St::CreateIndex("i1".into(), 3, vec!["a"]), St::CreateIndex("i1".into(), 3, vec!["b"]), St::Insert(3, vec![1]), St::Insert(3, vec![1, 2]), St::Clear(3)]),
        // repaired defect ecda3d9a, kept as regression probes
        ("add-column (regression: ecda3d9a)", vec![St::CreateTable(0, ab.clone()), St::Insert(0, vec![1, 1]), St::AddColumn(0, "c")]),
        ("drop-column (regression: ecda3d9a)", vec![St::CreateTable(0, abc.clone()), St::CreateIndex("qc".into(), 0, vec!["c"]), St::Insert(0, vec![1, 2, 3]), St::DropColumn(0, "b")]),
    ]
}

fn main() {
    engine::silence_panics();
    let args = Args::parse("C33");
    let mut rep = Report::new(
        &args,
        "case = history of CREATE/DROP TABLE, CREATE/DROP INDEX, ALTER TABLE ADD/DROP COLUMN, INSERT, DELETE over the names \
         t / T / \"t\" / u (name reuse, case variants); after every statement the three registries are compared with the Lean model \
         and the direct oracle is evaluated; non-trivial = at least three successful DDL statements; distinct by script",
    );
    rep.assumptions.push("INTEGER columns without constraints (constraint DDL is C10/C12); default schema only".into());
    rep.assumptions.push("quoted lower-case table names are exercised through DDL and SELECT only (INSERT/DELETE/ALTER do not parse them)".into());
    let mut model = args.model();
    for (name, c) in probes() {
        run_case(&c, &mut model, &mut rep, name);
        rep.count("probe_cases");
    }
    let mut rng = Rng::new(args.seed);
    let n = args.n(500, 20000);
    for i in 0..n {
        let mut r = rng.fork();
        let c = gen(&mut r);
        if i < 3 {
            rep.sample(serde_json::json!({"script": script(&c, c.len())}));
        }
        run_case(&c, &mut model, &mut rep, "generated");
    }
    std::process::exit(rep.finish());
}
