#!/bin/bash
# Runs the repository's pinned test suite (guard OFF) the way BASELINE.json was produced and
# compares with its stable_pass list.  usage: tools/baseline.sh [repo_dir]   (default /repo)
REPO=${1:-/repo}
OUT=${2:-/tmp/verif-baseline}
mkdir -p "$OUT"
cd "$REPO" || exit 2
export RUSTC_WRAPPER= CARGO_NET_OFFLINE=true
cargo nextest run --workspace --no-fail-fast --tool-config-file pb:/w/lib/nextest.toml --profile pb --test-threads 8 --offline > "$OUT/nextest.log" 2>&1
cp target/nextest/pb/junit.xml "$OUT/junit.xml" 2>/dev/null
cargo test --workspace --doc --offline --no-fail-fast > "$OUT/doc.log" 2>&1
python3 /w/lib/parse_tests.py --kind junit --glob "$OUT/junit.xml" --out "$OUT/junit.json"
python3 /w/lib/parse_tests.py --kind cargo --log "$OUT/doc.log" --out "$OUT/doc.json"
python3 - "$OUT" <<'PY'
import json, sys
out = sys.argv[1]
base = json.load(open('/root/.vp/BASELINE.json'))
stable = set(base['stable_pass'])
passed, failed = set(), set()
for f in ('junit.json', 'doc.json'):
    try:
        d = json.load(open(out + '/' + f))
        passed |= set(d['passed']); failed |= set(d['failed'])
    except Exception as e:
        print('cannot read', f, e)
bad = sorted(t for t in stable if t in failed)
missing = sorted(t for t in stable if t not in passed and t not in failed)
print('stable=%d passed=%d failed=%d' % (len(stable), len(passed), len(failed)))
print('STABLE TESTS NOW FAILING: %d' % len(bad))
for t in bad: print('  FAIL', t)
print('stable tests not seen: %d' % len(missing))
for t in missing[:40]: print('  MISSING', t)
PY
