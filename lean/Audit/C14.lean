import VibeProof.Props.C14
#print axioms VibeProof.C14.C14_savepoint_pushes
#print axioms VibeProof.C14.C14_rollback_to_keeps_it_and_drops_later
#print axioms VibeProof.C14.C14_release_changes_no_data
#print axioms VibeProof.C14.C14_unknown_savepoint_is_error
#print axioms VibeProof.C14.C14_no_transaction_is_error
#print axioms VibeProof.C14.undoAll_restores
#print axioms VibeProof.C14.C14_rollback_to_restores
#print axioms VibeProof.C14.C14_former_counterexamples_restored
