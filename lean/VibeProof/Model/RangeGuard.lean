import VibeProof.Model.Value
/-
C24 — the guard sequence at the top of `IndexData::range_scan` (InMemory backend,
`crates/vibesql-storage/src/database/indexes/range_scan.rs`, after repair f6c9f17a) and the
`(Bound, Bound)` pair it hands to `BTreeMap::range`, whose documented panic conditions are
"range start > end" and "range start == end and both bounds Excluded".

The key type is a parameter: `cmp` is the total order the map uses (`Ord for SqlValue`),
`pgt` / `peq` are the SQL comparisons the guards use (`PartialOrd::gt`, `PartialEq::eq`; `pgt` is
`false` for NULL and mixed types), `incS` is `smart_increment_value`, `incE` is
`try_increment_sqlvalue`.  Nothing is assumed about them.
-/
namespace VibeProof.RangeGuard

inductive Bnd (κ : Type) where
  | incl (k : κ)
  | excl (k : κ)
  | unb
  deriving Repr, DecidableEq

structure KeyOps (κ : Type) where
  cmp : κ → κ → Ordering
  pgt : κ → κ → Bool
  peq : κ → κ → Bool
  incS : κ → Option κ
  incE : κ → Option κ
  /-- `SqlValue::Null`, the least key of the map's order -/
  null : κ

/-- std's documented panic conditions of `BTreeMap::range((lo, hi))` -/
def rangePanics {κ : Type} (cmp : κ → κ → Ordering) : Bnd κ → Bnd κ → Bool
  | .incl s, .incl e => cmp s e == .gt
  | .incl s, .excl e => cmp s e == .gt
  | .excl s, .incl e => cmp s e == .gt
  | .excl s, .excl e => cmp s e == .gt || cmp s e == .eq
  | _, _ => false

/-- what `range_scan` does after its guards -/
inductive Plan (κ : Type) where
  /-- `start == end`, both inclusive: iterate from `Included([k])` to `Unbounded` while the first column equals `k` -/
  | prefixScan (k : κ)
  /-- an early `return Vec::new()` -/
  | empty
  /-- `data.range((lo, hi))` -/
  | range (lo hi : Bnd κ)
  deriving Repr, DecidableEq

/-- `is_invalid_btree_range` -/
def invalidRange {κ : Type} (cmp : κ → κ → Ordering) (lo hi : Bnd κ) : Bool :=
  match lo, hi with
  | .unb, _ => false
  | _, .unb => false
  | .excl s, .excl e => cmp s e == .gt || cmp s e == .eq
  | .incl s, .incl e => cmp s e == .gt
  | .incl s, .excl e => cmp s e == .gt
  | .excl s, .incl e => cmp s e == .gt

/-- bounds of the multi-column branch (exclusive start incremented, inclusive end incremented) -/
def multiBounds {κ : Type} (o : KeyOps κ) (start end_ : Option κ) (incS incE : Bool) : Bnd κ × Bnd κ :=
  let lo := match start with
    | none => Bnd.unb
    | some v => if incS then .incl v else
        match o.incS v with
        | some w => .incl w
        | none => .excl v
  let hi := match end_ with
    | none => Bnd.unb
    | some v => if incE then
        match o.incE v with
        | some w => .excl w
        | none => .unb
      else .excl v
  (lo, hi)

/-- bounds of the standard (single-column) branch; with an open lower bound and an upper bound
    the walk starts after the NULL key (repair 543a6998) -/
def stdBounds {κ : Type} (o : KeyOps κ) (start end_ : Option κ) (incS incE : Bool) : Bnd κ × Bnd κ :=
  let lo := match start with
    | none => if end_.isSome then Bnd.excl o.null else Bnd.unb
    | some v => if incS then .incl v else .excl v
  let hi := match end_ with
    | none => Bnd.unb
    | some v => if incE then .incl v else .excl v
  (lo, hi)

/-- the early returns on `(Some start, Some end)` that precede the branches:
    `none` = fall through -/
def earlyGuards {κ : Type} (o : KeyOps κ) (start end_ : Option κ) (incS incE : Bool) : Option (Plan κ) :=
  match start, end_ with
  | some s, some e =>
    if o.peq s e && incS && incE then some (.prefixScan s)
    else if o.peq s e && (!incS || !incE) then some .empty
    else if o.pgt s e then some .empty
    else none
  | _, _ => none

/-- the plan of `IndexData::range_scan` as coded now; `multi` = the first key of the map has
    more than one column -/
def planOf {κ : Type} (o : KeyOps κ) (multi : Bool) (start end_ : Option κ) (incS incE : Bool) : Plan κ :=
  match earlyGuards o start end_ incS incE with
  | some p => p
  | none =>
    let b := if multi && (start.isSome || end_.isSome) then multiBounds o start end_ incS incE
             else stdBounds o start end_ incS incE
    if invalidRange o.cmp b.1 b.2 then .empty else .range b.1 b.2

/-- the guard sequence before the repair: only "both excluded at the same key" was checked
    before calling `BTreeMap::range` (`start_slice == end_slice` is `PartialEq`) -/
def planOfBefore {κ : Type} (o : KeyOps κ) (multi : Bool) (start end_ : Option κ) (incS incE : Bool) : Plan κ :=
  match earlyGuards o start end_ incS incE with
  | some p => p
  | none =>
    let b := if multi && (start.isSome || end_.isSome) then multiBounds o start end_ incS incE
             else stdBounds o start end_ incS incE
    match b.1, b.2 with
    | .excl s, .excl e => if o.peq s e then .empty else .range b.1 b.2
    | _, _ => .range b.1 b.2

/-! ### executable instance used by the driver: keys as the index stores them

Numbers are normalised to `Double` by the index; the model places them on a "half-step" line
`num (2·x)` so that the ε-increment of the code (`x + |x|·ε`, defined for `x ≠ 0`) is `2·x + 1`,
strictly between `x` and the next integer — exact for integer-valued `|x| < 2^52`. -/

inductive Key where
  | null
  | num (twice : Int)
  | str (s : String)
  deriving Repr, DecidableEq, Inhabited

/-- `Ord for SqlValue`: NULL least, Double (tag 8) before Varchar (tag 10) -/
def Key.cmp : Key → Key → Ordering
  | .null, .null => .eq
  | .null, _ => .lt
  | _, .null => .gt
  | .num a, .num b => compare a b
  | .str a, .str b => compare a b
  | .num _, .str _ => .lt
  | .str _, .num _ => .gt

/-- `PartialOrd::gt`: undefined (false) for NULL and for mixed types -/
def Key.pgt : Key → Key → Bool
  | .num a, .num b => decide (a > b)
  | .str a, .str b => decide (a > b)
  | _, _ => false

/-- `PartialEq::eq`: NULL == NULL, mixed types unequal -/
def Key.peq (a b : Key) : Bool := decide (a = b)

/-- `try_increment_sqlvalue` on normalised keys: Double → +ε (none at 0), Varchar → append NUL -/
def Key.incE : Key → Option Key
  | .num t => if t = 0 then none else some (.num (t + 1))
  | .str s => some (.str (s.push (Char.ofNat 0)))
  | .null => none

/-- `smart_increment_value`: Double → `try_increment`; other types → `calculate_next_value` = none -/
def Key.incS : Key → Option Key
  | .num t => if t = 0 then none else some (.num (t + 1))
  | _ => none

def keyOps : KeyOps Key := ⟨Key.cmp, Key.pgt, Key.peq, Key.incS, Key.incE, .null⟩

/-- `Ord for [SqlValue]`: lexicographic, shorter prefix first -/
def cmpKeys : List Key → List Key → Ordering
  | [], [] => .eq
  | [], _ :: _ => .lt
  | _ :: _, [] => .gt
  | a :: as, b :: bs =>
    match Key.cmp a b with
    | .eq => cmpKeys as bs
    | o => o

def inLo (lo : Bnd Key) (k : List Key) : Bool :=
  match lo with
  | .unb => true
  | .incl s => cmpKeys [s] k != .gt
  | .excl s => cmpKeys [s] k == .lt

def inHi (hi : Bnd Key) (k : List Key) : Bool :=
  match hi with
  | .unb => true
  | .incl e => cmpKeys k [e] != .gt
  | .excl e => cmpKeys k [e] == .lt

/-- result of the scan over the (sorted) entries of the map: row ids in key order, or the panic -/
inductive ScanOut where
  | rows (ids : List Nat)
  | panic
  deriving Repr

def takeWhilePrefix (k : Key) : List (List Key × List Nat) → List Nat
  | [] => []
  | (ks, ids) :: rest =>
    match ks with
    | [] => []
    | k0 :: _ => if Key.peq k0 k then ids ++ takeWhilePrefix k rest else []

/-- the loop of the multi-column branch over the keys inside the bounds: the first column of every
    key is compared with the requested bounds again (NULL keys skipped for an open lower bound, a
    key equal to an exclusive start skipped, stop at the first key beyond the end) -/
def multiWalk (start end_ : Option Key) (incS incE : Bool) : List (List Key × List Nat) → List Nat
  | [] => []
  | (ks, ids) :: rest =>
    match ks with
    | [] => multiWalk start end_ incS incE rest
    | k0 :: _ =>
      if start.isNone && Key.peq k0 .null then multiWalk start end_ incS incE rest
      else if (match start with | some s => !incS && Key.peq k0 s | none => false) then
        multiWalk start end_ incS incE rest
      else
        let stop : Bool := match end_ with
          | some e => Key.cmp k0 e == .gt || (Key.cmp k0 e == .eq && !incE)
          | none => false
        if stop then [] else ids ++ multiWalk start end_ incS incE rest

def scan (entries : List (List Key × List Nat)) (start end_ : Option Key) (incS incE : Bool) : ScanOut :=
  let multi := match entries with
    | (ks, _) :: _ => decide (ks.length > 1)
    | [] => false
  match planOf keyOps multi start end_ incS incE with
  | .empty => .rows []
  | .prefixScan k =>
    .rows (takeWhilePrefix k (entries.filter (fun e => cmpKeys [k] e.1 != .gt)))
  | .range lo hi =>
    if rangePanics Key.cmp lo hi then .panic
    else
      let inRange := entries.filter (fun e => inLo lo e.1 && inHi hi e.1)
      if multi && (start.isSome || end_.isSome) then .rows (multiWalk start end_ incS incE inRange)
      else .rows (inRange.flatMap (·.2))

end VibeProof.RangeGuard
